import GscribModel.Model.Tracer
/-! # Prelude of the tracer translation (`tools/gen_tracer.py` → `Gen/TracerSrc.lean`) — Mathlib-free, hand-written, tiny.

The translated functions are generic over the scalar type `K` and the record `Trig K` of `Model/Tracer.lean`
(`np.cos`, `np.sin`, `np.sqrt`, `np.arctan2`, `np.hypot`, `2 * math.pi`, int → float, `int()` are its fields).
What is left of numpy / Python builtins are the small list primitives below.  **Each of them is an assumption about
numpy / Python** (part of the trusted base; the run of `harness/tie_tracer.py` compares the translated functions built on
them with the real code on every run):

* arrays of shape `(N, 3)` are `List (V3 K)`, arrays of shape `(N,)` are `List K` / `List Bool`; numpy arithmetic on
  arrays is element-wise, so a nested `def f(thetas: np.ndarray)` is translated at one `θ` and `f(array)` is `List.map f`;
* `npDiff` = `np.diff(a, axis=0)`; `npNormRows` = `np.linalg.norm(a, axis=1)` evaluated as `sqrt((x² + y²) + z²)`;
  `npSum` = `.sum()` as a left-to-right sum (numpy sums pairwise beyond 8 elements: a rounding difference only);
  `npLinspace01` = `np.linspace(0, 1, num)` for `num ≥ 2` (`arange * step`, last entry forced to `1`);
  `npSize` = `a.size` of an `(N, 3)` array; `npRow` = `a[i]` (the default row is unreachable: see `TracerTie_filter_segments`,
  which holds for the empty array too); `npMask` = `a[mask]`; `pyEnumerate` = `enumerate`;
* `npIsClose rtol a b` = `np.isclose(a, b, rtol=rtol)` with numpy's default `atol = 1e-8`, for finite arguments;
* `pyAbs` = `abs` on a float (`-0.0` and NaN aside); `ofInt` = int → float conversion of a non-negative int (the
  only one in the source, `turns - 1`, sits behind `if turns <= 0: raise`);
* `pyEq a b` = `a == b` on two floats, written with the order alone: *neither is less than the other* (so that the
  translation runs at `Float`, which has no decidable `=`; exact for all non-NaN doubles, `-0.0 == 0.0` included; a NaN
  operand gives `true` here and `False` in Python).  `pyEqV3` = `==` of two `Point`s of numbers (tuple equality:
  component-wise).  The tie theorems that compare with a model written with `=` carry the law `pyEq a b ↔ a = b`
  (`EqLaw`) as an explicit hypothesis;
* `pyLast` = `xs[-1]` of a non-empty list (the default is unreachable: the only use is `controls[-1]` of a list that
  starts as `[origin]` and only grows).

Not here but *parameters* of the translated functions that use them (no assumption beyond "a function of its arguments"):
`np_copysign` (`np.copysign`), `CubicSpline` (`scipy.interpolate.CubicSpline(x, y)` as the function `θ ↦ s(θ)`; calling it
on an array is element-wise), `moveEffect` (what `self._g.move(p, **kwargs)` leaves in `self._g.position`, given the
position before and `p`; `move` is assumed to change nothing else that the tracer reads: distance mode, direction,
resolution). -/
namespace GscribModel.TracerPrelude
open GscribModel.Tracer

section generic
variable {K : Type} [Add K] [Sub K] [Mul K] [Div K] [Neg K] [LE K] [LT K] [DecidableLE K] [DecidableLT K]
  [OfNat K 0] [OfNat K 1] [OfNat K 2] [OfNat K 10]

/-- `np.diff(points, axis=0)` -/
def npDiff : List (V3 K) → List (V3 K)
  | p :: q :: rest => V3.sub q p :: npDiff (q :: rest)
  | _ => []

/-- `np.linalg.norm(rows, axis=1)` -/
def npNormRows (sqrt : K → K) (rows : List (V3 K)) : List K :=
  rows.map fun d => sqrt ((d.x * d.x + d.y * d.y) + d.z * d.z)

/-- `a.sum()` -/
def npSum (xs : List K) : K := xs.foldl (· + ·) 0

/-- `np.linspace(0, 1, num)` (`num ≥ 2`) -/
def npLinspace01 (T : Trig K) (num : Nat) : List K :=
  (List.range num).map fun i => if i = num - 1 then (1 : K) else T.ofNat i * ((1 : K) / T.ofNat (num - 1))

/-- `points.size` for an `(N, 3)` array -/
def npSize (pts : List (V3 K)) : Nat := 3 * pts.length

/-- `points[i]` -/
def npRow (pts : List (V3 K)) (i : Nat) : V3 K := pts.getD i ⟨0, 0, 0⟩

/-- `a[mask]` (boolean index) -/
def npMask {α : Type} : List α → List Bool → List α
  | p :: ps, b :: bs => if b then p :: npMask ps bs else npMask ps bs
  | _, _ => []

/-- `enumerate(xs)` (`pyEnumFrom k` = `enumerate(xs, k)`) -/
def pyEnumFrom {α : Type} : Nat → List α → List (Nat × α)
  | _, [] => []
  | k, x :: xs => (k, x) :: pyEnumFrom (k + 1) xs

def pyEnumerate {α : Type} (xs : List α) : List (Nat × α) := pyEnumFrom 0 xs

/-- `np.isclose(a, b, rtol=rtol)` (default `atol=1e-8`) -/
def npIsClose [OfScientific K] (rtol a b : K) : Bool := isClose rtol (1e-8 : K) a b

/-- `abs(x)` -/
def pyAbs (a : K) : K := absK a

/-- `a == b` on floats: neither is less than the other -/
def pyEq (a b : K) : Bool := !decide (a < b) && !decide (b < a)

/-- `p == q` on two `Point`s whose coordinates are numbers -/
def pyEqV3 (p q : V3 K) : Bool := pyEq p.x q.x && pyEq p.y q.y && pyEq p.z q.z

/-- `xs[-1]` -/
def pyLast (xs : List (V3 K)) : V3 K := xs.getLast?.getD ⟨0, 0, 0⟩

/-- int → float of a non-negative `int` -/
def ofInt (T : Trig K) (i : Int) : K := T.ofNat i.toNat

end generic
end GscribModel.TracerPrelude

/-! # Model of `gscrib/geometry/tracer.py` (+ `Direction.enforce/full_turn`, the resolution handling of
    `set_length_units`) — Mathlib-free.

Every formula is written ONCE, generically over a scalar type `K` and a record `Trig K` of the numeric
primitives the Python code takes from `math`/`numpy`.  The same definitions are

* proved about at `K = ℝ` (`Lemmas/Tracer.lean`, `Props/C10.lean`: `Real.cos/sin`, `Complex.arg`),
* proved about at `K = ℚ` where no trigonometry is involved (the segment filter, the emission as moves,
  the unit switch; `Props/C10.lean`, `Props/C12.lean`),
* executed at `K = Float` by the driver (`Drv/Tracer.lean`) for the correspondence with the real code.

Transcription notes (Python → here): `Point` arithmetic is component-wise; `PointLike` arguments may have
`None` components (`PL`); `to_absolute` adds offsets in relative mode and `replace`s in absolute mode;
`center` arguments are always relative to the current position. -/
namespace GscribModel.Tracer

/-- numeric primitives used by the tracer (`np.cos`, `np.sin`, `np.sqrt`, `np.arctan2(y, x)`, `np.hypot`,
    `2 * math.pi`, int → float conversion, and Python's `int()` on a non-negative float) -/
structure Trig (K : Type) where
  cos : K → K
  sin : K → K
  sqrt : K → K
  atan2 : K → K → K
  hypot : K → K → K
  twoPi : K
  ofNat : Nat → K
  truncNat : K → Nat

/-- a resolved `Point` -/
structure V3 (K : Type) where
  x : K
  y : K
  z : K
  deriving Repr, DecidableEq

/-- a `PointLike` argument: components may be `None` (a 2-tuple has `z = none`) -/
structure PL (K : Type) where
  x : Option K
  y : Option K
  z : Option K
  deriving Repr

section generic
variable {K : Type} [Add K] [Sub K] [Mul K] [Div K] [Neg K] [LE K] [LT K] [DecidableLE K] [DecidableLT K]
  [OfNat K 0] [OfNat K 1] [OfNat K 2] [OfNat K 10]

namespace V3
def add (a b : V3 K) : V3 K := ⟨a.x + b.x, a.y + b.y, a.z + b.z⟩
def sub (a b : V3 K) : V3 K := ⟨a.x - b.x, a.y - b.y, a.z - b.z⟩
end V3

/-- `Point(*p).resolve()` -/
def PL.resolve (p : PL K) : V3 K := ⟨p.x.getD 0, p.y.getD 0, p.z.getD 0⟩
/-- `origin.replace(*p)` -/
def PL.replaceIn (o : V3 K) (p : PL K) : V3 K := ⟨p.x.getD o.x, p.y.getD o.y, p.z.getD o.z⟩
def V3.toPL (p : V3 K) : PL K := ⟨some p.x, some p.y, some p.z⟩

/-- `GCodeCore.to_absolute` -/
def toAbsolute (rel : Bool) (o : V3 K) (p : PL K) : V3 K :=
  if rel then V3.add o p.resolve else p.replaceIn o

/-- `GCodeCore.to_absolute_list` -/
def toAbsoluteList (rel : Bool) : V3 K → List (PL K) → List (V3 K)
  | _, [] => []
  | cur, p :: ps =>
    let nxt := if rel then V3.add cur p.resolve else p.replaceIn cur
    nxt :: toAbsoluteList rel nxt ps

/-- `GCodeCore.to_distance_mode` -/
def toDistanceMode (rel : Bool) (o p : V3 K) : V3 K := if rel then V3.sub p o else p

/-- the words of the `move` calls for a list of absolute vertices (identity transform): the builder
    position follows the vertex just emitted -/
def emitMoves (rel : Bool) : V3 K → List (V3 K) → List (V3 K)
  | _, [] => []
  | cur, p :: ps => toDistanceMode rel cur p :: emitMoves rel p ps

/-- what a machine does with those words (`G90`: go there, `G91`: add) — positions after each block -/
def machine (rel : Bool) : V3 K → List (V3 K) → List (V3 K)
  | _, [] => []
  | pos, w :: ws =>
    let nxt := if rel then V3.add pos w else w
    nxt :: machine rel nxt ws

/-! ### `Direction` -/

/-- `Direction.enforce` (`cw = (self is CLOCKWISE)`) -/
def enforce (T : Trig K) (cw : Bool) (a : K) : K :=
  if cw then (if (0 : K) ≤ a then a - T.twoPi else a)
  else (if a ≤ (0 : K) then a + T.twoPi else a)

/-- `Direction.full_turn` -/
def fullTurn (T : Trig K) (cw : Bool) : K := if cw then -T.twoPi else T.twoPi

def absK (a : K) : K := if a < (0 : K) then -a else a

/-! ### `arc` -/

/-- the closure variables of `arc_function` -/
structure Arc (K : Type) where
  cx : K
  cy : K
  r : K
  a0 : K
  tot : K
  oz : K
  h : K

/-- body of `arc` after the conversion to absolute coordinates (`o` start, `t` target, `c` centre) -/
def arcOf (T : Trig K) (cw : Bool) (o t c : V3 K) : Arc K :=
  let dox := o.x - c.x; let doy := o.y - c.y
  let dtx := t.x - c.x; let dty := t.y - c.y
  let a1 := T.atan2 dty dtx
  let a0 := T.atan2 doy dox
  ⟨c.x, c.y, T.hypot dox doy, a0, enforce T cw (a1 - a0), o.z, t.z - o.z⟩

/-- `target_radius` of `arc` -/
def arcTargetRadius (T : Trig K) (t c : V3 K) : K := T.hypot (t.x - c.x) (t.y - c.y)

/-- `np.isclose(radius, target_radius, rtol)` with numpy's default `atol` -/
def isClose (rtol atol a b : K) : Bool := decide (absK (a - b) ≤ atol + rtol * absK b)

/-- `arc_function` at one `θ` -/
def arcPoint (T : Trig K) (A : Arc K) (θ : K) : V3 K :=
  let ang := A.a0 + A.tot * θ
  ⟨A.cx + A.r * T.cos ang, A.cy + A.r * T.sin ang, A.oz + θ * A.h⟩

/-- `total_length` of `arc` -/
def arcLength (T : Trig K) (A : Arc K) : K := T.hypot (A.r * A.tot) A.h

/-- `arc(target, center)`: absolute conversion, then `arcOf`; also returns `(t, c)` -/
def traceArc (T : Trig K) (cw rel : Bool) (o : V3 K) (target center : PL K) : Arc K × V3 K × V3 K :=
  let t := toAbsolute rel o target
  let c := V3.add o center.resolve
  (arcOf T cw o t c, t, c)

/-- `circle(center)`: `target = to_distance_mode(position)`, then `arc` -/
def traceCircle (T : Trig K) (cw rel : Bool) (o : V3 K) (center : PL K) : Arc K × V3 K × V3 K :=
  traceArc T cw rel o (toDistanceMode rel o o).toPL center

/-! ### `arc_radius` -/

/-- the two centre branches; `sameSide = (is_clockwise == (radius > 0))`, `hgt = sqrt(|r|² − (d/2)²)`,
    `dist = hypot(t − o)` -/
def radiusCentre (o t : V3 K) (hgt dist : K) (sameSide : Bool) : K × K :=
  let ax := t.x + o.x; let ay := t.y + o.y
  let dx := t.x - o.x; let dy := t.y - o.y
  if sameSide then (ax / 2 + hgt * dy / dist, ay / 2 - hgt * dx / dist)
  else (ax / 2 - hgt * dy / dist, ay / 2 + hgt * dx / dist)

/-- radius after the validation/snap of `arc_radius` (`none` = `ValueError`); `snap = 0.01`,
    `copysign` is passed in because it has no generic counterpart -/
def radiusResolve (T : Trig K) (snap : K) (copysign : K → K → K) (o t : V3 K) (radius : K) : Option K :=
  let dist := T.hypot (t.x - o.x) (t.y - o.y)
  -- `radius == 0 or abs(radius) < distance / 2`
  if (!decide (radius < 0) && !decide (0 < radius)) || decide (absK radius < dist / 2) then
    if absK (absK radius - dist / 2) ≤ snap then some (copysign (dist / 2) radius) else none
  else some radius

/-- centre of `arc_radius` for an accepted radius, as the relative `center` handed to `arc` -/
def radiusCentreRel (T : Trig K) (cw : Bool) (o t : V3 K) (radius : K) : PL K :=
  let dist := T.hypot (t.x - o.x) (t.y - o.y)
  let hgt := T.sqrt (absK radius * absK radius - (dist / 2) * (dist / 2))
  let c := radiusCentre o t hgt dist (cw == decide ((0 : K) < radius))
  ⟨some (c.1 - o.x), some (c.2 - o.y), none⟩

/-! ### `helix`, `thread`, `spiral` -/

structure Helix (K : Type) where
  cx : K
  cy : K
  r0 : K
  dr : K
  a0 : K
  tot : K
  oz : K
  h : K

def helixOf (T : Trig K) (cw : Bool) (o t c : V3 K) (turns : Nat) : Helix K :=
  let dox := o.x - c.x; let doy := o.y - c.y
  let dtx := t.x - c.x; let dty := t.y - c.y
  let r0 := T.hypot dox doy
  let r1 := T.hypot dtx dty
  let a1 := T.atan2 dty dtx
  let a0 := T.atan2 doy dox
  let base := enforce T cw (a1 - a0)
  ⟨c.x, c.y, r0, r1 - r0, a0, base + fullTurn T cw * T.ofNat (turns - 1), o.z, t.z - o.z⟩

/-- `helix_function` at one `θ` -/
def helixPoint (T : Trig K) (H : Helix K) (θ : K) : V3 K :=
  let ang := H.a0 + H.tot * θ
  let rad := H.r0 + H.dr * θ
  ⟨H.cx + rad * T.cos ang, H.cy + rad * T.sin ang, H.oz + θ * H.h⟩

def traceHelix (T : Trig K) (cw rel : Bool) (o : V3 K) (target center : PL K) (turns : Nat) :
    Helix K × V3 K × V3 K :=
  let t := toAbsolute rel o target
  let c := V3.add o center.resolve
  (helixOf T cw o t c turns, t, c)

/-- `thread`: the (repaired) centre, relative to the current position -/
def threadCentre (o t : V3 K) : PL K := ⟨some ((t.x - o.x) / 2), some ((t.y - o.y) / 2), none⟩

/-- `thread`: `max(1, int(abs(t.z - o.z) / pitch))` -/
def threadTurns (T : Trig K) (o t : V3 K) (pitch : K) : Nat :=
  max 1 (T.truncNat (absK (t.z - o.z) / pitch))

def traceThread (T : Trig K) (cw rel : Bool) (o : V3 K) (target : PL K) (pitch : K) :
    Helix K × V3 K × V3 K :=
  let t := toAbsolute rel o target
  traceHelix T cw rel o target (threadCentre o t) (threadTurns T o t pitch)

/-- `spiral` = `helix` about the current position -/
def traceSpiral (T : Trig K) (cw rel : Bool) (o : V3 K) (target : PL K) (turns : Nat) :
    Helix K × V3 K × V3 K :=
  traceHelix T cw rel o target ⟨some 0, some 0, none⟩ turns

/-! ### sampling: `np.linspace`, `parametric`, `estimate_length` -/

/-- `np.linspace(0, 1, n + 1)[i]`: `arange * step`, the last entry forced to `stop` -/
def theta (T : Trig K) (n i : Nat) : K :=
  if i = n then 1 else T.ofNat i * ((1 : K) / T.ofNat n)

/-- `np.linspace(0, 1, n + 1)[1:]` -/
def thetas (T : Trig K) (n : Nat) : List K := (List.range n).map fun i => theta T n (i + 1)

/-- `max(2, int(10 * length / resolution))` -/
def numSegments (T : Trig K) (length res : K) : Nat :=
  max 2 (T.truncNat ((10 : K) * length / res))

/-- `np.linalg.norm(q - p)` for one row: `sqrt((dx² + dy²) + dz²)` -/
def dist3 (sqrt : K → K) (p q : V3 K) : K :=
  let dx := q.x - p.x; let dy := q.y - p.y; let dz := q.z - p.z
  sqrt ((dx * dx + dy * dy) + dz * dz)

/-- `np.linalg.norm(np.diff(points, axis=0), axis=1)` -/
def distances (sqrt : K → K) : List (V3 K) → List K
  | p :: q :: rest => dist3 sqrt p q :: distances sqrt (q :: rest)
  | _ => []

/-- `estimate_length(samples, f)` (sequential sum) -/
def estimateLength (T : Trig K) (samples : Nat) (f : K → V3 K) : K :=
  let pts := (List.range samples).map fun i => f (theta T (samples - 1) i)
  (distances T.sqrt pts).foldl (· + ·) 0

/-! ### `_filter_segments` -/

/-- the loop of `_filter_segments` on the list of sample distances; `mask[i] = true` ⇔ sample `i+1` is kept
    (`distances[:-1]`: the last distance is never visited, so the final sample is always kept) -/
def filterGo (res tol : K) : K → List K → List Bool
  | _, [] => []
  | _, [_] => [true]
  | rem, d :: d' :: ds =>
    let r := rem - d
    if r < tol then true :: filterGo res tol res (d' :: ds)
    else false :: filterGo res tol r (d' :: ds)

/-- `tolerance = resolution / 10`, `remaining = resolution` -/
def filterMask (res : K) (ds : List K) : List Bool := filterGo res (res / 10) res ds

/-- `points[1:][keep_mask]` -/
def applyMask {α : Type} : List α → List Bool → List α
  | p :: ps, b :: bs => if b then p :: applyMask ps bs else applyMask ps bs
  | _, _ => []

/-- `np.vstack([points[0], points[1:][keep_mask]])` -/
def keepPoints {α : Type} (pts : List α) (mask : List Bool) : List α :=
  match pts with
  | [] => []
  | p :: ps => p :: applyMask ps mask

/-- `_filter_segments(points)` -/
def filterSegments (sqrt : K → K) (res : K) (pts : List (V3 K)) : List (V3 K) :=
  keepPoints pts (filterMask res (distances sqrt pts))

/-- smallest `|remaining − tolerance|` over the decisions taken (reported to the harness so that a
    decision that hangs on the last bit can be skipped) -/
def filterMargin (res tol : K) : K → List K → K → K
  | rem, d :: d' :: ds, m =>
    let r := rem - d
    let m' := if absK (r - tol) < m then absK (r - tol) else m
    if r < tol then filterMargin res tol res (d' :: ds) m'
    else filterMargin res tol r (d' :: ds) m'
  | _, _, m => m

/-- accumulated (length, last sample step) of every emitted segment between kept samples -/
def segs : K → List K → List Bool → List (K × K)
  | acc, d :: ds, b :: bs => if b then (acc + d, d) :: segs 0 ds bs else segs (acc + d) ds bs
  | _, _, _ => []

/-- for every sample after the first: path length travelled since the most recent kept vertex
    (0 for a kept sample) -/
def lagList : K → List K → List Bool → List K
  | acc, d :: ds, b :: bs => if b then 0 :: lagList 0 ds bs else (acc + d) :: lagList (acc + d) ds bs
  | _, _, _ => []

/-- number of vertices the filter keeps after the first sample (= emitted moves − 1) -/
def countKept (mask : List Bool) : Nat := (mask.filter id).length

/-- `parametric(function, length)` once the samples are known: the words of the emitted moves -/
def emitParametric (sqrt : K → K) (rel : Bool) (res : K) (o : V3 K) (samples : List (V3 K)) : List (V3 K) :=
  emitMoves rel o (filterSegments sqrt res samples)

/-- `polyline(targets)` -/
def emitPolyline (rel : Bool) (o : V3 K) (targets : List (PL K)) : List (V3 K) :=
  emitMoves rel o (toAbsoluteList rel o targets)

/-! ### `spline`: control points (the spline itself is scipy's `CubicSpline`, trusted) -/

/-- `controls`: origin, then the absolute targets without consecutive duplicates -/
def splineControls [DecidableEq K] (rel : Bool) (o : V3 K) (targets : List (PL K)) : List (V3 K) :=
  let rec go (last : V3 K) : List (V3 K) → List (V3 K)
    | [] => []
    | p :: ps => if p = last then go last ps else p :: go p ps
  o :: go o (toAbsoluteList rel o targets)

/-! ### `set_length_units`: the resolution conversion -/

/-- `length_units.scale(length_units.to_pixels(resolution))` — both with the NEW unit's factor `sf` -/
def convertResolution (sf res : K) : K := (res / sf) * sf

end generic

/-! ### the `Float` instance (executed by the driver) -/

/-- `2 * math.pi` as a double (bits `0x401921FB54442D18`) -/
def floatTwoPi : Float := Float.ofBits 0x401921FB54442D18

def floatTrig : Trig Float :=
  { cos := Float.cos, sin := Float.sin, sqrt := Float.sqrt, atan2 := Float.atan2,
    hypot := fun x y => Float.sqrt (x * x + y * y), twoPi := floatTwoPi,
    ofNat := Float.ofNat, truncNat := fun x => x.toUInt64.toNat }

end GscribModel.Tracer

/-! ### tail-recursive forms used by the driver (lists of 10⁵ samples), proved equal to the definitions -/
namespace GscribModel.Tracer
section tr
set_option linter.unusedSectionVars false
variable {K : Type} [Add K] [Sub K] [Mul K] [LT K] [DecidableLT K]

def distancesTR (sqrt : K → K) : List (V3 K) → Array K → Array K
  | p :: q :: rest, acc => distancesTR sqrt (q :: rest) (acc.push (dist3 sqrt p q))
  | _, acc => acc

theorem distancesTR_eq (sqrt : K → K) : ∀ (ps : List (V3 K)) (acc : Array K),
    (distancesTR sqrt ps acc).toList = acc.toList ++ distances sqrt ps
  | [], acc => by simp [distancesTR, distances]
  | [_], acc => by simp [distancesTR, distances]
  | p :: q :: rest, acc => by
    simp [distancesTR, distances, distancesTR_eq sqrt (q :: rest)]

def filterGoTR (res tol : K) : K → List K → Array Bool → Array Bool
  | _, [], acc => acc
  | _, [_], acc => acc.push true
  | rem, d :: d' :: ds, acc =>
    if rem - d < tol then filterGoTR res tol res (d' :: ds) (acc.push true)
    else filterGoTR res tol (rem - d) (d' :: ds) (acc.push false)

theorem filterGoTR_eq (res tol : K) : ∀ (ds : List K) (rem : K) (acc : Array Bool),
    (filterGoTR res tol rem ds acc).toList = acc.toList ++ filterGo res tol rem ds
  | [], rem, acc => by simp [filterGoTR, filterGo]
  | [_], rem, acc => by simp [filterGoTR, filterGo]
  | d :: d' :: ds, rem, acc => by
    simp only [filterGoTR, filterGo]
    split
    · simp [filterGoTR_eq res tol (d' :: ds)]
    · simp [filterGoTR_eq res tol (d' :: ds)]

def applyMaskTR {α : Type} : List α → List Bool → Array α → Array α
  | p :: ps, b :: bs, acc => applyMaskTR ps bs (if b then acc.push p else acc)
  | _, _, acc => acc

theorem applyMaskTR_eq {α : Type} : ∀ (ps : List α) (bs : List Bool) (acc : Array α),
    (applyMaskTR ps bs acc).toList = acc.toList ++ applyMask ps bs
  | [], _, acc => by simp [applyMaskTR, applyMask]
  | _ :: _, [], acc => by simp [applyMaskTR, applyMask]
  | p :: ps, b :: bs, acc => by
    cases b <;> simp [applyMaskTR, applyMask, applyMaskTR_eq ps bs]

def emitMovesTR (rel : Bool) : V3 K → List (V3 K) → Array (V3 K) → Array (V3 K)
  | _, [], acc => acc
  | cur, p :: ps, acc => emitMovesTR rel p ps (acc.push (toDistanceMode rel cur p))

theorem emitMovesTR_eq (rel : Bool) : ∀ (ps : List (V3 K)) (cur : V3 K) (acc : Array (V3 K)),
    (emitMovesTR rel cur ps acc).toList = acc.toList ++ emitMoves rel cur ps
  | [], _, acc => by simp [emitMovesTR, emitMoves]
  | p :: ps, cur, acc => by simp [emitMovesTR, emitMoves, emitMovesTR_eq rel ps]

end tr
end GscribModel.Tracer

/-! Model of `gscrib.heightmaps` (`raster_heightmap.py`, `sparse_heightmap.py`, `flat_heightmap.py`).

    Transcription conventions (Mathlib-free, executable; numbers are core `Rat`):
    * `RasterHeightMap._height_map` is a `Grid` (rows of normalised pixel values), `get_height()` =
      number of rows, `get_width()` = length of a row; the FITPACK spline `self._interpolator` is the
      PARAMETER `interp : row → col → value` (called as `interp y x`, exactly as the code calls
      `self._interpolator(y, x)`); its defining property `Interpolates` (it reproduces the grid) is a
      hypothesis of the theorems, never assumed here.
    * `SparseHeightMap._interpolator` (`LinearNDInterpolator`, fill value 0) is the PARAMETER
      `locate : x → y → Option Tri` (Qhull triangulation + scipy point location; `none` = outside);
      the model evaluates the barycentric (linear) interpolant on the simplex that was located.
    * `numpy.hypot` is the PARAMETER `dist` of `numSegments`.
    * a path sample is a `Sample` `(x, y, z)`; `numpy.array_equal` on two samples is equality of the
      three numbers.
    * `skimage.draw.line` (Bresenham, called by `RasterHeightMap._interpolate_line`) is transcribed
      as `bresenham` from skimage's `_line`, its `while d >= 0` written in closed form. -/
namespace GscribModel.Heightmap

/-! ### common -/

/-- one row `(x, y, z)` of the arrays returned by `_interpolate_line` / `sample_path` -/
structure Sample where
  x : Rat
  y : Rat
  z : Rat
deriving DecidableEq, Repr

/-- Python `abs` -/
def absR (q : Rat) : Rat := if q < 0 then -q else q

/-- the loop of `_filter_points`:
    `for point in points: if abs(point[2] - last_z) >= tolerance: lines.append(point); last_z = point[2]` -/
def keepLoop (tol : Rat) : Rat → List Sample → List Sample
  | _, [] => []
  | lastZ, p :: ps =>
      if tol ≤ absR (p.z - lastZ) then p :: keepLoop tol p.z ps else keepLoop tol lastZ ps

/-- `_filter_points(points, tolerance)` (identical in `RasterHeightMap` and `SparseHeightMap`):
    ```
    first_point = points[0]; last_point = points[-1]
    lines = [first_point]; last_z = first_point[2]
    for point in points: ...                       # starts again at the first point
    if not numpy.array_equal(lines[-1], last_point): lines.append(last_point)
    ```
    (`points` is never empty: both `_interpolate_line` return at least one sample). -/
def filterPoints (tol : Rat) : List Sample → List Sample
  | [] => []
  | first :: rest =>
      let lines := first :: keepLoop tol first.z (first :: rest)
      let lastPoint := (first :: rest).getLastD first
      if lines.getLastD first = lastPoint then lines else lines ++ [lastPoint]

/-- the argument check shared by the three `sample_path`s:
    `if line_array.shape != (4,): raise ValueError("Line must contain exactly 4 elements")` -/
def lineShapeOk (line : List Rat) : Bool := line.length = 4

/-! ### FlatHeightMap -/

/-- `FlatHeightMap.get_depth_at` -/
def flatDepth (_x _y : Rat) : Rat := 0

/-- `FlatHeightMap.sample_path([x1, y1, x2, y2])` -/
def flatPath (x1 y1 x2 y2 : Rat) : List Sample := [⟨x1, y1, 0⟩, ⟨x2, y2, 0⟩]

/-! ### RasterHeightMap -/

abbrev Grid := List (List Rat)

/-- `self._height_map.shape[0]` -/
def Grid.height (g : Grid) : Nat := g.length
/-- `self._height_map.shape[1]` -/
def Grid.width (g : Grid) : Nat := (g.headD []).length
/-- `self._height_map[row, col]` -/
def Grid.cell (g : Grid) (row col : Nat) : Rat := (g.getD row []).getD col 0

/-- `RasterHeightMap.get_depth_at(x, y)`:
    ```
    if x < 0 or x >= self.get_width():  return 0.0
    if y < 0 or y >= self.get_height(): return 0.0
    return self._scale_z * self._interpolator(y, x)[0, 0]
    ``` -/
def getDepthRaster (sc : Rat) (interp : Rat → Rat → Rat) (g : Grid) (x y : Rat) : Rat :=
  if x < 0 ∨ x ≥ (g.width : Rat) then 0
  else if y < 0 ∨ y ≥ (g.height : Rat) then 0
  else sc * interp y x

/-- Python `round(v)` of a float: nearest integer, ties to even -/
def roundHalfEven (q : Rat) : Int :=
  let f := q.floor
  let r := q - (f : Rat)
  if r < 1 / 2 then f
  else if 1 / 2 < r then f + 1
  else if f % 2 = 0 then f else f + 1

/-- the `for i in range(dc)` loop of skimage's `_line` (`n` = iterations left).  The inner
    `while d >= 0: r += sr; d -= 2 * dc` runs `k = d / (2 dc) + 1` times when `d ≥ 0` (`dc ≥ 1`
    inside the loop), else not at all. -/
def lineLoop (steep : Bool) (sr sc dr dc : Int) : Nat → Int → Int → Int → List (Int × Int)
  | 0, _, _, _ => []
  | n + 1, r, c, d =>
      let pt := if steep then (c, r) else (r, c)
      let k : Int := if 0 ≤ d then d / (2 * dc) + 1 else 0
      pt :: lineLoop steep sr sc dr dc n (r + k * sr) (c + sc) (d - k * (2 * dc) + 2 * dr)

/-- `skimage.draw.line(r0, c0, r1, c1)` as the zipped list of `(rr[i], cc[i])` -/
def bresenham (r0 c0 r1 c1 : Int) : List (Int × Int) :=
  let dr : Int := (r1 - r0).natAbs
  let dc : Int := (c1 - c0).natAbs
  let sc : Int := if c1 - c0 > 0 then 1 else -1
  let sr : Int := if r1 - r0 > 0 then 1 else -1
  if dr > dc then
    -- steep: c, r = r, c;  dc, dr = dr, dc;  sc, sr = sr, sc
    lineLoop true sc sr dc dr dr.toNat c0 r0 (2 * dc - dr) ++ [(r1, c1)]
  else
    lineLoop false sr sc dr dc dc.toNat r0 c0 (2 * dr - dc) ++ [(r1, c1)]

/-- `RasterHeightMap._interpolate_line(line)`:
    `rows, cols = draw.line(*[round(i) for i in line])`, then
    `(x, y, self.get_depth_at(x, y)) for x, y in zip(rows, cols)` -/
def interpolateLineRaster (depth : Rat → Rat → Rat) (x1 y1 x2 y2 : Rat) : List Sample :=
  (bresenham (roundHalfEven x1) (roundHalfEven y1) (roundHalfEven x2) (roundHalfEven y2)).map
    fun p => ⟨p.1, p.2, depth p.1 p.2⟩

/-- `RasterHeightMap.sample_path(line)` -/
def samplePathRaster (sc : Rat) (interp : Rat → Rat → Rat) (g : Grid) (tol : Rat)
    (x1 y1 x2 y2 : Rat) : List Sample :=
  filterPoints tol (interpolateLineRaster (getDepthRaster sc interp g) x1 y1 x2 y2)

/-! ### SparseHeightMap -/

/-- a stored sample: position and stored height -/
structure Vtx where
  x : Rat
  y : Rat
  h : Rat
deriving DecidableEq, Repr

/-- a simplex of the Delaunay triangulation -/
structure Tri where
  a : Vtx
  b : Vtx
  c : Vtx
deriving DecidableEq, Repr

/-- twice the signed area -/
def Tri.det (t : Tri) : Rat :=
  (t.b.x - t.a.x) * (t.c.y - t.a.y) - (t.c.x - t.a.x) * (t.b.y - t.a.y)

/-- barycentric coordinates of `(px, py)` with respect to `a`, `b`, `c` -/
def Tri.bary (t : Tri) (px py : Rat) : Rat × Rat × Rat :=
  let wb := ((px - t.a.x) * (t.c.y - t.a.y) - (t.c.x - t.a.x) * (py - t.a.y)) / t.det
  let wc := ((t.b.x - t.a.x) * (py - t.a.y) - (px - t.a.x) * (t.b.y - t.a.y)) / t.det
  (1 - wb - wc, wb, wc)

/-- the linear interpolant of the three stored heights -/
def Tri.interp (t : Tri) (px py : Rat) : Rat :=
  let w := t.bary px py
  w.1 * t.a.h + w.2.1 * t.b.h + w.2.2 * t.c.h

/-- `SparseHeightMap.get_depth_at(x, y)` = `self._scale_z * self._interpolator(x, y)` where the
    `LinearNDInterpolator` answers its fill value `0.0` when no simplex is located -/
def getDepthSparse (sc : Rat) (locate : Rat → Rat → Option Tri) (px py : Rat) : Rat :=
  match locate px py with
  | none => sc * 0
  | some t => sc * t.interp px py

/-- `num_segments = max(int(distance / self._tolerance), 1)` -/
def numSegments (dist tol : Rat) : Nat := max (dist / tol).floor.toNat 1

/-- `numpy.linspace(a, b, n + 1)`: `arange(n + 1) * ((b - a) / n) + a` -/
def linspace (a b : Rat) (n : Nat) : List Rat :=
  (List.range (n + 1)).map fun (i : Nat) => (i : Rat) * ((b - a) / (n : Rat)) + a

/-- `SparseHeightMap._interpolate_line(line)` with `n = num_segments`:
    `rows = linspace(x1, x2, n + 1); cols = linspace(y1, y2, n + 1)`,
    `(x, y, self.get_depth_at(x, y)) for x, y in zip(rows, cols)` -/
def interpolateLineSparse (depth : Rat → Rat → Rat) (n : Nat) (x1 y1 x2 y2 : Rat) : List Sample :=
  ((linspace x1 x2 n).zip (linspace y1 y2 n)).map fun p => ⟨p.1, p.2, depth p.1 p.2⟩

/-- `SparseHeightMap.sample_path(line)` (`dist = numpy.hypot(x2 - x1, y2 - y1)`) -/
def samplePathSparse (sc : Rat) (locate : Rat → Rat → Option Tri) (tol dist : Rat)
    (x1 y1 x2 y2 : Rat) : List Sample :=
  filterPoints tol
    (interpolateLineSparse (getDepthSparse sc locate) (numSegments dist tol) x1 y1 x2 y2)

end GscribModel.Heightmap

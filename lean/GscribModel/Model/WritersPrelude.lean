import GscribModel.Model.Writers
/-! Hand-written prelude of the *generated* writers model (`Gen/WritersSrc.lean`, written by `tools/gen_writers.py` from
    `gscrib/gcode_core.py`, `gscrib/writers/file_writer.py` and `gscrib/writers/base_writer.py`): the Python values and
    the file-object primitives the translated methods call.  Everything here is an **assumption** about Python / the OS
    (trusted; exercised by `harness/tie_writers.py` against real files and streams):

    * `FileObj` – what the model keeps of a Python file object: whether it is a text stream (`hasattr(f, "encoding")`),
      whether it has / answers `isatty()`, everything it has been given by `write()` (bytes resp. `str` code points), whether
      something was given since its last `flush()`/`close()` (`dirty`: OS / `io.Buffered*` buffering is not modelled
      further), and its `closed` attribute;
    * `f.write(x)` appends and makes the object dirty, `f.flush()` cleans it, `f.close()` cleans it and sets `closed`;
      none of them fails (no `OSError`, no `ValueError` on a closed file);
    * `Path(p).open(mode)` yields a *new* file object `Ref.own`: binary, not a terminal, clean; **empty** for the
      truncating modes `wb` `wb+` `w+b`, holding the previous content for the appending modes `ab` `ab+` `a+b`
      (`Path(p).parent.mkdir(...)` has no effect on this state: directories are not modelled);
    * a `FileWriter` attribute holds `None`, a `str` (the path) or a *reference* to a file object: `Ref.user` is the object
      the caller handed over (`_file = _output` aliases it), `Ref.own` the file the writer opened itself; the two objects
      live in `Heap`;
    * `write` / `flush` / `close` called on something that is no file object (`None`, a `str`) raises `AttributeError` in
      Python, `write` of a `str` to a binary file or of bytes to a text stream raises `TypeError`: here they set the sticky
      flag `Heap.fault` and do nothing else (the rest of the method is still carried out, so a state with `fault` set says
      no more than "an exception escaped"; the tie theorems equate the translated methods with fault-free states, so
      no such call happens on any path they cover).  `list.remove(x)` of an absent `x` (`ValueError`) sets
      `GCodeCore.fault` in the same way (`pyRemoveFaults`).  `hasattr` / `getattr(…, default)` never raise; `isatty()`
      on something that is no file object answers `false` (only called on `_file` right after `_file = _output`);
    * `bytes(line, "utf-8")` is the model's `utf8` and raises `UnicodeEncodeError` on a lone surrogate;
      `b.decode("utf-8")` is the model's `decoded` (bytes produced by `utf8` always decode: `C14_utf8_roundtrip`);
    * `list.append / remove / clear`, `x in list` on a list of distinct object identities (`Nat`);
    * `OtherWriter` – a registered writer that is no `FileWriter` (a user subclass of `BaseWriter`, whose abstract
      methods `connect`/`write`/`disconnect` are not in the source): it *is* the hand-written model's `W` (kind
      `custom`), only `flush` is inherited from the translated `BaseWriter.flush`.
    Mathlib-free. -/
namespace GscribModel.WritersPrelude
open GscribModel.Writers

/-- code points of a Python `str` -/
abbrev Str := List Nat

structure FileObj where
  isText    : Bool := false     -- hasattr(f, "encoding")
  hasIsatty : Bool := true      -- hasattr(f, "isatty")
  tty       : Bool := false     -- f.isatty()
  data      : Bytes := []       -- bytes given to write()
  text      : Str := []         -- str code points given to write()
  dirty     : Bool := false     -- written to since the last flush()/close()
  closed    : Bool := false     -- f.closed
deriving DecidableEq, Repr

/-- the argument of `f.write(...)`: `bytes` or `str` -/
inductive Payload where
  | bytes (b : Bytes)
  | str (s : Str)
deriving DecidableEq, Repr

def FileObj.write (f : FileObj) : Payload → FileObj
  | .bytes b => { f with data := f.data ++ b, dirty := true }
  | .str s => { f with text := f.text ++ s, dirty := true }
def FileObj.flush (f : FileObj) : FileObj := { f with dirty := false }
def FileObj.close (f : FileObj) : FileObj := { f with dirty := false, closed := true }

inductive Ref where | user | own
deriving DecidableEq, Repr

/-- the value of a `FileWriter` attribute -/
inductive PyVal where
  | none                -- None
  | str                 -- a str (the output path; its text is irrelevant)
  | ref (r : Ref)       -- a file object
deriving DecidableEq, Repr, Inhabited

/-- the attribute names the translated source asks for with `hasattr` / `getattr` -/
inductive Attr where | encoding | isatty | closed
deriving DecidableEq, Repr

/-- the two file objects a `FileWriter` can refer to -/
structure Heap where
  user  : FileObj := {}         -- the object handed over by the caller (meaningful when `_output` is no str)
  own   : FileObj := {}         -- the file most recently opened by the writer itself
  fault : Bool := false         -- sticky: a file method was called on `None` / a str, or `write` got the wrong type
deriving DecidableEq, Repr, Inhabited

def Heap.get (h : Heap) : Ref → FileObj
  | .user => h.user
  | .own => h.own
def Heap.set (h : Heap) : Ref → FileObj → Heap
  | .user, f => { h with user := f }
  | .own, f => { h with own := f }

/-- `isinstance(v, str)` -/
def pyIsStr : PyVal → Bool
  | .str => true
  | _ => false

/-- `hasattr(v, name)` -/
def pyHasattr (h : Heap) (v : PyVal) (a : Attr) : Bool :=
  match v with
  | .ref r => (match a with
    | .encoding => (h.get r).isText
    | .isatty => (h.get r).hasIsatty
    | .closed => true)
  | _ => false

/-- `getattr(v, name, default)` for a boolean attribute -/
def pyGetattr (h : Heap) (v : PyVal) (a : Attr) (dflt : Bool) : Bool :=
  match v, a with
  | .ref r, .closed => (h.get r).closed
  | _, _ => dflt

/-- `v.isatty()` -/
def pyIsatty (h : Heap) : PyVal → Bool
  | .ref r => (h.get r).tty
  | _ => false

/-- is `x` what `f.write` accepts (`str` for a text stream, bytes otherwise; anything else is a `TypeError`) -/
def FileObj.accepts (f : FileObj) : Payload → Bool
  | .bytes _ => !f.isText
  | .str _ => f.isText

/-- `v.write(x)` -/
def pyWrite (h : Heap) (v : PyVal) (x : Payload) : Heap :=
  match v with
  | .ref r => if (h.get r).accepts x then h.set r ((h.get r).write x) else { h with fault := true }
  | _ => { h with fault := true }
/-- `v.flush()` -/
def pyFlush (h : Heap) : PyVal → Heap
  | .ref r => h.set r (h.get r).flush
  | _ => { h with fault := true }
/-- `v.close()` -/
def pyClose (h : Heap) : PyVal → Heap
  | .ref r => h.set r (h.get r).close
  | _ => { h with fault := true }

/-- `Path(v)` (the path is the str itself) -/
def pyPath (v : PyVal) : PyVal := v

/-- `Path(p).open(mode)`: a new binary file object owned by the writer -/
def pyOpen (h : Heap) (_p : PyVal) (mode : String) : Heap × PyVal :=
  if mode = "ab" ∨ mode = "ab+" ∨ mode = "a+b" then
    ({ h with own := { data := h.own.data } }, .ref .own)
  else
    ({ h with own := {} }, .ref .own)

/-- exception classes that matter for `GCodeCore.write` -/
inductive Exc where
  | UnicodeEncodeError | GCodeError | DeviceError | GscribError
deriving DecidableEq, Repr

/-- `isinstance(e, cls)` along `gscrib/excepts.py` (`GCodeError`, `DeviceError` < `GscribError` < `Exception`) -/
def Exc.isA (e : Exc) (cls : String) : Bool :=
  cls = "Exception" ||
  (match e with
   | .UnicodeEncodeError => cls = "UnicodeEncodeError" || cls = "UnicodeError" || cls = "ValueError"
   | .GCodeError => cls = "GCodeError" || cls = "GscribError"
   | .DeviceError => cls = "DeviceError" || cls = "GscribError"
   | .GscribError => cls = "GscribError")

/-- the exception class named in a `raise Cls(...)` of the translated source -/
def Exc.ofName (cls : String) : Exc :=
  if cls = "GCodeError" then .GCodeError else if cls = "DeviceError" then .DeviceError
  else if cls = "UnicodeEncodeError" then .UnicodeEncodeError else .GscribError

/-- `bytes(line, "utf-8")` -/
def pyBytes (line : Str) (_encoding : String) : Except Exc Bytes :=
  if validLine line then .ok (utf8 line) else .error .UnicodeEncodeError

/-- `b.decode("utf-8")` -/
def pyDecode (b : Bytes) (_encoding : String) : Str := decoded b

/-- `x in l` / `l.append(x)` / `l.remove(x)` / `l.clear()` on a list of object identities -/
def pyIn (x : Nat) (l : List Nat) : Bool := l.contains x
def pyAppend (l : List Nat) (x : Nat) : List Nat := l ++ [x]
def pyRemove (l : List Nat) (x : Nat) : List Nat := l.erase x
/-- does `l.remove(x)` raise `ValueError` -/
def pyRemoveFaults (l : List Nat) (x : Nat) : Bool := !l.contains x
def pyClear (_l : List Nat) : List Nat := []

/-- a registered writer that is no `FileWriter`: the model's own `W` (see the header) -/
abbrev OtherWriter := W
def OtherWriter.write (w : OtherWriter) (b : Bytes) : OtherWriter := W.write w b
def OtherWriter.disconnect (w : OtherWriter) (_wait : Bool) : OtherWriter := W.disconnect w

end GscribModel.WritersPrelude

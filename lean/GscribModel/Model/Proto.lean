/-! Line-protocol helpers shared by the model drivers (parsing/printing only; Mathlib-free). -/
namespace GscribModel.Proto

def hexVal (c : Char) : Option Nat :=
  if '0' ≤ c ∧ c ≤ '9' then some (c.toNat - '0'.toNat)
  else if 'a' ≤ c ∧ c ≤ 'f' then some (c.toNat - 'a'.toNat + 10)
  else if 'A' ≤ c ∧ c ≤ 'F' then some (c.toNat - 'A'.toNat + 10)
  else none

/-- "61620a" ↦ [97, 98, 10] -/
def parseHex : List Char → Option (List Nat)
  | [] => some []
  | a :: b :: rest => do
      let x ← hexVal a
      let y ← hexVal b
      let r ← parseHex rest
      pure ((x * 16 + y) :: r)
  | _ => none

def hexDigit (n : Nat) : Char := "0123456789abcdef".toList.getD n '?'

def toHex (bs : List Nat) : String :=
  String.ofList (bs.flatMap fun b => [hexDigit (b / 16), hexDigit (b % 16)])

/-- split on a character, keeping empty fields -/
def splitOnChar (s : String) (c : Char) : List String :=
  (s.splitOn (String.singleton c))

def words (s : String) : List String := (s.splitOn " ").filter (· ≠ "")

/-- "-3/32", "5", "-7" ↦ rational -/
def parseRat (s : String) : Option Rat :=
  match s.splitOn "/" with
  | [n] => n.toInt?.map fun i => (i : Rat)
  | [n, d] => do
      let i ← n.toInt?
      let k ← d.toNat?
      if k = 0 then none else pure ((i : Rat) / (k : Rat))
  | _ => none

def showRat (q : Rat) : String :=
  if q.den = 1 then toString q.num else s!"{q.num}/{q.den}"

/-- `key=value` lookup among whitespace-separated fields -/
def field (ws : List String) (k : String) : Option String :=
  ws.findSome? fun w => if w.startsWith (k ++ "=") then some (w.drop (k.length + 1)).toString else none

/-- stateless mode: one output record per input line -/
partial def loopPure (f : String → String) : IO Unit := do
  let h ← IO.getStdin
  let out ← IO.getStdout
  let rec go : IO Unit := do
    let line ← h.getLine
    if line.isEmpty then return ()
    out.putStrLn (f (line.dropEndWhile (· == (Char.ofNat 10))).toString)
    go
  go

/-- stateful mode: the line `reset` restores the initial state (and prints `reset`) -/
partial def loopState {σ : Type} (init : σ) (step : σ → String → σ × String) : IO Unit := do
  let h ← IO.getStdin
  let out ← IO.getStdout
  let rec go (s : σ) : IO Unit := do
    let line ← h.getLine
    if line.isEmpty then return ()
    let l := (line.dropEndWhile (· == (Char.ofNat 10))).toString
    if l == "reset" then
      out.putStrLn "reset"
      go init
    else
      let (s', o) := step s l
      out.putStrLn o
      go s'
  go init

end GscribModel.Proto

import GscribModel.Model.Heightmap
/-! # Prelude of the heightmap translation (`tools/gen_height.py` → `Gen/HeightSrc.lean`) — Mathlib-free, hand-written, tiny.

What is left of numpy / skimage / Python builtins in the translated methods are the primitives below.  **Each of them is an
assumption about numpy / skimage / Python** (part of the trusted base; `harness/tie_height.py` compares the translated
functions built on them with the real classes on every run):

* floats are finite and exact (`Rat`); a 1-D float array is `List Rat`; an `(N, 3)` array is `List Sample`;
* `pyIndex xs k` = `xs[k]` for a constant `k` (negative: from the end; out of range: `IndexError`);
  `pyUnpack4 xs` = `a, b, c, d = xs` (`ValueError` unless exactly four);
* `npAsarrayFloat` = `numpy.asarray(line, dtype=float)` of a flat sequence of numbers (identity; nested / ragged /
  non-numeric arguments are outside the model: they end in the `shape != (4,)` test or in numpy's own `ValueError`);
  `npShape1 a` = `n` where `a.shape == (n,)`;
* `pyRound` = `round(x)` of a float, written independently of the model ("the nearer neighbouring integer, the even one
  on a tie"); `HeightTie_round` proves it equal to the model's `roundHalfEven`;
* `skimageLine [r0, c0, r1, c1]` = `skimage.draw.line(r0, c0, r1, c1)` = the two columns of the model's `bresenham`
  (the transcription of skimage's `_line`, compared pixel for pixel with skimage by the C19 harness); any other argument
  count is Python's `TypeError`;
* `npTrueDiv a b` = `a / b` where `a` is a numpy float64: no exception on a zero divisor but `inf` / `nan` (`NpF`);
  `pyIntF` = `int()` of such a value: truncation, `OverflowError` on `inf`, `ValueError` on `nan`;
  `pyTrunc` = `int(x)` of a finite float (truncation towards zero);
* `npLinspace a b num` = `numpy.linspace(a, b, num)` for `num ≥ 1`: `arange(num) * ((b - a) / (num - 1)) + a` (numpy then
  forces the last entry to `b`, which in exact arithmetic it already is; `num = 1` gives `[a]`; `num ≤ 0` is unreachable
  behind `max(…, 1) + 1`);
* `pyAbs` = `abs` of a float (`-0.0` / NaN aside); `npArrayEqual` = `numpy.array_equal` of two rows of three floats;
* `npItem00 v` = `v[0, 0]` of the 1×1 array `RectBivariateSpline.__call__(y, x)` returns for two scalars (identity: the
  interpolant parameter already stands for that entry);
* `Image` = the `ndarray` handed to `RasterHeightMap` (`dtype` uint8 / uint16 and the pixel rows), `npShape2` its `.shape`,
  `npEmptyF32 shape` = `numpy.empty(shape, dtype=float32)` (an uninitialised buffer: only its shape and dtype matter),
  `npDivideOut f32 img d out` = `numpy.divide(img, d, out=out)`: every pixel divided by `d` and stored in the float32 buffer,
  i.e. rounded by the PARAMETER `f32` (round-to-nearest float32). -/
namespace GscribModel.HeightPrelude
open GscribModel.Heightmap

/-- the exception classes the translated methods can raise -/
inductive PyErr where
  | ValueError | IndexError | TypeError | OverflowError
deriving DecidableEq, Repr, Inhabited

/-- `xs[k]` for a constant `k` -/
def pyIndex {α : Type} (xs : List α) (k : Int) : Except PyErr α :=
  let i : Int := if 0 ≤ k then k else (xs.length : Int) + k
  if i < 0 then .error .IndexError
  else match xs[i.toNat]? with
    | some v => .ok v
    | none => .error .IndexError

/-- `a, b, c, d = xs` -/
def pyUnpack4 {α : Type} : List α → Except PyErr (α × α × α × α)
  | [a, b, c, d] => .ok (a, b, c, d)
  | _ => .error .ValueError

/-- `numpy.asarray(line, dtype=float)` -/
def npAsarrayFloat (line : List Rat) : List Rat := line

/-- `n` where `a.shape == (n,)` -/
def npShape1 (a : List Rat) : Nat := a.length

/-- `round(x)`: the nearer of the two neighbouring integers, the even one on a tie -/
def pyRound (q : Rat) : Int :=
  let lo : Int := q.floor
  let hi : Int := lo + 1
  if q - (lo : Rat) < (hi : Rat) - q then lo
  else if (hi : Rat) - q < q - (lo : Rat) then hi
  else if lo % 2 = 0 then lo else hi

/-- `skimage.draw.line(*args)` -/
def skimageLine : List Int → Except PyErr (List Int × List Int)
  | [r0, c0, r1, c1] => .ok (bresenham r0 c0 r1 c1).unzip
  | _ => .error .TypeError

/-- a numpy float64 that may be non-finite (only the result of a division is one) -/
inductive NpF where
  | fin (q : Rat)
  | inf
  | nan
deriving DecidableEq, Repr

/-- `a / b` on numpy float64 -/
def npTrueDiv (a b : Rat) : NpF :=
  if b = 0 then (if a = 0 then .nan else .inf) else .fin (a / b)

/-- `int(x)` of a finite float: truncation towards zero -/
def pyTrunc (q : Rat) : Int := if 0 ≤ q then q.floor else -((-q).floor)

/-- `int(x)` of a numpy float64 -/
def pyIntF : NpF → Except PyErr Int
  | .fin q => .ok (pyTrunc q)
  | .inf => .error .OverflowError
  | .nan => .error .ValueError

/-- `numpy.linspace(a, b, num)` -/
def npLinspace (a b : Rat) (num : Int) : List Rat :=
  (List.range num.toNat).map fun (i : Nat) => (i : Rat) * ((b - a) / ((num.toNat - 1 : Nat) : Rat)) + a

/-- `abs(x)` -/
def pyAbs (q : Rat) : Rat := if q < 0 then -q else q

/-- `numpy.array_equal(p, q)` on two rows -/
def npArrayEqual (p q : Sample) : Bool := decide (p.x = q.x ∧ p.y = q.y ∧ p.z = q.z)

/-- `spline(y, x)[0, 0]` -/
def npItem00 (v : Rat) : Rat := v

/-- `image_data.dtype` -/
inductive Dtype where
  | uint8 | uint16
deriving DecidableEq, Repr, Inhabited

/-- the array handed to `RasterHeightMap(image_data)` -/
structure Image where
  dtype : Dtype
  px : List (List Nat)
deriving DecidableEq, Repr, Inhabited

/-- `image_data.shape` -/
def npShape2 (img : Image) : Nat × Nat := (img.px.length, (img.px.headD []).length)

/-- a float32 buffer of a given shape -/
structure F32Buf where
  shape : Nat × Nat
deriving DecidableEq, Repr

/-- `numpy.empty(shape, dtype=float32)` -/
def npEmptyF32 (shape : Nat × Nat) : F32Buf := ⟨shape⟩

/-- `numpy.divide(img, d, out=buf)` -/
def npDivideOut (f32 : Rat → Rat) (img : Image) (d : Rat) (_out : F32Buf) : Grid :=
  img.px.map fun row => row.map fun (v : Nat) => f32 ((v : Rat) / d)

/-- the rows handed to `SparseHeightMap(sparse_data)` (only scipy reads them) -/
abbrev SparseData := List (Rat × Rat × Rat)

end GscribModel.HeightPrelude

import GscribModel.Model.Builder
/-! Hand-written prelude of the *generated* state model (`Gen/StateSrc.lean`, written by
    `tools/gen_state.py` from `gscrib/gcode_state.py`): the primitives the translated methods call.

    * Python / IEEE comparison on `Val` (a finite double is its rational value; NaN compares false with
      everything, ±inf are the extremes);
    * `floatMax` = `sys.float_info.max`;
    * `validateNum / validateInt / validatePt` = `BoundManager.validate(name, value)` for a number, an
      `int` and a `Point` (`gscrib/geometry/bounds.py`): unknown property name ⇒ `ValueError`; no bounds
      configured ⇒ accepted; otherwise `min <= value <= max` (`Point.within_bounds` for points, unknown
      coordinates ignored).  These three are transcriptions (tied to the code by the correspondence runs
      of C03/C05), not translations.
    Mathlib-free. -/
namespace GscribModel.GenPrelude
open GscribModel.Builder

/-- a field `__init__` has not assigned yet (only `_current_resolution`, set by the last setter call) -/
instance : Inhabited Val := ⟨.fin 0⟩

/-- `a <= b` on Python floats -/
def Val.le : Val → Val → Bool
  | .nan, _ => false
  | _, .nan => false
  | .ninf, _ => true
  | _, .pinf => true
  | .fin a, .fin b => decide (a ≤ b)
  | _, _ => false

/-- `a < b` on Python floats -/
def Val.lt : Val → Val → Bool
  | .nan, _ => false
  | _, .nan => false
  | .ninf, .ninf => false
  | .ninf, _ => true
  | .pinf, _ => false
  | .fin _, .pinf => true
  | .fin a, .fin b => decide (a < b)
  | .fin _, .ninf => false

def Val.ge (a b : Val) : Bool := Val.le b a
def Val.gt (a b : Val) : Bool := Val.lt b a

/-- `a == b` on Python floats (NaN is not equal to itself) -/
def Val.eq : Val → Val → Bool
  | .nan, _ => false
  | _, .nan => false
  | a, b => decide (a = b)

/-- `sys.float_info.max` = (2 − 2⁻⁵²)·2¹⁰²³ -/
def floatMaxQ : Rat := ((2 ^ 1024 - 2 ^ 971 : Int) : Rat)
def floatMax : Val := .fin floatMaxQ

/-- `a <= b` on coordinates; ordering against `None` raises `TypeError` in Python — only reached behind a
    `None in (...)` test in the translated source, so the value chosen here is never used -/
def OQ.le : OQ → OQ → Bool
  | some a, some b => decide (a ≤ b)
  | _, _ => false
def OQ.lt : OQ → OQ → Bool
  | some a, some b => decide (a < b)
  | _, _ => false

def kindOfName : String → Option BKind
  | "bed-temperature" => some .bed
  | "chamber-temperature" => some .chamber
  | "hotend-temperature" => some .hotend
  | "feed-rate" => some .feed
  | "tool-number" => some .toolNumber
  | "tool-power" => some .toolPower
  | _ => none

/-- `BoundManager.validate(name, value)` for a number -/
def validateNum (b : Bounds) (name : String) (v : Val) : Except Err Unit :=
  match kindOfName name with
  | none => .error .valueError
  | some k =>
    match b.get k with
    | none => .ok ()
    | some (lo, hi) => if Val.le (.fin lo) v && Val.le v (.fin hi) then .ok () else .error .valueError

/-- `BoundManager.validate(name, value)` for an `int` -/
def validateInt (b : Bounds) (name : String) (n : Int) : Except Err Unit := validateNum b name (.fin n)

/-- `BoundManager.validate("axes", point)` -/
def validatePt (b : Bounds) (name : String) (p : Pt) : Except Err Unit :=
  if name = "axes" then (if b.okAxes p then .ok () else .error .valueError) else .error .valueError

/-! ### what the translated builder methods (`Gen/BuilderSrc.lean`) are written with -/

/-- an enum argument as the API receives it (`SpinMode | str`): a member, or something `Enum(value)` rejects -/
inductive Arg (α : Type) where
  | val (a : α)
  | bogus
deriving DecidableEq, Repr

/-- the pieces a statement is assembled from: the table entry of an enum member with its formatted words
    (`_get_statement`), bare formatted words (`format.parameters`), a tool word (`T01`) -/
inductive Part where
  | instr (cls member : String) (ws : List (String × Rat))
  | words (ws : List (String × Rat))
  | tword (n : Int)
  | gcode (instr : String) (ax : Pt) (ws : List (String × Rat))           -- `format.command("G1", args)` of a motion command
  | ainstr (cls member : String) (ax : Pt) (ws : List (String × Rat))     -- `_get_statement(member, args)` with axis words
  | comment                                                                -- `format.comment(text)` (the text is not modelled)
deriving DecidableEq, Repr

abbrev SStmt := List Part

/-- `format.parameters(dict)` / the words of `format.command(instr, dict)`: a value that is no finite number raises
    `ValueError` (`None`); keys keep their order -/
def fmtWords : List (String × Val) → Option (List (String × Rat))
  | [] => some []
  | (k, v) :: rest =>
    match v.fin?, fmtWords rest with
    | some q, some ws => some ((k, q) :: ws)
    | _, _ => none

/-- `_get_statement(member, params)`: the member's table entry with the formatted words -/
def getStatement (cls member : String) (ps : List (String × Val)) : Option SStmt :=
  (fmtWords ps).map fun ws => [Part.instr cls member ws]

/-! ### what the translated motion commands (`Gen/MotionSrc.lean`) are written with -/

/-- the `ParamsDict` of a motion command once `_process_move_params` has run: the caller's keyword parameters (the
    `comment` entry popped, names in upper case) and the `X`/`Y`/`Z` entries, kept apart -/
structure MP where
  words : VParams
  xyz : Pt
deriving DecidableEq, Repr

/-- `params.get("F")` for a name other than X, Y, Z -/
def MP.get (p : MP) (k : String) : Option Val := lookupV p.words k
/-- `{ **params, "X": p.x, "Y": p.y, "Z": p.z }` -/
def MP.withXYZ (p : MP) (q : Pt) : MP := { p with xyz := q }
/-- the dictionary as `_current_params.update` stores it (a value that is no finite number cannot get this far: the
    statement is formatted first) -/
def MP.toParams (p : MP) : Params :=
  (p.words.map fun e => (e.1, e.2.fin?)) ++ [("X", p.xyz.x), ("Y", p.xyz.y), ("Z", p.xyz.z)]
/-- `_process_move_params(None, x=…, y=…, z=…, **kwargs)`: the target point and the dictionary (transcription: plain
    argument handling) -/
@[reducible] def processMoveParams (pt : Pt) (kw : VParams) : Pt × MP := (pt, ⟨kw, pt⟩)
/-- `format.command(instr, args, comment)` -/
def fmtCommand (instr : String) (args : MP) : Option SStmt :=
  (fmtWords args.words).map fun ws => [Part.gcode instr args.xyz ws]
/-- `_get_statement(member, args, comment)` for a command with axis words -/
def getStatementMP (cls member : String) (args : MP) : Option SStmt :=
  (fmtWords args.words).map fun ws => [Part.ainstr cls member args.xyz ws]
/-- `format.parameters(params)`: only raises or not matters (`_validate_absolute_move`) -/
def fmtParamsOk (args : MP) : Bool := (fmtWords args.words).isSome

/-- what a hook can read off the state object: the extrusion mode and the last `E` -/
structure HookEnv where
  erel : Bool
  lastE : Rat
deriving DecidableEq, Repr

/-- one hook call (`Hook.apply` with the state's view made explicit) -/
def hookApplyEnv (env : HookEnv) (h : Rat) (hk : Hook) (ps : VParams) : VParams :=
  match hk with
  | .record => ps
  | .limitF m => match lookupV ps "F" with
      | some f => if f.gtRat m then setV ps "F" (.fin m) else ps
      | none => ps
  | .extrude k =>
      let len := k * h
      setV ps "E" (.fin (if env.erel then len else len + env.lastE))
  | .drop key => ps.filter (fun e => !(e.1 == key))

/-- `for hook in self._hooks: params = hook(origin, target, params, self.state)` -/
def runHooks (env : HookEnv) (h : Rat) (hooks : List Hook) (p : MP) : MP :=
  { p with words := hooks.foldl (fun acc hk => hookApplyEnv env h hk acc) p.words }

/-- `self.transform.apply_transform(p)` with no transform active (the builder model has no transformer: C01's premise;
    the transformer has its own model, C04/C13) -/
def applyTransformId (p : Pt) : Pt := p

/-- `_get_user_param(keys, kwargs)`: the value of the first of `keys` among the keyword names (transcription; the
    translator checks that the source still is this lookup).  Keyword names are taken in upper case and distinct: the
    `key.upper()` of the source is the identity here (lower-case spellings are exercised by the correspondence runs) -/
def userParam (keys : List String) (ps : VParams) : Option Val :=
  keys.findSome? fun k => lookupV ps k

/-- `for key, value in kwargs.items(): if key.upper() in keys and value is not None: bounds.validate(name, value)` -/
def validateEach (b : Bounds) (name : String) (keys : List String) : VParams → Option Err
  | [] => none
  | (k, v) :: r =>
    if keys.contains k then
      match validateNum b name v with
      | .error e => some e
      | .ok _ => validateEach b name keys r
    else validateEach b name keys r

/-- `v * f` / `v / f` for a Python float `v` and a non-zero finite factor `f` (exact on finite values; ±inf and NaN pass through
    for a positive factor - the unit factors are positive) -/
def Val.mulQ : Val → Rat → Val
  | .fin q, f => .fin (q * f)
  | v, _ => v
def Val.divQ : Val → Rat → Val
  | .fin q, f => .fin (q / f)
  | v, _ => v

/-- `Point.__add__` / `Point.__sub__` (coordinates resolved by the callers) -/
def ptAdd (p q : Pt) : Pt := p.add q
def ptSub (p q : Pt) : Pt := p.sub q

end GscribModel.GenPrelude

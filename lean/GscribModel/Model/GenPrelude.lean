import GscribModel.Model.Builder
/-! Hand-written prelude of the *generated* state model (`Gen/StateSrc.lean`, written by
    `tools/gen_state.py` from `gscrib/gcode_state.py`): the primitives the translated methods call.

    * Python / IEEE comparison on `Val` (a finite double is its rational value; NaN compares false with
      everything, ±inf are the extremes);
    * `floatMax` = `sys.float_info.max`;
    * `validateNum / validateInt / validatePt` = `BoundManager.validate(name, value)` for a number, an
      `int` and a `Point` (`gscrib/geometry/bounds.py`): unknown property name ⇒ `ValueError`; no bounds
      configured ⇒ accepted; otherwise `min <= value <= max` (`Point.within_bounds` for points, unknown
      coordinates ignored).  These three are transcriptions (tied to the code by the correspondence runs
      of C03/C05), not translations.
    Mathlib-free. -/
namespace GscribModel.GenPrelude
open GscribModel.Builder

/-- a field `__init__` has not assigned yet (only `_current_resolution`, set by the last setter call) -/
instance : Inhabited Val := ⟨.fin 0⟩

/-- `a <= b` on Python floats -/
def Val.le : Val → Val → Bool
  | .nan, _ => false
  | _, .nan => false
  | .ninf, _ => true
  | _, .pinf => true
  | .fin a, .fin b => decide (a ≤ b)
  | _, _ => false

/-- `a < b` on Python floats -/
def Val.lt : Val → Val → Bool
  | .nan, _ => false
  | _, .nan => false
  | .ninf, .ninf => false
  | .ninf, _ => true
  | .pinf, _ => false
  | .fin _, .pinf => true
  | .fin a, .fin b => decide (a < b)
  | .fin _, .ninf => false

def Val.ge (a b : Val) : Bool := Val.le b a
def Val.gt (a b : Val) : Bool := Val.lt b a

/-- `a == b` on Python floats (NaN is not equal to itself) -/
def Val.eq : Val → Val → Bool
  | .nan, _ => false
  | _, .nan => false
  | a, b => decide (a = b)

/-- `sys.float_info.max` = (2 − 2⁻⁵²)·2¹⁰²³ -/
def floatMaxQ : Rat := ((2 ^ 1024 - 2 ^ 971 : Int) : Rat)
def floatMax : Val := .fin floatMaxQ

/-- `a <= b` on coordinates; ordering against `None` raises `TypeError` in Python — only reached behind a
    `None in (...)` test in the translated source, so the value chosen here is never used -/
def OQ.le : OQ → OQ → Bool
  | some a, some b => decide (a ≤ b)
  | _, _ => false
def OQ.lt : OQ → OQ → Bool
  | some a, some b => decide (a < b)
  | _, _ => false

def kindOfName : String → Option BKind
  | "bed-temperature" => some .bed
  | "chamber-temperature" => some .chamber
  | "hotend-temperature" => some .hotend
  | "feed-rate" => some .feed
  | "tool-number" => some .toolNumber
  | "tool-power" => some .toolPower
  | _ => none

/-- `BoundManager.validate(name, value)` for a number -/
def validateNum (b : Bounds) (name : String) (v : Val) : Except Err Unit :=
  match kindOfName name with
  | none => .error .valueError
  | some k =>
    match b.get k with
    | none => .ok ()
    | some (lo, hi) => if Val.le (.fin lo) v && Val.le v (.fin hi) then .ok () else .error .valueError

/-- `BoundManager.validate(name, value)` for an `int` -/
def validateInt (b : Bounds) (name : String) (n : Int) : Except Err Unit := validateNum b name (.fin n)

/-- `BoundManager.validate("axes", point)` -/
def validatePt (b : Bounds) (name : String) (p : Pt) : Except Err Unit :=
  if name = "axes" then (if b.okAxes p then .ok () else .error .valueError) else .error .valueError

/-! ### what the translated builder methods (`Gen/BuilderSrc.lean`) are written with -/

/-- an enum argument as the API receives it (`SpinMode | str`): a member, or something `Enum(value)` rejects -/
inductive Arg (α : Type) where
  | val (a : α)
  | bogus
deriving DecidableEq, Repr

/-- the pieces a statement is assembled from: the table entry of an enum member with its formatted words
    (`_get_statement`), bare formatted words (`format.parameters`), a tool word (`T01`) -/
inductive Part where
  | instr (cls member : String) (ws : List (String × Rat))
  | words (ws : List (String × Rat))
  | tword (n : Int)
deriving DecidableEq, Repr

abbrev SStmt := List Part

/-- `format.parameters(dict)` / the words of `format.command(instr, dict)`: a value that is no finite number raises
    `ValueError` (`None`); keys keep their order -/
def fmtWords : List (String × Val) → Option (List (String × Rat))
  | [] => some []
  | (k, v) :: rest =>
    match v.fin?, fmtWords rest with
    | some q, some ws => some ((k, q) :: ws)
    | _, _ => none

/-- `_get_statement(member, params)`: the member's table entry with the formatted words -/
def getStatement (cls member : String) (ps : List (String × Val)) : Option SStmt :=
  (fmtWords ps).map fun ws => [Part.instr cls member ws]

end GscribModel.GenPrelude

/-! Model of `gscrib.printrun.device.Device._readline_socket` / `_readline_buf`
    (socket input split into lines).  Transcription conventions:
    * `self._read_buffer` is `buf : List Bytes` (list of received chunks);
    * one `self._socketfile.read(256)` outcome, after the optional `select`+re-read, is one
      event: `chunk bs` (data), `again` (no data yet -> READ_EMPTY), `eof` (peer closed; sticky);
    * one `readline()` call = `readlineSocket buf evs`, returning the result, the new buffer
      and the unread events.  Mathlib-free. -/
namespace GscribModel.Socket

abbrev Bytes := List Nat
def NL : Nat := 10

def findNL : Bytes → Option Nat
  | [] => none
  | b :: bs => if b = NL then some 0 else (findNL bs).map (· + 1)

def readlineBuf (buf : List Bytes) : Bytes × List Bytes :=
  match buf.getLast? with
  | none => ([], buf)
  | some chunk =>
    match findNL chunk with
    | none => ([], buf)
    | some eol =>
      (buf.dropLast.flatten ++ chunk.take (eol + 1),
       if (chunk.drop (eol + 1)).isEmpty then [] else [chunk.drop (eol + 1)])

inductive Ev where
  | chunk (b : Nat) (bs : Bytes)   -- a non-empty read: first byte and the rest (b'' is `eof`)
  | again | eof
deriving Repr, DecidableEq

inductive Res where
  | line (bs : Bytes) | empty | eofR
deriving Repr, DecidableEq

def Res.bytes : Res → Bytes
  | .line l => l | _ => []

def evBytes : List Ev → Bytes
  | [] => []
  | .chunk b bs :: es => (b :: bs) ++ evBytes es
  | _ :: es => evBytes es

def go : List Bytes → List Ev → Res × List Bytes × List Ev
  | buf, [] => (.empty, buf, [])
  | buf, .again :: evs => (.empty, buf, evs)
  | buf, .eof :: evs =>
      if buf.flatten.isEmpty then (.eofR, [], .eof :: evs) else (.line buf.flatten, [], .eof :: evs)
  | buf, .chunk b bs :: evs =>
      if (readlineBuf (buf ++ [b :: bs])).1.isEmpty then go (readlineBuf (buf ++ [b :: bs])).2 evs
      else (.line (readlineBuf (buf ++ [b :: bs])).1, (readlineBuf (buf ++ [b :: bs])).2, evs)

def readlineSocket (buf : List Bytes) (evs : List Ev) : Res × List Bytes × List Ev :=
  if (readlineBuf buf).1.isEmpty then go buf evs else (.line (readlineBuf buf).1, (readlineBuf buf).2, evs)


/-- `n` successive `readline()` calls. -/
def calls : Nat → List Bytes → List Ev → List Res × List Bytes × List Ev
  | 0, buf, evs => ([], buf, evs)
  | n + 1, buf, evs =>
    let r := readlineSocket buf evs
    let rest := calls n r.2.1 r.2.2
    (r.1 :: rest.1, rest.2)

end GscribModel.Socket

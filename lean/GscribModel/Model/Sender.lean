/-! # Model of the bundled Printrun sender (`gscrib/printrun/printcore.py`) streaming a job (C15)

A labelled transition system with three atomic actions

* `sendnext` – one pass of `printcore._sendnext` once the wait loop `while … not self.clear` has been left;
* `listen`   – one reply line processed by `printcore._listen`;
* `fw`       – a Marlin-style firmware consumes one line from the wire;

two FIFO channels, and a *fault pattern* `faulty : Nat → Bool` over transmission indices (the i-th
line written to the port is corrupted in transit; the firmware notices by the checksum).

Lines on the wire are **text** (`List Char`): the sender renders `N<k> <cmd>*<xor>` exactly as
`printcore._send` does, the firmware decodes them the way the harness's firmware twin does
(`^N(-?\d+) (.*)\*(\d+)$`, checksum recomputed over everything before the last `*`).

What is *not* modelled (assumptions of the check, listed again in `harness/c15.py`):
job lines contain no `M110` of their own (`_send` does not store such a line in `sentlines`), no
`;@pause` host command, the priority queue stays empty while printing, corruption is always
detected by the checksum, races finer than the two sender steps (non-atomic `resendfrom += 1`).

Mathlib-free; everything here is executable (driver mode `sender`). -/
namespace GscribModel.Sender

abbrev Text := List Char

/-! ## Decimal numbers (own printer/parser; `str(int)` / `int(str)` / `\d+` on ASCII) -/

def digitChar : Nat → Char
  | 0 => '0' | 1 => '1' | 2 => '2' | 3 => '3' | 4 => '4'
  | 5 => '5' | 6 => '6' | 7 => '7' | 8 => '8' | _ => '9'

def charDigit (c : Char) : Option Nat :=
  if c = '0' then some 0 else if c = '1' then some 1 else if c = '2' then some 2
  else if c = '3' then some 3 else if c = '4' then some 4 else if c = '5' then some 5
  else if c = '6' then some 6 else if c = '7' then some 7 else if c = '8' then some 8
  else if c = '9' then some 9 else none

/-- little-endian decimal digits of `n`, at least one (`fuel ≥ n` suffices) -/
def digitsLE : Nat → Nat → List Nat
  | 0, n => [n % 10]
  | f + 1, n => if n < 10 then [n] else (n % 10) :: digitsLE f (n / 10)

def renderNat (n : Nat) : Text := ((digitsLE n n).reverse).map digitChar

def parseNatAux : Nat → Text → Option Nat
  | acc, [] => some acc
  | acc, c :: cs => match charDigit c with
      | some d => parseNatAux (10 * acc + d) cs
      | none => none

/-- `\d+` : fails on the empty string and on any non-digit -/
def parseNat (cs : Text) : Option Nat := if cs.isEmpty then none else parseNatAux 0 cs

/-- Python `str(i)` -/
def renderInt (i : Int) : Text :=
  if i < 0 then '-' :: renderNat i.natAbs else renderNat i.toNat

/-- `-?\d+` -/
def parseInt : Text → Option Int
  | '-' :: cs => (parseNat cs).map fun n => -(n : Int)
  | cs => (parseNat cs).map fun n => (n : Int)

/-! ## Checksum and frame -/

/-- what the firmware recomputes: XOR of all bytes, starting from 0 -/
def xorFold (t : Text) : Nat := t.foldl (fun a c => a ^^^ c.toNat) 0

/-- `printcore._checksum`: `reduce(lambda x, y: x ^ y, map(ord, command))` (no initial value;
    Python raises on the empty string, which `_send` never passes) -/
def pyChecksum : Text → Nat
  | [] => 0
  | c :: cs => cs.foldl (fun a d => a ^^^ d.toNat) c.toNat

/-- `prefix = "N" + str(lineno) + " " + command` -/
def framePrefix (n : Int) (cmd : Text) : Text := 'N' :: (renderInt n ++ ' ' :: cmd)

/-- `command = prefix + "*" + str(self._checksum(prefix))` -/
def frame (n : Int) (cmd : Text) : Text :=
  framePrefix n cmd ++ '*' :: renderNat (pyChecksum (framePrefix n cmd))

def resetCmd : Text := "M110 N-1".toList
/-- what `_reset_line_numbers` writes: `_send("M110 N-1", -1, True)` -/
def resetFrame : Text := frame (-1) resetCmd

/-! ## Firmware-side decoding -/

/-- split at the first occurrence of `c` -/
def splitFirst (c : Char) : Text → Option (Text × Text)
  | [] => none
  | x :: xs => if x = c then some ([], xs) else
      match splitFirst c xs with
      | some (a, b) => some (x :: a, b)
      | none => none

/-- split at the last occurrence of `c` (greedy `(.*)c`) -/
def splitLast (c : Char) : Text → Option (Text × Text)
  | [] => none
  | x :: xs => match splitLast c xs with
      | some (a, b) => some (x :: a, b)
      | none => if x = c then some ([], xs) else none

structure Decoded where
  n   : Int
  cmd : Text
  cs  : Nat
  pre : Text        -- everything before the last `*`
deriving Repr, DecidableEq

/-- `^N(-?\d+) (.*)\*(\d+)$` -/
def decode : Text → Option Decoded
  | 'N' :: r =>
    match splitFirst ' ' r with
    | none => none
    | some (num, rest) =>
      match parseInt num, splitLast '*' rest with
      | some n, some (cmd, csT) =>
        match parseNat csT with
        | some cs => some ⟨n, cmd, cs, 'N' :: (num ++ ' ' :: cmd)⟩
        | none => none
      | _, _ => none
  | _ => none

def dropPrefix : Text → Text → Option Text
  | [], t => some t
  | _ :: _, [] => none
  | p :: ps, x :: xs => if p = x then dropPrefix ps xs else none

/-- `M110 N<n>` ↦ `n` (the firmware's line-number reset; exempt from the sequence check) -/
def m110Arg (cmd : Text) : Option Int :=
  match dropPrefix "M110 N".toList cmd with
  | some r => parseInt r
  | none => none

/-! ## The job as `printcore` sees it -/

/-- one entry of `mainqueue`: a command to transmit, or a line `_sendnext` skips
    (comment-only line, host command `;@…`): it sets `clear` and advances `queueindex` -/
inductive Item where
  | cmd (c : Text)
  | skip
deriving Repr, DecidableEq

/-- the job's commands, in order: what the firmware must end up with -/
def cmdsOf (job : List Item) : List Text :=
  job.filterMap fun | .cmd c => some c | .skip => none

/-- Python `str.strip()` characters (ASCII part) -/
def isWs (c : Char) : Bool :=
  c = ' ' || c = '\t' || c = '\n' || c = '\r' || c.toNat = 11 || c.toNat = 12 ||
  (28 ≤ c.toNat && c.toNat ≤ 31)

def lstrip (t : Text) : Text := t.dropWhile isWs
def strip (t : Text) : Text := (lstrip (lstrip t).reverse).reverse

/-- `[^\(\)]*\)` : the rest after the closing parenthesis, if the text up to it has no parenthesis -/
def closeParen : Text → Option Text
  | [] => none
  | ')' :: r => some r
  | '(' :: _ => none
  | _ :: r => closeParen r

/-- `gcode_strip_comment_exp.sub("", line)` on one line without a line break:
    `\([^\(\)]*\)|;.*|[/\*].*\n` (the third alternative needs a `\n` and never matches) -/
def stripCommentsFuel : Nat → Text → Text
  | 0, t => t
  | _ + 1, [] => []
  | _ + 1, ';' :: _ => []
  | f + 1, '(' :: r =>
      match closeParen r with
      | some r' => stripCommentsFuel f r'
      | none => '(' :: stripCommentsFuel f r
  | f + 1, c :: r => c :: stripCommentsFuel f r

def stripComments (t : Text) : Text := stripCommentsFuel (t.length + 1) t

/-- one raw job line ↦ queue entry; `none` = dropped by `GCode.prepare` (blank after `strip()`) -/
def classify (raw : Text) : Option Item :=
  let l := strip raw
  if l.isEmpty then none
  else if (dropPrefix ";@".toList (lstrip l)).isSome then some .skip
  else
    let t := strip (stripComments l)
    if t.isEmpty then some .skip else some (.cmd t)

def prepare (raws : List Text) : List Item := raws.filterMap classify

/-! ## The transition system -/

structure Wire where
  text : Text
  good : Bool          -- false = corrupted in transit
deriving Repr, DecidableEq

inductive Reply where
  | ok
  | resend (n : Int)
  | err
deriving Repr, DecidableEq

structure St where
  -- sender (`printcore` attributes)
  qi         : Nat := 0            -- queueindex
  lineno     : Nat := 0
  resendfrom : Int := -1
  clear      : Bool := false
  printing   : Bool := true
  sent       : List Text := []     -- sentlines[0], sentlines[1], …
  -- the port
  txCount    : Nat := 0
  tx         : List Text := []     -- everything written so far, in order
  toFw       : List Wire := []     -- head = oldest
  toS        : List Reply := []
  -- firmware
  expected   : Int := 0
  accepted   : List Text := []
  -- monitors (ghost)
  mid        : Bool := false       -- a `Resend:` has been processed, the `ok` that follows it not yet
  split      : Bool := false       -- a sender step was taken while `mid`  (= SplitTriple occurred)
deriving Repr, DecidableEq

inductive Act where
  | sendnext | listen | fw
deriving Repr, DecidableEq

section
variable (job : List Item) (faulty : Nat → Bool)

/-- `self.printer.write((command + "\n").encode('ascii'))` -/
def transmit (s : St) (t : Text) : St :=
  { s with toFw := s.toFw ++ [⟨t, !faulty s.txCount⟩], txCount := s.txCount + 1, tx := s.tx ++ [t] }

/-- state right after `startprint`: `clear = False`, `_reset_line_numbers()` has written `M110 N-1`;
    the firmware expects line `e0` (Marlin boots expecting N1) -/
def init (e0 : Int) : St := transmit faulty { expected := e0 } resetFrame

/-- error reply of the firmware: `Error:…`, `Resend: <expected>`, `ok` -/
def triple (s : St) : St := { s with toS := s.toS ++ [.err, .resend s.expected, .ok] }

def step (s : St) : Act → Option St
  | .sendnext =>
      if s.printing && s.clear then
        let s := { s with clear := false, split := s.split || s.mid }
        if s.resendfrom < (s.lineno : Int) ∧ s.resendfrom > -1 then
          -- self._send(self.sentlines[self.resendfrom], self.resendfrom, False); self.resendfrom += 1
          match s.sent[s.resendfrom.toNat]? with
          | some t => some { transmit faulty s t with resendfrom := s.resendfrom + 1 }
          | none => none                                   -- KeyError (unreachable, `FInv`)
        else
          let s := { s with resendfrom := -1 }
          match (job[s.qi]? : Option Item) with
          | some (.cmd c) =>
              -- self._send(tline, self.lineno, True); self.lineno += 1; self.queueindex += 1
              let t := frame s.lineno c
              some { transmit faulty s t with sent := s.sent ++ [t], lineno := s.lineno + 1, qi := s.qi + 1 }
          | some .skip =>
              some { s with clear := true, qi := s.qi + 1 }
          | none =>
              -- sends_reset = not paused and _send_line_numbers (= True here); clear = not sends_reset;
              -- printing = False; queueindex = 0; _reset_line_numbers()  (lineno = 0; write `M110 N-1`):
              -- the trailing reset is written with `clear` kept False until its `ok` arrives
              some (transmit faulty { s with clear := false, printing := false, qi := 0, lineno := 0 } resetFrame)
      else none
  | .listen =>
      match s.toS with
      | [] => none
      | r :: rs =>
          let s := { s with toS := rs }
          match r with
          | .ok => some { s with clear := true, mid := false }
          | .resend n => some { s with resendfrom := n, clear := true, mid := true }
          | .err => some s
  | .fw =>
      match s.toFw with
      | [] => none
      | w :: ws =>
          let s := { s with toFw := ws }
          match decode w.text with
          | none => some { s with toS := s.toS ++ [.ok] }  -- unnumbered line (never written while printing)
          | some d =>
              if !(w.good && d.cs == xorFold d.pre) then some (triple s)
              else match m110Arg d.cmd with
                | some n => some { s with expected := n + 1, toS := s.toS ++ [.ok] }
                | none =>
                    if d.n ≠ s.expected then some (triple s)
                    else some { s with expected := s.expected + 1, accepted := s.accepted ++ [d.cmd],
                                       toS := s.toS ++ [.ok] }

def run (s : St) : List Act → Option St
  | [] => some s
  | a :: as => (step job faulty s a).bind fun s' => run s' as

/-- no action is enabled -/
def Quiescent (s : St) : Prop := ∀ a, step job faulty s a = none

def quiescentB (s : St) : Bool :=
  (step job faulty s .sendnext).isNone && (step job faulty s .listen).isNone && (step job faulty s .fw).isNone

/-- the sender runs until it blocks (`clear = False`) or the job ends: what one wake-up of the
    print thread does.  Used by the driver for the harness action `S`. -/
def sendAll : Nat → St → St
  | 0, s => s
  | f + 1, s => match step job faulty s .sendnext with
      | some s' => sendAll f s'
      | none => s
end

/-- the schedule did not split an error triple: no sender step between a `Resend:` and its `ok` -/
def NoSplit (s : St) : Prop := s.split = false

end GscribModel.Sender

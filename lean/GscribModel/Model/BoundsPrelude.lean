import GscribModel.Model.GenPrelude
/-! Hand-written prelude of the *generated* bounds manager (`Gen/BoundsSrc.lean`, written by `tools/gen_bounds.py`
    from `gscrib/geometry/bounds.py` and the comparison methods of `gscrib/geometry/point.py`): the Python run-time
    notions the translated statements are written with.  Everything here is an assumption of the tie (trusted base):

    * `PyErr` - the exception classes that can leave `BoundManager` (`ValueError`, `TypeError` raised by the source;
      `TypeError` from ordering a coordinate against `None` or unpacking `None`; `AttributeError` from using a number
      where a `Point` is needed, e.g. `(5.0).x`);
    * `BVal` - what a `Bound` / a validated value is at run time: a number (`int` or `float`, a `Val`) or a `Point` (`Pt`);
      `isinstance(v, Point)` = `isPoint`, `isinstance(v, (int, float))` = `isNumber`.  Other things typeguard lets through
      the `Bound` annotation (plain tuples, arrays) are outside the translation;
    * `BVal.cmp numOp ptOp a b` - Python's binary-operator dispatch for `a <op> b`: two numbers compare as floats
      (`Val.le/lt/ge/gt` of `GenPrelude`), two points by the *translated* `Point.__op__`, a number against a point ends in
      `AttributeError` (`float.__op__` returns `NotImplemented`, the reflected `Point` method reads `other.x`);
    * `BVal.callPt2 m v a b` - the method call `v.m(a, b)` of a `Point` method that reads `.x/.y/.z` of both arguments;
    * `OQ.leE / ltE / eqE` - `<=` `<` `==` on coordinates, `None` in an ordering raises `TypeError`;
    * `andE / orE / notE` - `and` / `or` / `not` with Python's left-to-right short-circuit over operands that may raise;
    * `BDict` - the `dict` `self._bounds`, observed only through `in`, `.get` and item assignment: a finite map as a function.
    Mathlib-free. -/
namespace GscribModel.BoundsPrelude
open GscribModel.Builder GscribModel.GenPrelude

inductive PyErr where
  | valueError | typeError | attributeError
deriving DecidableEq, Repr

inductive BVal where
  | num (v : Val)
  | pt (p : Pt)
deriving DecidableEq, Repr

def BVal.isPoint : BVal → Bool
  | .pt _ => true
  | .num _ => false

def BVal.isNumber : BVal → Bool
  | .num _ => true
  | .pt _ => false

def BVal.cmp (numOp : Val → Val → Bool) (ptOp : Pt → Pt → Except PyErr Bool) : BVal → BVal → Except PyErr Bool
  | .num a, .num b => .ok (numOp a b)
  | .pt a, .pt b => ptOp a b
  | _, _ => .error .attributeError

def BVal.callPt2 (m : Pt → Pt → Pt → Bool) : BVal → BVal → BVal → Except PyErr Bool
  | .pt p, .pt a, .pt b => .ok (m p a b)
  | _, _, _ => .error .attributeError

def OQ.leE : OQ → OQ → Except PyErr Bool
  | some a, some b => .ok (decide (a ≤ b))
  | _, _ => .error .typeError

def OQ.ltE : OQ → OQ → Except PyErr Bool
  | some a, some b => .ok (decide (a < b))
  | _, _ => .error .typeError

def OQ.eqE (a b : OQ) : Except PyErr Bool := .ok (decide (a = b))

/-- `a and b`: `b` is evaluated only when `a` is true -/
def andE (a b : Except PyErr Bool) : Except PyErr Bool :=
  match a with
  | .error e => .error e
  | .ok false => .ok false
  | .ok true => b

/-- `a or b`: `b` is evaluated only when `a` is false -/
def orE (a b : Except PyErr Bool) : Except PyErr Bool :=
  match a with
  | .error e => .error e
  | .ok true => .ok true
  | .ok false => b

def notE (a : Except PyErr Bool) : Except PyErr Bool :=
  match a with
  | .error e => .error e
  | .ok v => .ok (!v)

abbrev BDict := String → Option (BVal × BVal)

def BDict.empty : BDict := fun _ => none
def BDict.get (d : BDict) (k : String) : Option (BVal × BVal) := d k
def BDict.contains (d : BDict) (k : String) : Bool := (d k).isSome
def BDict.set (d : BDict) (k : String) (v : BVal × BVal) : BDict := fun k' => if k' = k then some v else d k'

end GscribModel.BoundsPrelude

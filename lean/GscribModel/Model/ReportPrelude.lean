import GscribModel.Model.Report
/-! Prelude of the `report` translator tie (`tools/gen_report.py` -> `Gen/ReportSrc.lean`): the Python built-ins that
    `PrintrunWriter._on_device_message / _parse_message / _update_param / get_parameter` call, given a meaning on the
    model's strings (`Str = List Char`).  Hand-written, Mathlib-free, part of the trusted base.  What it assumes:

    * **Strings are ASCII.**  `str.strip`, `str.lower` are the model's `strip`, `lower` (validated against the real
      writer by `harness/c18.py`); `str.upper` maps `Char.toUpper`; `str.isalnum` is "non-empty, every character in
      `[A-Za-z0-9]`".  Outside ASCII Python knows more blanks, digits and case pairs (`'ß'.upper() == 'SS'`).
    * **The regular expression is not translated.**  `Re.findall r s` is the model's scanner `scan s` when `r` is compiled
      from `scanPattern` - the pattern text `Model/Report.lean` says `scan` stands for (equivalence with Python's `re`
      is validated on >= 10^5 strings per run by `harness/c18.py`, not proved) - and finds nothing for any other
      pattern (then `ReportTie_constants` is already broken).
    * `float(s)` is the model's `parseFloat` (exact rational of the decimal text; the implementation holds the nearest
      double; only strings over `[-0-9.]` are meaningful), failure is `ValueError`.  Exceptions are compared by class
      only; the only class the translated code can raise by itself is `ValueError` (`float()` of a non-number,
      unpacking a list of the wrong length into a tuple of names).
    * `set` is a duplicate-free list (newest first); `ParamsDict` (gscrib/params.py: `__setitem__` and `get`
      upper-case the key - the translator checks the text of these two methods) is an association list, newest
      binding first, so that `get` sees the latest binding.
    * `map(f, xs)` is **lazy**: a `Seq` is the list of the results the iterator will produce, element `i` being
      looked at only when a loop reaches it; `zip(a, lazy)` asks `a` first (a lazy element beyond the length of `a` is
      never evaluated); a `for` loop stops at the first element that raises, and at the first body that raises,
      keeping what the earlier iterations did.
    * `threading.Event` is the flag `is_set()`; logger calls do nothing and never raise. -/
namespace GscribModel.ReportPy
open GscribModel.Report

/-- exception classes raised inside the translated code -/
inductive Exc where
  | valueError
deriving Repr, DecidableEq

/-- exception *objects* stored in `_device_error`: `DeviceError(message)`; `GscribError(f"Internal error: …")`
    (its text is derived from `str(e)` and is dropped) -/
inductive ErrObj where
  | deviceError (msg : Str)
  | gscribError
deriving Repr, DecidableEq

/-- state and exception (if any) at the moment a translated procedure returned or raised -/
abbrev Res (σ : Type) := σ × Option Exc

namespace Py
/-! ### str -/
def strip (s : Str) : Str := Report.strip s
def lower (s : Str) : Str := Report.lower s
def upper (s : Str) : Str := s.map Char.toUpper
def len {α : Type} (l : List α) : Nat := l.length
/-- `s.startswith(p)` for a string `p` -/
def startswith (s p : Str) : Bool := p.isPrefixOf s
/-- `s.startswith(ps)` for a tuple of strings `ps` -/
def startswithAny (s : Str) (ps : List Str) : Bool := ps.any fun p => p.isPrefixOf s
def isalnum (s : Str) : Bool := !s.isEmpty && s.all isAlnum
/-- `x in (a, b, …)` -/
def isIn (x : Str) (xs : List Str) : Bool := xs.contains x

/-- `s.split(sep)` for a one-character separator -/
def split (s : Str) (sep : Char) : List Str :=
  match s with
  | [] => [[]]
  | c :: cs =>
    match split cs sep with
    | [] => [[c]]          -- unreachable: the result is never empty
    | p :: ps => if c = sep then [] :: p :: ps else (c :: p) :: ps

/-- `float(s)` -/
def float (s : Str) : Except Exc Rat :=
  match parseFloat s with
  | some q => .ok q
  | none => .error .valueError

end Py

/-! ### re -/
/-- the pattern text that `Report.scan` stands for (header of `Model/Report.lean`):
    `([A-Za-z0-9]+):([-\d\.]+(?:,[-\d\.]+)*)` -/
def scanPattern : Str :=
  ['(', '[', 'A', '-', 'Z', 'a', '-', 'z', '0', '-', '9', ']', '+', ')', ':', '(', '[', '-', '\\', 'd', '\\', '.', ']', '+',
   '(', '?', ':', ',', '[', '-', '\\', 'd', '\\', '.', ']', '+', ')', '*', ')']

/-- `re.compile(pattern)` -/
structure Re where
  pattern : Str
deriving Repr, DecidableEq

/-- `r.findall(s)` (two groups: a list of pairs) -/
def Re.findall (r : Re) (s : Str) : List (Str × Str) := if r.pattern = scanPattern then scan s else []

/-! ### set, ParamsDict, Event -/
abbrev PySet := List Str
def PySet.contains (s : PySet) (x : Str) : Bool := List.contains s x
def PySet.add (s : PySet) (x : Str) : PySet := if List.contains s x then s else x :: s
def PySet.clear (_ : PySet) : PySet := []

abbrev ParamsDict := List (Str × Rat)
/-- `d[key] = value` (`ParamsDict.__setitem__`: `super().__setitem__(key.upper(), value)`) -/
def ParamsDict.setitem (d : ParamsDict) (key : Str) (value : Rat) : ParamsDict := (Py.upper key, value) :: d
/-- `d.get(key)` (`ParamsDict.get`: `super().get(key.upper(), default)`) -/
def ParamsDict.get (d : ParamsDict) (key : Str) : Option Rat := d.lookup (Py.upper key)

abbrev Event := Bool
def Event.set (_ : Event) : Event := true

/-! ### lazy iterators, loops, try -/
abbrev Seq (α : Type) := List (Except Exc α)
namespace Py
/-- `map(f, xs)` -/
def mapLazy {α β : Type} (f : α → Except Exc β) (xs : List α) : Seq β := xs.map f
/-- `zip(xs, ys)` with `ys` lazy -/
def zipLazy {α β : Type} (xs : List α) (ys : Seq β) : Seq (α × β) :=
  List.zipWith (fun a r => r.map fun b => (a, b)) xs ys

/-- `for x in xs: body` over a lazy iterator -/
def forSeq {σ α : Type} (xs : Seq α) (s : σ) (body : σ → α → Res σ) : Res σ :=
  match xs with
  | [] => (s, none)
  | .error e :: _ => (s, some e)
  | .ok x :: rest =>
    match body s x with
    | (s, some e) => (s, some e)
    | (s, none) => forSeq rest s body

/-- `for x in xs: body` over a list -/
def forList {σ α : Type} (xs : List α) (s : σ) (body : σ → α → Res σ) : Res σ :=
  match xs with
  | [] => (s, none)
  | x :: rest =>
    match body s x with
    | (s, some e) => (s, some e)
    | (s, none) => forList rest s body

/-- `try: body  except Exception as e: handler` (the last statement of its block) -/
def tryExcept {σ : Type} (body : Res σ) (handler : σ → Exc → Res σ) : Res σ :=
  match body with
  | (s, some e) => handler s e
  | (s, none) => (s, none)

end Py
end GscribModel.ReportPy

/-! Model of direct writing through `gscrib.writers.PrintrunWriter` (`SerialWriter`, `SocketWriter`)
    on top of `gscrib.printrun.printcore` as a labelled transition system.  Mathlib-free.

    Threads and their atomic steps (every interleaving is a `List Act`):

    * **caller** — `connect()`: wait for `_online_event` + `_abort_on_device_error` + `startprint([])`
      (`cOnline`), then poll `has_pending_operations` (`cPoll`); `write()` split into its four real
      steps `_ack_event.clear()` (`wClear`), `printcore.send` → priority queue (`wEnq`),
      `_ack_event.wait()` returning (`wWake`), `_abort_on_device_error()` (`wFinish`);
      `disconnect(wait=True)` (`cDisc`): `_wait_for_pending_operations` raises a stored error - while
      something is pending or, repaired code, once more after the loop - and otherwise returns when
      nothing is pending (`cPoll` is the same function called by `connect()`);
    * **reader thread** — `_listen_until_online` sending a probe `G4 P0` (`lProbe`, again after 15
      empty reads) and one received line handed to `recvcb = _on_device_message` and then to
      `_listen` (`lListen`); a read error / end of stream (`xLoss`);
    * **print thread** — one pass of `_sendnext` once `clear` (`pSendnext`): with the empty start-up
      job this is the end-of-job branch, which lowers `printing`, keeps `clear` down and sends the
      trailing `M110` (repaired code: the reset is awaited like any command); without line numbers
      (`_send_line_numbers = False`, set by a `Grbl` greeting) no `M110` is sent, neither by `startprint`
      nor at the end of the job, and the end-of-job branch raises `clear`;
    * **sender thread** — pops the priority queue and writes to the port (`sSend`; it is stopped
      while the print thread runs);
    * **device** — consumes one received command and answers with status lines followed by exactly
      one terminal reply, `ok…` or `error…|alarm…|!!…` (`dProcess`), after any delay; it may also push,
      at any time, a line that is not the terminal reply of any command but sets the writer's flags:
      a surplus `ok` (e.g. the `ok` Marlin sends after an `Error:` line) or an unsolicited
      `error…|alarm…|!!…` line (e.g. Grbl's `ALARM:1` after the move was acknowledged) (`dPush`); and it
      may emit the greeting `Grbl …` (`dGreet`; a Grbl controller does so when the port is opened): read
      by `_listen_until_online` it switches line numbering off and brings printcore online - `connect()`
      then waits for the `ok` of the probe that is still unanswered instead of the `ok` of an `M110` -,
      read by `_listen` it only raises `clear`.

    Commands carry ghost identities (`probe`, `reset`, `stmt k` = the k-th statement handed to
    `write`); the model never inspects or alters a payload.  Ghost fields (`heard`, `devBad`,
    `backlog`, `probes`, `discRaised`, `surplusHit`, `anyXbad`, `dueErr`) are written, never read, by the transitions
    (`lineNumbers` is not a ghost: it is `printcore._send_line_numbers`). -/
namespace GscribModel.DirectWrite

inductive Cmd where
  | probe                 -- `G4 P0` sent by `_listen_until_online`
  | reset                 -- `M110 N-1` sent by `_reset_line_numbers`
  | stmt (k : Nat)        -- k-th statement passed to `write()`
deriving Repr, DecidableEq

inductive Reply where
  | status                -- neither `ok…` nor `error…|alarm…|!!…`, no "T:" inside
  | temp                  -- same, but contains "T:" (brings printcore online during the handshake)
  | ok (c : Cmd)          -- terminal: acknowledgement (c is ghost: the command the device answered)
  | bad (c : Cmd)         -- terminal: error reply
  | xok                   -- surplus `ok…`: acknowledges nothing, but sets the ack event / `clear`
  | xbad                  -- unsolicited `error…|alarm…|!!…` line: not the reply to any command
  | greet                 -- greeting `Grbl …`: not a reply; no line numbers + online, or (already online) raises `clear`
deriving Repr, DecidableEq

def Reply.terminal : Reply → Bool
  | .ok _ => true | .bad _ => true | _ => false

inductive CPhase where
  | waitOnline            -- connect(): `_wait_for_connection`
  | waitPending           -- connect(): `_start_print_thread` → `_wait_for_pending_operations`
  | connected             -- connect() returned
  | failed                -- connect() raised (device torn down)
  | disconnected          -- disconnect(wait=True) finished (device torn down)
deriving Repr, DecidableEq

inductive WState where
  | idle
  | cleared (k : Nat)     -- `_ack_event.clear()` done, statement not yet queued
  | waiting (k : Nat)     -- queued; blocked in `_ack_event.wait()`
  | woke (k : Nat)        -- `wait()` returned; `_abort_on_device_error()` not yet run
deriving Repr, DecidableEq

structure St where
  cphase   : CPhase := .waitOnline
  online   : Bool := false            -- printcore.online
  printing : Bool := false            -- printcore.printing
  clear    : Bool := true             -- printcore.clear (`_listen` starts with `clear = True`)
  lost     : Bool := false            -- the reader thread saw a read error / EOF; port writes fail
  next     : Nat := 0                 -- number of statements queued so far = id of the next one
  wstate   : WState := .idle
  ack      : Bool := false            -- `_ack_event`
  err      : Bool := false            -- `_device_error is not None`
  priq     : List Cmd := []           -- printcore.priqueue
  toDev    : List Cmd := []           -- written to the port, not yet consumed by the device
  toHost   : List Reply := []         -- reply lines on the wire (head = oldest)
  devLog   : List Cmd := []           -- device receive log
  heard    : List Cmd := []           -- ghost: commands whose terminal reply the reader has processed
  devBad   : List Cmd := []           -- ghost: commands the device answered with an error reply
  outcomes : List (Nat × Bool) := []  -- (statement, raised DeviceError?) in order of completion
  backlog  : Bool := false            -- ghost: a command was still unanswered when `startprint` ran
  probes   : Nat := 0                 -- ghost: number of probes sent
  discRaised : Bool := false          -- ghost: disconnect(wait=True) re-raised a stored error
  surplusHit : Bool := false          -- ghost: a surplus/unsolicited flag-setting line was read while connect()
                                      --   awaited a reset or a write() had cleared the flag and not yet seen its own reply
  anyXbad  : Bool := false            -- ghost: an unsolicited error line has been read
  dueErr   : Bool := false            -- ghost: an error line has been read and not yet raised to the caller
  lineNumbers : Bool := true          -- printcore._send_line_numbers (lowered by a `Grbl` greeting read before online)
deriving Repr, DecidableEq

inductive Act where
  | lProbe | lListen | xLoss
  | cOnline | pSendnext | cPoll | cDisc
  | wClear | wEnq | wWake | wFinish
  | sSend
  | dProcess (pre : List Bool) (isErr : Bool)   -- `pre`: one non-terminal line each, `true` = contains "T:"
  | dPush (isErr : Bool)                         -- a surplus `ok` (false) / an unsolicited error line (true)
  | dGreet                                       -- the greeting `Grbl …`
deriving Repr, DecidableEq

/-- terminal replies still on the wire -/
def termOf (l : List Reply) : List Reply := l.filter (·.terminal)

/-- `PrintrunWriter.has_pending_operations` (the device object exists and is online) -/
def pending (s : St) : Bool := s.printing || !s.clear || !s.priq.isEmpty

/-- `printcore._send`: write one command to the port.  After a connection loss the port write
    raises, `logError` → `errorcb = _on_printrun_error` stores the error and sets the ack event
    (the command is still appended to `toDev`, which the device no longer reads). -/
def tx (s : St) (c : Cmd) : St :=
  if s.lost then { s with toDev := s.toDev ++ [c], err := true, ack := true }
  else { s with toDev := s.toDev ++ [c] }

/-- `printcore._reset_line_numbers`: `M110 N-1` is written in line-number mode only -/
def txReset (s : St) : St := if s.lineNumbers then tx s .reset else s

/-- exactly one command is unanswered and it is a connect probe -/
def probeFlight (s : St) : Bool :=
  decide (s.toDev = [.probe] ∧ termOf s.toHost = [])
  || decide (s.toDev = [] ∧ (termOf s.toHost = [.ok .probe] ∨ termOf s.toHost = [.bad .probe]))

/-- Ghost `backlog`, evaluated as `startprint` runs.  Line-number mode: the `M110` it sends must be the only
    unanswered command.  Without line numbers nothing is sent and `clear` is raised by the `ok` of the one
    probe that is still unanswered: two or more unanswered probes are a backlog.  (None at all: nothing will
    ever raise `clear` and `connect()` never returns - a liveness defect, no backlog.) -/
def backlogAt (s : St) : Bool :=
  if s.lineNumbers then !(s.toDev.isEmpty && (termOf s.toHost).isEmpty)
  else !((s.toDev.isEmpty && (termOf s.toHost).isEmpty) || probeFlight s)

/-- Would a flag-setting line that is nobody's terminal reply do harm right now?  Yes while `connect()`
    awaits a line-number reset (it raises `clear`), and while a `write()` has cleared the acknowledgement
    flag and the reply to its own statement has not been read yet (the flag survives until `wait()`). -/
def surplusNow (s : St) : Bool :=
  s.cphase == .waitPending ||
  match s.wstate with
  | .cleared _ => true
  | .waiting k => !(s.heard.contains (.stmt k))
  | _ => false

/-- One received line: `_on_device_message` (classification by prefix), then `_listen_until_online`
    (not yet online: `ok…` / "T:" bring the printer online) or `_listen` (`ok…` sets `clear`). -/
def hear (s : St) : Reply → St
  | .status => s
  | .temp => if s.online then s else { s with online := true }
  | .ok c =>
      if s.online then { s with ack := true, heard := s.heard ++ [c], clear := true }
      else { s with ack := true, heard := s.heard ++ [c], online := true }
  | .bad c => { s with ack := true, err := true, heard := s.heard ++ [c], dueErr := true }
  | .xok =>
      if s.online then { s with ack := true, clear := true, surplusHit := s.surplusHit || surplusNow s }
      else { s with ack := true, online := true, surplusHit := s.surplusHit || surplusNow s }
  | .xbad => { s with ack := true, err := true, anyXbad := true, dueErr := true,
                      surplusHit := s.surplusHit || surplusNow s }
  | .greet =>
      -- `_listen`: a greeting raises `clear` (harmful only while `connect()` awaits an acknowledgement);
      -- `_listen_until_online`: "Grbl" switches line numbers off, the greeting brings printcore online
      if s.online then { s with clear := true, surplusHit := s.surplusHit || s.cphase == .waitPending }
      else { s with online := true, lineNumbers := false }

def preLine (t : Bool) : Reply := if t then .temp else .status

def stepLive (s : St) : Act → Option St
  | .lProbe =>
      if s.online = false ∧ s.lost = false then
        some { s with toDev := s.toDev ++ [.probe], probes := s.probes + 1 }
      else none
  | .lListen =>
      if s.lost then none else
      match s.toHost with
      | [] => none
      | r :: rs => some (hear { s with toHost := rs } r)
  | .xLoss =>
      if s.lost then none
      else some { s with lost := true, err := true, ack := true, clear := true }
  | .cOnline =>
      if s.cphase = .waitOnline ∧ s.online = true then
        if s.err then some { s with err := false, dueErr := false, cphase := .failed }
        else some (txReset { s with printing := true, clear := false, cphase := .waitPending,
                                    backlog := backlogAt s })
      else none
  | .pSendnext =>
      if s.printing = true ∧ s.clear = true then
        match s.priq with
        | c :: cs => some (tx { s with clear := false, priq := cs } c)
        | [] => some (txReset { s with clear := !s.lineNumbers, printing := false })
      else none
  | .cPoll =>
      if s.cphase = .waitPending then
        if s.err then some { s with err := false, dueErr := false, cphase := .failed }
        else if pending s then none
        else some { s with cphase := .connected }
      else none
  | .cDisc =>
      if s.cphase = .connected then
        if s.err then some { s with err := false, dueErr := false, cphase := .disconnected, discRaised := true }
        else if pending s then none
        else some { s with cphase := .disconnected }
      else none
  | .wClear =>
      if s.cphase = .connected ∧ s.wstate = .idle then
        some { s with ack := false, wstate := .cleared s.next }
      else none
  | .wEnq =>
      match s.wstate with
      | .cleared k => some { s with priq := s.priq ++ [.stmt k], next := s.next + 1, wstate := .waiting k }
      | _ => none
  | .wWake =>
      match s.wstate with
      | .waiting k => if s.ack then some { s with wstate := .woke k } else none
      | _ => none
  | .wFinish =>
      match s.wstate with
      | .woke k => some { s with outcomes := s.outcomes ++ [(k, s.err)], err := false, dueErr := false, wstate := .idle }
      | _ => none
  | .sSend =>
      if s.printing then none else
      match s.priq with
      | [] => none
      | c :: cs => some (tx { s with priq := cs } c)
  | .dProcess pre isErr =>
      if s.lost then none else
      match s.toDev with
      | [] => none
      | c :: cs =>
          some { s with toDev := cs, devLog := s.devLog ++ [c],
                        devBad := if isErr then s.devBad ++ [c] else s.devBad,
                        toHost := s.toHost ++ pre.map preLine ++ [if isErr then .bad c else .ok c] }
  | .dPush isErr =>
      if s.lost then none else some { s with toHost := s.toHost ++ [if isErr then .xbad else .xok] }
  | .dGreet =>
      if s.lost then none else some { s with toHost := s.toHost ++ [.greet] }

/-- the writer's device object is gone: nothing runs any more -/
def halted (s : St) : Bool := s.cphase == .failed || s.cphase == .disconnected

def step (s : St) (a : Act) : Option St :=
  if halted s then none else stepLive s a

def run (s : St) : List Act → Option St
  | [] => some s
  | a :: as => (step s a).bind (fun s' => run s' as)

/-- ids of the user statements in a list of commands -/
def stmtIds : List Cmd → List Nat
  | [] => []
  | .stmt k :: cs => k :: stmtIds cs
  | _ :: cs => stmtIds cs

/-! ### Scheduler used by the driver and by the `decide` witnesses

`settle` lets the host threads run until all of them are blocked (fixed priority order, bounded by
`fuel`); the caller issues `nwrites` statements and then, if `disc`, calls `disconnect(wait=True)`. -/

structure Cfg where
  nwrites : Nat := 0
  disc    : Bool := false
  gated   : Bool := false   -- the caller starts a `write()` / `disconnect()` only when told to (`permits`)
  permits : Nat := 0
deriving Repr

def callerMay (cfg : Cfg) : Bool := !cfg.gated || cfg.permits > 0

def hostActs (cfg : Cfg) (s : St) : List Act :=
  [.cOnline, .pSendnext, .cPoll, .sSend, .wWake, .wFinish]
  ++ (if s.next < cfg.nwrites ∧ callerMay cfg then [.wClear] else [])
  ++ [.wEnq]
  ++ (if cfg.disc ∧ s.next = cfg.nwrites ∧ s.wstate = .idle ∧ callerMay cfg then [.cDisc] else [])

def firstEnabled (s : St) : List Act → Option (St × Act)
  | [] => none
  | a :: as => match step s a with
      | some s' => some (s', a)
      | none => firstEnabled s as

/-- a permit is used up by the caller step that starts a call -/
def spend (cfg : Cfg) (a : Act) : Cfg :=
  if cfg.gated ∧ (a = .wClear ∨ a = .cDisc) then { cfg with permits := cfg.permits - 1 } else cfg

def settle : Nat → Cfg → St → St × Cfg
  | 0, cfg, s => (s, cfg)
  | fuel + 1, cfg, s => match firstEnabled s (hostActs cfg s) with
      | some (s', a) => settle fuel (spend cfg a) s'
      | none => (s, cfg)

/-- try one action; `none` if it is not enabled -/
def tryAct (s : St) (a : Act) : St × Bool :=
  match step s a with
  | some s' => (s', true)
  | none => (s, false)

end GscribModel.DirectWrite

/-! Prelude of the `recv` translator tie (`tools/gen_recv.py` -> `Gen/RecvSrc.lean`): the objects and Python built-ins that
    the translated reception path of the bundled sender reads - `printcore._readline` (`gscrib/printrun/printcore.py`)
    and the properties `Device.has_flow_control` / `Device.is_connected` (`gscrib/printrun/device.py`).
    Hand-written, Mathlib-free, imports nothing, part of the trusted base.  What it assumes:

    * **The printcore object** is the record `Printcore` of the attributes `_readline` may read or assign (`online`, `loud`,
      `stop_read_thread`, `log`, `event_handler`, `recvcb`) plus a ghost `trace`: every call made to a client or to the
      logging machinery, oldest first (`Ev`).  `online` is a field although the pinned source does not read it, so that
      "does not depend on `online`" can be stated - and so that a source that *does* read it still translates.
    * **Clients are opaque.**  An event handler is an identity and whether its `on_recv` raises on this call
      (`Handler.raises`; `_readline` calls each handler at most once); `recvcb` is `none` (not set / falsy) or a callable
      that returns or raises.  A client that raises raises *some* `Exception` that is none of the classes named in an
      `except` clause of the translated text (`PyErr.exception`).  Clients do not touch the printcore object.
    * `self.logError(..)`, `self._logger.error(..)`, `self._logger.info(..)` are recorded as events, return normally, and
      their **message arguments are not translated** (evaluating a message expression has no effect and does not raise;
      the translator accepts only string building there).  `logError` is not entered (it would call `on_error` /
      `errorcb`): it is one event.
    * `self.printer.readline()` is the parameter `read : Read` of the translated method: end of stream (`READ_EOF`), the
      bytes of a line (possibly `b''`), or `DeviceError` raised.  `self.printer` is a `Device` (not `None`:
      `_listen_can_continue` tests it before every call).  It is read at most once per call.
    * **Texts** are lists of Unicode scalar values (`Text = List Char`), `len` counts them, as Python does.
      `bytes.decode('utf-8')` is `decodeUtf8` below: strict UTF-8 (no overlong forms, no surrogates, nothing above
      U+10FFFF), `none` = `UnicodeDecodeError`; bytes are naturals `< 256`.  `harness/tie_recv.py` compares it with
      CPython on random byte strings.
    * `collections.deque(maxlen = n).append(x)`: `dequeAppend n` (appends, then drops from the left what exceeds `n`).
    * **The device object** is the record `Device` of the attributes the two properties may read: `_type` (`None`,
      `'serial'`, `'socket'`, or any other string), `_device` (`None` or an object whose only attribute read is `is_open`),
      `_is_connected`, `force_dtr` (`None` / a truth value).  `getattr(self, "<prefix>" + self._type)()` is resolved by the
      translator among the methods of the class (`TypeError` on `None`, `AttributeError` on an unknown suffix).
    Exceptions are compared by class only. -/
namespace GscribModel.RecvPy

abbrev Bytes := List Nat
abbrev Text := List Char

inductive PyErr where
  | unicodeDecodeError | deviceError | attributeError | typeError
  | exception            -- whatever a client raises
deriving Repr, DecidableEq

/-- the exception classes an `except` clause names -/
inductive ExcClass where
  | unicodeDecodeError | deviceError | attributeError | typeError
  | exception            -- `Exception`, `BaseException`, or a bare `except:`
deriving Repr, DecidableEq

namespace PyErr
def isa : PyErr → ExcClass → Bool
  | _, .exception => true
  | .unicodeDecodeError, .unicodeDecodeError => true
  | .deviceError, .deviceError => true
  | .attributeError, .attributeError => true
  | .typeError, .typeError => true
  | _, _ => false
/-- `isinstance(e, (C1, C2, …))` -/
def isinstance (e : PyErr) (cs : List ExcClass) : Bool := cs.any (isa e)
end PyErr

/-- an object registered with `addEventHandler`: who it is, and whether its `on_recv` raises on this call -/
structure Handler where
  id : Nat
  raises : Bool
deriving Repr, DecidableEq

/-- a callable stored in `self.recvcb` -/
structure Callback where
  raises : Bool
deriving Repr, DecidableEq

/-- calls made by `_readline`, in order -/
inductive Ev where
  | on_recv (handler : Nat) (line : Text)    -- `handler.on_recv(line)`
  | recvcb (line : Text)                     -- `self.recvcb(line)`
  | logError                                 -- `self.logError(<message>)`
  | logger_error                             -- `self._logger.error(<message>)`
  | logger_info                              -- `self._logger.info(<message>)`
deriving Repr, DecidableEq

structure Printcore where
  online : Bool
  loud : Bool
  stop_read_thread : Bool
  log : List Text
  event_handler : List Handler
  recvcb : Option Callback
  trace : List Ev
deriving Repr, DecidableEq

/-- what `self.printer.readline()` does on this call -/
inductive Read where
  | eof                    -- returns `READ_EOF` (`None`)
  | data (b : Bytes)       -- returns these bytes (`b''` on a timeout)
  | deviceError            -- raises `DeviceError`
deriving Repr, DecidableEq

structure Port where
  is_open : Bool
deriving Repr, DecidableEq

structure Device where
  _type : Option String
  _device : Option Port
  _is_connected : Bool
  force_dtr : Option Bool
deriving Repr, DecidableEq

namespace Py
/-! ### UTF-8 -/
def cont (b : Nat) : Bool := 0x80 ≤ b && b ≤ 0xBF

/-- `b.decode('utf-8')`, `none` = `UnicodeDecodeError` -/
def decodeUtf8 : Bytes → Option Text
  | [] => some []
  | b0 :: r0 =>
    if b0 < 0x80 then (decodeUtf8 r0).map (Char.ofNat b0 :: ·)
    else match r0 with
      | [] => none
      | b1 :: r1 =>
        if 0xC2 ≤ b0 && b0 ≤ 0xDF then
          if cont b1 then (decodeUtf8 r1).map (Char.ofNat ((b0 - 0xC0) * 64 + (b1 - 0x80)) :: ·) else none
        else match r1 with
          | [] => none
          | b2 :: r2 =>
            if 0xE0 ≤ b0 && b0 ≤ 0xEF then
              if cont b1 && cont b2 && (b0 != 0xE0 || 0xA0 ≤ b1) && (b0 != 0xED || b1 ≤ 0x9F) then
                (decodeUtf8 r2).map (Char.ofNat ((b0 - 0xE0) * 4096 + (b1 - 0x80) * 64 + (b2 - 0x80)) :: ·)
              else none
            else match r2 with
              | [] => none
              | b3 :: r3 =>
                if 0xF0 ≤ b0 && b0 ≤ 0xF4 && cont b1 && cont b2 && cont b3 && (b0 != 0xF0 || 0x90 ≤ b1) && (b0 != 0xF4 || b1 ≤ 0x8F) then
                  (decodeUtf8 r3).map (Char.ofNat ((b0 - 0xF0) * 262144 + (b1 - 0x80) * 4096 + (b2 - 0x80) * 64 + (b3 - 0x80)) :: ·)
                else none

/-- `x.decode('utf-8')` for a value that may be `None` -/
def decode_utf8 : Option Bytes → Except PyErr Text
  | none => .error .attributeError
  | some b => match decodeUtf8 b with
      | some t => .ok t
      | none => .error .unicodeDecodeError

/-! ### built-ins -/
def len {α : Type} (l : List α) : Int := l.length
def truthyOpt {α : Type} (o : Option α) : Bool := o.isSome
/-- `bool(x)` for `None` / a truth value -/
def truthyOptBool : Option Bool → Bool
  | some b => b
  | none => false
/-- `deque(maxlen = n).append(x)` -/
def dequeAppend (n : Nat) (q : List Text) (x : Text) : List Text := (q ++ [x]).drop ((q ++ [x]).length - n)

/-! ### the environment of `_readline` -/
def emit (self : Printcore) (e : Ev) : Printcore := { self with trace := self.trace ++ [e] }
def logError (self : Printcore) : Printcore := emit self .logError
def logger_error (self : Printcore) : Printcore := emit self .logger_error
def logger_info (self : Printcore) : Printcore := emit self .logger_info

/-- `self.printer.readline()` -/
def printer_readline (self : Printcore) : Read → Printcore × Except PyErr (Option Bytes)
  | .eof => (self, .ok none)
  | .data b => (self, .ok (some b))
  | .deviceError => (self, .error .deviceError)

/-- `handler.on_recv(line)` -/
def on_recv (self : Printcore) (h : Handler) (line : Text) : Printcore × Except PyErr Unit :=
  (emit self (.on_recv h.id line), if h.raises then .error .exception else .ok ())

/-- `self.recvcb(line)` (calling `None` is `TypeError`) -/
def call_recvcb (self : Printcore) (line : Text) : Printcore × Except PyErr Unit :=
  match self.recvcb with
  | none => (self, .error .typeError)
  | some cb => (emit self (.recvcb line), if cb.raises then .error .exception else .ok ())

/-- `for x in l: <body>` (the body neither returns nor breaks; an exception leaves the loop) -/
def forEach {α : Type} : List α → Printcore → (Printcore → α → Printcore × Except PyErr Unit) → Printcore × Except PyErr Unit
  | [], s, _ => (s, .ok ())
  | x :: xs, s, f =>
    match f s x with
    | (s', .error e) => (s', .error e)
    | (s', .ok _) => forEach xs s' f

/-! ### the environment of the `Device` properties -/
/-- `self._device.is_open` -/
def is_open : Option Port → Except PyErr Bool
  | some p => .ok p.is_open
  | none => .error .attributeError
end Py

end GscribModel.RecvPy

import GscribModel.Model.Builder
/-! # Independent interpreters of the emitted program

* `Flags` — the tool/coolant interlock view of a controller (C02);
* `Machine` — G0/G1/G90/G91/G92/G28/G38.x position semantics with unknown coordinates (C01);
* `Modal` — what a modal G-code interpreter remembers (C07).
They read only `Stmt`s (codes and words), never the builder. -/
namespace GscribModel.Builder

/-! ## interlock flags -/
structure Flags where
  tool : Bool := false
  cool : Bool := false
deriving DecidableEq, Repr

def Code.isToolStart : Code → Bool | .M03 | .M04 => true | _ => false
def Code.isCoolStart : Code → Bool | .M07 | .M08 => true | _ => false
def Code.isToolStop : Code → Bool | .M05 => true | _ => false
def Code.isCoolStop : Code → Bool | .M09 => true | _ => false
/-- tool change and every halt / wait code -/
def Code.needsIdle : Code → Bool
  | .M06 | .M00 | .M01 | .M02 | .M30 | .M60 | .M109 | .M190 | .M191 | .M400 => true
  | _ => false

def toolStart (s : Stmt) : Bool := s.codes.any Code.isToolStart
def coolStart (s : Stmt) : Bool := s.codes.any Code.isCoolStart
def toolStop (s : Stmt) : Bool := s.codes.any Code.isToolStop
def coolStop (s : Stmt) : Bool := s.codes.any Code.isCoolStop
def needsIdle (s : Stmt) : Bool := s.codes.any Code.needsIdle

/-- is it safe to execute `s` with the machine in state `f`? -/
def Flags.safe (f : Flags) (s : Stmt) : Bool :=
  (!toolStart s || !f.tool) && (!coolStart s || !f.cool) && (!needsIdle s || (!f.tool && !f.cool))

def Flags.exec (f : Flags) (s : Stmt) : Flags :=
  let f1 := if toolStart s then { f with tool := true } else if toolStop s then { f with tool := false } else f
  if coolStart s then { f1 with cool := true } else if coolStop s then { f1 with cool := false } else f1

/-- every statement of the sequence is safe at the moment it is executed -/
def Flags.safeSeq : Flags → List Stmt → Bool
  | _, [] => true
  | f, s :: r => f.safe s && (f.exec s).safeSeq r

def B.flags (b : B) : Flags := ⟨b.toolActive, b.coolActive⟩

/-! ## position machine (C01) -/
structure Machine where
  pos : Pt := Pt.unknown     -- unknown at power-on
  rel : Bool := false
deriving DecidableEq, Repr

def isMotion (s : Stmt) : Bool := s.codes.contains .G0 || s.codes.contains .G1
def isProbe (s : Stmt) : Bool :=
  s.codes.contains .G38_2 || s.codes.contains .G38_3 || s.codes.contains .G38_4 || s.codes.contains .G38_5

def Machine.exec (m : Machine) (s : Stmt) : Machine :=
  if s.codes.contains .G90 then { m with rel := false }
  else if s.codes.contains .G91 then { m with rel := true }
  else if isMotion s then
    { m with pos := Pt.mk' fun a => match s.ax.get a with
        | none => m.pos.get a
        | some w => if m.rel then (m.pos.get a).map (· + w) else some w }
  else if s.codes.contains .G92 then
    { m with pos := Pt.mk' fun a => match s.ax.get a with | none => m.pos.get a | some w => some w }
  else if s.codes.contains .G28 then
    -- homing: the named axes (all of them when none is named) end at an endstop-defined, unknown coordinate
    { m with pos := if s.ax.isUnknown then Pt.unknown else m.pos.mask s.ax }
  else if isProbe s then
    -- probing stops wherever contact is made: the axes involved are unknown afterwards
    { m with pos := m.pos.mask s.ax }
  else m

def Machine.run (m : Machine) (ss : List Stmt) : Machine := ss.foldl Machine.exec m

end GscribModel.Builder

namespace GscribModel.Builder

/-! ## modal interpreter (C07): what a controller remembers from the lines it has executed -/
structure ModalSt where
  tool : Bool := false
  startCode : Option Code := none     -- last M03 / M04
  power : Rat := 0                    -- last S
  coolCode : Option Code := none      -- M07 / M08 while coolant is on
  toolNumber : Rat := 0               -- last T of a tool change
  feed : Rat := 0                     -- last F
  rel : Bool := false                 -- G90 / G91
  erel : Bool := false                -- M82 / M83
  fmode : Nat := 1                    -- G93 / G94 / G95
  inches : Bool := false              -- G20 / G21
  plane : Nat := 0                    -- G17 / G19 / G18
  bed : OQ := none
  hotend : OQ := none
  chamber : OQ := none
  params : Params := []               -- last value of every word seen on a motion-family statement
deriving DecidableEq, Repr

def wordsAsParams (ws : List (String × Rat)) : Params := ws.map fun e => (e.1, some e.2)

/-- F and S are modal on motion, probe and bare-word statements -/
def ModalSt.trackFS (ms : ModalSt) (ws : List (String × Rat)) : ModalSt :=
  let m1 := match lookupQ ws "F" with | some f => { ms with feed := f } | none => ms
  match lookupQ ws "S" with | some v => { m1 with power := v } | none => m1

def firstTemp (ws : List (String × Rat)) : OQ :=
  match lookupQ ws "S" with | some s => some s | none => lookupQ ws "R"

def ModalSt.execCode (ms : ModalSt) (c : Code) (s : Stmt) : ModalSt :=
  match c with
  | .G0 | .G1 | .G38_2 | .G38_3 | .G38_4 | .G38_5 =>
      { ms.trackFS s.words with params := (ms.params.update (wordsAsParams s.words)) }
  | .G92 | .G28 => { ms with params := ms.params.update (wordsAsParams s.words) }
  | .G90 => { ms with rel := false } | .G91 => { ms with rel := true }
  | .M82 => { ms with erel := false } | .M83 => { ms with erel := true }
  | .G93 => { ms with fmode := 0 } | .G94 => { ms with fmode := 1 } | .G95 => { ms with fmode := 2 }
  | .G20 => { ms with inches := true } | .G21 => { ms with inches := false }
  | .G17 => { ms with plane := 0 } | .G19 => { ms with plane := 1 } | .G18 => { ms with plane := 2 }
  | .M03 | .M04 => { ms.trackFS s.words with tool := true, startCode := some c, feed := ms.feed }
  | .M05 => { ms with tool := false }
  | .M07 | .M08 => { ms with coolCode := some c }
  | .M09 => { ms with coolCode := none }
  | .M06 => (match lookupQ s.words "T" with | some t => { ms with toolNumber := t } | none => ms)
  | .M140 | .M190 => (match firstTemp s.words with | some t => { ms with bed := some t } | none => ms)
  | .M104 | .M109 => (match firstTemp s.words with | some t => { ms with hotend := some t } | none => ms)
  | .M141 | .M191 => (match firstTemp s.words with | some t => { ms with chamber := some t } | none => ms)
  | _ => ms

def ModalSt.exec (ms : ModalSt) (s : Stmt) : ModalSt :=
  match s.codes with
  | [] => ms.trackFS s.words          -- bare `F…` / `S…` (a comment-only line has no words)
  | [c] => ms.execCode c s
  | _ => ms

def ModalSt.run (ms : ModalSt) (ss : List Stmt) : ModalSt := ss.foldl ModalSt.exec ms

end GscribModel.Builder

namespace GscribModel.Builder

/-! ## extruder axis (C20): M82/M83 are independent of G90/G91; `G92 E…` resets the position -/
structure EMachine where
  epos : Rat := 0
  erel : Bool := false
deriving DecidableEq, Repr

def EMachine.exec (em : EMachine) (s : Stmt) : EMachine :=
  match s.codes with
  | [.M82] => { em with erel := false }
  | [.M83] => { em with erel := true }
  | [.G92] => (match lookupQ s.words "E" with | some e => { em with epos := e } | none => em)
  | [.G0] | [.G1] =>
      (match lookupQ s.words "E" with
       | some e => if em.erel then { em with epos := em.epos + e } else { em with epos := e }
       | none => em)
  | _ => em

def EMachine.run (em : EMachine) (ss : List Stmt) : EMachine := ss.foldl EMachine.exec em

end GscribModel.Builder

import GscribModel.Model.Builder
/-! # Independent interpreters of the emitted program

* `Flags` — the tool/coolant interlock view of a controller (C02);
* `Machine` — G0/G1/G90/G91/G92/G28/G38.x position semantics with unknown coordinates (C01);
* `Modal` — what a modal G-code interpreter remembers (C07).
They read only `Stmt`s (codes and words), never the builder. -/
namespace GscribModel.Builder

/-! ## interlock flags -/
structure Flags where
  tool : Bool := false
  cool : Bool := false
deriving DecidableEq, Repr

def Code.isToolStart : Code → Bool | .M03 | .M04 => true | _ => false
def Code.isCoolStart : Code → Bool | .M07 | .M08 => true | _ => false
def Code.isToolStop : Code → Bool | .M05 => true | _ => false
def Code.isCoolStop : Code → Bool | .M09 => true | _ => false
/-- tool change and every halt / wait code -/
def Code.needsIdle : Code → Bool
  | .M06 | .M00 | .M01 | .M02 | .M30 | .M60 | .M109 | .M190 | .M191 | .M400 => true
  | _ => false

def toolStart (s : Stmt) : Bool := s.codes.any Code.isToolStart
def coolStart (s : Stmt) : Bool := s.codes.any Code.isCoolStart
def toolStop (s : Stmt) : Bool := s.codes.any Code.isToolStop
def coolStop (s : Stmt) : Bool := s.codes.any Code.isCoolStop
def needsIdle (s : Stmt) : Bool := s.codes.any Code.needsIdle

/-- is it safe to execute `s` with the machine in state `f`? -/
def Flags.safe (f : Flags) (s : Stmt) : Bool :=
  (!toolStart s || !f.tool) && (!coolStart s || !f.cool) && (!needsIdle s || (!f.tool && !f.cool))

def Flags.exec (f : Flags) (s : Stmt) : Flags :=
  let f1 := if toolStart s then { f with tool := true } else if toolStop s then { f with tool := false } else f
  if coolStart s then { f1 with cool := true } else if coolStop s then { f1 with cool := false } else f1

/-- every statement of the sequence is safe at the moment it is executed -/
def Flags.safeSeq : Flags → List Stmt → Bool
  | _, [] => true
  | f, s :: r => f.safe s && (f.exec s).safeSeq r

def B.flags (b : B) : Flags := ⟨b.toolActive, b.coolActive⟩

/-! ## position machine (C01) -/
structure Machine where
  pos : Pt := Pt.unknown     -- unknown at power-on
  rel : Bool := false
deriving DecidableEq, Repr

def isMotion (s : Stmt) : Bool := s.codes.contains .G0 || s.codes.contains .G1
def isProbe (s : Stmt) : Bool :=
  s.codes.contains .G38_2 || s.codes.contains .G38_3 || s.codes.contains .G38_4 || s.codes.contains .G38_5

def Machine.exec (m : Machine) (s : Stmt) : Machine :=
  if s.codes.contains .G90 then { m with rel := false }
  else if s.codes.contains .G91 then { m with rel := true }
  else if isMotion s then
    { m with pos := Pt.mk' fun a => match s.ax.get a with
        | none => m.pos.get a
        | some w => if m.rel then (m.pos.get a).map (· + w) else some w }
  else if s.codes.contains .G92 then
    { m with pos := Pt.mk' fun a => match s.ax.get a with | none => m.pos.get a | some w => some w }
  else if s.codes.contains .G28 then
    -- homing: the named axes (all of them when none is named) end at an endstop-defined, unknown coordinate
    { m with pos := if s.ax.isUnknown then Pt.unknown else m.pos.mask s.ax }
  else if isProbe s then
    -- probing stops wherever contact is made: the axes involved are unknown afterwards
    { m with pos := m.pos.mask s.ax }
  else m

def Machine.run (m : Machine) (ss : List Stmt) : Machine := ss.foldl Machine.exec m

end GscribModel.Builder

/-! # Model of gscrib's coordinate transforms and of the move path under a transform (C04, C13)

Transcription (exact arithmetic over `Rat`, value semantics) of

* `gscrib/geometry/point.py`        — `Point.resolve / replace / combine`, `to_vector`, `from_vector`
* `gscrib/geometry/transform.py`    — class `Transform` (`_set_pivot`, `_set_matrix`, `_chain_matrix`,
                                      `apply`, `reverse`): five slots, 4×4 matrices
* `gscrib/geometry/transformer.py`  — class `CoordinateTransformer` (`translate`, `scale`, `rotate`,
                                      `reflect`, `mirror`, `chain_transform` (of a 3×3 block), `set_pivot`,
                                      `save_state`, `restore_state`, `delete_state`, `_copy_state`, `_revert_state`)
* `gscrib/gcode_core.py`            — `current_transform()`, `named_transform()`, `to_absolute`,
                                      `_transform_move`, `move`, `rapid`, `set_distance_mode`

Modelled, not verified (parameters of the model): scipy's rotation matrix is *data* of the `rotate`
operation (the nine exact rationals of the doubles scipy returned); LAPACK `linalg.inv` is the exact
inverse of an affine matrix (adjugate / determinant); `n / ‖n‖` followed by `I − 2 n⊗n` is the exact
Householder matrix `I − 2 n nᵀ/(n·n)`.  Assumptions: every argument is finite, pivots and normals have
three coordinates, rotation blocks are invertible.  `restore_state(name)` installs a *copy* (the code
after the commit "fix: restoring a named transform state installs a copy"), so plain values are
faithful.  Mathlib-free. -/
namespace GscribModel.Transform

/-! ## vectors and points -/

structure V3 where
  x : Rat
  y : Rat
  z : Rat
deriving DecidableEq, Repr, Inhabited

namespace V3
def zero : V3 := ⟨0, 0, 0⟩
def add (u v : V3) : V3 := ⟨u.x + v.x, u.y + v.y, u.z + v.z⟩
def sub (u v : V3) : V3 := ⟨u.x - v.x, u.y - v.y, u.z - v.z⟩
def neg (u : V3) : V3 := ⟨-u.x, -u.y, -u.z⟩
end V3

/-- `gscrib.geometry.Point`: `none` = coordinate unknown / not given -/
structure Pt where
  x : Option Rat
  y : Option Rat
  z : Option Rat
deriving DecidableEq, Repr, Inhabited

inductive Axis | x | y | z
deriving DecidableEq, Repr

def V3.get (v : V3) : Axis → Rat
  | .x => v.x | .y => v.y | .z => v.z
def Pt.get (p : Pt) : Axis → Option Rat
  | .x => p.x | .y => p.y | .z => p.z

def Pt.unknown : Pt := ⟨none, none, none⟩
def Pt.ofV3 (v : V3) : Pt := ⟨some v.x, some v.y, some v.z⟩
/-- `Point.resolve()` (also what `to_vector` does with `None`) -/
def Pt.resolve (p : Pt) : V3 := ⟨p.x.getD 0, p.y.getD 0, p.z.getD 0⟩
/-- `origin.replace(*point)` on a resolved origin -/
def V3.replace (o : V3) (q : Pt) : V3 := ⟨q.x.getD o.x, q.y.getD o.y, q.z.getD o.z⟩
/-- `Point.replace`: requested coordinates replace the tracked ones, unknown axes stay unknown -/
def Pt.replace (o q : Pt) : Pt := ⟨q.x <|> o.x, q.y <|> o.y, q.z <|> o.z⟩

/-- `Point.combine(o, t, m)`: a coordinate of `m` is kept iff it was requested or `o` and `t` differ -/
def Pt.combine (s : Pt) (o t m : V3) : Pt :=
  ⟨if s.x.isSome ∨ o.x ≠ t.x then some m.x else none,
   if s.y.isSome ∨ o.y ≠ t.y then some m.y else none,
   if s.z.isSome ∨ o.z ≠ t.z then some m.z else none⟩

/-! ## affine maps (the specification's vocabulary) -/

/-- `x ↦ L x + t`, `L` the 3×3 block `aij`, `t = (tx,ty,tz)` -/
structure Aff where
  a11 : Rat
  a12 : Rat
  a13 : Rat
  a21 : Rat
  a22 : Rat
  a23 : Rat
  a31 : Rat
  a32 : Rat
  a33 : Rat
  tx : Rat
  ty : Rat
  tz : Rat
deriving DecidableEq, Repr, Inhabited

namespace Aff
def id : Aff := ⟨1,0,0, 0,1,0, 0,0,1, 0,0,0⟩
def apply (A : Aff) (v : V3) : V3 :=
  ⟨A.a11*v.x + A.a12*v.y + A.a13*v.z + A.tx,
   A.a21*v.x + A.a22*v.y + A.a23*v.z + A.ty,
   A.a31*v.x + A.a32*v.y + A.a33*v.z + A.tz⟩
/-- `A ∘ B` -/
def comp (A B : Aff) : Aff :=
  ⟨A.a11*B.a11 + A.a12*B.a21 + A.a13*B.a31, A.a11*B.a12 + A.a12*B.a22 + A.a13*B.a32, A.a11*B.a13 + A.a12*B.a23 + A.a13*B.a33,
   A.a21*B.a11 + A.a22*B.a21 + A.a23*B.a31, A.a21*B.a12 + A.a22*B.a22 + A.a23*B.a32, A.a21*B.a13 + A.a22*B.a23 + A.a23*B.a33,
   A.a31*B.a11 + A.a32*B.a21 + A.a33*B.a31, A.a31*B.a12 + A.a32*B.a22 + A.a33*B.a32, A.a31*B.a13 + A.a32*B.a23 + A.a33*B.a33,
   A.a11*B.tx + A.a12*B.ty + A.a13*B.tz + A.tx,
   A.a21*B.tx + A.a22*B.ty + A.a23*B.tz + A.ty,
   A.a31*B.tx + A.a32*B.ty + A.a33*B.tz + A.tz⟩
def trans (p : V3) : Aff := ⟨1,0,0, 0,1,0, 0,0,1, p.x, p.y, p.z⟩
/-- the linear part -/
def lin (A : Aff) : Aff := { A with tx := 0, ty := 0, tz := 0 }
def IsLinear (A : Aff) : Prop := A.tx = 0 ∧ A.ty = 0 ∧ A.tz = 0
def det (A : Aff) : Rat :=
  A.a11*(A.a22*A.a33 - A.a23*A.a32) - A.a12*(A.a21*A.a33 - A.a23*A.a31) + A.a13*(A.a21*A.a32 - A.a22*A.a31)
/-- exact inverse: adjugate of the block times `det⁻¹`, translation `−L⁻¹ t` -/
def inv (A : Aff) : Aff :=
  let i := (A.det)⁻¹
  let b11 := (A.a22*A.a33 - A.a23*A.a32) * i
  let b12 := (A.a13*A.a32 - A.a12*A.a33) * i
  let b13 := (A.a12*A.a23 - A.a13*A.a22) * i
  let b21 := (A.a23*A.a31 - A.a21*A.a33) * i
  let b22 := (A.a11*A.a33 - A.a13*A.a31) * i
  let b23 := (A.a13*A.a21 - A.a11*A.a23) * i
  let b31 := (A.a21*A.a32 - A.a22*A.a31) * i
  let b32 := (A.a12*A.a31 - A.a11*A.a32) * i
  let b33 := (A.a11*A.a22 - A.a12*A.a21) * i
  ⟨b11, b12, b13, b21, b22, b23, b31, b32, b33,
   -(b11*A.tx + b12*A.ty + b13*A.tz), -(b21*A.tx + b22*A.ty + b23*A.tz), -(b31*A.tx + b32*A.ty + b33*A.tz)⟩
/-- "`L` about the point `p`":  `x ↦ p + L (x − p)` -/
def about (p : V3) (L : Aff) : Aff :=
  { L.lin with
    tx := p.x - (L.a11*p.x + L.a12*p.y + L.a13*p.z)
    ty := p.y - (L.a21*p.x + L.a22*p.y + L.a23*p.z)
    tz := p.z - (L.a31*p.x + L.a32*p.y + L.a33*p.z) }
/-- linear map with the given diagonal -/
def diag (a b c : Rat) : Aff := ⟨a,0,0, 0,b,0, 0,0,c, 0,0,0⟩
/-- Householder reflection across the plane through 0 with normal `n` (exact: `I − 2 n nᵀ/(n·n)`) -/
def householder (n : V3) : Aff :=
  let k := 2 * (n.x*n.x + n.y*n.y + n.z*n.z)⁻¹
  ⟨1 - k*n.x*n.x, -(k*n.x*n.y), -(k*n.x*n.z),
   -(k*n.y*n.x), 1 - k*n.y*n.y, -(k*n.y*n.z),
   -(k*n.z*n.x), -(k*n.z*n.y), 1 - k*n.z*n.z, 0, 0, 0⟩
end Aff

/-! ## 4×4 matrices (what the code stores) -/

structure M4 where
  m11 : Rat
  m12 : Rat
  m13 : Rat
  m14 : Rat
  m21 : Rat
  m22 : Rat
  m23 : Rat
  m24 : Rat
  m31 : Rat
  m32 : Rat
  m33 : Rat
  m34 : Rat
  m41 : Rat
  m42 : Rat
  m43 : Rat
  m44 : Rat
deriving DecidableEq, Repr, Inhabited

namespace M4
/-- `a @ b` -/
def mul (a b : M4) : M4 :=
  ⟨a.m11*b.m11 + a.m12*b.m21 + a.m13*b.m31 + a.m14*b.m41,
   a.m11*b.m12 + a.m12*b.m22 + a.m13*b.m32 + a.m14*b.m42,
   a.m11*b.m13 + a.m12*b.m23 + a.m13*b.m33 + a.m14*b.m43,
   a.m11*b.m14 + a.m12*b.m24 + a.m13*b.m34 + a.m14*b.m44,
   a.m21*b.m11 + a.m22*b.m21 + a.m23*b.m31 + a.m24*b.m41,
   a.m21*b.m12 + a.m22*b.m22 + a.m23*b.m32 + a.m24*b.m42,
   a.m21*b.m13 + a.m22*b.m23 + a.m23*b.m33 + a.m24*b.m43,
   a.m21*b.m14 + a.m22*b.m24 + a.m23*b.m34 + a.m24*b.m44,
   a.m31*b.m11 + a.m32*b.m21 + a.m33*b.m31 + a.m34*b.m41,
   a.m31*b.m12 + a.m32*b.m22 + a.m33*b.m32 + a.m34*b.m42,
   a.m31*b.m13 + a.m32*b.m23 + a.m33*b.m33 + a.m34*b.m43,
   a.m31*b.m14 + a.m32*b.m24 + a.m33*b.m34 + a.m34*b.m44,
   a.m41*b.m11 + a.m42*b.m21 + a.m43*b.m31 + a.m44*b.m41,
   a.m41*b.m12 + a.m42*b.m22 + a.m43*b.m32 + a.m44*b.m42,
   a.m41*b.m13 + a.m42*b.m23 + a.m43*b.m33 + a.m44*b.m43,
   a.m41*b.m14 + a.m42*b.m24 + a.m43*b.m34 + a.m44*b.m44⟩
/-- `np.eye(4)` -/
def eye : M4 := ⟨1,0,0,0, 0,1,0,0, 0,0,1,0, 0,0,0,1⟩
/-- `m = np.eye(4); m[:-1, -1] = [x, y, z]` -/
def translation (v : V3) : M4 := ⟨1,0,0,v.x, 0,1,0,v.y, 0,0,1,v.z, 0,0,0,1⟩
/-- `np.diag((a, b, c, d))` -/
def diag (a b c d : Rat) : M4 := ⟨a,0,0,0, 0,b,0,0, 0,0,c,0, 0,0,0,d⟩
/-- `m = np.eye(4); m[:3, :3] = block` (the block is the linear part of `L`) -/
def ofBlock (L : Aff) : M4 :=
  ⟨L.a11,L.a12,L.a13,0, L.a21,L.a22,L.a23,0, L.a31,L.a32,L.a33,0, 0,0,0,1⟩
/-- the 4×4 matrix of an affine map -/
def ofAff (A : Aff) : M4 :=
  ⟨A.a11,A.a12,A.a13,A.tx, A.a21,A.a22,A.a23,A.ty, A.a31,A.a32,A.a33,A.tz, 0,0,0,1⟩
/-- the first three rows read as an affine map -/
def toAff (m : M4) : Aff :=
  ⟨m.m11,m.m12,m.m13, m.m21,m.m22,m.m23, m.m31,m.m32,m.m33, m.m14,m.m24,m.m34⟩
/-- last row `(0,0,0,1)` -/
def IsAffine (m : M4) : Prop := m.m41 = 0 ∧ m.m42 = 0 ∧ m.m43 = 0 ∧ m.m44 = 1
/-- `Point.from_vector(m @ Point(*p).to_vector())`: first three components of `m · (x,y,z,1)` -/
def applyPt (m : M4) (p : Pt) : V3 :=
  let v := p.resolve
  ⟨m.m11*v.x + m.m12*v.y + m.m13*v.z + m.m14*1,
   m.m21*v.x + m.m22*v.y + m.m23*v.z + m.m24*1,
   m.m31*v.x + m.m32*v.y + m.m33*v.z + m.m34*1⟩
/-- `scipy.linalg.inv` of a matrix whose last row is `(0,0,0,1)` (exact) -/
def inv (m : M4) : M4 := ofAff m.toAff.inv
end M4

/-! ## class `Transform` -/

structure Xf where
  matrix : M4
  inverse : M4
  pivot : V3
  fromPivot : M4
  toPivot : M4
deriving DecidableEq, Repr, Inhabited

namespace Xf
/-- `_set_pivot(point)` -/
def setPivot (t : Xf) (p : V3) : Xf :=
  { t with pivot := p, fromPivot := M4.translation p.neg, toPivot := M4.translation p }
/-- `_set_matrix(matrix)` -/
def setMatrix (t : Xf) (m : M4) : Xf :=
  { t with matrix := m, inverse := m.inv }
/-- `_chain_matrix(matrix)`: `translated = to_pivot @ matrix @ from_pivot`, then `translated @ self._matrix` -/
def chain (t : Xf) (m : M4) : Xf :=
  let translated := (t.toPivot.mul m).mul t.fromPivot
  t.setMatrix (translated.mul t.matrix)
/-- `Transform(np.eye(4), Point.zero())` -/
def init : Xf :=
  let t0 : Xf := ⟨M4.eye, M4.eye, V3.zero, M4.eye, M4.eye⟩
  (t0.setPivot V3.zero).setMatrix M4.eye
/-- `apply(point)` -/
def apply (t : Xf) (p : Pt) : V3 := t.matrix.applyPt p
/-- `reverse(point)` -/
def reverse (t : Xf) (p : Pt) : V3 := t.inverse.applyPt p
end Xf

/-! ## class `CoordinateTransformer` -/

inductive Err | valueError | indexError | keyError
deriving DecidableEq, Repr

def Err.name : Err → String
  | .valueError => "ValueError" | .indexError => "IndexError" | .keyError => "KeyError"

/-- `str.strip()` for ASCII white space -/
def isSpace (c : Char) : Bool :=
  c = ' ' || c = '\t' || c = '\n' || c = '\r' || c = Char.ofNat 11 || c = Char.ofNat 12
def pyStrip (s : String) : String :=
  String.ofList (((s.toList.dropWhile isSpace).reverse.dropWhile isSpace).reverse)

/-- a `dict` as an association list (insertion order kept, as in Python) -/
abbrev Dict := List (String × Xf)
def Dict.get (d : Dict) (k : String) : Option Xf := (d.find? (·.1 = k)).map (·.2)
def Dict.set : Dict → String → Xf → Dict
  | [], k, v => [(k, v)]
  | (k', v') :: d, k, v => if k' = k then (k, v) :: d else (k', v') :: Dict.set d k v
def Dict.erase (d : Dict) (k : String) : Dict := d.filter (·.1 ≠ k)

structure Tr where
  named : Dict          -- `_named_transforms`
  stack : List Xf       -- `_transforms_stack`, head = top (`append` / `pop()`)
  cur : Xf              -- `_current_transform`
deriving DecidableEq, Repr, Inhabited

namespace Tr
def init : Tr := ⟨[], [], Xf.init⟩
/-- `chain_transform(m)` -/
def chainTransform (t : Tr) (m : M4) : Tr := { t with cur := t.cur.chain m }
/-- `set_pivot(point)` -/
def setPivot (t : Tr) (p : V3) : Tr := { t with cur := t.cur.setPivot p }
/-- `translate(x, y, z)` -/
def translate (t : Tr) (v : V3) : Tr := t.chainTransform (M4.translation v)

/-- the `scale_vector` of `scale(*scale)` for 1, 2 or 3 factors -/
def scaleVector : List Rat → Option (Rat × Rat × Rat × Rat)
  | [s] => some (s, s, s, 1)
  | [a, b] => some (a, b, 1, 1)
  | [a, b, c] => some (a, b, c, 1)
  | _ => none
/-- `scale(*scale)` -/
def scale (t : Tr) (fs : List Rat) : Except Err Tr :=
  match scaleVector fs with
  | none => .error .valueError                         -- not 1 ≤ len ≤ 3
  | some (a, b, c, d) =>
    if fs.any (· = 0) then .error .valueError          -- "Scale cannot be zero"
    else .ok (t.chainTransform (M4.diag a b c d))
def validAxis (a : String) : Bool := a = "x" || a = "y" || a = "z"
/-- `rotate(angle, axis)`; `R` is scipy's `Rotation.from_rotvec(…).as_matrix()` for these arguments -/
def rotate (t : Tr) (axis : String) (R : Aff) : Except Err Tr :=
  if validAxis axis then .ok (t.chainTransform (M4.ofBlock R)) else .error .valueError
/-- `reflect(normal)` -/
def reflect (t : Tr) (n : V3) : Except Err Tr :=
  if n.x = 0 ∧ n.y = 0 ∧ n.z = 0 then .error .valueError
  else .ok (t.chainTransform (M4.ofBlock (Aff.householder n)))
/-- `Plane(plane).normal()` -/
def planeNormal (plane : String) : Option V3 :=
  if plane = "xy" then some ⟨0, 0, 1⟩
  else if plane = "zx" then some ⟨0, 1, 0⟩
  else if plane = "yz" then some ⟨1, 0, 0⟩
  else none
/-- `mirror(plane)` -/
def mirror (t : Tr) (plane : String) : Except Err Tr :=
  match planeNormal plane with
  | none => .error .valueError
  | some n => t.reflect n

/-- is `name` a usable state name (`name is not None and len(name.strip()) > 0`) -/
def nameKey : Option String → Option String
  | none => none
  | some n => if pyStrip n = "" then none else some (pyStrip n)

/-- `save_state(name)` -/
def saveState (t : Tr) (name : Option String) : Tr :=
  match nameKey name with
  | some k => { t with named := t.named.set k t.cur }
  | none => { t with stack := t.cur :: t.stack }

/-- `not name` of Python for `str | None` -/
def falsy : Option String → Bool
  | none => true
  | some n => n = ""

/-- `restore_state(name)` -/
def restoreState (t : Tr) (name : Option String) : Except Err Tr :=
  if falsy name ∧ t.stack = [] then .error .indexError
  else match nameKey name with
    | some k =>
      match t.named.get k with
      | none => .error .keyError
      | some x => .ok { t with cur := x }
    | none =>
      match t.stack with
      | [] => .error .indexError                       -- `pop from empty list`
      | x :: rest => .ok { t with cur := x, stack := rest }

/-- `delete_state(name)`: `dict.pop(name)` — the name is *not* stripped -/
def deleteState (t : Tr) (name : String) : Except Err Tr :=
  match t.named.get name with
  | none => .error .keyError
  | some _ => .ok { t with named := t.named.erase name }

def applyTransform (t : Tr) (p : Pt) : V3 := t.cur.apply p
def reverseTransform (t : Tr) (p : Pt) : V3 := t.cur.reverse p
end Tr

/-! ## `GCodeCore`: transform context managers and the move path -/

/-- what `_copy_state()` returns -/
structure Frame where
  cur : Xf
  stack : List Xf
deriving DecidableEq, Repr

/-- emitted statements (only what C04 looks at) -/
inductive Stmt
  | mode (rel : Bool)                 -- `G91` / `G90`
  | go (rapid : Bool) (w : Pt)        -- `G0` / `G1` with the X/Y/Z words present
  | set (w : Pt)                      -- `G92` with the X/Y/Z words present
deriving DecidableEq, Repr

structure Core where
  tr : Tr                 -- `_transformer`
  ctx : List Frame        -- saved states of the `with` blocks currently open, innermost first
  axes : Pt               -- `_current_axes`
  rel : Bool              -- `_distance_mode.is_relative`
deriving DecidableEq, Repr

inductive Op
  | translate (v : V3)
  | scale (fs : List Rat)
  | rotate (axis : String) (R : Aff)
  | chain (R : Aff)                   -- `chain_transform(m)` with `m = np.eye(4); m[:3, :3] = block of R`
  | reflect (n : V3)
  | mirror (plane : String)
  | setPivot (p : V3)
  | save (name : Option String)
  | restore (name : Option String)
  | delete (name : String)
  | enterCurrent                      -- `with g.current_transform():`
  | enterNamed (name : String)        -- `with g.named_transform(name):`
  | exit (raised : Bool)              -- leave the innermost block (normally / by an exception)
  | move (req : Pt)
  | rapid (req : Pt)
  | dist (rel : Bool)                 -- `set_distance_mode`
  | moveAbs (rapid : Bool) (req : Pt) -- `move_absolute` / `rapid_absolute`: bypasses the transform, brackets with G90 … G91
  | setAxis (req : Pt)                -- `set_axis`: `G92`, no transform applied
deriving DecidableEq, Repr

namespace Core
def init : Core := ⟨Tr.init, [], Pt.unknown, false⟩

/-- `to_absolute(point)` -/
def toAbsolute (c : Core) (req : Pt) : V3 :=
  let origin := c.axes.resolve
  if c.rel then origin.add req.resolve else origin.replace req

/-- the `move` vector of `_transform_move` before `combine` drops the unmentioned axes -/
def moveVector (c : Core) (req : Pt) : V3 :=
  let o := c.tr.applyTransform (Pt.ofV3 c.axes.resolve)
  let t := c.tr.applyTransform (Pt.ofV3 (c.toAbsolute req))
  if c.rel then t.sub o else t

/-- `_transform_move(point)` ↦ (move, target_axes) -/
def transformMove (c : Core) (req : Pt) : Pt × V3 :=
  let current := c.axes.resolve
  let target := c.toAbsolute req
  let o := c.tr.applyTransform (Pt.ofV3 current)
  let t := c.tr.applyTransform (Pt.ofV3 target)
  (req.combine o t (c.moveVector req), target)

/-- `move` / `rapid` -/
def go (c : Core) (rapid : Bool) (req : Pt) : Core × List Stmt :=
  let r := c.transformMove req
  ({ c with axes := Pt.ofV3 r.2 }, [Stmt.go rapid r.1])

/-- `move_absolute` / `rapid_absolute`: `target_axes = _current_axes.replace(*move)`; inside
    `with self.absolute_mode():` the raw request is written as it is (no transform). -/
def goAbs (c : Core) (rapid : Bool) (req : Pt) : Core × List Stmt :=
  ({ c with axes := Pt.replace c.axes req },
   if c.rel then [Stmt.mode false, Stmt.go rapid req, Stmt.mode true] else [Stmt.go rapid req])

/-- `set_axis`: `G92` with the raw request -/
def setAxis (c : Core) (req : Pt) : Core × List Stmt :=
  ({ c with axes := Pt.replace c.axes req }, [Stmt.set req])

def lift (c : Core) (r : Except Err Tr) : Core × List Stmt × Option Err :=
  match r with
  | .ok t => ({ c with tr := t }, [], none)
  | .error e => (c, [], some e)

/-- one API call: new state, statements written, exception class (if any) -/
def step (c : Core) : Op → Core × List Stmt × Option Err
  | .translate v => ({ c with tr := c.tr.translate v }, [], none)
  | .scale fs => c.lift (c.tr.scale fs)
  | .rotate a R => c.lift (c.tr.rotate a R)
  | .chain R => ({ c with tr := c.tr.chainTransform (M4.ofBlock R) }, [], none)
  | .reflect n => c.lift (c.tr.reflect n)
  | .mirror p => c.lift (c.tr.mirror p)
  | .setPivot p => ({ c with tr := c.tr.setPivot p }, [], none)
  | .save n => ({ c with tr := c.tr.saveState n }, [], none)
  | .restore n => c.lift (c.tr.restoreState n)
  | .delete n => c.lift (c.tr.deleteState n)
  | .enterCurrent =>
      -- state = _copy_state(); try: yield
      ({ c with ctx := ⟨c.tr.cur, c.tr.stack⟩ :: c.ctx }, [], none)
  | .enterNamed n =>
      -- state = _copy_state(); restore_state(name)  [may raise: no block entered]; try: yield
      match c.tr.restoreState (some n) with
      | .error e => (c, [], some e)
      | .ok t => ({ c with tr := t, ctx := ⟨c.tr.cur, c.tr.stack⟩ :: c.ctx }, [], none)
  | .exit _ =>
      -- finally: _revert_state(state)
      match c.ctx with
      | [] => (c, [], none)
      | f :: rest => ({ c with tr := { c.tr with cur := f.cur, stack := f.stack }, ctx := rest }, [], none)
  | .move req => let r := c.go false req; (r.1, r.2, none)
  | .rapid req => let r := c.go true req; (r.1, r.2, none)
  | .dist rel => ({ c with rel := rel }, [Stmt.mode rel], none)
  | .moveAbs rapid req => let r := c.goAbs rapid req; (r.1, r.2, none)
  | .setAxis req => let r := c.setAxis req; (r.1, r.2, none)

/-- a call history: final state and everything written -/
def run (c : Core) : List Op → Core × List Stmt
  | [] => (c, [])
  | op :: ops =>
    let r := c.step op
    let r' := run r.1 ops
    (r'.1, r.2.1 ++ r'.2)
end Core

/-! ## the machine that reads the output (G0/G1/G90/G91) -/

structure Machine where
  pos : V3
  rel : Bool
deriving DecidableEq, Repr

def Machine.exec (m : Machine) : Stmt → Machine
  | .mode r => { m with rel := r }
  | .go _ w =>
    if m.rel then { m with pos := ⟨m.pos.x + w.x.getD 0, m.pos.y + w.y.getD 0, m.pos.z + w.z.getD 0⟩ }
    else { m with pos := ⟨w.x.getD m.pos.x, w.y.getD m.pos.y, w.z.getD m.pos.z⟩ }
  | .set w => { m with pos := ⟨w.x.getD m.pos.x, w.y.getD m.pos.y, w.z.getD m.pos.z⟩ }

/-! ## the specification of C13: immutable affine maps, a stack, a name map -/

/-- a transform state as a value: the mapping and the pivot -/
structure SXf where
  A : Aff
  p : V3
deriving DecidableEq, Repr

structure SFrame where
  cur : SXf
  stack : List SXf

structure Spec where
  cur : SXf
  stack : List SXf
  named : String → Option SXf
  ctx : List SFrame

namespace Spec
def init : Spec := ⟨⟨Aff.id, V3.zero⟩, [], fun _ => none, []⟩

/-- compose the current mapping with `L` taken about the pivot -/
def chainAbout (s : Spec) (L : Aff) : Spec :=
  { s with cur := ⟨(Aff.about s.cur.p L).comp s.cur.A, s.cur.p⟩ }

def scaleLin : List Rat → Option Aff
  | [k] => some (Aff.diag k k k)
  | [a, b] => some (Aff.diag a b 1)
  | [a, b, c] => some (Aff.diag a b c)
  | _ => none

def restore (s : Spec) (name : Option String) : Spec × Option Err :=
  match Tr.nameKey name with
  | some k =>
    match s.named k with
    | some x => ({ s with cur := x }, none)
    | none => (s, some .keyError)
  | none =>
    match s.stack with
    | x :: rest => ({ s with cur := x, stack := rest }, none)
    | [] => (s, some .indexError)

def step (s : Spec) : Op → Spec × Option Err
  | .translate v => ({ s with cur := ⟨(Aff.trans v).comp s.cur.A, s.cur.p⟩ }, none)
  | .scale fs =>
    match scaleLin fs with
    | none => (s, some .valueError)
    | some L => if fs.any (· = 0) then (s, some .valueError) else (s.chainAbout L, none)
  | .rotate a R => if Tr.validAxis a then (s.chainAbout R.lin, none) else (s, some .valueError)
  | .chain R => (s.chainAbout R.lin, none)
  | .reflect n =>
    if n.x = 0 ∧ n.y = 0 ∧ n.z = 0 then (s, some .valueError) else (s.chainAbout (Aff.householder n), none)
  | .mirror pl =>
    match Tr.planeNormal pl with
    | none => (s, some .valueError)
    | some n => (s.chainAbout (Aff.householder n), none)
  | .setPivot p => ({ s with cur := ⟨s.cur.A, p⟩ }, none)
  | .save name =>
    match Tr.nameKey name with
    | some k => ({ s with named := fun k' => if k' = k then some s.cur else s.named k' }, none)
    | none => ({ s with stack := s.cur :: s.stack }, none)
  | .restore name => s.restore name
  | .delete name =>
    match s.named name with
    | none => (s, some .keyError)
    | some _ => ({ s with named := fun k' => if k' = name then none else s.named k' }, none)
  | .enterCurrent => ({ s with ctx := ⟨s.cur, s.stack⟩ :: s.ctx }, none)
  | .enterNamed n =>
    match s.restore (some n) with
    | (_, some e) => (s, some e)
    | (s', none) => ({ s' with ctx := ⟨s.cur, s.stack⟩ :: s.ctx }, none)
  | .exit _ =>
    match s.ctx with
    | [] => (s, none)
    | f :: rest => ({ s with cur := f.cur, stack := f.stack, ctx := rest }, none)
  | .move _ => (s, none)
  | .rapid _ => (s, none)
  | .dist _ => (s, none)
  | .moveAbs _ _ => (s, none)
  | .setAxis _ => (s, none)

def run (s : Spec) : List Op → Spec × List (Option Err)
  | [] => (s, [])
  | op :: ops =>
    let r := s.step op
    let r' := run r.1 ops
    (r'.1, r.2 :: r'.2)
end Spec

/-- exception classes of a call history of the code model -/
def Core.errs (c : Core) : List Op → List (Option Err)
  | [] => []
  | op :: ops => (c.step op).2.2 :: Core.errs (c.step op).1 ops

end GscribModel.Transform

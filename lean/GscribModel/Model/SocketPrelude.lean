import GscribModel.Model.Socket
/-! Prelude of the `socket` translator tie (`tools/gen_socket.py` -> `Gen/SocketSrc.lean`): the handful of Python
    operations on `bytes` / `list` that `Device._readline_buf` / `_readline_socket` use, and what the translation assumes
    about the environment.  Hand-written, Mathlib-free, part of the trusted base.  What it assumes:

    * `bytes` is `List Nat` (the model's `Bytes`); a list of chunks is `List Bytes`; a Python `int` is `Int`.
    * `x[i]` (`getItem`), `x[:j]` (`sliceTo`), `x[i:]` (`sliceFrom`) have Python's rules for negative / out-of-range
      indices; `x[i]` out of range is the error `indexError` (the only exception the translated code can raise by itself);
      `s.find(sub)` is the lowest index of `sub` in `s` or `-1`; `sep.join(l)`; truthiness of bytes / lists / `None`.
    * a value that may be `None` or bytes (`chunk`) is `Option Bytes`; using it where only bytes make sense
      (`asBytes`, e.g. appending it to the buffer that `b''.join` consumes) with `None` is the error `notBytes`.
    * **Environment.**  One trip through the body of the `while True:` loop is answered by one `Pass`: what the k-th
      `self._socketfile.read(n)` call written in the body returns if it is evaluated (`None` = no data yet, `b''` = peer
      closed, else data; the requested size `n` is not modelled: answers are not truncated) and whether the list returned by
      `self._selector.select(t)` is non-empty if it is evaluated.  Fields that the body does not evaluate on a trip are
      simply not consulted.  A script is a `List Pass`; a trip that *continues* the loop consumes its pass.
      When the script is exhausted the body runs once on `Pass.idle` (every read answers `None`, select finds nothing)
      and continuing the loop from there is the error `scriptExhausted`.
    * `OSError` raised by `read` / `select` (the `except OSError` handler: `_is_connected = False`, `DeviceError`) is not
      modelled. -/
namespace GscribModel.SockPy
open GscribModel.Socket

inductive PyErr where
  | indexError | notBytes | scriptExhausted
deriving Repr, DecidableEq

/-- Python's normalisation of a slice bound against a length -/
def normIdx (i : Int) (n : Nat) : Nat := if i < 0 then (i + n).toNat else min i.toNat n

def sliceTo {α : Type} (l : List α) (j : Int) : List α := l.take (normIdx j l.length)
def sliceFrom {α : Type} (l : List α) (i : Int) : List α := l.drop (normIdx i l.length)
def slice {α : Type} (l : List α) (i j : Int) : List α := (l.take (normIdx j l.length)).drop (normIdx i l.length)

/-- `l[i]` -/
def getItem {α : Type} (l : List α) (i : Int) : Except PyErr α :=
  let j : Int := if i < 0 then i + l.length else i
  if j < 0 then .error .indexError
  else match l[j.toNat]? with
    | some x => .ok x
    | none => .error .indexError

def findFrom (sub : Bytes) : Bytes → Int → Int
  | [], i => if sub.isEmpty then i else -1
  | b :: bs, i => if sub.isPrefixOf (b :: bs) then i else findFrom sub bs (i + 1)
/-- `s.find(sub)` -/
def find (s sub : Bytes) : Int := findFrom sub s 0

/-- `sep.join(l)` -/
def join (sep : Bytes) : List Bytes → Bytes
  | [] => []
  | [x] => x
  | x :: y :: r => x ++ sep ++ join sep (y :: r)

def len {α : Type} (l : List α) : Int := l.length

/-- truthiness -/
def truthy {α : Type} (l : List α) : Bool := !l.isEmpty
def truthyOpt : Option Bytes → Bool
  | some (_ :: _) => true
  | _ => false

def asBytes : Option Bytes → Except PyErr Bytes
  | some b => .ok b
  | none => .error .notBytes

/-- the environment's answers during one trip through the loop body -/
structure Pass where
  read0 : Option Bytes
  select0 : Bool
  read1 : Option Bytes
deriving Repr, DecidableEq

def Pass.idle : Pass := ⟨none, false, none⟩
/-- the `k`-th `self._socketfile.read(size)` written in the loop body -/
def Pass.read (p : Pass) (k : Nat) (_size : Int) : Option Bytes := if k = 0 then p.read0 else p.read1
/-- the `k`-th `self._selector.select(timeout)` written in the loop body (truthiness of its result) -/
def Pass.select (p : Pass) (_k : Nat) : Bool := p.select0

end GscribModel.SockPy

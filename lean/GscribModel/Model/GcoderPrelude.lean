/-! Prelude of the `gcoder` translator tie (`tools/gen_gcoder.py` -> `Gen/GcoderSrc.lean`): the objects and Python built-ins
    that the translated index bookkeeping of `gscrib/printrun/gcoder.py` (`GCode.has_index`, `__len__`, `idxs`, the layer
    bookkeeping of `_preprocess(build_layers=True)`, `append`, the empty branch of `prepare`) works on.  Hand-written,
    Mathlib-free, imports nothing, part of the trusted base.  What it assumes:

    * **Line objects are opaque** (`α`): the bookkeeping never looks inside a `Line`.
    * **Python ints are `Int`, positions of objects are `Nat`.**  Every value the source computes (`len(x) - 1`,
      `layer_line + i`, the elements of `layer_idxs` / `line_idxs`, `append_layer_id`) is an `Int`; `x[i]` on a list is
      `Py.getItem` (a negative `i` counts from the end, out of range is `none` = `IndexError`).
    * **A `Layer` object that has been put into `all_layers` is named by its position there** (objects are values, no
      heap): the translator accepts `layer = Layer([], …)` / `self.append_layer = Layer([])` only when the fresh, empty
      object is appended to `all_layers` (or made its only element) before anything else is done with it, and
      `layer = all_layers[-1]` only behind the test `… or not all_layers` (so the list is not empty); the local `layer`
      and the attribute `self.append_layer` are then that position (`Nat`) and `x.append(ln)` on them is
      `Py.layerAppend all_layers position ln`.  `Layer.__init__(lines, z)` copies `lines` into the new list (checked by
      text).  The local `all_layers`, `layer_idxs`, `line_idxs` of `_preprocess` are the same objects as the attributes of
      `self` (`all_layers = self.all_layers = []`, checked).
    * `array('I', xs)` holds the ints of `xs` (`Py.array_I`); it raises `OverflowError` for an element outside
      `[0, 2^32)`: that the elements are non-negative is proved (`GcoderTie_preprocess_index`), that a job has fewer than
      2^32 layers / lines per layer is assumed.  `array.append` is list append.
    * `layer_callback` (caller code, handed `self`) changes nothing of the index bookkeeping. -/
namespace GscribModel.GcoderPy

/-- the attributes of a `gcoder.GCode` object that the index bookkeeping reads or assigns -/
structure GCode (α : Type) where
  /-- `self.lines` -/
  lines : List α
  /-- `self.all_layers`: each `Layer` is the list of its lines -/
  all_layers : List (List α)
  layer_idxs : List Int
  line_idxs : List Int
  /-- `self.append_layer`: the position in `all_layers` of the object it is bound to -/
  append_layer : Nat
  append_layer_id : Int
deriving Repr, DecidableEq

namespace Py
/-- `len(x)` -/
def len {β : Type} (xs : List β) : Int := (xs.length : Int)
/-- `not x` for a list -/
def isEmpty {β : Type} (xs : List β) : Bool := xs.isEmpty
/-- `x[i]`: `none` = `IndexError` -/
def getItem {β : Type} (xs : List β) (i : Int) : Option β :=
  let j : Int := if i < 0 then i + (xs.length : Int) else i
  if j < 0 then none else xs[j.toNat]?
/-- the layer object at a position of `all_layers` -/
def layerAt {α : Type} (ls : List (List α)) (p : Nat) : List α := ls.getD p []
/-- `layer.append(ln)` for the layer object at position `p` of `all_layers` -/
def layerAppend {α : Type} (ls : List (List α)) (p : Nat) (ln : α) : List (List α) := ls.modify p (· ++ [ln])
/-- `array('I', xs)` -/
def array_I (xs : List Int) : List Int := xs

/-- `for i, x in enumerate(xs): body` as a fold over the loop-carried state -/
def forEnumFrom {β σ : Type} (f : σ → Int → β → σ) : Int → List β → σ → σ
  | _, [], s => s
  | i, x :: xs, s => forEnumFrom f (i + 1) xs (f s i x)
def forEnum {β σ : Type} (xs : List β) (s : σ) (f : σ → Int → β → σ) : σ := forEnumFrom f 0 xs s
end Py

end GscribModel.GcoderPy

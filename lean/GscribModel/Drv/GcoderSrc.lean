import GscribModel.Model.Proto
import GscribModel.Gen.GcoderSrc
/-! Driver mode `gcodersrc` (stateless): evaluates the *generated* translation of the index bookkeeping of
    `gscrib/printrun/gcoder.py`, so that the translator can be compared with the real class.  Line objects are numbers.
    One case per line: `P` (an object built by `_preprocess(build_layers=True)`) or `E` (the data-less branch of `prepare`),
    then tokens in call order: `b<0|1>:<ids>` one call of `append_lines` (new-layer flag, the lines; only after `P`, before any
    `a`), `a<e><s>:<id>` one call of `append` (`e` = the command is blank, `s` = `store`).
    Record: `layers=<ids>|<ids>|… li=<layer_idxs> ni=<line_idxs> al=<position of append_layer> alid=<append_layer_id>
    lines=<ids> len=<n> q=<k>:<has_index>:<idxs or E>:<all_layers[..][..] or E>/…` for `k` from `-(len+2)` to `len+1`. -/
open GscribModel GscribModel.Proto GscribModel.GcoderPy GscribModel.Gen.GcoderSrc
namespace GscribModel.GcoderSrcDrv

inductive Tok where
  | batch (b : Bool) (ids : List Nat)
  | app (e s : Bool) (id : Nat)

def parseIds (s : String) : Option (List Nat) := if s = "" then some [] else (s.splitOn ",").mapM String.toNat?
def parseBit (c : Char) : Option Bool := if c = '1' then some true else if c = '0' then some false else none

def parseTok (w : String) : Option Tok :=
  match w.splitOn ":" with
  | [h, ids] =>
    match h.toList with
    | ['b', c] => do
        let b ← parseBit c
        let l ← parseIds ids
        pure (.batch b l)
    | ['a', e, s] => do
        let e ← parseBit e
        let s ← parseBit s
        let n ← ids.toNat?
        pure (.app e s n)
    | _ => none
  | _ => none

def showNats (l : List Nat) : String := ",".intercalate (l.map toString)
def showInts (l : List Int) : String := ",".intercalate (l.map toString)

/-- `(layer, line) = g.idxs(k); g.all_layers[layer][line]` (the same text as `GcoderTie.lineAt`) -/
def lineAt (g : GCode Nat) (k : Int) : Option Nat := do
  let r ← GCode_idxs g k
  let layer ← Py.getItem g.all_layers r.1
  Py.getItem layer r.2

def query (g : GCode Nat) (k : Int) : String :=
  let h := if GCode_has_index g k then "1" else "0"
  let ix := match GCode_idxs g k with | some (a, b) => s!"{a}.{b}" | none => "E"
  let c := match lineAt g k with | some x => toString x | none => "E"
  s!"{k}:{h}:{ix}:{c}"

def render (g : GCode Nat) : String :=
  let n := GCode_len g
  let ks : List Int := (List.range (2 * n.toNat + 4)).map fun (j : Nat) => Int.ofNat j - (n + 2)
  s!"layers={"|".intercalate (g.all_layers.map showNats)} li={showInts g.layer_idxs} ni={showInts g.line_idxs} " ++
  s!"al={g.append_layer} alid={g.append_layer_id} lines={showNats g.lines} len={n} q={"/".intercalate (ks.map (query g))}"

def blank : GCode Nat := ⟨[], [], [], [], 0, 0⟩

def run (start : String) (toks : List Tok) : Option (GCode Nat) :=
  let batches := toks.filterMap fun | .batch b l => some (b, l) | _ => none
  let apps := toks.filterMap fun | .app e s n => some (e, s, n) | _ => none
  -- batches come first
  let ordered := (toks.dropWhile fun | .batch .. => true | _ => false).all fun | .app .. => true | _ => false
  if !ordered then none else
  let g0 : Option (GCode Nat) :=
    if start = "P" then some (preprocess_layers { blank with lines := (batches.map (·.2)).flatten } batches)
    else if start = "E" ∧ batches.isEmpty then some (prepare_empty { blank with lines := [7], append_layer := 5, append_layer_id := 9 })
    else none
  g0.map fun g => apps.foldl (fun g a => GCode_append g a.1 a.2.2 a.2.1) g

def handle (line : String) : String :=
  match words line with
  | start :: rest =>
    match rest.mapM parseTok with
    | some toks => match run start toks with
        | some g => render g
        | none => "bad-op " ++ line
    | none => "bad-op " ++ line
  | [] => "bad-op " ++ line

def main : IO Unit := Proto.loopPure handle
end GscribModel.GcoderSrcDrv

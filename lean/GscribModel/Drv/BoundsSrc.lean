import GscribModel.Model.Proto
import GscribModel.Drv.Builder
import GscribModel.Gen.BoundsSrc
/-! Driver mode `bounds` (stateless): evaluates the *generated* translation of `gscrib/geometry/bounds.py`, so that the
    translator can be compared with the real class.  One case per line: calls on a fresh `BoundManager`, separated by `|`:
    `set <name> <v> <v>`  `validate <name> <v>`  `get <name>`  `cmp <lt|eq|ge|gt|le> <v> <v>` (the translated `Point.__op__`),
    a value being `n:<rational|nan|inf|-inf>` (a number) or `p:x;y;z` (a Point, `-` = None).
    Record: one word per call: `ok` / `valueError` / `typeError` / `attributeError`, for `get` `ok:<lo>,<hi>` (`~` = None),
    for `cmp` `1` / `0`. -/
open GscribModel GscribModel.Proto GscribModel.Builder GscribModel.BoundsPrelude GscribModel.Gen.BoundsSrc
namespace GscribModel.BoundsSrcDrv

def parseOQ (s : String) : Option OQ := if s = "-" then some none else (parseRat s).map some

def parseBVal (s : String) : Option BVal :=
  if s.startsWith "n:" then (BuilderDrv.parseVal (s.drop 2).toString).map .num
  else if s.startsWith "p:" then
    match ((s.drop 2).toString.splitOn ";").mapM parseOQ with
    | some [x, y, z] => some (.pt ⟨x, y, z⟩)
    | _ => none
  else none

def showErr : PyErr → String
  | .valueError => "valueError" | .typeError => "typeError" | .attributeError => "attributeError"

def showVal : Val → String
  | .fin q => showRat q | .nan => "nan" | .pinf => "inf" | .ninf => "-inf"

def showO : OQ → String | none => "-" | some q => showRat q

def showBVal : BVal → String
  | .num v => "n:" ++ showVal v
  | .pt p => s!"p:{showO p.x};{showO p.y};{showO p.z}"

def showOB : Option BVal → String | none => "~" | some v => showBVal v

def showEB : Except PyErr Bool → String
  | .ok b => BuilderDrv.b01 b | .error e => showErr e

def call (m : BoundManager) (ws : List String) : Option (BoundManager × String) :=
  match ws with
  | ["set", name, a, b] => do
      let a ← parseBVal a
      let b ← parseBVal b
      let r := BoundManager.set_bounds m name a b
      pure (r.1, match r.2 with | .ok _ => "ok" | .error e => showErr e)
  | ["validate", name, v] => do
      let v ← parseBVal v
      let r := BoundManager.validate m name v
      pure (r.1, match r.2 with | .ok _ => "ok" | .error e => showErr e)
  | ["get", name] =>
      let r := BoundManager.get_bounds m name
      some (r.1, match r.2 with | .ok (lo, hi) => s!"ok:{showOB lo},{showOB hi}" | .error e => showErr e)
  | ["cmp", op, a, b] =>
      match parseBVal a, parseBVal b with
      | some (.pt p), some (.pt q) =>
          (match op with
           | "lt" => some (Point.__lt__ p q) | "eq" => some (Point.__eq__ p q) | "ge" => some (Point.__ge__ p q)
           | "gt" => some (Point.__gt__ p q) | "le" => some (Point.__le__ p q) | _ => none).map fun r => (m, showEB r)
      | _, _ => none
  | _ => none

def splitCalls (ws : List String) : List (List String) :=
  let rec go : List String → List String → List (List String) → List (List String)
    | [], cur, acc => (cur.reverse :: acc).reverse
    | w :: rest, cur, acc => if w = "|" then go rest [] (cur.reverse :: acc) else go rest (w :: cur) acc
  go ws [] []

def handle (line : String) : String :=
  let rec run : BoundManager → List (List String) → List String → Option (List String)
    | _, [], acc => some acc.reverse
    | m, c :: cs, acc => match call m c with
        | some (m', o) => run m' cs (o :: acc)
        | none => none
  match run BoundManager.__init__ (splitCalls (words line)) [] with
  | some outs => " ".intercalate outs
  | none => "bad-op " ++ line

def main : IO Unit := Proto.loopPure handle
end GscribModel.BoundsSrcDrv

import GscribModel.Model.Proto
import GscribModel.Gen.WritersSrc
/-! Driver mode `writerssrc` (stateless, one history per line): evaluates the *generated* translation of the writer list of
    `GCodeCore` and of `FileWriter` (`Gen/WritersSrc.lean`), so that the translator `tools/gen_writers.py` and the prelude
    `Model/WritersPrelude.lean` can be compared with the real classes (`harness/tie_writers.py`).

    input : `<objects> | <ops>`
            objects: `p` FileWriter over a path; `b` / `t` FileWriter over a binary / text file object, suffix `!` = it is a
                     terminal, suffix `-` = it has no `isatty`; `c` another `BaseWriter` subclass (recorder)
            ops    : `a<i>` add_writer  `r<i>` remove_writer  `w<cp>,<cp>…` GCodeCore.write of a statement whose formatted line
                     has these (hex) code points  `f` flush  `t` / `T` teardown(True / False)  `x` __exit__
                     on object i directly: `C<i>` connect  `D<i>` / `E<i>` disconnect(True / False)  `F<i>` flush
                     `W<i>:<hex bytes>` write   `K<i>` the caller closes the file object it handed over
    output: one record per op, joined by ` ~ `:  `reg=<i>,<i>…[!];exc=<-|class>;<object 0>;<object 1>…`  (`!` = `GCodeCore.fault`)
            FileWriter `f,<_file N|S|U|O>,<_is_terminal>,<_output N|S|U|O>,<user cell>,<own cell>,<Heap.fault>`
            cell `<isText><hasIsatty><tty><dirty><closed>.<data hex>.<text code points hex, _ separated>`
            other  `o,<isOpen>,<discs>,<data hex>,<recv hex _ separated>` -/
open GscribModel GscribModel.Proto
namespace GscribModel.WritersSrcDrv
open GscribModel.Writers GscribModel.WritersPrelude GscribModel.Gen.WritersSrc

def b01 (b : Bool) : String := if b then "1" else "0"
def natHex (n : Nat) : String := String.ofList (Nat.toDigits 16 n)

def hexNat (cs : List Char) : Option Nat :=
  if cs.isEmpty then none else cs.foldlM (fun acc c => (hexVal c).map (acc * 16 + ·)) 0

def parseCps (cs : List Char) : Option (List Nat) :=
  if cs.isEmpty then some [] else ((String.ofList cs).splitOn ",").mapM (fun w => hexNat w.toList)

def stream (isText hasIsatty tty : Bool) : Writer :=
  .file (FileWriter.init { user := { isText := isText, hasIsatty := hasIsatty, tty := tty } } (.ref .user))

def parseObj (w : String) : Option Writer :=
  match w.toList with
  | ['p'] => some (.file (FileWriter.init {} .str))
  | ['b'] => some (stream false true false)
  | ['b', '!'] => some (stream false true true)
  | ['b', '-'] => some (stream false false false)
  | ['t'] => some (stream true true false)
  | ['t', '!'] => some (stream true true true)
  | ['t', '-'] => some (stream true false false)
  | ['c'] => some (.other (fresh .custom false))
  | _ => none

inductive DOp where
  | add (i : Nat) | remove (i : Nat) | write (l : List Nat) | flush | teardown (wait : Bool) | exit
  | oconnect (i : Nat) | odisconnect (i : Nat) (wait : Bool) | oflush (i : Nat) | owrite (i : Nat) (b : List Nat)
  | oclose (i : Nat)

def parseOp (n : Nat) (w : String) : Option DOp :=
  let idx (ds : List Char) : Option Nat := (String.ofList ds).toNat?.bind fun i => if i < n then some i else none
  match w.toList with
  | ['f'] => some .flush
  | ['t'] => some (.teardown true)
  | ['T'] => some (.teardown false)
  | ['x'] => some .exit
  | 'a' :: ds => (idx ds).map .add
  | 'r' :: ds => (idx ds).map .remove
  | 'w' :: cs => (parseCps cs).map .write
  | 'C' :: ds => (idx ds).map .oconnect
  | 'D' :: ds => (idx ds).map (.odisconnect · true)
  | 'E' :: ds => (idx ds).map (.odisconnect · false)
  | 'F' :: ds => (idx ds).map .oflush
  | 'K' :: ds => (idx ds).map .oclose
  | 'W' :: rest =>
    match (String.ofList rest).splitOn ":" with
    | [i, h] => do
      let i ← idx i.toList
      let b ← parseHex h.toList
      pure (.owrite i b)
    | _ => none
  | _ => none

/-- `connect()` of an object that is no `FileWriter`: the recorder's does nothing -/
def oconnect : Writer → Writer
  | .file w => .file (FileWriter.connect w)
  | .other w => .other w

/-- the caller closes the file object it handed over -/
def oclose : Writer → Writer
  | .file w => .file { w with heap := pyClose w.heap (.ref .user) }
  | .other w => .other w

def apply (g : GCodeCore) : DOp → GCodeCore × Option Exc
  | .add i => (g.add_writer i, none)
  | .remove i => (g.remove_writer i, none)
  | .write l => g.write l
  | .flush => (g.flush, none)
  | .teardown wait => (g.teardown wait, none)
  | .exit => (g.exit, none)
  | .oconnect i => (g.call i oconnect, none)
  | .odisconnect i wait => (g.call i (fun o => Writer.disconnect o wait), none)
  | .oflush i => (g.call i Writer.flush, none)
  | .owrite i b => (g.call i (fun o => Writer.write o b), none)
  | .oclose i => (g.call i oclose, none)

def showVal : PyVal → String
  | .none => "N"
  | .str => "S"
  | .ref .user => "U"
  | .ref .own => "O"

def showCell (f : FileObj) : String :=
  b01 f.isText ++ b01 f.hasIsatty ++ b01 f.tty ++ b01 f.dirty ++ b01 f.closed ++ "." ++ toHex f.data ++ "." ++
    "_".intercalate (f.text.map natHex)

def showObj : Writer → String
  | .file w => s!"f,{showVal w._file},{b01 w._is_terminal},{showVal w._output},{showCell w.heap.user},{showCell w.heap.own},{b01 w.heap.fault}"
  | .other w => s!"o,{b01 w.isOpen},{w.discs},{toHex w.data}," ++ "_".intercalate (w.recv.map toHex)

def showExc : Option Exc → String
  | none => "-"
  | some .UnicodeEncodeError => "UnicodeEncodeError"
  | some .GCodeError => "GCodeError"
  | some .DeviceError => "DeviceError"
  | some .GscribError => "GscribError"

def showSt (n : Nat) (g : GCodeCore) (e : Option Exc) : String :=
  "reg=" ++ ",".intercalate (g._writers.map toString) ++ (if g.fault then "!" else "") ++ ";exc=" ++ showExc e ++
    String.join ((List.range n).map fun i => ";" ++ showObj (g.objs i))

def handle (line : String) : String :=
  match line.splitOn "|" with
  | [cfgS, opsS] =>
    match (words cfgS).mapM parseObj with
    | some objs =>
      let n := objs.length
      match (words opsS).mapM (parseOp n) with
      | some ops =>
        let init := GCodeCore.init (fun i => objs.getD i (.other (fresh .custom false))) id
        let (_, outs) := ops.foldl (fun (acc : GCodeCore × List String) op =>
          let (g', e) := apply acc.1 op
          (g', showSt n g' e :: acc.2)) (init, [])
        " ~ ".intercalate outs.reverse
      | none => "bad-op " ++ line
    | none => "bad-op " ++ line
  | _ => "bad-op " ++ line

def main : IO Unit := Proto.loopPure handle
end GscribModel.WritersSrcDrv

import GscribModel.Model.Proto
import GscribModel.Model.Builder
/-! Driver mode `builder`: one API call per line, one canonical record per line; `reset` restarts. -/
open GscribModel GscribModel.Proto GscribModel.Builder
namespace GscribModel.BuilderDrv

def parseVal (s : String) : Option Val :=
  if s == "nan" then some .nan else if s == "inf" then some .pinf else if s == "-inf" then some .ninf
  else (parseRat s).map .fin

def parseOptVal (s : String) : Option (Option Val) :=
  if s == "-" then some none else (parseVal s).map some

/-- `x=… y=… z=… h=… L:val …` -/
structure MoveArgs where
  p : VPt := {}
  ps : VParams := []
  h : Rat := 0

def parseMoveArgs : List String → MoveArgs → Option MoveArgs
  | [], a => some a
  | w :: ws, a =>
    if w.startsWith "x=" then do let v ← parseOptVal (w.drop 2).toString; parseMoveArgs ws { a with p := { a.p with x := v } }
    else if w.startsWith "y=" then do let v ← parseOptVal (w.drop 2).toString; parseMoveArgs ws { a with p := { a.p with y := v } }
    else if w.startsWith "z=" then do let v ← parseOptVal (w.drop 2).toString; parseMoveArgs ws { a with p := { a.p with z := v } }
    else if w.startsWith "h=" then do let v ← parseRat (w.drop 2).toString; parseMoveArgs ws { a with h := v }
    else match w.splitOn ":" with
      | [k, v] => do
          let v ← parseVal v
          if k == "X" || k == "Y" || k == "Z" || k == "" then none
          else parseMoveArgs ws { a with ps := a.ps ++ [(k, v)] }
      | _ => none

def parseBool (t f : String) (s : String) : Option Bool :=
  if s == t then some true else if s == f then some false else none

def parseHook (s : String) : Option Hook :=
  match s.splitOn ":" with
  | ["record"] => some .record
  | ["limitF", m] => (parseRat m).map .limitF
  | ["extrude", k] => (parseRat k).map .extrude
  | ["drop", k] => some (.drop k)
  | _ => none

def parseKind : String → Option BKind
  | "bed-temperature" => some .bed | "chamber-temperature" => some .chamber | "hotend-temperature" => some .hotend
  | "feed-rate" => some .feed | "tool-number" => some .toolNumber | "tool-power" => some .toolPower
  | _ => none

def parseOp (line : String) : Option Op :=
  match words line with
  | "move" :: r => (parseMoveArgs r {}).map fun a => .move false a.p a.ps a.h
  | "rapid" :: r => (parseMoveArgs r {}).map fun a => .move true a.p a.ps a.h
  | "moveabs" :: r => (parseMoveArgs r {}).map fun a => .moveAbs false a.p a.ps a.h
  | "rapidabs" :: r => (parseMoveArgs r {}).map fun a => .moveAbs true a.p a.ps a.h
  | "setaxis" :: r => (parseMoveArgs r {}).map fun a => .setAxis a.p a.ps
  | "home" :: r => (parseMoveArgs r {}).map fun a => .home a.p a.ps
  | "probe" :: m :: r => do
      let m ← match m with
        | "towards" => some ProbeArg.towards | "towards-no-error" => some .towardsNoErr
        | "away" => some .away | "away-no-error" => some .awayNoErr | "bogus" => some .bogus | _ => none
      let a ← parseMoveArgs r {}
      pure (.probe m a.p a.ps)
  | ["dist", "rel"] => some (.setDist true) | ["dist", "abs"] => some (.setDist false)
  | ["dist", "bogus"] => some .setDistBogus
  | ["enter", "rel"] => some (.enterCtx true) | ["enter", "abs"] => some (.enterCtx false)
  | ["exit"] => some .exitCtx
  | ["exitraise"] => some .exitCtx     -- leaving because the body raised: the managers restore in a `finally`
  | ["feed", v] => (parseVal v).map .feed
  | ["power", v] => (parseVal v).map .power
  | ["toolon", m, v] => do
      let m ← match m with | "clockwise" => some SpinArg.cw | "counter" => some .ccw | "off" => some .off | "bogus" => some .bogus | _ => none
      let v ← parseVal v
      pure (.toolOn m v)
  | ["tooloff"] => some .toolOff
  | ["poweron", m, v] => do
      let m ← match m with | "constant" => some PowerArg.constant | "dynamic" => some .dynamic | "off" => some .off | "bogus" => some .bogus | _ => none
      let v ← parseVal v
      pure (.powerOn m v)
  | ["poweroff"] => some .powerOff
  | ["coolon", m] => match m with
      | "mist" => some (.coolOn .mist) | "flood" => some (.coolOn .flood) | "off" => some (.coolOn .off)
      | "bogus" => some (.coolOn .bogus) | _ => none
  | ["cooloff"] => some .coolOff
  | ["toolchange", m, n] => do
      let m ← match m with | "automatic" => some SwapArg.automatic | "manual" => some .manual | "off" => some .off | "bogus" => some .bogus | _ => none
      let n ← n.toInt?
      pure (.toolChange m n)
  | "halt" :: m :: r => do
      let m ← match m with
        | "pause" => some HaltArg.pause | "optional-pause" => some .optionalPause | "end-without-reset" => some .endNoReset
        | "end-with-reset" => some .endReset | "pallet-exchange" => some .pallet | "wait-for-bed" => some .waitBed
        | "wait-for-hotend" => some .waitHotend | "wait-for-chamber" => some .waitChamber | "wait-for-motion" => some .waitMotion
        | "off" => some .off | "bogus" => some .bogus | _ => none
      let a ← parseMoveArgs r {}
      pure (.halt m a.ps)
  | ["ehalt", r] => (parseBool "1" "0" r).map .ehalt
  | ["bed", v] => (parseVal v).map .bed
  | ["hotend", v] => (parseVal v).map .hotend
  | ["chamber", v] => (parseVal v).map .chamber
  | ["sleep", v] => (parseVal v).map .sleep
  | ["fan", v, n] => do let v ← parseVal v; let n ← n.toInt?; pure (.fan v n)
  | ["units", u] => (parseBool "in" "mm" u).map .units
  | ["plane", p] => p.toNat?.map .plane
  | ["dir", d] => (parseBool "ccw" "cw" d).map .direction
  | ["res", q] => (parseRat q).map .resolution
  | ["emode", m] => (parseBool "rel" "abs" m).map .emode
  | ["fmode", m] => m.toNat?.map .fmode
  | ["tunits", u] => (parseBool "ms" "s" u).map .timeUnits
  | ["tempunits", u] => (parseBool "k" "c" u).map .tempUnits
  | ["query", q] => (parseBool "t" "p" q).map .query
  | ["comment"] => some .comment
  | ["boundsaxes", a, b, c, d, e, f] => do
      let a ← parseRat a; let b ← parseRat b; let c ← parseRat c
      let d ← parseRat d; let e ← parseRat e; let f ← parseRat f
      pure (.boundsAxes ⟨a, b, c⟩ ⟨d, e, f⟩)
  | ["bounds", k, lo, hi] => do
      let k ← parseKind k; let lo ← parseRat lo; let hi ← parseRat hi
      pure (.boundsNum k lo hi)
  | ["hook", "add", h] => (parseHook h).map .addHook
  | ["hook", "remove", h] => (parseHook h).map .removeHook
  | _ => none

def showOQ : OQ → String
  | none => "~"
  | some q => showRat q

def showPt (p : Pt) : String := s!"{showOQ p.x},{showOQ p.y},{showOQ p.z}"

def insertSorted (e : String × String) : List (String × String) → List (String × String)
  | [] => [e]
  | f :: r => if e.1 < f.1 then e :: f :: r else f :: insertSorted e r

def sortWords (ws : List (String × String)) : List (String × String) := ws.foldl (fun acc e => insertSorted e acc) []

def showStmt (s : Stmt) : String :=
  let axw := [("X", s.ax.x), ("Y", s.ax.y), ("Z", s.ax.z)].filterMap fun (k, v) => v.map fun q => s!"{k}:{showRat q}"
  let ws := (sortWords (s.words.map fun (k, v) => (k, showRat v))).map fun (k, v) => s!"{k}:{v}"
  let toks := s.codes.map Code.text ++ axw ++ ws
  if toks.isEmpty then "_" else ",".intercalate toks

def showStmts (ss : List Stmt) : String := if ss.isEmpty then "-" else ";".intercalate (ss.map showStmt)

def showOut : Out → String
  | .ok => "ok" | .error .valueError => "ValueError"
  | .error .toolState => "ToolStateError" | .error .coolantState => "CoolantStateError"

def b01 (b : Bool) : String := if b then "1" else "0"

def showSpin : SpinArg → String | .cw => "clockwise" | .ccw => "counter" | _ => "off"
def showPow : PowerArg → String | .constant => "constant" | .dynamic => "dynamic" | _ => "off"
def showCool : CoolArg → String | .mist => "mist" | .flood => "flood" | _ => "off"
def showSwap : SwapArg → String | .automatic => "automatic" | .manual => "manual" | _ => "off"

def showParams (ps : Params) : String :=
  let es := ps.filterMap fun (k, v) => v.map fun q => (k, showRat q)
  if es.isEmpty then "-" else ",".intercalate ((sortWords es).map fun (k, v) => s!"{k}:{v}")

structure DS where
  b : B := {}
  nhook : Nat := 0
  last : Option HookCall := none

def showState (d : DS) : String :=
  let b := d.b
  let lastHook := match d.last with
    | none => "-"
    | some c => s!"{showPt c.origin}>{showPt c.target}"
  s!"pos={showPt b.axes} spos={showPt b.saxes} rel={b01 b.rel} srel={b01 b.srel} " ++
  s!"tool={b01 b.toolActive} coola={b01 b.coolActive} spin={showSpin b.spin} pmode={showPow b.pmode} cool={showCool b.cool} " ++
  s!"power={showRat b.power} feed={showRat b.feed} tnum={b.toolNumber} swap={showSwap b.swap} halt=off " ++
  s!"bed={showOQ b.bed} hot={showOQ b.hotend} ch={showOQ b.chamber} " ++
  s!"erel={b01 b.erel} fmode={b.fmode} inches={b01 b.inches} plane={b.plane} ccw={b01 b.dirCcw} res={showRat b.res} " ++
  s!"ms={b01 b.msTime} kelvin={b01 b.kelvin} params={showParams b.params} nhook={d.nhook} lasthook={lastHook}"

def stepLine (d : DS) (line : String) : DS × String :=
  match parseOp line with
  | none => (d, "bad-op " ++ line)
  | some op =>
    let r := step d.b op
    let d' : DS := { b := r.b, nhook := d.nhook + r.calls.length, last := match r.calls.getLast? with | some c => some c | none => d.last }
    (d', s!"out={showOut r.out} stmts={showStmts r.stmts} {showState d'}")

def main : IO Unit := Proto.loopState ({} : DS) stepLine

end GscribModel.BuilderDrv

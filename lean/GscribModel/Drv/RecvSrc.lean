import GscribModel.Model.Proto
import GscribModel.Gen.RecvSrc
/-! Driver mode `recvsrc` (stateless): evaluates the *generated* translation of `printcore._readline`,
    `Device.has_flow_control` and `Device.is_connected` (`Gen/RecvSrc.lean`), so that the translator can be compared with
    the real classes (`harness/tie_recv.py`).
    Lines:  `rl <online> <loud> <stop> <fill> <log> <handlers> <recvcb> <read>`   one `_readline()` call
               flags `0`/`1`; the log holds `<fill>` entries `f` followed by `<log>` = texts separated by `,` (`-` = none);
               `<handlers>` = `<id>:<raises>` separated by `,` (`-` = none); `<recvcb>` = `N` (not set) | `0` | `1` (raises);
               `<read>` = `E` (READ_EOF) | `X` (DeviceError) | `D<hex>` (these bytes, `D` = b'')
            `dv <type> <device> <connected> <dtr>`     the two properties of one `Device`
               `<type>` = `N` | the string; `<device>` = `N` | `0` | `1` (`is_open`); `<dtr>` = `N` | `0` | `1`
    A text is its code points in decimal separated by `.` (`e` = the empty text).
    Records: `rl`: `<ret> online=<b> loud=<b> stop=<b> log=<len>;<first>;<last> trace=<events>` with `<ret>` = `N` (None),
             `L<text>`, `X<class>`; events `r<id>:<text>` (on_recv), `c<text>` (recvcb), `E` (logError), `e`
             (logger.error), `i` (logger.info), separated by `,` (`-` = none);
             `dv`: `fc=<r> ic=<r>` with `<r>` = `1` | `0` | `X<class>`. -/
open GscribModel GscribModel.Proto GscribModel.RecvPy
namespace GscribModel.RecvSrcDrv
open GscribModel.Gen.RecvSrc

def parseBool (s : String) : Option Bool := if s = "1" then some true else if s = "0" then some false else none
def parseOptBool (s : String) : Option (Option Bool) := if s = "N" then some none else (parseBool s).map some
def parseText (s : String) : Option Text :=
  if s = "e" then some [] else (s.splitOn ".").mapM fun w => w.toNat?.map Char.ofNat
def parseList {α : Type} (f : String → Option α) (s : String) : Option (List α) :=
  if s = "-" then some [] else (s.splitOn ",").mapM f
def parseHandler (s : String) : Option Handler :=
  match s.splitOn ":" with
  | [i, r] => do
      let i ← i.toNat?
      let r ← parseBool r
      pure ⟨i, r⟩
  | _ => none
def parseRead (s : String) : Option Read :=
  if s = "E" then some .eof else if s = "X" then some .deviceError
  else match s.toList with
    | 'D' :: h => (parseHex h).map .data
    | _ => none

def b01 (b : Bool) : String := if b then "1" else "0"
def showText (t : Text) : String := if t.isEmpty then "e" else ".".intercalate (t.map fun c => toString c.toNat)
def showErr : PyErr → String
  | .unicodeDecodeError => "UnicodeDecodeError" | .deviceError => "DeviceError" | .attributeError => "AttributeError"
  | .typeError => "TypeError" | .exception => "Exception"
def showEv : Ev → String
  | .on_recv h l => "r" ++ toString h ++ ":" ++ showText l
  | .recvcb l => "c" ++ showText l
  | .logError => "E" | .logger_error => "e" | .logger_info => "i"
def showRet : Except PyErr (Option Text) → String
  | .ok none => "N" | .ok (some l) => "L" ++ showText l | .error e => "X" ++ showErr e
def showB : Except PyErr Bool → String
  | .ok b => b01 b | .error e => "X" ++ showErr e
def showLog (l : List Text) : String :=
  toString l.length ++ ";" ++ (match l.head? with | some t => showText t | none => "~") ++ ";" ++
    (match l.getLast? with | some t => showText t | none => "~")

def handle (line : String) : String :=
  match words line with
  | ["rl", o, l, st, fill, log, hs, cb, rd] =>
    match parseBool o, parseBool l, parseBool st, fill.toNat?, parseList parseText log, parseList parseHandler hs,
          parseOptBool cb, parseRead rd with
    | some o, some l, some st, some fill, some log, some hs, some cb, some rd =>
      let self : Printcore := { online := o, loud := l, stop_read_thread := st, log := List.replicate fill ['f'] ++ log,
                                event_handler := hs, recvcb := cb.map Callback.mk, trace := [] }
      let r := _readline self rd
      showRet r.2 ++ " online=" ++ b01 r.1.online ++ " loud=" ++ b01 r.1.loud ++ " stop=" ++ b01 r.1.stop_read_thread
        ++ " log=" ++ showLog r.1.log
        ++ " trace=" ++ (if r.1.trace.isEmpty then "-" else ",".intercalate (r.1.trace.map showEv))
    | _, _, _, _, _, _, _, _ => "bad-op " ++ line
  | ["dv", ty, dev, c, dtr] =>
    match parseOptBool dev, parseBool c, parseOptBool dtr with
    | some dev, some c, some dtr =>
      let d : Device := { _type := if ty = "N" then none else some ty, _device := dev.map Port.mk, _is_connected := c, force_dtr := dtr }
      "fc=" ++ showB (has_flow_control d) ++ " ic=" ++ showB (is_connected d)
    | _, _, _ => "bad-op " ++ line
  | _ => "bad-op " ++ line

def main : IO Unit := Proto.loopPure handle
end GscribModel.RecvSrcDrv

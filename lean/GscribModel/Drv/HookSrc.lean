import GscribModel.Model.Proto
import GscribModel.Drv.Builder
import GscribModel.Gen.HookSrc
/-! Driver mode `hook` (stateless): evaluates the *generated* translation of `gscrib/hooks/extrusion_hook.py`, so that the
    translator can be compared with the real hook.  One call per line:
    `hook <pi> <layer> <nozzle> <filament> <ox;oy;oz> <tx;ty;tz> <abs|rel> <h> <exact 0|1> [P:<K>:<val>]* [S:<K>:<q|~>]*`
    - `pi` the rational value of `math.pi`; `h` the value of `math.hypot(dx, dy)` computed by the caller: with `exact=1` the
    driver's `hypot dx dy` answers `h` only when `dx² + dy² = h²` (so the arguments the translation passes are checked),
    with `exact=0` it answers `h` whatever the arguments; `P:` the parameters the hook is given, `S:` the parameters the
    state remembers (`~` = stored as None).  Record: `zerodiv`, or the returned parameters `K:val …` in order. -/
open GscribModel GscribModel.Proto GscribModel.Builder GscribModel.Gen.StateSrc GscribModel.HookPrelude GscribModel.Gen.HookSrc
namespace GscribModel.HookSrcDrv

def parseP3 (s : String) : Option P3 :=
  match (s.splitOn ";").mapM parseRat with
  | some [x, y, z] => some ⟨x, y, z⟩
  | _ => none

def showVal : Val → String
  | .fin q => showRat q | .nan => "nan" | .pinf => "inf" | .ninf => "-inf"

structure Extra where
  ps : VParams := []
  sp : Params := []

def parseExtra : List String → Extra → Option Extra
  | [], a => some a
  | w :: ws, a =>
    match w.splitOn ":" with
    | ["P", k, v] => do
        let v ← BuilderDrv.parseVal v
        parseExtra ws { a with ps := a.ps ++ [(k, v)] }
    | ["S", k, v] => do
        let v ← (if v = "~" then some none else (parseRat v).map some)
        parseExtra ws { a with sp := a.sp ++ [(k, v)] }
    | _ => none

def handle (line : String) : String :=
  match words line with
  | "hook" :: pi :: layer :: nozzle :: fil :: o :: t :: mode :: h :: exact :: rest =>
    let r : Option String := do
      let pi ← parseRat pi
      let layer ← parseRat layer
      let nozzle ← parseRat nozzle
      let fil ← parseRat fil
      let o ← parseP3 o
      let t ← parseP3 t
      let rel ← (if mode = "rel" then some true else if mode = "abs" then some false else none)
      let h ← parseRat h
      let ex ← (if exact = "1" then some true else if exact = "0" then some false else none)
      let e ← parseExtra rest {}
      let hyp : Rat → Rat → Rat := fun dx dy => if ex then (if dx * dx + dy * dy = h * h then h else -1000003) else h
      let st : GState := { GState.init.1 with
        _current_extrusion_mode := if rel then ExtrusionMode.RELATIVE else ExtrusionMode.ABSOLUTE, _current_params := e.sp }
      pure (match hook_function (extrusion_hook pi layer nozzle fil) hyp o t e.ps st with
        | none => "zerodiv"
        | some ps => " ".intercalate (ps.map fun kv => kv.1 ++ ":" ++ showVal kv.2))
    r.getD ("bad-op " ++ line)
  | _ => "bad-op " ++ line

def main : IO Unit := Proto.loopPure handle
end GscribModel.HookSrcDrv

import GscribModel.Model.Proto
import GscribModel.Model.DirectWrite
/-! Driver mode `directwrite` (stateful; `reset` starts a new case).

    cfg writes=<n> disc=<0|1> [gated=<0|1>]
                                   caller's plan: n statements, then (disc=1) disconnect(wait=True); gated=1: the
                                   caller starts each write()/disconnect() only when told to (`W`)
    W                              the caller may start its next call
    X <o|b>                        the device pushes a line that is nobody's terminal reply: surplus ok / error line
    G                              the device emits the greeting `Grbl …` (read before online: no line numbers)
    start                          the reader thread sends the first probe
    P                              15 empty reads: another probe (no-op once online)
    D <pre> <o|b>                  device consumes the oldest unread command; <pre> is `-` or a word over
                                   {s,t} (status line / line containing "T:"), then terminal ok / error
    R                              the reader receives the oldest reply line
    L                              read error / end of stream
    settle                         (no device action)
    act <name> [<pre> <o|b>]       exactly one transition, no settling; `disabled` if not enabled
  `start P D R L X G W settle` are total (no-op when not applicable) and are followed by `settle`:
  the host threads run until all of them block.  One record per line. -/
open GscribModel GscribModel.Proto
namespace GscribModel.DirectWriteDrv
open GscribModel.DirectWrite

def showCmd : Cmd → String
  | .probe => "P" | .reset => "M" | .stmt k => s!"S{k}"

def showReply : Reply → String
  | .status => "s" | .temp => "t" | .ok c => "o:" ++ showCmd c | .bad c => "b:" ++ showCmd c
  | .xok => "xo" | .xbad => "xb" | .greet => "g"

def showB (b : Bool) : String := if b then "1" else "0"

def showPhase : CPhase → String
  | .waitOnline => "connecting" | .waitPending => "connecting" | .connected => "connected"
  | .failed => "failed" | .disconnected => "disconnected"

def showW : WState → String
  | .idle => "idle" | .cleared k => s!"cleared:{k}" | .waiting k => s!"waiting:{k}" | .woke k => s!"woke:{k}"

def showList (l : List String) : String := if l.isEmpty then "-" else ",".intercalate l

def record (s : St) (noop : Bool) : String :=
  s!"noop={showB noop} | phase={showPhase s.cphase} online={showB s.online} printing={showB s.printing} " ++
  s!"clear={showB s.clear} lost={showB s.lost} | w={showW s.wstate} ack={showB s.ack} err={showB s.err} " ++
  s!"priq={showList (s.priq.map showCmd)} | tx={showList ((s.devLog ++ s.toDev).map showCmd)} " ++
  s!"| unread={s.toDev.length} wire={showList (s.toHost.map showReply)} " ++
  s!"| out={showList (s.outcomes.map fun p => s!"{p.1}:{if p.2 then "E" else "r"}")} " ++
  s!"| backlog={showB s.backlog} probes={s.probes} draise={showB s.discRaised} " ++
  s!"surplus={showB s.surplusHit} due={showB s.dueErr} ln={showB s.lineNumbers}"

def parsePre (w : String) : Option (List Bool) :=
  if w = "-" then some [] else
  w.toList.mapM fun c => if c = 's' then some false else if c = 't' then some true else none

def parseTerm (w : String) : Option Bool :=
  if w = "o" then some false else if w = "b" then some true else none

def parseAct (ws : List String) : Option Act :=
  match ws with
  | ["lprobe"] => some .lProbe | ["llisten"] => some .lListen | ["xloss"] => some .xLoss
  | ["conline"] => some .cOnline | ["psendnext"] => some .pSendnext | ["cpoll"] => some .cPoll
  | ["cdisc"] => some .cDisc | ["wclear"] => some .wClear | ["wenq"] => some .wEnq
  | ["wwake"] => some .wWake | ["wfinish"] => some .wFinish | ["ssend"] => some .sSend
  | ["dgreet"] => some .dGreet
  | ["dpush", t] => (parseTerm t).map .dPush
  | ["dprocess", p, t] => do
      let pre ← parsePre p
      let e ← parseTerm t
      pure (.dProcess pre e)
  | _ => none

abbrev DS := St × Cfg

def fuel : Nat := 400

/-- a total op: the action if enabled, then the host threads run until they block -/
def total (d : DS) (a : Act) : DS × String :=
  let (s1, did) := tryAct d.1 a
  let r := settle fuel d.2 s1
  (r, record r.1 (!did))

def stepDrv (d : DS) (line : String) : DS × String :=
  match words line with
  | "cfg" :: rest =>
      match (field rest "writes").bind (·.toNat?), field rest "disc" with
      | some n, some dd =>
          let cfg : Cfg := { nwrites := n, disc := dd = "1", gated := field rest "gated" = some "1" }
          ((d.1, cfg), record d.1 false)
      | _, _ => (d, "bad-op " ++ line)
  | ["start"] => total d .lProbe
  | ["P"] => total d .lProbe
  | ["R"] => total d .lListen
  | ["L"] => total d .xLoss
  | ["D", p, t] =>
      match parsePre p, parseTerm t with
      | some pre, some e => total d (.dProcess pre e)
      | _, _ => (d, "bad-op " ++ line)
  | ["X", t] =>
      match parseTerm t with
      | some e => total d (.dPush e)
      | none => (d, "bad-op " ++ line)
  | ["G"] => total d .dGreet
  | ["W"] =>
      let r := settle fuel { d.2 with permits := d.2.permits + 1 } d.1
      (r, record r.1 false)
  | ["settle"] =>
      let r := settle fuel d.2 d.1
      (r, record r.1 false)
  | "act" :: rest =>
      match parseAct rest with
      | some a =>
          match step d.1 a with
          | some s' => ((s', d.2), record s' false)
          | none => (d, "disabled")
      | none => (d, "bad-op " ++ line)
  | _ => (d, "bad-op " ++ line)

def main : IO Unit := Proto.loopState (({}, {}) : DS) stepDrv
end GscribModel.DirectWriteDrv

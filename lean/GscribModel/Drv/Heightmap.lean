import GscribModel.Model.Proto
import GscribModel.Model.Heightmap
/-! Driver mode `heightmap`: one case per line (stateless).

```
raster  sc=<q> grid=<c,c,..;c,c,..;..> q=<x:y:v,x:y:-,..>     -> depths, space separated
        (v = value of the scipy spline at (row=y, col=x), used only off the pixel grid; the model's
         interpolant is "the grid at integer points, the supplied value elsewhere")
pathR   sc=<q> grid=<..> tol=<q> x1= y1= x2= y2=              -> unfiltered | filtered   (x:y:z ..)
lineR   x1= y1= x2= y2=                                       -> x:y ..   (rounded ends, Bresenham)
sparse  sc=<q> q=<px:py:loc,..>   loc = - | ax;ay;ah;bx;by;bh;cx;cy;ch   -> depths
lineS   x1= y1= x2= y2= dist=<q> tol=<q>                      -> n=<segments> | x:y ..
filter  tol=<q> pts=<x:y:z,..>                                -> x:y:z ..
flat    x= y=                                                 -> 0
flatpath x1= y1= x2= y2=                                      -> x:y:z x:y:z
shape   line=<q,q,..>                                         -> ok | ValueError   (argument check of sample_path)
``` -/
open GscribModel GscribModel.Proto
namespace GscribModel.HeightmapDrv
open GscribModel.Heightmap

def splitC (s : String) (c : Char) : List String :=
  if s.isEmpty then [] else splitOnChar s c

def ratField (ws : List String) (k : String) : Option Rat := (field ws k).bind parseRat

def parseGrid (s : String) : Option Grid :=
  (splitC s ';').mapM fun row => (splitC row ',').mapM parseRat

def showSample (p : Sample) : String := s!"{showRat p.x}:{showRat p.y}:{showRat p.z}"
def showSamples (ps : List Sample) : String := " ".intercalate (ps.map showSample)

def isNatRat (q : Rat) : Option Nat := if q.den = 1 ∧ 0 ≤ q.num then some q.num.toNat else none

/-- an interpolant that reproduces the grid: the grid itself at pixel centres, the supplied
    (scipy) values at the other query points -/
def interpOf (g : Grid) (extras : List ((Rat × Rat) × Rat)) (row col : Rat) : Rat :=
  match isNatRat row, isNatRat col with
  | some r, some c =>
      if r < g.height ∧ c < g.width then g.cell r c else (extras.lookup (row, col)).getD 0
  | _, _ => (extras.lookup (row, col)).getD 0

/-- `x:y:v` / `x:y:-` -/
def parseRQ (s : String) : Option (Rat × Rat × Option Rat) :=
  match splitC s ':' with
  | [x, y, v] => do
      let x ← parseRat x
      let y ← parseRat y
      if v = "-" then pure (x, y, none) else do
        let v ← parseRat v
        pure (x, y, some v)
  | _ => none

def parseTri (s : String) : Option (Option Tri) :=
  if s = "-" then some none else
  match (splitC s ';').mapM parseRat with
  | some [ax, ay, ah, bx, byy, bh, cx, cy, ch] => some (some ⟨⟨ax, ay, ah⟩, ⟨bx, byy, bh⟩, ⟨cx, cy, ch⟩⟩)
  | _ => none

def parseSQ (s : String) : Option (Rat × Rat × Option Tri) :=
  match splitC s ':' with
  | [x, y, l] => do
      let x ← parseRat x
      let y ← parseRat y
      let l ← parseTri l
      pure (x, y, l)
  | _ => none

def parseSample (s : String) : Option Sample :=
  match (splitC s ':').mapM parseRat with
  | some [x, y, z] => some ⟨x, y, z⟩
  | _ => none

def handle (line : String) : String :=
  let bad := "bad-op " ++ line
  match words line with
  | "raster" :: ws =>
    match ratField ws "sc", (field ws "grid").bind parseGrid,
          (field ws "q").bind fun s => (splitC s ',').mapM parseRQ with
    | some sc, some g, some qs =>
      let extras := qs.filterMap fun (x, y, v) => v.map fun v => ((y, x), v)
      " ".intercalate (qs.map fun (x, y, _) => showRat (getDepthRaster sc (interpOf g extras) g x y))
    | _, _, _ => bad
  | "pathR" :: ws =>
    match ratField ws "sc", (field ws "grid").bind parseGrid, ratField ws "tol",
          ratField ws "x1", ratField ws "y1", ratField ws "x2", ratField ws "y2" with
    | some sc, some g, some tol, some x1, some y1, some x2, some y2 =>
      let depth := getDepthRaster sc (interpOf g []) g
      showSamples (interpolateLineRaster depth x1 y1 x2 y2) ++ " | " ++
        showSamples (samplePathRaster sc (interpOf g []) g tol x1 y1 x2 y2)
    | _, _, _, _, _, _, _ => bad
  | "lineR" :: ws =>
    match ratField ws "x1", ratField ws "y1", ratField ws "x2", ratField ws "y2" with
    | some x1, some y1, some x2, some y2 =>
      " ".intercalate ((bresenham (roundHalfEven x1) (roundHalfEven y1) (roundHalfEven x2)
        (roundHalfEven y2)).map fun p => s!"{p.1}:{p.2}")
    | _, _, _, _ => bad
  | "sparse" :: ws =>
    match ratField ws "sc", (field ws "q").bind fun s => (splitC s ',').mapM parseSQ with
    | some sc, some qs =>
      -- point location is the scipy-supplied parameter: the query's own answer
      " ".intercalate (qs.map fun (x, y, l) => showRat (getDepthSparse sc (fun _ _ => l) x y))
    | _, _ => bad
  | "lineS" :: ws =>
    match ratField ws "x1", ratField ws "y1", ratField ws "x2", ratField ws "y2",
          ratField ws "dist", ratField ws "tol" with
    | some x1, some y1, some x2, some y2, some dist, some tol =>
      let n := numSegments dist tol
      s!"n={n} | " ++ " ".intercalate
        ((interpolateLineSparse (fun _ _ => 0) n x1 y1 x2 y2).map fun p => s!"{showRat p.x}:{showRat p.y}")
    | _, _, _, _, _, _ => bad
  | "filter" :: ws =>
    match ratField ws "tol", (field ws "pts").bind fun s => (splitC s ',').mapM parseSample with
    | some tol, some pts => showSamples (filterPoints tol pts)
    | _, _ => bad
  | "flat" :: ws =>
    match ratField ws "x", ratField ws "y" with
    | some x, some y => showRat (flatDepth x y)
    | _, _ => bad
  | "shape" :: ws =>
    match (field ws "line").bind fun s => (splitC s ',').mapM parseRat with
    | some l => if lineShapeOk l then "ok" else "ValueError"
    | none => bad
  | "flatpath" :: ws =>
    match ratField ws "x1", ratField ws "y1", ratField ws "x2", ratField ws "y2" with
    | some x1, some y1, some x2, some y2 => showSamples (flatPath x1 y1 x2 y2)
    | _, _, _, _ => bad
  | _ => bad

def main : IO Unit := Proto.loopPure handle
end GscribModel.HeightmapDrv

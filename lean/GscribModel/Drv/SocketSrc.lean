import GscribModel.Model.Proto
import GscribModel.Gen.SocketSrc
/-! Driver mode `socketsrc` (stateless): evaluates the *generated* translation of `Device._readline_buf` /
    `_readline_socket` (`Gen/SocketSrc.lean`), so that the translator can be compared with the real class.
    Lines:  `rb <c> <buf>`                      one `_readline_buf()` call
            `rs <ncalls> <c> <buf> <pass> …`     `ncalls` successive `_readline_socket()` calls on the same object and script
    `<c>` = `_is_connected` (`0`/`1`); `<buf>` = chunks in hex separated by `,` (`-` = empty list, `e` = the chunk b'');
    `<pass>` = `<read0>;<select0>;<read1>` with a read `N` (None), `e` (b'') or hex, select `0`/`1`.
    Records: `rb`: `<line> | c=<c> buf=<buf>`;  `rs`: one result per call (`l<hex>` bytes returned, `-` b'', `E` None,
    `X<error>` an exception, after which the calls stop), then ` | c=<c> buf=<buf> unread=<passes left>`. -/
open GscribModel GscribModel.Proto GscribModel.Socket GscribModel.SockPy
namespace GscribModel.SocketSrcDrv
open GscribModel.Gen.SocketSrc

def parseChunk (s : String) : Option Bytes := if s = "e" then some [] else if s = "" then none else parseHex s.toList
def parseBuf (s : String) : Option (List Bytes) := if s = "-" then some [] else (s.splitOn ",").mapM parseChunk
def parseBool (s : String) : Option Bool := if s = "1" then some true else if s = "0" then some false else none
def parseRead (s : String) : Option (Option Bytes) := if s = "N" then some none else (parseChunk s).map some
def parsePass (s : String) : Option Pass :=
  match s.splitOn ";" with
  | [a, b, c] => do
      let r0 ← parseRead a
      let s0 ← parseBool b
      let r1 ← parseRead c
      pure ⟨r0, s0, r1⟩
  | _ => none

def showChunk (b : Bytes) : String := if b.isEmpty then "e" else toHex b
def showBuf (l : List Bytes) : String := if l.isEmpty then "-" else ",".intercalate (l.map showChunk)
def showDev (d : Device) : String := "c=" ++ (if d._is_connected then "1" else "0") ++ " buf=" ++ showBuf d._read_buffer
def showErr : PyErr → String
  | .indexError => "IndexError" | .notBytes => "TypeError" | .scriptExhausted => "ScriptExhausted"
def showRet : Option Bytes → String
  | none => "E"
  | some [] => "-"
  | some l => "l" ++ toHex l

def runCalls : Nat → Device → List Pass → List String × Device × List Pass
  | 0, d, ps => ([], d, ps)
  | n + 1, d, ps =>
    match _readline_socket d ps with
    | .error e => (["X" ++ showErr e], d, ps)
    | .ok (r, d', ps') =>
      let rest := runCalls n d' ps'
      (showRet r :: rest.1, rest.2)

def handle (line : String) : String :=
  match words line with
  | ["rb", c, buf] =>
    match parseBool c, parseBuf buf with
    | some c, some buf =>
      match _readline_buf { _is_connected := c, _read_buffer := buf } with
      | .ok (l, d) => showChunk l ++ " | " ++ showDev d
      | .error e => "X" ++ showErr e
    | _, _ => "bad-op " ++ line
  | "rs" :: n :: c :: buf :: ps =>
    match n.toNat?, parseBool c, parseBuf buf, ps.mapM parsePass with
    | some n, some c, some buf, some ps =>
      let r := runCalls n { _is_connected := c, _read_buffer := buf } ps
      " ".intercalate r.1 ++ " | " ++ showDev r.2.1 ++ " unread=" ++ toString r.2.2.length
    | _, _, _, _ => "bad-op " ++ line
  | _ => "bad-op " ++ line

def main : IO Unit := Proto.loopPure handle
end GscribModel.SocketSrcDrv

import GscribModel.Model.Proto
import GscribModel.Model.Socket
/-! Driver mode `socket`: one case per line. -/
open GscribModel GscribModel.Proto
namespace GscribModel.SocketDrv
open GscribModel.Socket
def parseEv (w : String) : Option Ev :=
  match w.toList with
  | ['a'] => some .again
  | ['e'] => some .eof
  | 'c' :: hex => match parseHex hex with
      | some (b :: bs) => some (.chunk b bs)
      | _ => none
  | _ => none
def showRes : Res → String
  | .line l => "l" ++ toHex l
  | .empty => "-"
  | .eofR => "E"
/-- `<ncalls> ev ev …` ↦ results, then the bytes still buffered -/
def handle (line : String) : String :=
  match words line with
  | n :: evs =>
    match n.toNat?, evs.mapM parseEv with
    | some n, some evs =>
      let r := calls n [] evs
      " ".intercalate (r.1.map showRes) ++ " | buf=" ++ toHex r.2.1.flatten
    | _, _ => "bad-op " ++ line
  | _ => "bad-op " ++ line
def main : IO Unit := Proto.loopPure handle
end GscribModel.SocketDrv

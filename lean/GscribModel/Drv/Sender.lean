import GscribModel.Model.Proto
import GscribModel.Model.Sender
/-! Driver mode `sender`: one case per line.

    `e0=<int> faults=<i,j,…|-> job=<hex;hex;…|-> sched=<string over F L S|->`

    * `job`   raw job lines as handed to `gcoder.GCode` (hex of the ASCII bytes, `;`-separated);
    * `faults` transmission indices corrupted in transit (index 0 = the `M110 N-1` of `startprint`);
    * `sched` `F` firmware consumes one line, `L` the listener processes one reply,
              `S` the print thread wakes up and runs until it blocks again (`sendnext`*).

    Record: `tx=<hex,…> | acc=<hex,…> | rep=<o|e|r<n>,…> | printing= clear= lineno= qi= rf= exp= |
             split=0/1 | pend=<#toFw>,<#toS> | quiet=0/1 | stuck=<index of the first disabled F/L or ->` -/
open GscribModel GscribModel.Proto
namespace GscribModel.SenderDrv
open GscribModel.Sender

def hexText (t : Text) : String := toHex (t.map Char.toNat)

def parseText (h : String) : Option Text := (parseHex h.toList).map fun bs => bs.map Char.ofNat

def parseList {α} (sep : String) (f : String → Option α) (s : String) : Option (List α) :=
  if s = "-" || s = "" then some [] else (s.splitOn sep).mapM f

def showReply : Reply → String
  | .ok => "o"
  | .err => "e"
  | .resend n => "r" ++ toString n

structure Acc where
  s     : St
  rep   : List Reply := []
  stuck : Option Nat := none
  i     : Nat := 0

def runSched (job : List Item) (faulty : Nat → Bool) (s0 : St) (sched : List Char) : Acc :=
  sched.foldl (init := { s := s0 }) fun a c =>
    if a.stuck.isSome then a else
    let a' : Acc :=
      match c with
      | 'S' => { a with s := sendAll job faulty (job.length + 2) a.s }
      | 'L' => match step job faulty a.s .listen with
          | some s' => { a with s := s' }
          | none => { a with stuck := some a.i }
      | 'F' => match step job faulty a.s .fw with
          | some s' => { a with s := s', rep := a.rep ++ s'.toS.drop a.s.toS.length }
          | none => { a with stuck := some a.i }
      | _ => { a with stuck := some a.i }
    { a' with i := a.i + 1 }

def b01 (b : Bool) : String := if b then "1" else "0"

def handle (line : String) : String :=
  let ws := words line
  match field ws "e0", field ws "faults", field ws "job", field ws "sched" with
  | some e0, some fl, some jb, some sc =>
    match e0.toInt?, parseList "," String.toNat? fl, parseList ";" parseText jb with
    | some e0, some faults, some raws =>
      let job := prepare raws
      let faulty : Nat → Bool := fun i => faults.contains i
      let sched := if sc = "-" then [] else sc.toList
      let a := runSched job faulty (init faulty e0) sched
      let s := a.s
      s!"tx={",".intercalate (s.tx.map hexText)} | acc={",".intercalate (s.accepted.map hexText)} | " ++
      s!"rep={",".intercalate (a.rep.map showReply)} | " ++
      s!"printing={b01 s.printing} clear={b01 s.clear} lineno={s.lineno} qi={s.qi} rf={s.resendfrom} exp={s.expected} | " ++
      s!"split={b01 s.split} | pend={s.toFw.length},{s.toS.length} | quiet={b01 (quiescentB job faulty s)} | " ++
      s!"stuck={match a.stuck with | some i => toString i | none => "-"}"
    | _, _, _ => "bad-op " ++ line
  | _, _, _, _ => "bad-op " ++ line

def main : IO Unit := Proto.loopPure handle
end GscribModel.SenderDrv

import GscribModel.Model.Proto
import GscribModel.Drv.Builder
import GscribModel.Gen.PointSrc
/-! Driver mode `point` (stateless): evaluates the *generated* translation of `gscrib/geometry/point.py`, so that the
    translator can be compared with the real class.  Lines: `resolve p` `replace p q` `mask p q` `combine s o t m`
    `within p lo hi`, points as `x;y;z` with `-` = None.  Record: the resulting point `x,y,z` (`~` = None) or `1`/`0`. -/
open GscribModel GscribModel.Proto GscribModel.Builder
namespace GscribModel.PointSrcDrv

def parseOQ (s : String) : Option OQ := if s = "-" then some none else (parseRat s).map some
def parsePt (s : String) : Option Pt :=
  match (s.splitOn ";").mapM parseOQ with
  | some [x, y, z] => some ⟨x, y, z⟩
  | _ => none

def handle (line : String) : String :=
  match words line with
  | ["resolve", p] => match parsePt p with
      | some p => BuilderDrv.showPt (Gen.PointSrc.resolve p) | none => "bad-op " ++ line
  | ["replace", p, q] => match parsePt p, parsePt q with
      | some p, some q => BuilderDrv.showPt (Gen.PointSrc.replace p q.x q.y q.z) | _, _ => "bad-op " ++ line
  | ["mask", p, q] => match parsePt p, parsePt q with
      | some p, some q => BuilderDrv.showPt (Gen.PointSrc.mask p q.x q.y q.z) | _, _ => "bad-op " ++ line
  | ["combine", s, o, t, m] => match parsePt s, parsePt o, parsePt t, parsePt m with
      | some s, some o, some t, some m => BuilderDrv.showPt (Gen.PointSrc.combine s o t m) | _, _, _, _ => "bad-op " ++ line
  | ["within", p, lo, hi] => match parsePt p, parsePt lo, parsePt hi with
      | some p, some lo, some hi => BuilderDrv.b01 (Gen.PointSrc.within_bounds p lo hi) | _, _, _ => "bad-op " ++ line
  | _ => "bad-op " ++ line

def main : IO Unit := Proto.loopPure handle
end GscribModel.PointSrcDrv

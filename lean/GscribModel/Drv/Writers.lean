import GscribModel.Model.Proto
import GscribModel.Model.Writers
/-! Driver mode `writers`: one history per line.

    input : `[pick=<i>,<j>…] <writers> | <ops>`   (`pick`: print only the records after ops number i, j, …)
            writers: `p` path, `b` binary stream, `t` text stream, `c` custom recorder; suffix `!` = tty
            ops    : `a<i>` add, `r<i>` remove, `w<cp>,<cp>,…` write a line (hex code points),
                     `f` flush, `t` teardown, `d<i>` owner disconnects writer i
    output: one record per op, joined by ` ; `:
            `reg=<i>,<i>… <i>:o=<0|1>:d=<0|1>:c=<0|1>:k=<discs>:B=<data hex>:T=<text cps>:R=<recv hex>.<hex>… …` -/
open GscribModel GscribModel.Proto
namespace GscribModel.WritersDrv
open GscribModel.Writers

def parseKind (w : String) : Option (Kind × Bool) :=
  match w.toList with
  | ['p'] => some (.path, false)
  | ['b'] => some (.binary, false)
  | ['b', '!'] => some (.binary, true)
  | ['t'] => some (.text, false)
  | ['t', '!'] => some (.text, true)
  | ['c'] => some (.custom, false)
  | _ => none

def hexNat (cs : List Char) : Option Nat :=
  if cs.isEmpty then none else
  cs.foldlM (fun acc c => (hexVal c).map (acc * 16 + ·)) 0

def parseLine (cs : List Char) : Option Line :=
  if cs.isEmpty then some [] else
  ((String.ofList cs).splitOn ",").mapM (fun w => hexNat w.toList)

def parseOp (w : String) : Option Op :=
  match w.toList with
  | ['f'] => some .flush
  | ['t'] => some .teardown
  | 'a' :: ds => (String.ofList ds).toNat?.map .add
  | 'r' :: ds => (String.ofList ds).toNat?.map .remove
  | 'd' :: ds => (String.ofList ds).toNat?.map .disc
  | 'w' :: cs => (parseLine cs).map .write
  | _ => none

def natHex (n : Nat) : String := String.ofList (Nat.toDigits 16 n)
def b01 (b : Bool) : String := if b then "1" else "0"

def showW (i : Nat) (x : W) : String :=
  s!"{i}:o={b01 x.isOpen}:d={b01 x.dirty}:c={b01 x.closed}:k={x.discs}:B={toHex x.data}:T=" ++
    ",".intercalate (x.text.map natHex) ++ ":R=" ++
    (if x.kind = .custom then ".".intercalate (x.recv.map toHex) else s!"#{x.recv.length}")

def showSt (n : Nat) (s : St) : String :=
  "reg=" ++ ",".intercalate (s.reg.map toString) ++ " " ++
    " ".intercalate ((List.range n).map fun i => showW i (s.ws i))

def handle (line : String) : String :=
  match line.splitOn "|" with
  | [cfgS, opsS] =>
    let (pick, cfgW) := match words cfgS with
      | w :: r => if w.startsWith "pick=" then
                    (some (((w.drop 5).toString.splitOn ",").filterMap String.toNat?), r) else (none, w :: r)
      | r => (none, r)
    match cfgW.mapM parseKind, (words opsS).mapM parseOp with
    | some cfg, some ops =>
      let n := cfg.length
      let init := St.init (fun i => cfg.getD i (.custom, false))
      let (_, outs) := ops.foldl (fun (acc : St × List String) op =>
        let s' := step acc.1 op
        (s', showSt n s' :: acc.2)) (init, [])
      let all := outs.reverse
      match pick with
      | some idx => " ; ".intercalate (idx.map fun i => all.getD i (showSt n init))
      | none => " ; ".intercalate all
    | _, _ => "bad-op " ++ line
  | _ => "bad-op " ++ line

def main : IO Unit := Proto.loopPure handle
end GscribModel.WritersDrv

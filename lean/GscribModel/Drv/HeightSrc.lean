import GscribModel.Model.Proto
import GscribModel.Drv.Heightmap
import GscribModel.Gen.HeightSrc
/-! Driver mode `heightsrc` (stateless): evaluates the *generated* translation of `gscrib/heightmaps/*.py`
    (`Gen/HeightSrc.lean`), so that the translator can be compared with the real classes (`harness/tie_height.py`).

```
rdepth  sc= w= h= ex=<r:c:v,..> q=<x:y,..>          -> depths           RasterHeightMap.get_depth_at
rline   sc= w= h= ex= line=<q,..>                   -> ok x:y:z .. | err <Class>     ._interpolate_line
rpath   sc= tol= w= h= ex= line=                    -> ok .. | err ..                .sample_path
sdepth  sc= aff=<a,b,c> box=<W,H> q=<x:y,..>        -> depths           SparseHeightMap.get_depth_at
sline   sc= tol= aff= box= hyp=<dx:dy:v> line=      -> ok .. | err ..                ._interpolate_line
spath   (same fields)                               -> ok .. | err ..                .sample_path
filterR tol= pts=<x:y:z,..>   filterS ..            -> ok .. | err IndexError        ._filter_points
set     cls=R|S what=scale|tol v=                   -> ok <scale> <tolerance> | err ValueError   (from scale 3, tolerance 5)
fdepth  x= y=          fpath line=                  -> 0 ;  ok .. | err ..           FlatHeightMap
norm    dtype=uint8|uint16 px=<n,n;n,n>             -> v,v;v,v          ._to_height_map with f32 = identity
init    cls=R|S                                     -> <scale> <tolerance>           .__init__
```
    The parameters of the translation are supplied by the harness: the raster "spline" is the table `ex` of the real
    spline's values at `(row, col)` (a query outside the table answers the sentinel `-987654321`), the grid is only its shape
    (`w` columns, `h` rows); the sparse interpolant is the affine function `a x + b y + c` on the box `[0, W] × [0, H]` and the
    fill value `0` outside (the harness builds the real map from samples of that function whose hull is the box);
    `numpy.hypot` answers `v` on exactly the arguments `(dx, dy)` (sentinel elsewhere). -/
open GscribModel GscribModel.Proto
namespace GscribModel.HeightSrcDrv
open GscribModel.Heightmap GscribModel.HeightPrelude GscribModel.HeightmapDrv GscribModel.Gen.HeightSrc

def sentinel : Rat := -987654321

def showErr : PyErr → String
  | .ValueError => "ValueError" | .IndexError => "IndexError" | .TypeError => "TypeError" | .OverflowError => "OverflowError"

def showRes : Except PyErr (List Sample) → String
  | .ok ps => if ps.isEmpty then "ok" else "ok " ++ showSamples ps
  | .error e => "err " ++ showErr e

def ratList (ws : List String) (k : String) : Option (List Rat) := (field ws k).bind fun s => (splitC s ',').mapM parseRat

def natField (ws : List String) (k : String) : Option Nat := (field ws k).bind String.toNat?

def parseTriple (s : String) : Option (Rat × Rat × Rat) :=
  match (splitC s ':').mapM parseRat with
  | some [a, b, c] => some (a, b, c)
  | _ => none

def parsePair (s : String) : Option (Rat × Rat) :=
  match (splitC s ':').mapM parseRat with
  | some [a, b] => some (a, b)
  | _ => none

def tableOf (ws : List String) : Option (Rat → Rat → Rat) := do
  let s ← field ws "ex"
  let es ← (splitC s ',').mapM parseTriple
  pure fun r c => ((es.find? fun e => e.1 = r ∧ e.2.1 = c).map (·.2.2)).getD sentinel

def rasterOf (ws : List String) : Option RasterSt := do
  let sc ← ratField ws "sc"
  let tol := (ratField ws "tol").getD 1
  let w ← natField ws "w"
  let h ← natField ws "h"
  let t ← tableOf ws
  pure ⟨sc, tol, List.replicate h (List.replicate w 0), t⟩

def sparseOf (ws : List String) : Option SparseSt := do
  let sc ← ratField ws "sc"
  let tol := (ratField ws "tol").getD 1
  let aff ← ratList ws "aff"
  let box ← ratList ws "box"
  match aff, box with
  | [a, b, c], [bw, bh] =>
    pure ⟨sc, tol, fun x y => if 0 ≤ x ∧ x ≤ bw ∧ 0 ≤ y ∧ y ≤ bh then a * x + b * y + c else 0⟩
  | _, _ => none

def hypotOf (ws : List String) : Option (Rat → Rat → Rat) := do
  let t ← (field ws "hyp").bind parseTriple
  pure fun a b => if a = t.1 ∧ b = t.2.1 then t.2.2 else sentinel

def queries (ws : List String) : Option (List (Rat × Rat)) := (field ws "q").bind fun s => (splitC s ',').mapM parsePair

def samples (ws : List String) : Option (List Sample) := (field ws "pts").bind fun s => (splitC s ',').mapM parseSample

def parseRows (s : String) : Option (List (List Nat)) := (splitC s ';').mapM fun row => (splitC row ',').mapM String.toNat?

def showGrid (g : Grid) : String := ";".intercalate (g.map fun row => ",".intercalate (row.map showRat))

def dummyR : RasterSt := ⟨3, 5, [], fun _ _ => 0⟩
def dummyS : SparseSt := ⟨3, 5, fun _ _ => 0⟩

def handle (line : String) : String :=
  let bad := "bad-op " ++ line
  match words line with
  | "rdepth" :: ws =>
    match rasterOf ws, queries ws with
    | some r, some qs => " ".intercalate (qs.map fun (x, y) => showRat (RasterHeightMap.get_depth_at r x y))
    | _, _ => bad
  | "rline" :: ws =>
    match rasterOf ws, ratList ws "line" with
    | some r, some l => showRes (RasterHeightMap._interpolate_line r l)
    | _, _ => bad
  | "rpath" :: ws =>
    match rasterOf ws, ratList ws "line" with
    | some r, some l => showRes (RasterHeightMap.sample_path r l)
    | _, _ => bad
  | "sdepth" :: ws =>
    match sparseOf ws, queries ws with
    | some s, some qs => " ".intercalate (qs.map fun (x, y) => showRat (SparseHeightMap.get_depth_at s x y))
    | _, _ => bad
  | "sline" :: ws =>
    match sparseOf ws, hypotOf ws, ratList ws "line" with
    | some s, some hy, some l => showRes (SparseHeightMap._interpolate_line hy s l)
    | _, _, _ => bad
  | "spath" :: ws =>
    match sparseOf ws, hypotOf ws, ratList ws "line" with
    | some s, some hy, some l => showRes (SparseHeightMap.sample_path hy s l)
    | _, _, _ => bad
  | "filterR" :: ws =>
    match ratField ws "tol", samples ws with
    | some tol, some pts => showRes (RasterHeightMap._filter_points dummyR pts tol)
    | _, _ => bad
  | "filterS" :: ws =>
    match ratField ws "tol", samples ws with
    | some tol, some pts => showRes (SparseHeightMap._filter_points dummyS pts tol)
    | _, _ => bad
  | "set" :: ws =>
    match field ws "cls", field ws "what", ratField ws "v" with
    | some "R", some "scale", some v =>
      match RasterHeightMap.set_scale dummyR v with
      | .ok r => s!"ok {showRat r._scale_z} {showRat r._tolerance}" | .error e => "err " ++ showErr e
    | some "R", some "tol", some v =>
      match RasterHeightMap.set_tolerance dummyR v with
      | .ok r => s!"ok {showRat r._scale_z} {showRat r._tolerance}" | .error e => "err " ++ showErr e
    | some "S", some "scale", some v =>
      match SparseHeightMap.set_scale dummyS v with
      | .ok r => s!"ok {showRat r._scale_z} {showRat r._tolerance}" | .error e => "err " ++ showErr e
    | some "S", some "tol", some v =>
      match SparseHeightMap.set_tolerance dummyS v with
      | .ok r => s!"ok {showRat r._scale_z} {showRat r._tolerance}" | .error e => "err " ++ showErr e
    | _, _, _ => bad
  | "fdepth" :: ws =>
    match ratField ws "x", ratField ws "y" with
    | some x, some y => showRat (FlatHeightMap.get_depth_at ⟨⟩ x y)
    | _, _ => bad
  | "fpath" :: ws =>
    match ratList ws "line" with
    | some l => showRes (FlatHeightMap.sample_path ⟨⟩ l)
    | none => bad
  | "norm" :: ws =>
    match field ws "dtype", (field ws "px").bind parseRows with
    | some "uint8", some px => showGrid (RasterHeightMap._to_height_map (fun q => q) dummyR ⟨.uint8, px⟩)
    | some "uint16", some px => showGrid (RasterHeightMap._to_height_map (fun q => q) dummyR ⟨.uint16, px⟩)
    | _, _ => bad
  | "init" :: ws =>
    match field ws "cls" with
    | some "R" =>
      let r := RasterHeightMap.init (fun q => q) dummyR ⟨.uint8, [[0]]⟩
      s!"{showRat r._scale_z} {showRat r._tolerance}"
    | some "S" =>
      let s := SparseHeightMap.init dummyS []
      s!"{showRat s._scale_z} {showRat s._tolerance}"
    | _ => bad
  | _ => bad

def main : IO Unit := Proto.loopPure handle
end GscribModel.HeightSrcDrv

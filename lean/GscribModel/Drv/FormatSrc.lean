import GscribModel.Model.Proto
import GscribModel.Drv.Format
import GscribModel.Gen.FormatSrc
/-! Driver mode `formatsrc` (stateless): evaluates the *generated* translation of
    `gscrib/formatters/default_formatter.py`, so that the translator can be compared with the real class.

One case per line: a formatter is built by the generated `__init__` followed by the generated setters for the fields
present, in the order of `GCodeCore._initialize_formatter` (`dp=` `sym=` `le=` `lx=` `ly=` `lz=`, then an optional extra
`set_axis_label(ax, al)`), then `op=` is evaluated on it.  Strings travel as in mode `format` (dot separated hex code
points, `~` empty, `-` None).

```
[dp=<int>] [sym=<str>] [le=<str>] [lx=<str>] [ly=<str>] [lz=<str>] [ax=<str> al=<str>]
  op=state                                   -> ok dp=<int> eol=<str> tmpl=<str> axes=<str,…> labels=<k:v,…>
  op=number v=<rat>|nan|inf|-inf             -> ok <str>
  op=line s=<str>   |  op=comment s=<str>    -> ok <str>
  op=params params=<K:V,…>|~                 -> ok <str>
  op=command code=<str> params=…|~|- c=<str>|-  -> ok <str>
```
An exception is reported by its class (`ValueError`, `KeyError`, `IndexError`, `TypeError`, `Unmodelled`), prefixed by
`setup:` when a setter raised. -/
open GscribModel GscribModel.Proto
namespace GscribModel.FormatSrcDrv
open GscribModel.Format GscribModel.FormatPrelude GscribModel.Gen.FormatSrc GscribModel.FormatDrv

def showPyErr : PyErr → String
  | .valueError => "ValueError"
  | .keyError => "KeyError"
  | .indexError => "IndexError"
  | .typeError => "TypeError"
  | .unmodelled => "Unmodelled"

def optField (ws : List String) (k : String) : Option (Option Str) :=
  match field ws k with
  | none => some none
  | some s => (decStr s).map some

/-- `__init__` + the setters for the fields given; `none` = a field that does not parse -/
def setup (ws : List String) : Option (Except PyErr DefaultFormatter) := do
  let dp ← match field ws "dp" with
    | none => some none
    | some s => s.toInt?.map some
  let sym ← optField ws "sym"
  let le ← optField ws "le"
  let lx ← optField ws "lx"
  let ly ← optField ws "ly"
  let lz ← optField ws "lz"
  let ax ← optField ws "ax"
  let al ← optField ws "al"
  let opt (v : Option Str) (f : DefaultFormatter) (g : DefaultFormatter → Str → Except PyErr DefaultFormatter) :
      Except PyErr DefaultFormatter :=
    match v with
    | none => .ok f
    | some s => g f s
  pure do
    let f ← DefaultFormatter.init
    let f ← match dp with
      | none => .ok f
      | some n => DefaultFormatter.set_decimal_places f n
    let f ← opt sym f DefaultFormatter.set_comment_symbols
    let f ← opt le f fun f s => .ok (DefaultFormatter.set_line_endings f s)
    let f ← opt lx f fun f s => DefaultFormatter.set_axis_label f ['x'] s
    let f ← opt ly f fun f s => DefaultFormatter.set_axis_label f ['y'] s
    let f ← opt lz f fun f s => DefaultFormatter.set_axis_label f ['z'] s
    match ax, al with
    | some a, some l => DefaultFormatter.set_axis_label f a l
    | _, _ => .ok f

def showRes : Except PyErr Str → String
  | .ok s => "ok " ++ encStr s
  | .error e => showPyErr e

def showState (f : DefaultFormatter) : String :=
  s!"ok dp={f._decimal_places} eol={encStr f._line_endings} tmpl={encStr f._comment_template} " ++
  "axes=" ++ ",".intercalate (f._valid_axes.map encStr) ++
  " labels=" ++ ",".intercalate (f._labels.map fun kv => encStr kv.1 ++ ":" ++ encStr kv.2)

def run (f : DefaultFormatter) (ws : List String) : Option String := do
  match ← field ws "op" with
  | "state" => pure (showState f)
  | "number" => pure (showRes (DefaultFormatter.number f (← parseVal (← field ws "v"))))
  | "line" => pure (showRes (.ok (DefaultFormatter.line f (← decStr (← field ws "s")))))
  | "comment" => pure (showRes (DefaultFormatter.comment f (← decStr (← field ws "s"))))
  | "params" =>
    match ← parseParams (← field ws "params") with
    | some p => pure (showRes (DefaultFormatter.parameters f p))
    | none => none
  | "command" =>
    pure (showRes (DefaultFormatter.command f (← decStr (← field ws "code")) (← parseParams (← field ws "params"))
      (← decOpt (← field ws "c"))))
  | _ => none

def handle (line : String) : String :=
  let ws := words line
  match setup ws with
  | none => "bad-op " ++ line
  | some (.error e) => "setup:" ++ showPyErr e
  | some (.ok f) =>
    match run f ws with
    | some r => r
    | none => "bad-op " ++ line

def main : IO Unit := Proto.loopPure handle
end GscribModel.FormatSrcDrv

import GscribModel.Model.Proto
import GscribModel.Drv.Transform
import GscribModel.Gen.XformSrc
/-! Driver mode `xform` (stateful; the line `reset` starts again): executes the *generated* translation of
    `gscrib/geometry/transform.py` / `transformer.py` and of the transform context managers of `gscrib/gcode_core.py`, so that
    the translator can be compared with the real classes.

Lines (rationals `n/d`, `-` = None, `;` separates numbers, names are `h<hex of the UTF-8 bytes>`):

    new                                   CoordinateTransformer()            (also the state after `reset`)
    pivot 1;2;3 | translate 1;2;3 | scale | scale 2;1/2 | chain <16 rationals, row major> | chain other
    rotate 45/2 z <9 rationals: the block scipy returned, row major> | reflect 1;0;1/2 | mirror xy
    save - | save h61 | restore - | restore h61 | delete h61
    apply 1;-;3 | reverse 1;2;3           value in the record, state unchanged
    copy                                  `_copy_state()`, kept by the driver on a list of frames
    revert                                `_revert_state(frame)` with the frame kept last (and drops it)
    tnew <16 rationals | other> 1;2;3     `Transform(matrix, pivot)` on its own: the value is the object
    enter | enter h61                     `GCodeCore.current_transform_enter` / `named_transform_enter name`: `__enter__` of
                                          `with g.current_transform():` / `with g.named_transform(name):`; what it saved is
                                          kept by the driver on a list of open blocks (nothing is kept if it raised)
    leave                                 `…_exit` of the innermost open block (its `finally`; the same whether the body
                                          returned or raised) and drops it; outcome `no-open-block` if there is none

Record: `outcome | value | cur=<obj> | stack=<obj>,… | named=h61:<obj>,…` with `<obj>` = `matrix_inverse_pivot_from-pivot_to-pivot`,
a matrix being its 16 entries. -/
open GscribModel GscribModel.Proto
namespace GscribModel.XformSrcDrv
open GscribModel.Transform GscribModel.XformPrelude GscribModel.Gen.XformSrc GscribModel.TransformDrv

def parseM4 (s : String) : Option M4 :=
  match (s.splitOn ";").mapM parseRat with
  | some [a, b, c, d, e, f, g, h, i, j, k, l, m, n, o, p] => some ⟨a, b, c, d, e, f, g, h, i, j, k, l, m, n, o, p⟩
  | _ => none

def parseArr (s : String) : Option NdArray :=
  if s = "other" then some .other else (parseM4 s).map .m4

def showM4 (m : M4) : String :=
  ";".intercalate ([m.m11, m.m12, m.m13, m.m14, m.m21, m.m22, m.m23, m.m24, m.m31, m.m32, m.m33, m.m34,
    m.m41, m.m42, m.m43, m.m44].map showRat)

def showObj (t : Gen.XformSrc.Transform) : String :=
  "_".intercalate [showM4 t._matrix, showM4 t._inverse, showPt t._pivot, showM4 t._from_pivot, showM4 t._to_pivot]

def showErr : Option Err → String
  | none => "ok"
  | some e => e.name

structure St where
  ct : CoordinateTransformer
  frames : List (Gen.XformSrc.Transform × List Gen.XformSrc.Transform)
  /-- the open `with` blocks, innermost first: the name (`none`: `current_transform`) and the generator's saved local -/
  ctx : List (Option String × (Gen.XformSrc.Transform × List Gen.XformSrc.Transform)) := []

def fresh : CoordinateTransformer := (CoordinateTransformer.__init__ default).1

def record (out value : String) (c : CoordinateTransformer) : String :=
  let stack := ",".intercalate (c._transforms_stack.map showObj)
  let named := ",".intercalate (c._named_transforms.map fun kv => showName kv.1 ++ ":" ++ showObj kv.2)
  s!"{out} | {value} | cur={showObj c._current_transform} | stack={stack} | named={named}"

def eff (s : St) (r : CoordinateTransformer × Option Err) : St × String :=
  ({ s with ct := r.1 }, record (showErr r.2) "-" r.1)

def step (s : St) (line : String) : St × String :=
  let bad := (s, "bad-op " ++ line)
  match words line with
  | ["new"] => eff s (CoordinateTransformer.__init__ default)
  | ["pivot", p] => match parsePt p with
      | some p => eff s (CoordinateTransformer.set_pivot s.ct p) | none => bad
  | ["translate", v] => match parseV3 v with
      | some v => eff s (CoordinateTransformer.translate s.ct v.x v.y v.z) | none => bad
  | ["scale"] => eff s (CoordinateTransformer.scale s.ct [])
  | ["scale", fs] => match (fs.splitOn ";").mapM parseRat with
      | some fs => eff s (CoordinateTransformer.scale s.ct fs) | none => bad
  | ["chain", m] => match parseArr m with
      | some m => eff s (CoordinateTransformer.chain_transform s.ct m) | none => bad
  | ["rotate", a, ax, m] => match parseRat a, parseBlock m with
      | some a, some R => eff s (CoordinateTransformer.rotate s.ct a ax R) | _, _ => bad
  | ["rotate", a, m] => match parseRat a, parseBlock m with          -- the empty string as axis
      | some a, some R => eff s (CoordinateTransformer.rotate s.ct a "" R) | _, _ => bad
  | ["reflect", v] => match (v.splitOn ";").mapM parseRat with
      | some n => eff s (CoordinateTransformer.reflect s.ct n) | none => bad
  | ["mirror", p] => eff s (CoordinateTransformer.mirror s.ct p)
  | ["mirror"] => eff s (CoordinateTransformer.mirror s.ct "")
  | ["save", n] => match parseOptName n with
      | some n => eff s (CoordinateTransformer.save_state s.ct n) | none => bad
  | ["restore", n] => match parseOptName n with
      | some n => eff s (CoordinateTransformer.restore_state s.ct n) | none => bad
  | ["delete", n] => match parseName n with
      | some n => eff s (CoordinateTransformer.delete_state s.ct n) | none => bad
  | ["apply", p] => match parsePt p with
      | some p => (s, record "ok" (showPt (CoordinateTransformer.apply_transform s.ct p)) s.ct) | none => bad
  | ["reverse", p] => match parsePt p with
      | some p => (s, record "ok" (showPt (CoordinateTransformer.reverse_transform s.ct p)) s.ct) | none => bad
  | ["copy"] => ({ s with frames := CoordinateTransformer._copy_state s.ct :: s.frames }, record "ok" "-" s.ct)
  | ["revert"] => match s.frames with
      | [] => bad
      | f :: rest =>
        let r := CoordinateTransformer._revert_state s.ct f
        ({ s with ct := r.1, frames := rest }, record (showErr r.2) "-" r.1)
  | ["tnew", m, p] => match parseArr m, parsePt p with
      | some m, some p =>
        let r := Gen.XformSrc.Transform.__init__ default m p
        (s, record (showErr r.2) (match r.2 with | none => showObj r.1 | some _ => "-") s.ct)
      | _, _ => bad
  | ["enter"] =>
      let r := GCodeCore.current_transform_enter s.ct
      match r.2 with
      | .ok st => ({ s with ct := r.1, ctx := (none, st) :: s.ctx }, record "ok" "-" r.1)
      | .error e => ({ s with ct := r.1 }, record e.name "-" r.1)
  | ["enter", n] => match parseName n with
      | some n =>
        let r := GCodeCore.named_transform_enter s.ct n
        match r.2 with
        | .ok st => ({ s with ct := r.1, ctx := (some n, st) :: s.ctx }, record "ok" "-" r.1)
        | .error e => ({ s with ct := r.1 }, record e.name "-" r.1)
      | none => bad
  | ["leave"] => match s.ctx with
      | [] => (s, record "no-open-block" "-" s.ct)
      | (n, st) :: rest =>
        let r := match n with
          | none => GCodeCore.current_transform_exit s.ct st
          | some n => GCodeCore.named_transform_exit s.ct n st
        ({ s with ct := r.1, ctx := rest }, record (showErr r.2) "-" r.1)
  | _ => bad

def main : IO Unit := Proto.loopState ({ ct := fresh, frames := [] } : St) step
end GscribModel.XformSrcDrv

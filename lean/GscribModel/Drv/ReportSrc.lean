import GscribModel.Model.Proto
import GscribModel.Drv.Report
import GscribModel.Gen.ReportSrc
/-! Driver mode `reportsrc`: evaluates the *generated* translation of the device-report methods of
    `gscrib/writers/printrun_writer.py` (`Gen/ReportSrc.lean`), so that the translator can be compared with the real
    class.  One case per line: operations separated by `|`, applied in order to `Writer.init`.  Strings are code points in
    hex joined by `_` (`~` = the empty string).

      `U <key> <n/d>`  `_update_param(key, value)`        `P <msg>`  `_parse_message(msg)`
      `M <msg>`        `_on_device_message(msg)`          `G <name>` `get_parameter(name)`
      `C`              `_ack_event.clear()`               `E`        `_device_error = None`
      `K`              the module constants (record: `ok=…;err=…;axes=…;pat=…`)

    Record: one per operation, joined by ` ; `:
      `exc=<-|ValueError> ack=<0|1> err=<-|D<str>|G> rep=<str>,… par=<str>:<n/d>,… [get=<n/d|->]`
    (`rep`: `_reported_params` in list order; `par`: `_current_params`, newest binding first - the harness reads both as
    a set / a dict in which the first binding wins). -/
open GscribModel GscribModel.Proto
namespace GscribModel.ReportSrcDrv
open GscribModel.Report GscribModel.ReportPy GscribModel.Gen.ReportSrc

def parseStr (s : String) : Option Str := if s = "~" then some [] else ReportDrv.parseCps s
def showStr (s : Str) : String := if s.isEmpty then "~" else ReportDrv.showCps s

def showExc : Option Exc → String
  | none => "-"
  | some .valueError => "ValueError"

def showErr : Option ErrObj → String
  | none => "-"
  | some (.deviceError m) => "D" ++ showStr m
  | some .gscribError => "G"

def showW (r : Res Writer) : String :=
  let w := r.1
  s!"exc={showExc r.2} ack={if w._ack_event then 1 else 0} err={showErr w._device_error} " ++
  "rep=" ++ ",".intercalate (w._reported_params.map showStr) ++
  " par=" ++ ",".intercalate (w._current_params.map fun kv => showStr kv.1 ++ ":" ++ showRat kv.2)

def optRat : Option Rat → String
  | some q => showRat q
  | none => "-"

/-- one operation: the new object and its record; `none` = unparsable -/
def op (w : Writer) (ws : List String) : Option (Writer × String) :=
  match ws with
  | ["U", k, v] => do
      let key ← parseStr k
      let q ← parseRat v
      let r := _update_param w key q
      some (r.1, showW r)
  | ["P", m] => do
      let msg ← parseStr m
      let r := _parse_message w msg
      some (r.1, showW r)
  | ["M", m] => do
      let msg ← parseStr m
      let r := _on_device_message w msg
      some (r.1, showW r)
  | ["G", n] => do
      let name ← parseStr n
      some (w, showW (w, none) ++ " get=" ++ optRat (get_parameter w name))
  | ["C"] => let w' := { w with _ack_event := false }; some (w', showW (w', none))
  | ["E"] => let w' := { w with _device_error := none }; some (w', showW (w', none))
  | ["K"] =>
    some (w, "ok=" ++ ",".intercalate (SUCCESS_PREFIXES.map showStr) ++ ";err=" ++ ",".intercalate (ERROR_PREFIXES.map showStr)
      ++ ";axes=" ++ ",".intercalate (AXES.map showStr) ++ ";pat=" ++ showStr VALUE_PATTERN.pattern)
  | _ => none

def handle (line : String) : String :=
  let ops := (line.splitOn "|").map words
  let r := ops.foldl (fun (acc : Option (Writer × List String)) ws =>
    match acc with
    | none => none
    | some (w, outs) => (op w ws).map fun (w', o) => (w', o :: outs)) (some (Writer.init, []))
  match r with
  | some (_, outs) => " ; ".intercalate outs.reverse
  | none => "bad-op " ++ line

def main : IO Unit := Proto.loopPure handle
end GscribModel.ReportSrcDrv

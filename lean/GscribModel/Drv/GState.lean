import GscribModel.Model.Proto
import GscribModel.Drv.Builder
import GscribModel.Gen.StateSrc
/-! Driver mode `gstate` (stateful; `reset` = `GState()`): executes the *generated* translation of
    `gscrib/gcode_state.py` so that the translator itself (and the hand-written prelude behind `validate`) can be
    compared with the real class, call by call.

    Lines:  `spin <mode> <val>` `pmode <mode> <val>` `cool <mode>` `swap <mode> <int>` `halt <mode>` `feed <val>`
            `tpower <val>` `res <val>` `bed|hotend|chamber <val>` `dist|emode|fmode|units|tunits|tempunits|plane|dir <member value>`
            `axes x;y;z` (`-` = None)  `bounds <name> <lo> <hi>`  `boundsaxes lx ly lz hx hy hz`
    Record: `out=<ok|valueError|toolState|coolantState> <every field of the state>` -/
open GscribModel GscribModel.Proto GscribModel.Builder GscribModel.GenPrelude GscribModel.Gen.StateSrc
namespace GscribModel.GStateDrv

def showVal : Val → String
  | .fin q => showRat q | .nan => "nan" | .pinf => "inf" | .ninf => "-inf"

def showG (g : GState) : String :=
  s!"axes={BuilderDrv.showPt g._current_axes} tnum={g._current_tool_number} power={showVal g._current_tool_power} " ++
  s!"spin={g._current_spin_mode.value} pmode={g._current_power_mode.value} dist={g._current_distance_mode.value} " ++
  s!"emode={g._current_extrusion_mode.value} cool={g._current_coolant_mode.value} fmode={g._current_feed_mode.value} " ++
  s!"feed={showVal g._current_feed_rate} swap={g._current_tool_swap_mode.value} halt={g._current_halt_mode.value} " ++
  s!"units={g._current_length_units.value} tunits={g._current_time_units.value} tempunits={g._current_temperature_units.value} " ++
  s!"plane={g._current_plane.value} dir={g._current_direction.value} res={showVal g._current_resolution} " ++
  s!"coola={BuilderDrv.b01 g._is_coolant_active} tool={BuilderDrv.b01 g._is_tool_active} " ++
  s!"hot={showVal g._target_hotend_temperature} bed={showVal g._target_bed_temperature} ch={showVal g._target_chamber_temperature}"

def parseOQ (s : String) : Option OQ := if s = "-" then some none else (parseRat s).map some

def call (g : GState) (ws : List String) : Option (GState × Option Err) :=
  match ws with
  | ["spin", m, v] => do let m ← SpinMode.ofValue? m; let v ← BuilderDrv.parseVal v; pure (g._set_spin_mode m v)
  | ["pmode", m, v] => do let m ← PowerMode.ofValue? m; let v ← BuilderDrv.parseVal v; pure (g._set_power_mode m v)
  | ["cool", m] => do let m ← CoolantMode.ofValue? m; pure (g._set_coolant_mode m)
  | ["swap", m, n] => do let m ← ToolSwapMode.ofValue? m; let n ← n.toInt?; pure (g._set_tool_number m n)
  | ["halt", m] => do let m ← HaltMode.ofValue? m; pure (g._set_halt_mode m)
  | ["feed", v] => do let v ← BuilderDrv.parseVal v; pure (g._set_feed_rate v)
  | ["tpower", v] => do let v ← BuilderDrv.parseVal v; pure (g._set_tool_power v)
  | ["res", v] => do let v ← BuilderDrv.parseVal v; pure (g._set_resolution v)
  | ["bed", v] => do let v ← BuilderDrv.parseVal v; pure (g._set_target_bed_temperature v)
  | ["hotend", v] => do let v ← BuilderDrv.parseVal v; pure (g._set_target_hotend_temperature v)
  | ["chamber", v] => do let v ← BuilderDrv.parseVal v; pure (g._set_target_chamber_temperature v)
  | ["dist", m] => do let m ← DistanceMode.ofValue? m; pure (g._set_distance_mode m)
  | ["emode", m] => do let m ← ExtrusionMode.ofValue? m; pure (g._set_extrusion_mode m)
  | ["fmode", m] => do let m ← FeedMode.ofValue? m; pure (g._set_feed_mode m)
  | ["units", m] => do let m ← LengthUnits.ofValue? m; pure (g._set_length_units m)
  | ["tunits", m] => do let m ← TimeUnits.ofValue? m; pure (g._set_time_units m)
  | ["tempunits", m] => do let m ← TemperatureUnits.ofValue? m; pure (g._set_temperature_units m)
  | ["plane", m] => do let m ← Plane.ofValue? m; pure (g._set_plane m)
  | ["dir", m] => do let m ← Direction.ofValue? m; pure (g._set_direction m)
  | ["axes", p] =>
      match (p.splitOn ";").mapM parseOQ with
      | some [x, y, z] => some (g._set_axes ⟨x, y, z⟩)
      | _ => none
  | ["bounds", name, lo, hi] => do
      let k ← kindOfName name; let lo ← parseRat lo; let hi ← parseRat hi
      pure ({ g with _user_bounds := g._user_bounds.set k (lo, hi) }, none)
  | ["boundsaxes", a, b, c, d, e, f] => do
      let a ← parseRat a; let b ← parseRat b; let c ← parseRat c; let d ← parseRat d; let e ← parseRat e; let f ← parseRat f
      pure ({ g with _user_bounds := { g._user_bounds with axes := some (⟨a, b, c⟩, ⟨d, e, f⟩) } }, none)
  | _ => none

def errName : Err → String | .valueError => "valueError" | .toolState => "toolState" | .coolantState => "coolantState"

def step (g : Option GState) (line : String) : Option GState × String :=
  match g with
  | none => (none, "bad-op init failed")
  | some g =>
    match call g (words line) with
    | none => (some g, "bad-op " ++ line)
    | some (g', none) => (some g', "out=ok " ++ showG g')
    | some (g', some e) => (some g', s!"out={errName e} " ++ showG g')   -- the state as the raising method left it

def initial : Option GState := match GState.init with | (g, none) => some g | (_, some _) => none

def main : IO Unit := Proto.loopState initial step
end GscribModel.GStateDrv

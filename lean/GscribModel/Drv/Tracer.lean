import GscribModel.Model.Proto
import GscribModel.Model.Tracer
/-! Driver mode `tracer` (stateless, one case per line).  Doubles travel as the decimal value of their 64 IEEE bits (`<bits>`),
    exact rationals as `n/d`, `-` is `None`, points are `x;y;z`, lists are comma separated.

```
consts                                                         → twopi=<bits>
shape kind=arc|circle|arc_radius|helix|thread|spiral cw=0|1 rel=0|1 o=P res=<bits> n=<recorded n|0> stride=<k>
      target=PL center=PL radius=<bits> turns=<int> pitch=<bits>
      → ValueError | ok n=<model n> nx=<bits of 10·L/res> L=<bits> t=P c=P th=<bits,…> pts=<P,…>   (formula stage)
grid len=<bits> res=<bits> n=<recorded n|0> stride=<k>          → ValueError | ok n=<model n> nx=<bits> th=<bits,…>
filter rel=0|1 res=<bits> o=P pts=<P,…>                         → mask=0110… margin=<bits> words=<Q,…>  (filter/emit stage)
poly rel=0|1 o=Q pts=<QL,…>                                    → words=<Q,…> visited=<Q,…>
controls rel=0|1 o=Q pts=<QL,…>                                → ValueError | controls=<Q,…>
units sf=<bits> res=<bits>                                       → res=<bits>
```
-/
open GscribModel GscribModel.Proto
namespace GscribModel.TracerDrv
open GscribModel.Tracer

/-! ### doubles as bits -/
def parseF (s : String) : Option Float :=
  s.toNat?.bind fun n => if n < 2 ^ 64 then some (Float.ofBits n.toUInt64) else none

def showF (f : Float) : String := toString f.toBits.toNat

/-- exact rational value of a finite double -/
def bitsToRat (b : UInt64) : Rat :=
  let n := b.toNat
  let sign : Int := if n >>> 63 = 1 then -1 else 1
  let e := (n >>> 52) % 2048
  let m := n % (2 ^ 52)
  let (mant, ex) : Nat × Int := if e = 0 then (m, -1074) else (m + 2 ^ 52, (e : Int) - 1075)
  if ex ≥ 0 then ((sign * (mant * 2 ^ ex.toNat : Nat) : Int) : Rat)
  else mkRat (sign * (mant : Int)) (2 ^ (-ex).toNat)

def floatToRat (f : Float) : Rat := bitsToRat f.toBits

def parse3 {α : Type} (p : String → Option α) (s : String) : Option (V3 α) :=
  match s.splitOn ";" with
  | [a, b, c] => do pure ⟨← p a, ← p b, ← p c⟩
  | _ => none

def parseOpt {α : Type} (p : String → Option α) (s : String) : Option (Option α) :=
  if s == "-" then some none else (p s).map some

def parsePL {α : Type} (p : String → Option α) (s : String) : Option (PL α) :=
  match s.splitOn ";" with
  | [a, b, c] => do pure ⟨← parseOpt p a, ← parseOpt p b, ← parseOpt p c⟩
  | _ => none

def parseList {α : Type} (p : String → Option α) (s : String) : Option (List α) :=
  if s.isEmpty then some [] else (s.splitOn ",").mapM p

def show3 {α : Type} (sh : α → String) (p : V3 α) : String := sh p.x ++ ";" ++ sh p.y ++ ";" ++ sh p.z

def flag (ws : List String) (k : String) : Bool := field ws k == some "1"

/-! ### formula stage -/

def copysignF (m s : Float) : Float :=
  if s < 0 || (s == 0 && (1 : Float) / s < 0) then -(m.abs) else m.abs

/-- numpy's `isclose` constants used by `arc` -/
def rtolF : Float := Float.ofScientific 1 true 10
def atolF : Float := Float.ofScientific 1 true 8
def snapF : Float := Float.ofScientific 1 true 2

inductive Curve where
  | err
  | ok (f : Float → V3 Float) (len : Float) (t c : V3 Float)

def arcCurve (r : Arc Float × V3 Float × V3 Float) : Curve :=
  let (A, t, c) := r
  if isClose rtolF atolF A.r (arcTargetRadius floatTrig t c) then
    .ok (arcPoint floatTrig A) (arcLength floatTrig A) t c
  else .err

def helixCurve (r : Helix Float × V3 Float × V3 Float) : Curve :=
  let (H, t, c) := r
  .ok (helixPoint floatTrig H) (estimateLength floatTrig 500 (helixPoint floatTrig H)) t c

def curveOf (ws : List String) (kind : String) (cw rel : Bool) (o : V3 Float) : Option Curve := do
  let target := (field ws "target").bind (parsePL parseF)
  let center := (field ws "center").bind (parsePL parseF)
  match kind with
  | "arc" => pure (arcCurve (traceArc floatTrig cw rel o (← target) (← center)))
  | "circle" => pure (arcCurve (traceCircle floatTrig cw rel o (← center)))
  | "arc_radius" =>
    let target ← target
    let radius ← (field ws "radius").bind parseF
    let t := toAbsolute rel o target
    match radiusResolve floatTrig snapF copysignF o t radius with
    | none => pure .err
    | some r => pure (arcCurve (traceArc floatTrig cw rel o target (radiusCentreRel floatTrig cw o t r)))
  | "helix" =>
    let turns ← (field ws "turns").bind String.toInt?
    if turns ≤ 0 then pure .err
    else pure (helixCurve (traceHelix floatTrig cw rel o (← target) (← center) turns.toNat))
  | "spiral" =>
    let turns ← (field ws "turns").bind String.toInt?
    if turns ≤ 0 then pure .err
    else pure (helixCurve (traceSpiral floatTrig cw rel o (← target) turns.toNat))
  | "thread" =>
    let pitch ← (field ws "pitch").bind parseF
    if pitch ≤ 0 then pure .err
    else pure (helixCurve (traceThread floatTrig cw rel o (← target) pitch))
  | _ => none

def shapeLine (ws : List String) : Option String := do
  let kind ← field ws "kind"
  let o ← (field ws "o").bind (parse3 parseF)
  let res ← (field ws "res").bind parseF
  let nrec := ((field ws "n").bind String.toNat?).getD 0
  let stride := max 1 (((field ws "stride").bind String.toNat?).getD 1)
  match ← curveOf ws kind (flag ws "cw") (flag ws "rel") o with
  | .err => pure "ValueError"
  | .ok f len t c =>
    -- `parametric`: `if length <= 0: raise ValueError` (a NaN length fails in `int()`, also a ValueError)
    if len ≤ 0 || len != len then pure "ValueError" else
    let nm := numSegments floatTrig len res
    let n := if nrec > 0 then nrec else nm
    let idx := (List.range n).filter fun i => (i + 1) % stride == 0 || i + 1 == n
    let th := idx.map fun i => theta floatTrig n (i + 1)
    let pts := th.map f
    pure (s!"ok n={nm} nx={showF ((10 : Float) * len / res)} L={showF len} t={show3 showF t} c={show3 showF c} th="
      ++ ",".intercalate (th.map showF) ++ " pts=" ++ ",".intercalate (pts.map (show3 showF)))

/-- `parametric(function, length)` for a user function / spline: segment count and the `thetas` grid -/
def gridLine (ws : List String) : Option String := do
  let len ← (field ws "len").bind parseF
  let res ← (field ws "res").bind parseF
  let nrec := ((field ws "n").bind String.toNat?).getD 0
  let stride := max 1 (((field ws "stride").bind String.toNat?).getD 1)
  if len ≤ 0 || len != len then pure "ValueError" else
  let nm := numSegments floatTrig len res
  let n := if nrec > 0 then nrec else nm
  let idx := (List.range n).filter fun i => (i + 1) % stride == 0 || i + 1 == n
  pure (s!"ok n={nm} nx={showF ((10 : Float) * len / res)} th="
    ++ ",".intercalate (idx.map fun i => showF (theta floatTrig n (i + 1))))

/-! ### filter / emit stage -/

def v3ToRat (p : V3 Float) : V3 Rat := ⟨floatToRat p.x, floatToRat p.y, floatToRat p.z⟩

def filterLine (ws : List String) : Option String := do
  let rel := flag ws "rel"
  let res ← (field ws "res").bind parseF
  let o ← (field ws "o").bind (parse3 parseF)
  let pts ← (field ws "pts").bind (parseList (parse3 parseF))
  -- distances and keep decisions in `Float`, exactly the operations numpy performs
  let ds := (distancesTR Float.sqrt pts #[]).toList
  let mask := (filterGoTR res (res / 10) res ds #[]).toList
  let margin := filterMargin res (res / 10) res ds (1 / 0)
  let kept : List (V3 Float) := match pts with
    | [] => []
    | p :: ps => p :: (applyMaskTR ps mask #[]).toList
  -- emission in exact rationals (`to_distance_mode` + `move`)
  let words := (emitMovesTR rel (v3ToRat o) (kept.map v3ToRat) #[]).toList
  pure ("mask=" ++ String.ofList (mask.map fun b => if b then '1' else '0') ++ " margin=" ++ showF margin
    ++ " words=" ++ ",".intercalate (words.map (show3 showRat)))

def polyLine (ws : List String) : Option String := do
  let rel := flag ws "rel"
  let o ← (field ws "o").bind (parse3 parseRat)
  let pts ← (field ws "pts").bind (parseList (parsePL parseRat))
  let words := emitPolyline rel o pts
  pure ("words=" ++ ",".intercalate (words.map (show3 showRat)) ++ " visited="
    ++ ",".intercalate ((machine rel o words).map (show3 showRat)))

def controlsLine (ws : List String) : Option String := do
  let rel := flag ws "rel"
  let o ← (field ws "o").bind (parse3 parseRat)
  let pts ← (field ws "pts").bind (parseList (parsePL parseRat))
  let cs := splineControls rel o pts
  if cs.length < 2 then pure "ValueError"
  else pure ("controls=" ++ ",".intercalate (cs.map (show3 showRat)))

def unitsLine (ws : List String) : Option String := do
  let sf ← (field ws "sf").bind parseF
  let res ← (field ws "res").bind parseF
  pure ("res=" ++ showF (convertResolution sf res))

def handle (line : String) : String :=
  let r := match words line with
    | "consts" :: _ => some ("twopi=" ++ showF floatTwoPi)
    | "shape" :: ws => shapeLine ws
    | "grid" :: ws => gridLine ws
    | "filter" :: ws => filterLine ws
    | "poly" :: ws => polyLine ws
    | "controls" :: ws => controlsLine ws
    | "units" :: ws => unitsLine ws
    | _ => none
  r.getD ("bad-op " ++ (line.take 80).toString)

def main : IO Unit := Proto.loopPure handle
end GscribModel.TracerDrv

import GscribModel.Model.Proto
import GscribModel.Drv.Report
import GscribModel.Gen.ReportSrc
import GscribModel.Gen.DirectWriteSrc
/-! Driver mode `dwritesrc`: evaluates the *generated* translation of the direct-write path of
    `gscrib/writers/printrun_writer.py` and `gscrib/printrun/printcore.py` (`Gen/DirectWriteSrc.lean`), so that the
    translator can be compared with the real classes.  One case per line: segments separated by `|`; the first is
    `init <fields>` (the objects the case starts from), the others are operations applied in order.  Strings are code
    points in hex joined by `_` (`~` = the empty string); lists are joined by `,` (`@` = empty); `-` = `None`.

    Fields: `dev` (0 = `_device is None`) `pr`inter `cl`ear `on`line `pg` (printing) `pa`used `mq` (mainqueue) `pq`
    (priqueue) `qi` (queueindex) `ln` (lineno) `rf` (resendfrom) `sl` (sentlines `k:str,…`) `tcp` `sln` (`_send_line_numbers`)
    `pt` (print_thread) `flow` `fail` (port writes fail) `to` (`_timeout`) `err` (`-`, `D<str>`, `G`) `sh`utdown `ack` `onl`.

    Operations (sections of the writer): `W0 <stmt>` `W1` write; `W <stmt> [M:<line> | E:<msg>]…` the whole of `write()`: section 0,
    if it ends with `cont` the deliveries another thread makes meanwhile, then section 1; `T` the whole of `_start_print_thread`; `S|S1|S2|SC <stmt>` `_send_statement` (the record ends with
    ` chain-differs` if the chain of its effects gives something else), its effects, their chain; `A` `_abort_on_device_error`; `WA` `_wait_for_acknowledgment`; `WC <expired>` `_wait_for_connection`; `WP`
    `_wait_for_pending_operations`; `T0` `T1` `_start_print_thread`; `D <wait>` `disconnect`; `ST <n/d>` `set_timeout`;
    `ON` `_on_device_online`; `ER <msg>` `_on_printrun_error`; `M <line>` `_on_device_message` (the translation of
    `Gen/ReportSrc.lean` on this writer); `Q` the three properties; printcore methods on the device, followed by the
    delivery of the callbacks: `ps <cmd>` send, `pn <cmd>` send_now, `pr` `_reset_line_numbers`, `pp` startprint(GCode([])),
    `px` `_sendnext`; `K` constants, wiring and delegation.

    Record per operation (joined by ` ; `): `out=<done|cont|blocked|raised:<Class>|enters:<m>|outside:<what>>` and the
    fields above plus `wire` (what `_send` was handed) [and `props=<c><p><h>` for `Q`]. -/
open GscribModel GscribModel.Proto
namespace GscribModel.DirectWriteSrcDrv
open GscribModel.Report (Str)
open GscribModel.ReportPy (ErrObj)
open GscribModel.DWPy GscribModel.Gen.DirectWriteSrc

def parseStr (s : String) : Option Str := if s = "~" then some [] else ReportDrv.parseCps s
def showStr (s : Str) : String := if s.isEmpty then "~" else ReportDrv.showCps s
def parseList (s : String) : Option (List Str) := if s = "@" then some [] else (s.splitOn ",").mapM parseStr
def showList (l : List Str) : String := if l.isEmpty then "@" else ",".intercalate (l.map showStr)
def parseB (s : String) : Option Bool := if s = "1" then some true else if s = "0" then some false else none
def b01 (b : Bool) : String := if b then "1" else "0"

def parseErr (s : String) : Option (Option ErrObj) :=
  if s = "-" then some none else if s = "G" then some (some .gscribError)
  else if s.startsWith "D" then (parseStr (s.drop 1).toString).map fun m => some (.deviceError m) else none
def showErr : Option ErrObj → String
  | none => "-"
  | some (.deviceError m) => "D" ++ showStr m
  | some .gscribError => "G"

def parseSl (s : String) : Option (List (Int × Str)) :=
  if s = "@" then some [] else
  (s.splitOn ",").mapM fun kv => match kv.splitOn ":" with
    | [k, v] => do let i ← k.toInt?; let t ← parseStr v; pure (i, t)
    | _ => none

def showExc : Exc → String
  | .attributeError => "AttributeError" | .keyError => "KeyError" | .valueError => "ValueError" | .typeError => "TypeError"
  | .queueEmpty => "Empty" | .deviceError => "DeviceError" | .gscribError => "GscribError"
  | .deviceConnectionError => "DeviceConnectionError" | .deviceTimeoutError => "DeviceTimeoutError"
  | .deviceWriteError => "DeviceWriteError"

def showOut : Out → String
  | .done => "done" | .cont => "cont" | .blocked => "blocked" | .raised e => "raised:" ++ showExc e
  | .enters m => "enters:" ++ m | .outside w => "outside:" ++ w

def parseInit (ws : List String) : Option Writer := do
  let f := fun k => field ws k
  let fb := fun k => (f k).bind parseB
  let fi := fun k => (f k).bind String.toInt?
  let dev ← fb "dev"
  let pc : PC := {
    printer := ← fb "pr", clear := ← fb "cl", online := ← fb "on", printing := ← fb "pg", paused := ← fb "pa",
    mainqueue := ← (do let m ← f "mq"; if m = "-" then pure none else (parseList m).map some),
    priqueue := ← (f "pq").bind parseList, queueindex := ← fi "qi", lineno := ← fi "ln", resendfrom := ← fi "rf",
    sentlines := ← (f "sl").bind parseSl, tcp_streaming_mode := ← fb "tcp", _send_line_numbers := ← fb "sln",
    print_thread := ← fb "pt", has_flow_control := ← fb "flow", port_fails := ← fb "fail", wire := [], cb_error := [] }
  pure { _device := if dev then some pc else none, _timeout := ← (f "to").bind parseRat, _device_error := ← (f "err").bind parseErr,
         _shutdown_requested := ← fb "sh", _ack_event := ← fb "ack", _online_event := ← fb "onl" }

def showPC (d : PC) : String :=
  s!"pr={b01 d.printer} cl={b01 d.clear} on={b01 d.online} pg={b01 d.printing} pa={b01 d.paused} " ++
  s!"mq={match d.mainqueue with | none => "-" | some l => showList l} pq={showList d.priqueue} qi={d.queueindex} ln={d.lineno} " ++
  s!"rf={d.resendfrom} tcp={b01 d.tcp_streaming_mode} sln={b01 d._send_line_numbers} pt={b01 d.print_thread} wire={showList d.wire}"

def showW (r : Res Writer) : String :=
  let w := r.1
  s!"out={showOut r.2} " ++ (match w._device with | none => "dev=0" | some d => "dev=1 " ++ showPC d) ++
  s!" to={showRat w._timeout} err={showErr w._device_error} sh={b01 w._shutdown_requested} ack={b01 w._ack_event} onl={b01 w._online_event}"

/-- a printcore method on the writer's device, then the delivery of the recorded callbacks -/
def lift (f : PC → Res PC) (w : Writer) : Res Writer :=
  match w._device with
  | none => (w, .raised .attributeError)
  | some d => (_dispatch { w with _device := some (f d).1 }, (f d).2)

/-- `recvcb`: the C18 translation of `_on_device_message` on the two attributes it shares with this writer -/
def onMessage (w : Writer) (line : Str) : Res Writer :=
  let r := (Gen.ReportSrc._on_device_message
    { _reported_params := [], _current_params := [], _device_error := w._device_error, _ack_event := w._ack_event } line)
  ({ w with _device_error := r.1._device_error, _ack_event := r.1._ack_event },
   match r.2 with | none => .done | some _ => .raised .valueError)

def constants : String :=
  s!"timeout={showRat DEFAULT_TIMEOUT} poll={showRat POLLING_INTERVAL} effects={_send_statement_effects} " ++
  "callbacks=" ++ ",".intercalate (callbacks.map fun p => p.1 ++ ":" ++ p.2) ++
  " delegation=" ++ ";".intercalate (delegation.map fun p => p.1 ++ "." ++ p.2.1 ++ "->" ++ p.2.2) ++
  " init=" ++ showW (Writer.init, .done) ++ " pcinit=" ++ showPC PC.init

/-- what another thread does while the caller of `write()` is between its two sections: `M:<line>` / `E:<msg>` -/
def scripted (w : Writer) (item : String) : Option Writer :=
  if item.startsWith "M:" then (parseStr (item.drop 2).toString).map fun m => (onMessage w m).1
  else if item.startsWith "E:" then (parseStr (item.drop 2).toString).map fun m => (_on_printrun_error w m).1
  else none

def op (w : Writer) (ws : List String) : Option (Writer × String) :=
  let fin := fun (r : Res Writer) => some (r.1, showW r)
  match ws with
  | "W" :: s :: script => (parseStr s).bind fun s =>
      match write_0 w s with
      | (w1, .cont) => (script.foldlM scripted w1).bind fun w2 => fin (write_1 w2)
      | r => fin r
  | ["T"] =>
      match _start_print_thread_0 w with
      | (w1, .cont) => fin (_start_print_thread_1 w1)
      | r => fin r
  | ["W0", s] => (parseStr s).bind fun s => fin (write_0 w s)
  | ["W1"] => fin (write_1 w)
  | ["S", s] => (parseStr s).bind fun s =>
      let r := _send_statement w s
      some (r.1, showW r ++ (if _send_statement_chain w s = r then "" else " chain-differs"))
  | ["S1", s] => (parseStr s).bind fun s => fin (_send_statement_1 w s)
  | ["S2", s] => (parseStr s).bind fun s => fin (_send_statement_2 w s)
  | ["SC", s] => (parseStr s).bind fun s => fin (_send_statement_chain w s)
  | ["A"] => fin (_abort_on_device_error w)
  | ["WA"] => fin (_wait_for_acknowledgment w)
  | ["WC", e] => (parseB e).bind fun e => fin (_wait_for_connection w e)
  | ["WP"] => fin (_wait_for_pending_operations w)
  | ["T0"] => fin (_start_print_thread_0 w)
  | ["T1"] => fin (_start_print_thread_1 w)
  | ["D", b] => (parseB b).bind fun b => fin (disconnect w b)
  | ["ST", q] => (parseRat q).bind fun q => fin (set_timeout w q)
  | ["ON"] => fin (_on_device_online w)
  | ["ER", m] => (parseStr m).bind fun m => fin (_on_printrun_error w m)
  | ["M", m] => (parseStr m).bind fun m => fin (onMessage w m)
  | ["Q"] => some (w, showW (w, .done) ++ s!" props={b01 (is_connected w)}{b01 (is_printing w)}{b01 (has_pending_operations w)}")
  | ["ps", c] => (parseStr c).bind fun c => fin (lift (fun d => printcore.send d c 0) w)
  | ["pn", c] => (parseStr c).bind fun c => fin (lift (fun d => printcore.send_now d c 0) w)
  | ["pr"] => fin (lift printcore._reset_line_numbers w)
  | ["pp"] => fin (lift (fun d => printcore.startprint d GCode.empty 0) w)
  | ["px"] => fin (lift printcore._sendnext w)
  | _ => none

def handle (line : String) : String :=
  if line = "K" then constants else
  match (line.splitOn "|").map words with
  | ("init" :: fs) :: ops =>
    match parseInit fs with
    | none => "bad-op " ++ line
    | some w0 =>
      let r := ops.foldl (fun (acc : Option (Writer × List String)) ws =>
        match acc with
        | none => none
        | some (w, outs) => (op w ws).map fun (w', o) => (w', o :: outs)) (some (w0, []))
      match r with
      | some (_, outs) => " ; ".intercalate outs.reverse
      | none => "bad-op " ++ line
  | _ => "bad-op " ++ line

def main : IO Unit := Proto.loopPure handle
end GscribModel.DirectWriteSrcDrv

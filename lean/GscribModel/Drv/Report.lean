import GscribModel.Model.Proto
import GscribModel.Model.Report
/-! Driver mode `report`: one case per line.  Code-point lists are hex numbers joined by `_`.

    `scan <cps>`                    ↦ `<key>=<value>;<key>=<value>…`         (VALUE_PATTERN.findall)
    `d <letters> | <cps> | <cps> …` ↦ per delivered message, joined by ` ; `:
                                      `ack=<0|1> err=<-|cps> <letter>=<n/d|-> …`   (get_parameter per letter; ack = set by this message)
    `R lead=<cps> ok=<0|1> open=<cp|-> sep=<cp> close=<cp|-> trail=<cps> toks=<tok>;<tok>…`
                                    ↦ `wf=<0|1> status=<0|1> line=<cps> first=<letter>:<n/d>,…`
        tok: `L<cp>=<dec>` | `P<m|w|p>[0|1]=<dec>,<dec>…` | `F=<dec>,<dec>` | `O<cps>=<dec>,…` | `N<cps>`
        dec: `p`|`m` (sign) followed by digits [`.` digits]                                   -/
open GscribModel GscribModel.Proto
namespace GscribModel.ReportDrv
open GscribModel.Report

def hexNat (cs : List Char) : Option Nat :=
  if cs.isEmpty then none else cs.foldlM (fun acc c => (hexVal c).map (acc * 16 + ·)) 0

def parseCps (s : String) : Option Str :=
  if s.isEmpty then some [] else
  (s.splitOn "_").mapM (fun w => (hexNat w.toList).map Char.ofNat)

def natHex (n : Nat) : String := String.ofList (Nat.toDigits 16 n)
def showCps (s : Str) : String := "_".intercalate (s.map fun c => natHex c.toNat)

def showMatches (ms : List (Str × Str)) : String :=
  ";".intercalate (ms.map fun kv => String.ofList kv.1 ++ "=" ++ String.ofList kv.2)

def optRat : Option Rat → String
  | some q => showRat q
  | none => "-"

def showSt (letters : Str) (s : St) : String :=
  s!"ack={if s.acked then 1 else 0} err={match s.error with | some e => showCps e | none => "-"} " ++
    " ".intercalate (letters.map fun c => String.singleton c ++ "=" ++ optRat (s.params.get c))

def parseDigits (cs : List Char) : Option (List (Fin 10)) :=
  cs.mapM fun c => if h : c.isDigit then some ⟨(c.toNat - 48) % 10, Nat.mod_lt _ (by decide)⟩ else none

def parseDec (s : String) : Option Dec :=
  match s.toList with
  | sg :: rest =>
    if sg ≠ 'p' ∧ sg ≠ 'm' then none else
    let ipC := rest.takeWhile (· ≠ '.')
    let tl := rest.dropWhile (· ≠ '.')
    match parseDigits ipC, tl with
    | some ip, [] => some ⟨sg = 'm', ip, none⟩
    | some ip, _ :: fpC => (parseDigits fpC).map fun fp => ⟨sg = 'm', ip, some fp⟩
    | none, _ => none
  | [] => none

def parseDecs (s : String) : Option (List Dec) :=
  if s.isEmpty then some [] else (s.splitOn ",").mapM parseDec

def parseTok (w : String) : Option Tok :=
  match w.toList with
  | 'N' :: cs => (parseCps (String.ofList cs)).map .noise
  | 'F' :: '=' :: ds =>
    match parseDecs (String.ofList ds) with
    | some [f, s] => some (.fs f s)
    | _ => none
  | 'L' :: rest =>
    match (String.ofList rest).splitOn "=" with
    | [c, d] => do
        let cs ← parseCps c
        let dv ← parseDec d
        match cs with
        | [ch] => some (.letter ch dv)
        | _ => none
    | _ => none
  | 'P' :: t :: rest =>
    let tag := if t = 'm' then some PosTag.mpos else if t = 'w' then some .wpos else if t = 'p' then some .prb else none
    match tag, (String.ofList rest).splitOn "=" with
    | some tg, [fl, ds] =>
      let flag := if fl = "1" then some (some true) else if fl = "0" then some (some false)
                  else if fl = "" then some none else none
      match flag, parseDecs ds with
      | some f, some vs => some (.pos tg vs f)
      | _, _ => none
    | _, _ => none
  | 'O' :: rest =>
    match (String.ofList rest).splitOn "=" with
    | [k, ds] => do
        let key ← parseCps k
        let vs ← parseDecs ds
        some (.other key vs)
    | _ => none
  | _ => none

def optChar (s : String) : Option (Option Char) :=
  if s = "-" then some none else
  match parseCps s with
  | some [c] => some (some c)
  | _ => none

def parseReport (ws : List String) : Option Report := do
  let lead ← (field ws "lead").bind parseCps
  let ok ← field ws "ok"
  let opener ← (field ws "open").bind optChar
  let sepS ← (field ws "sep").bind parseCps
  let closer ← (field ws "close").bind optChar
  let trail ← (field ws "trail").bind parseCps
  let toksS ← field ws "toks"
  let toks ← (if toksS.isEmpty then some [] else (toksS.splitOn ";").mapM parseTok)
  match sepS with
  | [sep] => some { lead, ok := ok = "1", opener, sep, toks, closer, trail }
  | _ => none

def showFirst (r : Report) : String :=
  let letters := (r.mentions.map (·.1)).eraseDups
  ",".intercalate (letters.map fun c => String.singleton c ++ ":" ++ optRat (r.firstValue c))

def handle (line : String) : String :=
  match words line with
  | ["scan"] => showMatches (scan [])
  | ["scan", cps] =>
    match parseCps cps with
    | some s => showMatches (scan s)
    | none => "bad-op " ++ line
  | "R" :: ws =>
    match parseReport ws with
    | some r => s!"wf={if r.wf then 1 else 0} status={if r.status then 1 else 0} line={showCps r.render} first={showFirst r}"
    | none => "bad-op " ++ line
  | "d" :: _ =>
    match (line.drop 2).toString.splitOn "|" with
    | lettersS :: msgs =>
      match msgs.mapM (fun m => parseCps m.trimAscii.toString) with
      | some ms =>
        let letters := (lettersS.toList.filter (· ≠ ' '))
        let (_, outs) := ms.foldl (fun (acc : St × List String) m =>
          -- the harness clears the acknowledgement event before every message
          let s' := onDeviceMessage { acc.1 with acked := false } m
          (s', showSt letters s' :: acc.2)) (({} : St), [])
        " ; ".intercalate outs.reverse
      | none => "bad-op " ++ line
    | _ => "bad-op " ++ line
  | _ => "bad-op " ++ line

def main : IO Unit := Proto.loopPure handle
end GscribModel.ReportDrv

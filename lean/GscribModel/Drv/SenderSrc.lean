import GscribModel.Model.Proto
import GscribModel.Gen.SenderSrc
/-! Driver mode `sendersrc` (stateless): evaluates the *generated* translation of `printcore` (`Gen/SenderSrc.lean`), so that
    the translator can be compared with the real class (`harness/tie_sender.py`).

    A line is `<op> <field>=<value> …`.  The object is given by the fields
      `pr=<-|0|1>` printer (`-` None, else `has_flow_control`)   `cl on pg pa tcp sln` = clear, online, printing, paused,
      tcp_streaming_mode, _send_line_numbers (`0`/`1`)   `qi ln rf wf` = queueindex, lineno, resendfrom, writefailures (ints)
      `mq=<-|e|hex;hex…>` mainqueue (`-` None, `e` no line, else the `raw` of each line)   `pq st gr=<e|hex;…>` priqueue, sent,
      greetings   `sl=<e|k:hex,k:hex…>` sentlines in insertion order.  A text is the hex of its bytes (`e` inside a list = '').
    Operations (extra fields):
      `checksum t=<hex>`                       -> `ok <n>`
      `send … t=<hex> n=<int> calc=<0|1>`      `reset …`   `pause …`   `host … t=<hex>`   `sendnext …`
      `startprint … job=<e|hex;…> idx=<int>`   `listen … t=<hex>`   `online … t=<hex>`
                                               -> `ok <ret> | <object> | <object at write 1> ~ <hex data> | …`   (`ret` = `-`, `0`, `1`)
      `blocked …` / `cont …`                   -> `ok <0|1>`     (`_sendnext_blocked`, `_print_continue`)
      `prepare job=<e|hex;…>`                  -> `ok <e|hex;…>` (`GCode.prepare`: the lines kept)
      `hasindex mq=… i=<int>`                  -> `ok <0|1>`
    An exception is `X<class>`. -/
open GscribModel GscribModel.Proto GscribModel.Sender GscribModel.SenderPy
namespace GscribModel.SenderSrcDrv
open GscribModel.Gen.SenderSrc

def parseText (h : String) : Option Text :=
  if h = "e" then some [] else (parseHex h.toList).map fun bs => bs.map Char.ofNat
def showText (t : Text) : String := if t.isEmpty then "e" else toHex (t.map Char.toNat)
def parseTexts (s : String) : Option (List Text) := if s = "e" then some [] else (s.splitOn ";").mapM parseTextItem
where parseTextItem (h : String) : Option Text := if h = "e" then some [] else if h = "" then none else parseText h
def showTexts (l : List Text) : String := if l.isEmpty then "e" else ";".intercalate (l.map showText)
def parseBool (s : String) : Option Bool := if s = "1" then some true else if s = "0" then some false else none
def b01 (b : Bool) : String := if b then "1" else "0"
def parseDict (s : String) : Option Dict :=
  if s = "e" then some [] else (s.splitOn ",").mapM fun kv =>
    match kv.splitOn ":" with
    | [k, v] => do
        let k ← k.toInt?
        let v ← parseText v
        pure (k, v)
    | _ => none
def showDict (d : Dict) : String := if d.isEmpty then "e" else ",".intercalate (d.map fun kv => toString kv.1 ++ ":" ++ showText kv.2)

def parsePc (ws : List String) : Option Printcore := do
  let pr ← field ws "pr"
  let printer : Option Device ← (if pr = "-" then some none else (parseBool pr).map fun b => some ⟨b⟩)
  let mq ← field ws "mq"
  let mainqueue : Option GCode ← (if mq = "-" then some none else (parseTexts mq).map fun l => some ⟨l⟩)
  let cl ← (field ws "cl").bind parseBool
  let on ← (field ws "on").bind parseBool
  let pg ← (field ws "pg").bind parseBool
  let pa ← (field ws "pa").bind parseBool
  let tcp ← (field ws "tcp").bind parseBool
  let sln ← (field ws "sln").bind parseBool
  let qi ← (field ws "qi").bind String.toInt?
  let ln ← (field ws "ln").bind String.toInt?
  let rf ← (field ws "rf").bind String.toInt?
  let wf ← (field ws "wf").bind String.toInt?
  let pq ← (field ws "pq").bind parseTexts
  let st ← (field ws "st").bind parseTexts
  let gr ← (field ws "gr").bind parseTexts
  let sl ← (field ws "sl").bind parseDict
  pure { printer := printer, clear := cl, online := on, printing := pg, paused := pa, mainqueue := mainqueue, priqueue := pq,
         queueindex := qi, lineno := ln, resendfrom := rf, sentlines := sl, sent := st, writefailures := wf,
         tcp_streaming_mode := tcp, _send_line_numbers := sln, greetings := gr }

def showPc (p : Printcore) : String :=
  s!"pr={match p.printer with | none => "-" | some d => b01 d.has_flow_control} cl={b01 p.clear} on={b01 p.online} pg={b01 p.printing} " ++
  s!"pa={b01 p.paused} tcp={b01 p.tcp_streaming_mode} sln={b01 p._send_line_numbers} qi={p.queueindex} ln={p.lineno} rf={p.resendfrom} " ++
  s!"wf={p.writefailures} mq={match p.mainqueue with | none => "-" | some g => showTexts g.lines} pq={showTexts p.priqueue} " ++
  s!"st={showTexts p.sent} gr={showTexts p.greetings} sl={showDict p.sentlines}"

def showErr : PyErr → String
  | .keyError => "XKeyError" | .indexError => "XIndexError" | .typeError => "XTypeError"
  | .attributeError => "XAttributeError" | .queueEmpty => "XEmpty"

def showRes (ret : String) (r : Except PyErr (Printcore × List Ev)) : String :=
  match r with
  | .error e => showErr e
  | .ok (p, evs) => " | ".intercalate (("ok " ++ ret) :: showPc p :: evs.map fun e => showPc e.at_write ++ " ~ " ++ showText e.data)

def handle (line : String) : String :=
  let ws := words line
  let bad := "bad-op " ++ line
  match ws with
  | [] => bad
  | op :: _ =>
    if op = "checksum" then
      match (field ws "t").bind parseText with
      | some t => match _checksum t with | .ok n => s!"ok {n}" | .error e => showErr e
      | none => bad
    else if op = "prepare" then
      match (field ws "job").bind parseTexts with
      | some j => "ok " ++ showTexts (GCode_prepare_lines j)
      | none => bad
    else if op = "hasindex" then
      match (field ws "mq").bind parseTexts, (field ws "i").bind String.toInt? with
      | some l, some i => "ok " ++ b01 (GCode_has_index ⟨l⟩ i)
      | _, _ => bad
    else match parsePc ws with
    | none => bad
    | some pc =>
      if op = "blocked" then "ok " ++ b01 (_sendnext_blocked pc)
      else if op = "cont" then "ok " ++ b01 (_print_continue pc)
      else if op = "sendnext" then showRes "-" (_sendnext pc [])
      else if op = "reset" then showRes "-" (_reset_line_numbers pc [])
      else if op = "pause" then showRes "-" (pause pc [])
      else if op = "send" then
        match (field ws "t").bind parseText, (field ws "n").bind String.toInt?, (field ws "calc").bind parseBool with
        | some t, some n, some c => showRes "-" (_send pc [] t n c)
        | _, _, _ => bad
      else if op = "host" then
        match (field ws "t").bind parseText with
        | some t => showRes "-" (process_host_command pc [] t)
        | none => bad
      else if op = "listen" then
        match (field ws "t").bind parseText with
        | some t => showRes "-" (_listen_line pc [] t)
        | none => bad
      else if op = "online" then
        match (field ws "t").bind parseText with
        | some t => showRes "-" (_listen_until_online_line pc [] t)
        | none => bad
      else if op = "startprint" then
        match (field ws "job").bind parseTexts, (field ws "idx").bind String.toInt? with
        | some j, some i =>
          match startprint pc [] ⟨j⟩ i with
          | .error e => showErr e
          | .ok (b, p, evs) => showRes (b01 b) (.ok (p, evs))
        | _, _ => bad
      else bad

def main : IO Unit := Proto.loopPure handle
end GscribModel.SenderSrcDrv

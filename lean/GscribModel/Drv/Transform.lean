import GscribModel.Model.Proto
import GscribModel.Model.Transform
/-! Driver mode `transform` (stateful; the line `reset` starts a fresh `GCodeCore`).

Input lines (rationals `n/d`, `-` = None, `;` separates coordinates, names are `h<hex of the UTF-8 bytes>`):

    probes 1;2;3 4;5;6 …        points for `apply_transform` / `reverse_transform` (kept until `reset`)
    translate 1;2;3 | scale 2 | scale 2;1/2 | scale | rotate z <9 rationals, row major, `;`> | chain <9 rationals> | reflect 1;0;0
    mirror xy | pivot 1;2;3 | save - | save h61 | restore - | restore h61 | delete h61
    enter-current | enter-named h61 | exit 0 | exit 1 | move 1;-;3 | rapid -;2;- | dist rel | dist abs
    moveabs 1;-;3 | rapidabs -;2;- | setaxis 0;0;-

Record: `outcome | stmts | pos=… rel=… | depth=… ctx=… names=… | ap=… | rv=…`
  stmts (comma separated): `G90`, `G91`, `G92 w=<words>`, or `G1 w=<words, - if absent> mv=<full move vector> d=<A·target − A·current>`; `ap`/`rv`: one `x;y;z` per probe. -/
open GscribModel GscribModel.Proto
namespace GscribModel.TransformDrv
open GscribModel.Transform

def parseV3 (s : String) : Option V3 :=
  match (s.splitOn ";").mapM parseRat with
  | some [a, b, c] => some ⟨a, b, c⟩
  | _ => none

def parseOptRat (s : String) : Option (Option Rat) :=
  if s = "-" then some none else (parseRat s).map some

def parsePt (s : String) : Option Pt :=
  match (s.splitOn ";").mapM parseOptRat with
  | some [a, b, c] => some ⟨a, b, c⟩
  | _ => none

def parseBlock (s : String) : Option Aff :=
  match (s.splitOn ";").mapM parseRat with
  | some [a, b, c, d, e, f, g, h, i] => some ⟨a, b, c, d, e, f, g, h, i, 0, 0, 0⟩
  | _ => none

/-- `h616263` ↦ "abc" (ASCII only) -/
def parseName (s : String) : Option String :=
  match s.toList with
  | 'h' :: hex => (parseHex hex).map fun bs => String.ofList (bs.map Char.ofNat)
  | _ => none

def parseOptName (s : String) : Option (Option String) :=
  if s = "-" then some none else (parseName s).map some

def showName (s : String) : String := "h" ++ toHex (s.toList.map Char.toNat)

def parseOp (ws : List String) : Option Op :=
  match ws with
  | ["translate", v] => (parseV3 v).map .translate
  | ["scale"] => some (.scale [])
  | ["scale", fs] => ((fs.splitOn ";").mapM parseRat).map .scale
  | ["rotate", ax, m] => (parseBlock m).map (.rotate ax)
  | ["chain", m] => (parseBlock m).map .chain
  | ["reflect", v] => (parseV3 v).map .reflect
  | ["mirror", p] => some (.mirror p)
  | ["pivot", v] => (parseV3 v).map .setPivot
  | ["save", n] => (parseOptName n).map .save
  | ["restore", n] => (parseOptName n).map .restore
  | ["delete", n] => (parseName n).map .delete
  | ["enter-current"] => some .enterCurrent
  | ["enter-named", n] => (parseName n).map .enterNamed
  | ["exit", "0"] => some (.exit false)
  | ["exit", "1"] => some (.exit true)
  | ["move", p] => (parsePt p).map .move
  | ["rapid", p] => (parsePt p).map .rapid
  | ["dist", "rel"] => some (.dist true)
  | ["dist", "abs"] => some (.dist false)
  | ["moveabs", p] => (parsePt p).map (.moveAbs false)
  | ["rapidabs", p] => (parsePt p).map (.moveAbs true)
  | ["setaxis", p] => (parsePt p).map .setAxis
  | _ => none

def showV3 (v : V3) : String := s!"{showRat v.x};{showRat v.y};{showRat v.z}"
def showOpt : Option Rat → String
  | none => "-"
  | some q => showRat q
def showPt (p : Pt) : String := s!"{showOpt p.x};{showOpt p.y};{showOpt p.z}"

structure St where
  core : Core
  probes : List V3

def showStmt (c : Core) (op : Op) : Stmt → String
  | .mode true => "G91"
  | .mode false => "G90"
  | .set w => "G92 w=" ++ showPt w
  | .go rapid w =>
    let extra := match op with
      | .move req | .rapid req =>
        let o := c.tr.applyTransform (Pt.ofV3 c.axes.resolve)
        let t := c.tr.applyTransform (Pt.ofV3 (c.toAbsolute req))
        " mv=" ++ showV3 (c.moveVector req) ++ " d=" ++ showV3 (t.sub o)
      | _ => ""
    (if rapid then "G0" else "G1") ++ " w=" ++ showPt w ++ extra

def record (before : Core) (op : Op) (r : Core × List Stmt × Option Err) (probes : List V3) : String :=
  let c := r.1
  let outcome := match r.2.2 with
    | none => "ok"
    | some e => e.name
  let stmts := ",".intercalate (r.2.1.map (showStmt before op))
  let names := ",".intercalate (c.tr.named.map fun kv => showName kv.1)
  let ap := " ".intercalate (probes.map fun p => showV3 (c.tr.applyTransform (Pt.ofV3 p)))
  let rv := " ".intercalate (probes.map fun p => showV3 (c.tr.reverseTransform (Pt.ofV3 p)))
  s!"{outcome} | {stmts} | pos={showPt c.axes} rel={if c.rel then 1 else 0} | depth={c.tr.stack.length} ctx={c.ctx.length} names={names} | ap={ap} | rv={rv}"

def step (s : St) (line : String) : St × String :=
  match words line with
  | "probes" :: ps =>
    match ps.mapM parseV3 with
    | some vs => ({ s with probes := vs }, s!"probes {vs.length}")
    | none => (s, "bad-op " ++ line)
  | ws =>
    match parseOp ws with
    | none => (s, "bad-op " ++ line)
    | some op =>
      let r := s.core.step op
      ({ s with core := r.1 }, record s.core op r s.probes)

def main : IO Unit := Proto.loopState (⟨Core.init, []⟩ : St) step
end GscribModel.TransformDrv

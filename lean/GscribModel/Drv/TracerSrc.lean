import GscribModel.Model.Proto
import GscribModel.Drv.Tracer
import GscribModel.Gen.TracerSrc
/-! Driver mode `tracersrc` (stateless): evaluates the *generated* translation of `gscrib/geometry/tracer.py` (+ `Direction`,
    `GCodeCore.to_absolute…`) at `K = Float` with `floatTrig`, so that the translator can be compared with the real code
    (`harness/tie_tracer.py`).  Doubles travel as the decimal value of their 64 IEEE bits, `-` is `None`, points are `x;y;z`,
    lists are comma separated (conventions of `Drv/Tracer.lean`).

```
enforce cw=0|1 a=<bits>                              → <bits>
fullturn cw=0|1                                      → <bits>
abs rel=0|1 axes=PL p=PL                             → P             (to_absolute)
abslist rel=0|1 axes=PL pts=<PL,…>                   → <P,…>         (to_absolute_list)
dist rel=0|1 axes=PL p=PL                            → P             (to_distance_mode)
filter res=<bits> pts=<P,…>                          → <P,…>         (_filter_segments)
estlen n=<int> a=P d=P e=P                           → <bits>        (estimate_length of θ ↦ a + θ·d + θ²·e)
param res=<bits> len=<bits> a=P d=P e=P              → ValueError | <P,…>   (parametric: the points handed to `move`)
shape kind=arc|arc_radius|circle|helix|thread|spiral cw=0|1 rel=0|1 pos=PL res=<bits> target=PL tlen=<n> center=PL
      turns=<int> pitch=<bits> radius=<bits> th=<bits,…>
      → ValueError | L=<bits> pts=<P,…> np=<number of vertices of the whole path | E>
        (`…_args`: the length and the path function at the given thetas; `np` from the whole-path function;
         `np.copysign` is `copysignF` of `Drv/Tracer.lean`)
poly rel=0|1 axes=PL pts=<PL,…>                      → <P,…>         (polyline: the points handed to `move`)
pmoves rel=0|1 axes=PL res=<bits> len=<bits> a=P d=P e=P
                                                     → ValueError | <P,…>   (parametric, the whole method: the points handed to `move`)
controls rel=0|1 axes=PL pts=<PL,…>                  → ValueError | grid=<bits,…> controls=<P,…>
        (spline up to its final call, run with a `CubicSpline` that hands back what it was given: the `thetas` grid and
         the three coordinate lists)
spline rel=0|1 axes=PL res=<bits> pts=<PL,…>         → ValueError | <P,…>
        (spline, the whole method, with the stand-in `CubicSpline(x, y)(θ) = y[0] + θ·(y[-1] − y[0]) + θ²·(y[1] − y[0])/8`
         the harness installs in the real module too: the points handed to `move`)
```
`move` is given the effect the builder tie establishes: the position becomes `to_absolute(p)` (the translated
`GCodeCore.to_absolute`, so relative offsets accumulate with the same additions as in the real builder).
-/
open GscribModel GscribModel.Proto
namespace GscribModel.TracerSrcDrv
open GscribModel.Tracer GscribModel.TracerDrv GscribModel.Gen.TracerSrc

def noPos : PL Float := ⟨none, none, none⟩

def pts3 (ps : List (V3 Float)) : String := ",".intercalate (ps.map (show3 showF))

/-- the test family of path functions: `θ ↦ a + θ·d + θ²·e` per coordinate (evaluated as numpy does: `a + th*d + th*th*e`) -/
def quad (a d e : V3 Float) (θ : Float) : V3 Float :=
  ⟨a.x + θ * d.x + θ * θ * e.x, a.y + θ * d.y + θ * θ * e.y, a.z + θ * d.z + θ * θ * e.z⟩

def quadOf (ws : List String) : Option (Float → V3 Float) := do
  let a ← (field ws "a").bind (parse3 parseF)
  let d ← (field ws "d").bind (parse3 parseF)
  let e ← (field ws "e").bind (parse3 parseF)
  pure (quad a d e)

/-- `self._g.position` after `self._g.move(p)`: `_transform_move` computes `target_axes = self.to_absolute(p)`,
    `_update_axes` stores it -/
def moveF (rel : Bool) (pos : PL Float) (w : V3 Float) : PL Float := V3.toPL (GCodeCore.to_absolute rel pos (V3.toPL w))

/-- a `CubicSpline` that hands back its arguments: `θ = -1` ↦ `len(y)`, `θ = i` ↦ `y[i]`, `θ = 1000 + i` ↦ `x[i]` -/
def probeSpline (xs ys : List Float) (θ : Float) : Float :=
  if θ < 0 then Float.ofNat ys.length
  else if θ ≥ 1000 then xs.getD (θ - 1000).toUInt64.toNat 0
  else ys.getD θ.toUInt64.toNat 0

/-- the stand-in spline of the whole-path comparison (numpy evaluation order: `a + th*d + th*th*e`) -/
def quadSpline (_ ys : List Float) (θ : Float) : Float :=
  let a := ys.getD 0 0
  let d := ys.getLast?.getD 0 - a
  let e := (ys.getD 1 0 - a) * 0.125
  a + θ * d + θ * θ * e

def shapeLine (ws : List String) : Option String := do
  let kind ← field ws "kind"
  let cw := flag ws "cw"
  let rel := flag ws "rel"
  let pos ← (field ws "pos").bind (parsePL parseF)
  let res ← (field ws "res").bind parseF
  let th ← (field ws "th").bind (parseList parseF)
  let target := (field ws "target").bind (parsePL parseF)
  let tlen := (field ws "tlen").bind String.toNat?
  let center := (field ws "center").bind (parsePL parseF)
  let turns := (field ws "turns").bind String.toInt?
  let pitch := (field ws "pitch").bind parseF
  let radius := (field ws "radius").bind parseF
  let T := floatTrig
  let (args, path) ← match kind with
    | "arc" => do
      pure (PathTracer.arc_args T cw rel pos res (← target) (← tlen) (← center),
            PathTracer.arc T cw rel pos res (← target) (← tlen) (← center))
    | "arc_radius" => do
      pure (PathTracer.arc_radius_args copysignF T cw rel pos res (← target) (← tlen) (← radius),
            PathTracer.arc_radius copysignF T cw rel pos res (← target) (← tlen) (← radius))
    | "circle" => do
      pure (PathTracer.circle_args T cw rel pos res (← center), PathTracer.circle T cw rel pos res (← center))
    | "helix" => do
      pure (PathTracer.helix_args T cw rel pos res (← target) (← tlen) (← center) (← turns),
            PathTracer.helix T cw rel pos res (← target) (← tlen) (← center) (← turns))
    | "thread" => do
      pure (PathTracer.thread_args T cw rel pos res (← target) (← tlen) (← pitch),
            PathTracer.thread T cw rel pos res (← target) (← tlen) (← pitch))
    | "spiral" => do
      pure (PathTracer.spiral_args T cw rel pos res (← target) (← tlen) (← turns),
            PathTracer.spiral T cw rel pos res (← target) (← tlen) (← turns))
    | _ => none
  match args with
  | none => pure "ValueError"
  | some (f, len) =>
    let np := match path with
      | none => "E"
      | some ps => toString ps.length
    pure s!"L={showF len} pts={pts3 (th.map f)} np={np}"

def handle (line : String) : String :=
  let T := floatTrig
  let r : Option String := match words line with
    | "enforce" :: ws => do
      let a ← (field ws "a").bind parseF
      pure (showF (Direction.enforce T (flag ws "cw") a))
    | "fullturn" :: ws => some (showF (Direction.full_turn T (flag ws "cw")))
    | "abs" :: ws => do
      let axes ← (field ws "axes").bind (parsePL parseF)
      let p ← (field ws "p").bind (parsePL parseF)
      pure (show3 showF (GCodeCore.to_absolute (flag ws "rel") axes p))
    | "abslist" :: ws => do
      let axes ← (field ws "axes").bind (parsePL parseF)
      let pts ← (field ws "pts").bind (parseList (parsePL parseF))
      pure (pts3 (GCodeCore.to_absolute_list (flag ws "rel") axes pts))
    | "dist" :: ws => do
      let axes ← (field ws "axes").bind (parsePL parseF)
      let p ← (field ws "p").bind (parsePL parseF)
      pure (show3 showF (GCodeCore.to_distance_mode (flag ws "rel") axes p))
    | "filter" :: ws => do
      let res ← (field ws "res").bind parseF
      let pts ← (field ws "pts").bind (parseList (parse3 parseF))
      pure (pts3 (PathTracer._filter_segments T false false noPos res pts))
    | "estlen" :: ws => do
      let n ← (field ws "n").bind String.toInt?
      let f ← quadOf ws
      pure (showF (PathTracer.estimate_length T false false noPos 1 n f))
    | "param" :: ws => do
      let res ← (field ws "res").bind parseF
      let len ← (field ws "len").bind parseF
      let f ← quadOf ws
      match PathTracer.parametric T false false noPos res f len with
      | none => pure "ValueError"
      | some ps => pure (pts3 ps)
    | "shape" :: ws => shapeLine ws
    | "poly" :: ws => do
      let rel := flag ws "rel"
      let axes ← (field ws "axes").bind (parsePL parseF)
      let pts ← (field ws "pts").bind (parseList (parsePL parseF))
      pure (pts3 (PathTracer.polyline_moves (moveF rel) T false rel axes 1 pts))
    | "pmoves" :: ws => do
      let rel := flag ws "rel"
      let axes ← (field ws "axes").bind (parsePL parseF)
      let res ← (field ws "res").bind parseF
      let len ← (field ws "len").bind parseF
      let f ← quadOf ws
      match PathTracer.parametric_moves (moveF rel) T false rel axes res f len with
      | none => pure "ValueError"
      | some ps => pure (pts3 ps)
    | "controls" :: ws => do
      let rel := flag ws "rel"
      let axes ← (field ws "axes").bind (parsePL parseF)
      let pts ← (field ws "pts").bind (parseList (parsePL parseF))
      match PathTracer.spline_args probeSpline T false rel axes 1 pts with
      | none => pure "ValueError"
      | some (f, _) =>
        let n := (f (-1)).x.toUInt64.toNat
        let idx := List.range n
        pure ("grid=" ++ ",".intercalate (idx.map fun i => showF (f (Float.ofNat (1000 + i))).x)
          ++ " controls=" ++ pts3 (idx.map fun i => f (Float.ofNat i)))
    | "spline" :: ws => do
      let rel := flag ws "rel"
      let axes ← (field ws "axes").bind (parsePL parseF)
      let res ← (field ws "res").bind parseF
      let pts ← (field ws "pts").bind (parseList (parsePL parseF))
      match PathTracer.spline_moves quadSpline (moveF rel) T false rel axes res pts with
      | none => pure "ValueError"
      | some ps => pure (pts3 ps)
    | _ => none
  r.getD ("bad-op " ++ (line.take 80).toString)

def main : IO Unit := Proto.loopPure handle
end GscribModel.TracerSrcDrv

import GscribModel.Model.Proto
import GscribModel.Drv.Tracer
import GscribModel.Gen.TracerSrc
/-! Driver mode `tracersrc` (stateless): evaluates the *generated* translation of `gscrib/geometry/tracer.py` (+ `Direction`,
    `GCodeCore.to_absolute…`) at `K = Float` with `floatTrig`, so that the translator can be compared with the real code
    (`harness/tie_tracer.py`).  Doubles travel as the decimal value of their 64 IEEE bits, `-` is `None`, points are `x;y;z`,
    lists are comma separated (conventions of `Drv/Tracer.lean`).

```
enforce cw=0|1 a=<bits>                              → <bits>
fullturn cw=0|1                                      → <bits>
abs rel=0|1 axes=PL p=PL                             → P             (to_absolute)
abslist rel=0|1 axes=PL pts=<PL,…>                   → <P,…>         (to_absolute_list)
dist rel=0|1 axes=PL p=PL                            → P             (to_distance_mode)
filter res=<bits> pts=<P,…>                          → <P,…>         (_filter_segments)
estlen n=<int> a=P d=P e=P                           → <bits>        (estimate_length of θ ↦ a + θ·d + θ²·e)
param res=<bits> len=<bits> a=P d=P e=P              → ValueError | <P,…>   (parametric: the points handed to `move`)
shape kind=arc|circle|helix|thread|spiral cw=0|1 rel=0|1 pos=PL res=<bits> target=PL tlen=<n> center=PL turns=<int>
      pitch=<bits> th=<bits,…>
      → ValueError | L=<bits> pts=<P,…> np=<number of vertices of the whole path | E>
        (`…_args`: the length and the path function at the given thetas; `np` from the whole-path function)
```
-/
open GscribModel GscribModel.Proto
namespace GscribModel.TracerSrcDrv
open GscribModel.Tracer GscribModel.TracerDrv GscribModel.Gen.TracerSrc

def noPos : PL Float := ⟨none, none, none⟩

def pts3 (ps : List (V3 Float)) : String := ",".intercalate (ps.map (show3 showF))

/-- the test family of path functions: `θ ↦ a + θ·d + θ²·e` per coordinate (evaluated as numpy does: `a + th*d + th*th*e`) -/
def quad (a d e : V3 Float) (θ : Float) : V3 Float :=
  ⟨a.x + θ * d.x + θ * θ * e.x, a.y + θ * d.y + θ * θ * e.y, a.z + θ * d.z + θ * θ * e.z⟩

def quadOf (ws : List String) : Option (Float → V3 Float) := do
  let a ← (field ws "a").bind (parse3 parseF)
  let d ← (field ws "d").bind (parse3 parseF)
  let e ← (field ws "e").bind (parse3 parseF)
  pure (quad a d e)

def shapeLine (ws : List String) : Option String := do
  let kind ← field ws "kind"
  let cw := flag ws "cw"
  let rel := flag ws "rel"
  let pos ← (field ws "pos").bind (parsePL parseF)
  let res ← (field ws "res").bind parseF
  let th ← (field ws "th").bind (parseList parseF)
  let target := (field ws "target").bind (parsePL parseF)
  let tlen := (field ws "tlen").bind String.toNat?
  let center := (field ws "center").bind (parsePL parseF)
  let turns := (field ws "turns").bind String.toInt?
  let pitch := (field ws "pitch").bind parseF
  let T := floatTrig
  let (args, path) ← match kind with
    | "arc" => do
      pure (PathTracer.arc_args T cw rel pos res (← target) (← tlen) (← center),
            PathTracer.arc T cw rel pos res (← target) (← tlen) (← center))
    | "circle" => do
      pure (PathTracer.circle_args T cw rel pos res (← center), PathTracer.circle T cw rel pos res (← center))
    | "helix" => do
      pure (PathTracer.helix_args T cw rel pos res (← target) (← tlen) (← center) (← turns),
            PathTracer.helix T cw rel pos res (← target) (← tlen) (← center) (← turns))
    | "thread" => do
      pure (PathTracer.thread_args T cw rel pos res (← target) (← tlen) (← pitch),
            PathTracer.thread T cw rel pos res (← target) (← tlen) (← pitch))
    | "spiral" => do
      pure (PathTracer.spiral_args T cw rel pos res (← target) (← tlen) (← turns),
            PathTracer.spiral T cw rel pos res (← target) (← tlen) (← turns))
    | _ => none
  match args with
  | none => pure "ValueError"
  | some (f, len) =>
    let np := match path with
      | none => "E"
      | some ps => toString ps.length
    pure s!"L={showF len} pts={pts3 (th.map f)} np={np}"

def handle (line : String) : String :=
  let T := floatTrig
  let r : Option String := match words line with
    | "enforce" :: ws => do
      let a ← (field ws "a").bind parseF
      pure (showF (Direction.enforce T (flag ws "cw") a))
    | "fullturn" :: ws => some (showF (Direction.full_turn T (flag ws "cw")))
    | "abs" :: ws => do
      let axes ← (field ws "axes").bind (parsePL parseF)
      let p ← (field ws "p").bind (parsePL parseF)
      pure (show3 showF (GCodeCore.to_absolute (flag ws "rel") axes p))
    | "abslist" :: ws => do
      let axes ← (field ws "axes").bind (parsePL parseF)
      let pts ← (field ws "pts").bind (parseList (parsePL parseF))
      pure (pts3 (GCodeCore.to_absolute_list (flag ws "rel") axes pts))
    | "dist" :: ws => do
      let axes ← (field ws "axes").bind (parsePL parseF)
      let p ← (field ws "p").bind (parsePL parseF)
      pure (show3 showF (GCodeCore.to_distance_mode (flag ws "rel") axes p))
    | "filter" :: ws => do
      let res ← (field ws "res").bind parseF
      let pts ← (field ws "pts").bind (parseList (parse3 parseF))
      pure (pts3 (PathTracer._filter_segments T false false noPos res pts))
    | "estlen" :: ws => do
      let n ← (field ws "n").bind String.toInt?
      let f ← quadOf ws
      pure (showF (PathTracer.estimate_length T false false noPos 1 n f))
    | "param" :: ws => do
      let res ← (field ws "res").bind parseF
      let len ← (field ws "len").bind parseF
      let f ← quadOf ws
      match PathTracer.parametric T false false noPos res f len with
      | none => pure "ValueError"
      | some ps => pure (pts3 ps)
    | "shape" :: ws => shapeLine ws
    | _ => none
  r.getD ("bad-op " ++ (line.take 80).toString)

def main : IO Unit := Proto.loopPure handle
end GscribModel.TracerSrcDrv

import GscribModel.Model.Proto
import GscribModel.Model.Format
/-! Driver mode `format` (C08, C09): one case per line, stateless.

Strings travel as dot-separated hex code points (`47.31` = "G1"), `~` = empty string, `-` = `None`.

```
num dp=5 v=-3/32|nan|inf|-inf [short=-0.125]          -> ok <str with trusted shortest digits> <exact rounding> | ValueError
spaces lo=0 hi=12544                               -> ok <code points with str.isspace()>
stmt  dp= sym= eol= lx= ly= lz= kind=cmd|table|pre|tool|bare|text code= params= c= desc= n=
                                                   -> ok <bytes> | lex=<l:n,…;comment>|! | exec=<w,w|w…> | nb=<k>
entry dp= sym= eol= lx= ly= lz= kind=comment|annotate|cmd|table|ehalt text= key= code= params= desc=
      oc= od= cc= cd= hc= hd=                      -> ok <bytes> | exec=… | nb=<k>
```
`params` = `-` (None), `~` (empty dict) or `K:V,…` with `V` = `q<rat>` | `nan` | `inf` | `-inf` | `s<str>` | `N`. -/
open GscribModel GscribModel.Proto
namespace GscribModel.FormatDrv
open GscribModel.Format

def parseHexNat (s : String) : Option Nat :=
  if s.isEmpty then none
  else s.toList.foldlM (fun acc c => (hexVal c).map fun d => acc * 16 + d) 0

/-- `~` ↦ "", `47.31` ↦ "G1" -/
def decStr (s : String) : Option Str :=
  if s == "~" then some []
  else (s.splitOn ".").mapM fun w => (parseHexNat w).map Char.ofNat

def decOpt (s : String) : Option (Option Str) :=
  if s == "-" then some none else (decStr s).map some

def hexOfNat (n : Nat) : String := String.ofList (Nat.toDigits 16 n)

def encStr (s : Str) : String :=
  if s.isEmpty then "~" else ".".intercalate (s.map fun c => hexOfNat c.toNat)

def parseVal (s : String) : Option Val :=
  if s == "nan" then some .nan
  else if s == "inf" then some .pinf
  else if s == "-inf" then some .ninf
  else (parseRat s).map .fin

def parsePVal (s : String) : Option PVal :=
  if s == "N" then some .none
  else if s.startsWith "q" then (parseVal (s.drop 1).toString).map .num
  else if s.startsWith "s" then (decStr (s.drop 1).toString).map .raw
  else (parseVal s).map .num

def parseParams (s : String) : Option (Option Params) :=
  if s == "-" then some none
  else if s == "~" then some (some [])
  else
    ((s.splitOn ",").mapM fun (kv : String) =>
      match kv.splitOn ":" with
      | [k, v] => do
        let k ← decStr k
        let v ← parsePVal v
        pure (k, v)
      | _ => none).map some

def parseCfg (ws : List String) : Option Cfg := do
  let dp ← (← field ws "dp").toNat?
  let sym ← decStr (← field ws "sym")
  let eol ← decStr (← field ws "eol")
  let lx ← decStr (← field ws "lx")
  let ly ← decStr (← field ws "ly")
  let lz ← decStr (← field ws "lz")
  pure (mkCfg dp sym eol lx ly lz)

def fstr (ws : List String) (k : String) : Option Str := do decStr (← field ws k)

def parseStmt (ws : List String) : Option Stmt := do
  match ← field ws "kind" with
  | "cmd" => pure (.cmd (← fstr ws "code") (← parseParams (← field ws "params")) (← decOpt (← field ws "c")))
  | "table" =>
    pure (.table (← fstr ws "code") (← parseParams (← field ws "params")) (← decOpt (← field ws "c"))
      (← fstr ws "desc"))
  | "pre" =>
    match ← parseParams (← field ws "params") with
    | some p => pure (.pre p (← fstr ws "code") (← fstr ws "desc"))
    | none => none
  | "tool" => pure (.tool (← (← field ws "n").toNat?) (← fstr ws "code") (← fstr ws "desc"))
  | "bare" =>
    match ← parseParams (← field ws "params") with
    | some p => pure (.bare p)
    | none => none
  | "text" => pure (.text (← fstr ws "c"))
  | _ => none

def parseEntry (ws : List String) : Option Entry := do
  match ← field ws "kind" with
  | "comment" => pure .comment
  | "annotate" => pure (.annotate (← fstr ws "key"))
  | "cmd" => pure (.cmd (← fstr ws "code") (← parseParams (← field ws "params")))
  | "table" => pure (.table (← fstr ws "code") (← parseParams (← field ws "params")) (← fstr ws "desc"))
  | "ehalt" =>
    pure (.ehalt (← fstr ws "oc") (← fstr ws "od") (← fstr ws "cc") (← fstr ws "cd") (← fstr ws "hc")
      (← fstr ws "hd"))
  | _ => none

def showErr : Err → String
  | .valueError => "ValueError"

def showExec (ls : List (List Str)) : String :=
  if ls.isEmpty then "~" else "|".intercalate (ls.map fun l => ",".intercalate (l.map encStr))

def showLex (r : Option (List (Str × Str) × Option Str)) : String :=
  match r with
  | none => "!"
  | some (ts, cm) =>
    ",".intercalate (ts.map fun t => encStr t.1 ++ ":" ++ encStr t.2) ++ ";" ++
      (match cm with
       | none => "-"
       | some c => encStr c)

def handle (line : String) : String :=
  let bad := "bad-op " ++ line
  match words line with
  | "num" :: ws =>
    match (field ws "dp").bind String.toNat?, (field ws "v").bind parseVal with
    | some dp, some v =>
      let short := (field ws "short").map String.toList
      match fmtValU dp v short, fmtVal dp v with
      | .ok s, .ok e => "ok " ++ String.ofList s ++ " " ++ String.ofList e
      | .error e, _ => showErr e
      | _, .error e => showErr e
    | _, _ => bad
  | "spaces" :: ws =>
    match (field ws "lo").bind String.toNat?, (field ws "hi").bind String.toNat? with
    | some lo, some hi =>
      "ok " ++ ",".intercalate
        (((List.range (hi - lo)).map (· + lo)).filter (fun n => pyIsSpace (Char.ofNat n) && (Char.ofNat n).toNat == n)
          |>.map toString)
    | _, _ => bad
  | "stmt" :: ws =>
    match parseCfg ws, parseStmt ws with
    | some cfg, some s =>
      match renderLine cfg s with
      | .ok out =>
        s!"ok {encStr out} | lex={showLex (lexLine cfg out)} | exec={showExec (execLines cfg.style out)} | nb={breakCount out}"
      | .error e => showErr e
    | _, _ => bad
  | "entry" :: ws =>
    match parseCfg ws, parseEntry ws, (field ws "text").bind decStr with
    | some cfg, some e, some t =>
      match renderEntry cfg e t with
      | .ok out => s!"ok {encStr out} | exec={showExec (execLines cfg.style out)} | nb={breakCount out}"
      | .error e => showErr e
    | _, _, _ => bad
  | _ => bad

def main : IO Unit := Proto.loopPure handle
end GscribModel.FormatDrv

import GscribModel.Props.C01
/-! # C11 — a toolpath is the same in relative and absolute distance mode

Every tracer shape computes its absolute parameters with `to_absolute` / `to_absolute_list` (centres are offsets
from the current position in both modes), builds a vertex list from them, and traces it with
`move(to_distance_mode(vertex))`.  The theorems below show: equal absolute parameters in both modes
(`C11_to_absolute`, `C11_to_absolute_list`, `C11_circle_target`), and equal machine positions for equal vertex
lists, vertex by vertex (`C11_path_positions`, `C11_mode_independent`); plain moves and absolute-bypass moves
(`C11_move_same`, `C11_bypass_same`); mode contexts are C01.  The curve formulas themselves are C10. -/
open GscribModel.Builder
namespace GscribModel.Builder
set_option linter.unusedSimpArgs false

/-- `to_absolute_list(points)` -/
def toAbsListGo (rel : Bool) : Pt → List Pt → List Pt
  | _, [] => []
  | cur, p :: ps =>
    let nxt := if rel then cur.add p.resolve else cur.replace p
    nxt :: toAbsListGo rel nxt ps
def B.toAbsoluteList (b : B) (ps : List Pt) : List Pt := toAbsListGo b.rel b.axes.resolve ps

/-- `to_distance_mode(point)` -/
def B.toDistanceMode (b : B) (p : Pt) : Pt := if b.rel then p.resolve.sub b.axes.resolve else p.resolve

/-- the offset form of an absolute waypoint `t` (a coordinate left out stays left out) seen from `cur` -/
def offsetOf (cur t : Pt) : Pt := Pt.mk' fun a => (t.get a).map (· - (cur.get a).getD 0)

/-- offsets of a list of absolute waypoints, each relative to the previous one -/
def offsetsGo : Pt → List Pt → List Pt
  | _, [] => []
  | cur, t :: ts => offsetOf cur t :: offsetsGo (cur.resolve.replace t) ts
end GscribModel.Builder

/-- **Same target**: a waypoint given as coordinates in absolute mode and as offsets in relative mode is the
    same absolute point for the builder (any subset of axes). -/
theorem C11_to_absolute (bA bR : B) (t : Pt) (hax : bA.axes = bR.axes) (hA : bA.rel = false) (hR : bR.rel = true) :
    bR.toAbsolute (offsetOf bR.axes.resolve t) = bA.toAbsolute t := by
  apply Pt.ext_get
  intro a
  cases ht : t.get a <;> cases hx : bR.axes.get a <;>
    simp [B.toAbsolute, hA, hR, hax, offsetOf, ht, hx] <;> grind

/-- **Same control points**: `to_absolute_list` (spline, polyline) yields the same absolute points in both modes. -/
theorem C11_to_absolute_list (ts : List Pt) : ∀ cur : Pt, (∀ a, (cur.get a).isSome) →
    toAbsListGo true cur (offsetsGo cur ts) = toAbsListGo false cur ts := by
  induction ts with
  | nil => intro cur _; rfl
  | cons t ts ih =>
    intro cur hc
    have hstep : cur.add (offsetOf cur t).resolve = cur.replace t := by
      apply Pt.ext_get
      intro a
      have := hc a
      cases ht : t.get a <;> cases hx : cur.get a <;> simp_all [offsetOf] <;> grind
    have hres : cur.resolve = cur := by
      apply Pt.ext_get; intro a; have := hc a; cases hx : cur.get a <;> simp_all
    simp only [offsetsGo, toAbsListGo, if_true, Bool.false_eq_true, if_false, hstep, hres]
    congr 1
    apply ih
    intro a
    have := hc a
    cases ht : t.get a <;> cases hx : cur.get a <;> simp_all

/-- **Circle**: the target handed to `arc` is the current position in either mode. -/
theorem C11_circle_target (b : B) : b.toAbsolute (b.toDistanceMode b.axes.resolve) = b.axes.resolve := by
  apply Pt.ext_get
  intro a
  cases hr : b.rel <;> cases hx : b.axes.get a <;> simp [B.toAbsolute, B.toDistanceMode, hr, hx] <;> grind

namespace GscribModel.Builder
def P3.toPt (v : P3) : Pt := ⟨some v.x, some v.y, some v.z⟩

/-- trace a vertex list the way `polyline`/`parametric` do; returns the machine position after every vertex -/
def tracePath : B × Machine → List P3 → List Pt
  | _, [] => []
  | (b, m), v :: vs =>
    let r := step b (.move false (vptOf (tracedReq b v)) [] 0)
    let m' := Machine.run m r.stmts
    m'.pos :: tracePath (r.b, m') vs
end GscribModel.Builder

/-- **Every interpolated path**: whatever the vertex list a shape produces from its absolute parameters, tracing it
    puts the machine exactly on each vertex in turn — in absolute and in relative mode alike. -/
theorem C11_path_positions (vs : List P3) : ∀ (b : B) (m : Machine), Agree b m → b.hooks = [] →
    (∀ a, ∃ q, m.pos.get a = some q) → (∀ v ∈ vs, b.bounds.okAxes v.toPt = true) →
    tracePath (b, m) vs = vs.map P3.toPt := by
  induction vs with
  | nil => intro b m _ _ _ _; rfl
  | cons v vs ih =>
    intro b m hag hh hk hb
    have hv := hb v (by simp)
    obtain ⟨h1, h2⟩ := C01_trace_vertex b m hag v hh hk hv
    have hag' := C01_agree_step b m (.move false (vptOf (tracedReq b v)) [] 0) hag
    simp only [tracePath, List.map_cons]
    congr 1
    apply ih _ _ hag'
    · simp only [step, stepMove, reject, accept]; (repeat' split) <;> simp_all [B.commitAxes]
    · intro a; rw [h1]; cases a <;> simp [Pt.get]
    · intro w hw
      have hbb : (step b (.move false (vptOf (tracedReq b v)) [] 0)).b.bounds = b.bounds := by
        simp only [step, stepMove, reject, accept]; (repeat' split) <;> simp_all [B.commitAxes]
      rw [hbb]; exact hb w (by simp [hw])

/-- **Mode independence**: the same vertex list traced by a builder in absolute mode and by one in relative mode
    yields the same sequence of machine positions, vertex by vertex. -/
theorem C11_mode_independent (vs : List P3) (bA bR : B) (mA mR : Machine)
    (hA : Agree bA mA) (hR : Agree bR mR) (hhA : bA.hooks = []) (hhR : bR.hooks = [])
    (hkA : ∀ a, ∃ q, mA.pos.get a = some q) (hkR : ∀ a, ∃ q, mR.pos.get a = some q)
    (hbA : ∀ v ∈ vs, bA.bounds.okAxes v.toPt = true) (hbR : ∀ v ∈ vs, bR.bounds.okAxes v.toPt = true) :
    tracePath (bA, mA) vs = tracePath (bR, mR) vs := by
  rw [C11_path_positions vs bA mA hA hhA hkA hbA, C11_path_positions vs bR mR hR hhR hkR hbR]

/-- **Plain moves and rapids**: the same waypoint (any subset of axes) as coordinates in absolute mode and as
    offsets in relative mode is accepted or rejected alike and leaves the same tracked position. -/
theorem C11_move_same (bA bR : B) (t : Pt) (rapid : Bool) (ps : VParams) (h : Rat)
    (hax : bA.axes = bR.axes) (hA : bA.rel = false) (hR : bR.rel = true)
    (hb : bA.bounds = bR.bounds) (hhA : bA.hooks = []) (hhR : bR.hooks = []) :
    (step bA (.move rapid (vptOf t) ps h)).out = (step bR (.move rapid (vptOf (offsetOf bR.axes.resolve t)) ps h)).out ∧
    (step bA (.move rapid (vptOf t) ps h)).b.axes = (step bR (.move rapid (vptOf (offsetOf bR.axes.resolve t)) ps h)).b.axes := by
  have hT := C11_to_absolute bA bR t hax hA hR
  have hk : ∀ q, bA.okTrack q = bR.okTrack q := fun q => by simp [B.okTrack, B.okFeed, B.okPower, hb]
  simp only [step, stepMove, vptOf_fin, reject, accept, hT, hb, hhA, hhR, List.isEmpty_nil, Bool.not_true, Bool.and_false,
    Bool.false_eq_true, if_false, hk]
  (repeat' split) <;> simp_all

/-- **Absolute-bypass moves** do not depend on the distance mode at all. -/
theorem C11_bypass_same (bA bR : B) (p : VPt) (rapid : Bool) (ps : VParams) (h : Rat)
    (hax : bA.axes = bR.axes) (hb : bA.bounds = bR.bounds) (hhA : bA.hooks = []) (hhR : bR.hooks = []) :
    (step bA (.moveAbs rapid p ps h)).out = (step bR (.moveAbs rapid p ps h)).out ∧
    (step bA (.moveAbs rapid p ps h)).b.axes = (step bR (.moveAbs rapid p ps h)).b.axes := by
  have hk : ∀ q, bA.okTrack q = bR.okTrack q := fun q => by simp [B.okTrack, B.okFeed, B.okPower, hb]
  simp only [step, stepMoveAbs, reject, accept, hax, hb, hhA, hhR, List.isEmpty_nil, Bool.not_true, Bool.and_false,
    Bool.false_eq_true, if_false, hk]
  (repeat' split) <;> simp_all [B.okTrack, B.okFeed, B.okPower]

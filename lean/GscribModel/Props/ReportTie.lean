import GscribModel.Gen.ReportSrc
/-! # The report model is the translated report side of `PrintrunWriter`

`Gen/ReportSrc.lean` is *generated* on every run from the source text of `gscrib/writers/printrun_writer.py`
(`tools/gen_report.py`): the constants `SUCCESS_PREFIXES`, `ERROR_PREFIXES`, `AXES`, the text of `VALUE_PATTERN`, and the
methods `_update_param`, `_format_error`, `_parse_message` (with its two loop bodies), `_on_device_message`,
`get_parameter`, statement by statement.  The theorems below prove the hand-written model of C18 (`Model/Report.lean`)
equal to that translation, for every state and every message.

The translation works on a record `Writer` with the four attributes the methods touch, keyed by *strings*; the model
keeps one-character keys as `Char`.  `mk t rep err ack` is the writer object a model state stands for (table `t`,
reported set `rep`, pending `DeviceError` text `err`, acknowledgement flag `ack`): every key `c` becomes the string
`[c]`.  Every theorem has the form *translated method on `mk …` = (`mk` of the model's result, no exception)*, so it also
says that the translated method never raises and that its `except Exception` handlers (`GscribError("Internal error")`
in `_on_device_message`) are never entered. -/
open GscribModel.Report GscribModel.ReportPy GscribModel.Gen
open GscribModel.Gen.ReportSrc (Writer)

namespace GscribModel.ReportTie

def absTable (t : Table) : ParamsDict := t.map fun p => ([p.1], p.2)
def absSet (r : List Char) : PySet := r.map fun c => [c]

/-- the writer object a model state stands for -/
def mk (t : Table) (rep : List Char) (err : Option Str) (ack : Bool) : Writer :=
  { _reported_params := absSet rep, _current_params := absTable t, _device_error := err.map .deviceError, _ack_event := ack }

/-- … for a parser state of the model -/
def mkP (s : PSt) (err : Option Str) (ack : Bool) : Writer := mk s.params s.reported err ack

/-- `_reported_params` after `_on_device_message`: the set the parse left, or untouched by an error line -/
def reportedAfter (s : St) (rep : List Char) (raw : Str) : List Char :=
  if okPrefix (lower (strip raw)) = false ∧ errPrefix (lower (strip raw)) = true then rep
  else (parseMessage (strip raw) s.params).reported

theorem contains_absSet (rep : List Char) (k : Char) : List.contains (absSet rep) [k] = decide (k ∈ rep) := by
  induction rep with
  | nil => simp [absSet]
  | cons a r ih => simp [absSet] at ih ⊢

theorem lookup_absTable (t : Table) (c : Char) : (absTable t).lookup [c] = t.lookup c := by
  induction t with
  | nil => rfl
  | cons p t ih =>
    obtain ⟨k, v⟩ := p
    simp only [absTable, List.map_cons, List.lookup_cons] at ih ⊢
    by_cases h : c = k <;> simp [h, ih]

theorem lookup_absTable_long (t : Table) (name : Str) (h : name.length ≠ 1) : (absTable t).lookup name = none := by
  induction t with
  | nil => rfl
  | cons p t ih =>
    obtain ⟨k, v⟩ := p
    simp only [absTable, List.map_cons, List.lookup_cons] at ih ⊢
    have hne : (name == [k]) = false := by
      cases hb : name == [k] with
      | false => rfl
      | true => exact absurd (by rw [eq_of_beq hb]; rfl) h
    simp [hne, ih]

theorem split_comma (s : Str) : Py.split s ',' = splitComma s := by
  induction s with
  | nil => rfl
  | cons c cs ih =>
    simp only [Py.split, splitComma, ih]
    cases splitComma cs <;> rfl

theorem startswith_lt (msg : Str) : Py.startswith msg ['<'] = (msg.head? == some '<') := by
  cases msg with
  | nil => rfl
  | cons c cs =>
    simp only [Py.startswith, List.isPrefixOf, List.head?_cons, Bool.and_true]
    exact BEq.comm

theorem tryExcept_swallow (r : Res Writer) : Py.tryExcept r (fun self _ => (self, none)) = (r.1, none) := by
  obtain ⟨w, e⟩ := r
  cases e <;> rfl

end GscribModel.ReportTie
open GscribModel.ReportTie

/-- the constants of the source are the ones the model is written for: the pattern text is the one `scan` stands for,
    `AXES` in the same order, `ok` / `error`, `alarm`, `!!` the prefixes of `okPrefix` / `errPrefix` -/
theorem ReportTie_constants :
    ReportSrc.VALUE_PATTERN.pattern = scanPattern
    ∧ ReportSrc.AXES = GscribModel.Report.AXES.map (fun c => [c])
    ∧ (∀ s : Str, Re.findall ReportSrc.VALUE_PATTERN s = scan s)
    ∧ (∀ low : Str, Py.startswithAny low ReportSrc.SUCCESS_PREFIXES = okPrefix low)
    ∧ (∀ low : Str, Py.startswithAny low ReportSrc.ERROR_PREFIXES = errPrefix low) := by
  refine ⟨by decide, by decide, ?_, ?_, ?_⟩
  · intro s
    have h : ReportSrc.VALUE_PATTERN.pattern = scanPattern := by decide
    simp only [Re.findall, h, if_true]
  · intro low
    simp [Py.startswithAny, ReportSrc.SUCCESS_PREFIXES, okPrefix]
  · intro low
    simp [Py.startswithAny, ReportSrc.ERROR_PREFIXES, errPrefix, Bool.or_assoc]

/-- `_update_param`: first occurrence wins, the key is stored upper-cased, the set remembers the key as passed -/
theorem ReportTie_update_param (s : PSt) (err : Option Str) (ack : Bool) (k : Char) (v : Rat) :
    ReportSrc._update_param (mkP s err ack) [k] v = (mkP (updateParam s k v) err ack, none) := by
  simp only [ReportSrc._update_param, updateParam, mkP, mk, PySet.contains, PySet.add, contains_absSet]
  by_cases h : k ∈ s.reported
  · simp [h]
  · simp [h, absSet, absTable, ParamsDict.setitem, Py.upper]

namespace GscribModel.ReportTie

theorem for2_mkP (s : PSt) (err : Option Str) (ack : Bool) (k : Char) (v : Rat) :
    ReportSrc._parse_message_for2 (mkP s err ack) [k] v = (mkP (updateParam s k v) err ack, none) := by
  simp only [ReportSrc._parse_message_for2, ReportTie_update_param]

theorem pos_loop (err : Option Str) (ack : Bool) : ∀ (axes : List Char) (parts : List Str) (s : PSt),
    (Py.forSeq (Py.zipLazy (axes.map fun c => [c]) (Py.mapLazy Py.float parts)) (mkP s err ack)
        (fun self x => ReportSrc._parse_message_for2 self x.1 x.2)).1 = mkP (posUpdate s axes parts) err ack := by
  intro axes
  induction axes with
  | nil => intro parts s; cases parts <;> rfl
  | cons a as ih =>
    intro parts s
    cases parts with
    | nil => rfl
    | cons p ps =>
      simp only [Py.zipLazy, Py.mapLazy, List.map_cons, List.zipWith_cons_cons, Py.float, posUpdate]
      cases hp : parseFloat p with
      | none => rfl
      | some q =>
        simp only [Except.map, Py.forSeq, for2_mkP]
        exact ih ps (updateParam s a q)

end GscribModel.ReportTie

/-- the position loop `for axis, coord in zip(AXES, map(float, parts))`: axes in order, lazily converted coordinates, stops
    (with the `ValueError` that the caller swallows) at the first part that is not a number, keeps what was stored before;
    coordinates beyond the sixth are never looked at -/
theorem ReportTie_pos_update (s : PSt) (err : Option Str) (ack : Bool) (parts : List Str) :
    (Py.forSeq (Py.zipLazy ReportSrc.AXES (Py.mapLazy Py.float parts)) (mkP s err ack)
        (fun self x => ReportSrc._parse_message_for2 self x.1 x.2)).1
      = mkP (posUpdate s GscribModel.Report.AXES parts) err ack :=
  pos_loop err ack GscribModel.Report.AXES parts s

namespace GscribModel.ReportTie

/-- the model's `applyMatch` for a key that is not one character long -/
theorem applyMatch_long (lt : Bool) (s : PSt) (key value : Str) (h : key.length ≠ 1) :
    applyMatch lt s (key, value) =
      if key = ['F', 'S'] ∧ lt = true then
        match splitComma value with
        | [f, sp] =>
          match parseFloat f with
          | none => s
          | some qf =>
            match parseFloat sp with
            | none => updateParam s 'F' qf
            | some qs => updateParam (updateParam s 'F' qf) 'S' qs
        | _ => s
      else if key ∈ posKeys then posUpdate s GscribModel.Report.AXES (splitComma value)
      else s := by
  match key, h with
  | [], _ => rfl
  | [_], h => exact absurd rfl h
  | _ :: _ :: _, _ => rfl

/-- the `FS` branch of the loop body -/
theorem fs_branch (s : PSt) (err : Option Str) (ack : Bool) (value : Str) :
    (match Py.split value ',' with
      | [feed, speed] =>
        match Py.float feed with
        | .error e => (mkP s err ack, some e)
        | .ok a2 =>
          match ReportSrc._update_param (mkP s err ack) ['F'] a2 with
          | (self, some e) => (self, some e)
          | (self, none) =>
            match Py.float speed with
            | .error e => (self, some e)
            | .ok a3 =>
              match ReportSrc._update_param self ['S'] a3 with
              | (self, some e) => (self, some e)
              | (self, none) => (self, none)
      | _ => (mkP s err ack, some Exc.valueError) : Res Writer).1
    = mkP (match splitComma value with
        | [f, sp] =>
          match parseFloat f with
          | none => s
          | some qf =>
            match parseFloat sp with
            | none => updateParam s 'F' qf
            | some qs => updateParam (updateParam s 'F' qf) 'S' qs
        | _ => s) err ack := by
  rw [split_comma]
  rcases splitComma value with _ | ⟨f, _ | ⟨sp, _ | ⟨x, r⟩⟩⟩
  · rfl
  · rfl
  · simp only [Py.float]
    cases parseFloat f with
    | none => rfl
    | some qf =>
      simp only [ReportTie_update_param]
      cases parseFloat sp with
      | none => rfl
      | some qs => rfl
  · rfl

end GscribModel.ReportTie

/-- the body of the loop of `_parse_message` (the `try` … `except Exception` block) is the model's `applyMatch`:
    one-character keys are converted with `float()` and stored; `FS` only in a `<…>` status report and only as exactly two
    numbers (`F` survives a bad `S`); `MPos` / `WPos` / `PRB` feed the axes in the order of `AXES` until the first part that is
    not a number; every failure is swallowed and leaves what was stored before it.  (`hk`: the key is alphanumeric, as
    every key the pattern finds is - `scan_keys_alnum` below; for such keys the source's `key.isalnum()` is redundant.) -/
theorem ReportTie_apply_match (msg : Str) (s : PSt) (err : Option Str) (ack : Bool) (kv : Str × Str)
    (hk : kv.1.all isAlnum = true) :
    ReportSrc._parse_message_for1 (mkP s err ack) msg kv.1 kv.2
      = (mkP (applyMatch (msg.head? == some '<') s kv) err ack, none) := by
  obtain ⟨key, value⟩ := kv
  simp only [ReportSrc._parse_message_for1, tryExcept_swallow, Prod.mk.injEq, and_true]
  by_cases h1 : key.length = 1
  · -- a one-character key
    match key, h1, hk with
    | [k], _, hk =>
      have hk' : isAlnum k = true := by simpa using hk
      simp only [Py.len, Py.isalnum, List.length_singleton, decide_true, List.isEmpty_cons, Bool.not_false, List.all_cons,
        List.all_nil, hk', Bool.and_self, if_true, applyMatch, Py.float]
      cases parseFloat value with
      | none => rfl
      | some q => simp only [ReportTie_update_param]
  · rw [if_neg (by simp [Py.len, h1]), applyMatch_long _ _ _ _ h1, startswith_lt]
    by_cases hfs : key = ['F', 'S'] ∧ (msg.head? == some '<') = true
    · rw [if_pos (by simpa using hfs), if_pos hfs]
      exact fs_branch s err ack value
    · rw [if_neg (by simpa using hfs), if_neg hfs]
      by_cases hp : key ∈ posKeys
      · have hp' : Py.isIn key [['M', 'P', 'o', 's'], ['W', 'P', 'o', 's'], ['P', 'R', 'B']] = true := by
          simpa [Py.isIn, posKeys] using hp
        rw [if_pos hp', if_pos hp]
        have hax : ReportSrc.AXES = GscribModel.Report.AXES.map (fun c => [c]) := by decide
        rw [split_comma, hax, ← pos_loop err ack GscribModel.Report.AXES (splitComma value) s]
        split <;> (rename_i h; rw [h])
      · have hp' : Py.isIn key [['M', 'P', 'o', 's'], ['W', 'P', 'o', 's'], ['P', 'R', 'B']] = false := by
          simpa [Py.isIn, posKeys] using hp
        rw [if_neg (by simp [hp']), if_neg hp]

namespace GscribModel.ReportTie

/-! ### every key the scanner finds is alphanumeric (the pattern's first group is `[A-Za-z0-9]+`) -/
def good : Mode → Prop
  | .idle => True
  | .key k => k.all isAlnum = true
  | .colon k => k.all isAlnum = true
  | .val k _ => k.all isAlnum = true
  | .comma k _ => k.all isAlnum = true

theorem feedIdle_good (c : Char) : good (feedIdle c) := by
  unfold feedIdle
  by_cases h : isAlnum c = true <;> simp [h, good]

theorem feed_good (m : Mode) (c : Char) (h : good m) :
    good (feed m c).1 ∧ ∀ kv ∈ (feed m c).2, kv.1.all isAlnum = true := by
  cases m with
  | idle => exact ⟨feedIdle_good c, by simp [feed]⟩
  | key k =>
    simp only [feed]
    split
    · rename_i h1
      refine ⟨?_, by simp⟩
      show (k ++ [c]).all isAlnum = true
      simp only [List.all_append, List.all_cons, List.all_nil, Bool.and_true, Bool.and_eq_true]
      exact ⟨h, h1⟩
    · split
      · exact ⟨h, by simp⟩
      · exact ⟨trivial, by simp⟩
  | colon k =>
    simp only [feed]
    split
    · exact ⟨h, by simp⟩
    · exact ⟨feedIdle_good c, by simp⟩
  | val k v =>
    simp only [feed]
    split
    · exact ⟨h, by simp⟩
    · split
      · exact ⟨h, by simp⟩
      · exact ⟨feedIdle_good c, by simpa [good] using h⟩
  | comma k v =>
    simp only [feed]
    split
    · exact ⟨h, by simp⟩
    · exact ⟨feedIdle_good c, by simpa [good] using h⟩

theorem finish_good (m : Mode) (h : good m) : ∀ kv ∈ finish m, kv.1.all isAlnum = true := by
  cases m <;> simp [finish, good] at h ⊢ <;> exact h

theorem run_good : ∀ (s : Str) (m : Mode), good m → ∀ kv ∈ run m s, kv.1.all isAlnum = true := by
  intro s
  induction s with
  | nil => intro m h; exact finish_good m h
  | cons c cs ih =>
    intro m h kv hkv
    simp only [run, List.mem_append] at hkv
    rcases hkv with hkv | hkv
    · exact (feed_good m c h).2 kv hkv
    · exact ih _ (feed_good m c h).1 kv hkv

theorem scan_keys_alnum (s : Str) : ∀ kv ∈ scan s, kv.1.all isAlnum = true :=
  run_good s .idle trivial

end GscribModel.ReportTie

namespace GscribModel.ReportTie

/-- a line cannot start with `ok` and with an error prefix: the order of the two tests does not matter -/
theorem ok_not_err (low : Str) (h : okPrefix low = true) : errPrefix low = false := by
  match low, h with
  | 'o' :: _, _ => simp [errPrefix, List.isPrefixOf]
  | [], h => simp [okPrefix, List.isPrefixOf] at h
  | c :: t, h =>
    have hc : c = 'o' := by
      simp only [okPrefix, List.isPrefixOf, Bool.and_eq_true, beq_iff_eq] at h
      exact h.1.symm
    subst hc
    simp [errPrefix, List.isPrefixOf]

theorem forList_fold (err : Option Str) (ack : Bool) (f : PSt → (Str × Str) → PSt) (body : Writer → (Str × Str) → Res Writer) :
    ∀ (xs : List (Str × Str)) (s : PSt), (∀ kv ∈ xs, ∀ s, body (mkP s err ack) kv = (mkP (f s kv) err ack, none)) →
      Py.forList xs (mkP s err ack) body = (mkP (xs.foldl f s) err ack, none) := by
  intro xs
  induction xs with
  | nil => intro s _; rfl
  | cons x xs ih =>
    intro s h
    simp only [Py.forList, h x (List.mem_cons_self ..), List.foldl_cons]
    exact ih _ (fun kv hkv => h kv (List.mem_cons_of_mem _ hkv))

end GscribModel.ReportTie

/-- `_parse_message`: the reported set is emptied, then the matches of the pattern are handled left to right by the loop
    body; nothing is raised -/
theorem ReportTie_parse_message (t : Table) (rep : List Char) (err : Option Str) (ack : Bool) (msg : Str) :
    ReportSrc._parse_message (mk t rep err ack) msg = (mkP (parseMessage msg t) err ack, none) := by
  have h0 : ({ mk t rep err ack with _reported_params := PySet.clear (mk t rep err ack)._reported_params } : Writer)
      = mkP { params := t, reported := [] } err ack := rfl
  have hloop := forList_fold err ack (applyMatch (msg.head? == some '<'))
    (fun self x => ReportSrc._parse_message_for1 self msg x.1 x.2) (scan msg) { params := t, reported := [] }
    (fun kv hkv s => ReportTie_apply_match msg s err ack kv (scan_keys_alnum msg kv hkv))
  simp only [ReportSrc._parse_message, h0, ReportTie_constants.2.2.1, hloop, parseMessage]

/-- `_on_device_message`: strip, lower-case, then `ok…` = parse and acknowledge; `error…` / `alarm…` / `!!…` = remember
    the (unformatted) line as a `DeviceError` and acknowledge, nothing parsed; anything else = parse only.  No exception
    leaves the `try`, so the handler that would store a `GscribError` is never entered. -/
theorem ReportTie_on_device_message (s : St) (rep : List Char) (raw : Str) :
    ReportSrc._on_device_message (mk s.params rep s.error s.acked) raw
      = (mk (onDeviceMessage s raw).params (reportedAfter s rep raw) (onDeviceMessage s raw).error (onDeviceMessage s raw).acked,
         none) := by
  simp only [ReportSrc._on_device_message, Py.strip, Py.lower, ReportTie_constants.2.2.2.1, ReportTie_constants.2.2.2.2,
    ReportTie_parse_message, ReportSrc._format_error, onDeviceMessage, reportedAfter]
  by_cases hok : okPrefix (lower (strip raw)) = true
  · have hne := ok_not_err _ hok      -- (only needed if the source tests the error prefixes first)
    simp [hok, hne, Py.tryExcept, mkP, mk, Event.set]
  · by_cases herr : errPrefix (lower (strip raw)) = true
    · simp [hok, herr, Py.tryExcept, mk, Event.set]
    · simp [hok, herr, Py.tryExcept, mkP, mk]

/-- `get_parameter` looks the upper-cased name up in the table … -/
theorem ReportTie_get_parameter (t : Table) (rep : List Char) (err : Option Str) (ack : Bool) (c : Char) :
    ReportSrc.get_parameter (mk t rep err ack) [c] = Table.get t c := by
  simp only [ReportSrc.get_parameter, ParamsDict.get, mk, Py.upper, List.map_cons, List.map_nil, lookup_absTable, Table.get]

/-- … and a name that is not one character long has no reading (all keys ever stored are single characters) -/
theorem ReportTie_get_parameter_long (t : Table) (rep : List Char) (err : Option Str) (ack : Bool) (name : Str)
    (h : name.length ≠ 1) : ReportSrc.get_parameter (mk t rep err ack) name = none := by
  simp only [ReportSrc.get_parameter, ParamsDict.get, mk]
  exact lookup_absTable_long t _ (by simpa [Py.upper] using h)

/-- the writer `__init__` leaves is the model's initial state -/
theorem ReportTie_init : ReportSrc.Writer.init = mk ({} : St).params [] ({} : St).error ({} : St).acked := rfl

/-- a whole sequence of lines: folding the translated callback over them is the model's `deliver` (for some reported set) -/
theorem ReportTie_deliver (lines : List Str) : ∀ (s : St) (rep : List Char), ∃ rep',
    lines.foldl (fun w l => (ReportSrc._on_device_message w l).1) (mk s.params rep s.error s.acked)
      = mk (deliver s lines).params rep' (deliver s lines).error (deliver s lines).acked := by
  induction lines with
  | nil => intro s rep; exact ⟨rep, rfl⟩
  | cons l ls ih =>
    intro s rep
    simp only [List.foldl_cons, ReportTie_on_device_message, deliver]
    exact ih (onDeviceMessage s l) _

/-! ### the translated functions evaluate (non-vacuity) -/
section examples
open GscribModel.Gen.ReportSrc

/-- a Grbl status report through the translated callback: first occurrence per letter, `FS` split, seventh coordinate
    and the unparsable `WCO` ignored, names looked up case-insensitively, no acknowledgement -/
example :
    let w := (_on_device_message Writer.init " <Idle|MPos:1.5,-2,3|FS:500,8000|X:9|WCO:0,0,0>\n".toList).1
    [get_parameter w ['X'], get_parameter w ['y'], get_parameter w ['F'], get_parameter w ['S'], get_parameter w ['A']]
      = [some (3/2), some (-2), some 500, some 8000, none] ∧ w._ack_event = false ∧ w._device_error = none := by decide +kernel

/-- `FS` outside a status report is ignored; a bad `S` keeps `F`; a bad coordinate keeps the ones before it -/
example :
    let w := (_parse_message Writer.init "ok FS:1,2 X:1.2.3".toList).1
    (get_parameter w ['F'], get_parameter w ['X'], w._reported_params) = (none, none, []) := by decide +kernel
example :
    let w := (_parse_message Writer.init "<Run|FS:7,-|WPos:4,.,6>".toList).1
    (get_parameter w ['F'], get_parameter w ['S'], get_parameter w ['X'], get_parameter w ['Y'], get_parameter w ['Z'])
      = (some 7, none, some 4, none, none) := by decide +kernel

/-- an error line: acknowledged, remembered as a `DeviceError` with the stripped text, nothing parsed -/
example :
    _on_device_message Writer.init " ALARM:1 X:5\n".toList
      = ({ Writer.init with _ack_event := true, _device_error := some (.deviceError "ALARM:1 X:5".toList) }, none) := by
  decide +kernel

/-- the loop body by itself does raise nothing, but the lazy `float` inside it does: the exception is swallowed by the `try` -/
example : (Py.forSeq (Py.zipLazy ReportSrc.AXES (Py.mapLazy Py.float ["1".toList, "x".toList])) Writer.init
      (fun self x => _parse_message_for2 self x.1 x.2)).2 = some .valueError := by decide +kernel
end examples

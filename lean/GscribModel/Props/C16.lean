import GscribModel.Lemmas.DirectWrite
/-! # C16 — direct-write statements are delivered synchronously and errors surface

Property theorems only.  The model is the transition system `Model/DirectWrite.lean`
(`PrintrunWriter.write` split into `clear ack; enqueue; wait; raise stored error`, the connect
handshake, printcore's reader / print / sender threads, a device answering every command with status
lines and one terminal reply after any delay and pushing surplus `ok` / unsolicited error lines at any
time and greeting with `Grbl …` (after which printcore sends no `M110` and `connect()` awaits the `ok` of the
connect probe), connection loss).  A *schedule* is any `List Act`; `run {} acts = some s` says that `acts` is an
execution from the moment the port was opened.  Helper lemmas and invariants: `Lemmas/DirectWrite.lean`.

Two hypotheses are not discharged, both ghost flags written by the model at a structural point:
* `s.backlog = false` - when `startprint` ran, no command sent before (a connect probe) was still
  unanswered (finding `C16-handshake-backlog`); without line numbers (`Grbl` greeting): at most the one probe
  whose `ok` `connect()` then awaits (`backlogAt`);
* `s.surplusHit = false` - no flag-setting line that is nobody's terminal reply (the `ok` after an
  `Error:` line, a spurious `ok`, an unsolicited alarm) was read while `connect()` awaited a reset or
  while a `write()` had cleared the flag and not yet read its own reply (finding `C16-surplus-reply`); a
  greeting read by `_listen` while `connect()` awaits an acknowledgement counts as such a line.
Both hold when a single probe was sent and the device emitted neither a "T:" report nor such lines nor a greeting
(`C16_single_probe_clean`), and when it greeted first and then behaved like that (`C16_grbl_single_probe_clean`); runs violating them are the `decide` witnesses at the end of the file.
A surplus line read *between* two `write()` calls is harmless - that case is covered by the theorems. -/
open GscribModel.DirectWrite

/-- **Order, once, unmodified** (every schedule, including stale acknowledgements, surplus lines and
    connection loss): the user statements in the device's receive log are exactly statements `0 … m-1` in
    call order, each once (payloads are opaque to the model), and everything queued so far is, in order,
    in the log, on the wire or still in the priority queue. -/
theorem C16_order_once (acts : List Act) (s : St) (hr : run {} acts = some s) :
    stmtIds s.devLog = List.range (stmtIds s.devLog).length
    ∧ (stmtIds s.devLog).length ≤ s.next
    ∧ stmtIds (s.devLog ++ s.toDev ++ s.priq) = List.range s.next := by
  have ho := (inv_run acts {} s orderInv_init wireInv_init sinv_init hr).1
  have h := ho.ids
  rw [List.append_assoc, stmtIds_append] at h
  exact ⟨(range_prefix h).1, (range_prefix h).2, ho.ids⟩

/-- **Synchronous delivery, independent of the handshake** (`C16_sync_partial`: it assumes a start state
    instead of deriving it): from any state in which `connect()` has returned and no acknowledgement is
    outstanding, every `write k` that has completed did so after the reader processed the terminal reply
    the device emitted for statement k itself - or the connection was lost and `write k` raised.
    Every interleaving of caller (4 steps per `write`), sender, reader and device. -/
theorem C16_sync_partial (s₀ : St) (hc : ConnectedIdle s₀) (hn : ¬StaleAck s₀) (hw : WireInv s₀)
    (acts : List Act) (s : St) (hr : run s₀ acts = some s) (hb : s.backlog = false) (hsp : s.surplusHit = false) :
    ∀ p ∈ s.outcomes, (Cmd.stmt p.1 ∈ s.heard ∧ Cmd.stmt p.1 ∈ s.devLog) ∨ (s.lost = true ∧ p.2 = true) := by
  obtain ⟨_, hwi, hi⟩ := inv_run acts s₀ s hc.2.2.2.2.2.2.2.2.2.2 hw (sinv_of_connectedIdle hc hn) hr
  intro p hp
  rcases (hi.2 hb hsp).1 p hp with h | h
  · exact Or.inl ⟨h.1, hwi.2 _ h.1⟩
  · exact Or.inr h

/-- **Synchronous delivery from the opening of the port**: for every schedule of the connect handshake
    and of the writes, `write k` completes only after the terminal reply to statement k (or raises after a
    connection loss). -/
theorem C16_sync (acts : List Act) (s : St) (hr : run {} acts = some s) (hb : s.backlog = false)
    (hsp : s.surplusHit = false) :
    ∀ p ∈ s.outcomes, (Cmd.stmt p.1 ∈ s.heard ∧ Cmd.stmt p.1 ∈ s.devLog) ∨ (s.lost = true ∧ p.2 = true) := by
  obtain ⟨_, hwi, hi⟩ := inv_run acts {} s orderInv_init wireInv_init sinv_init hr
  intro p hp
  rcases (hi.2 hb hsp).1 p hp with h | h
  · exact Or.inl ⟨h.1, hwi.2 _ h.1⟩
  · exact Or.inr h

/-- **The ordinary handshake is clean**: if the reader sent one `G4 P0` only and the device never emitted
    a line containing "T:" nor a surplus `ok` / unsolicited error line nor a greeting (`Act.noTemp`), both
    hypotheses hold. -/
theorem C16_single_probe_clean (acts : List Act) (s : St) (hr : run {} acts = some s)
    (hnt : ∀ a ∈ acts, a.noTemp = true) (hp : s.probes ≤ 1) : s.backlog = false ∧ s.surplusHit = false := by
  have hj := jInv_run acts {} s hnt jInv_init hr
  have hpi := pInv_run acts {} s hnt pInv_init hr
  refine ⟨?_, hpi.2.2.1⟩
  by_cases hw : s.cphase = .waitOnline
  · exact (hj.1 hw).2.2.2.1
  · exact (hj.2 hw).2 hp

/-- `C16_sync` without hypotheses on ghost flags for the ordinary handshake. -/
theorem C16_sync_single_probe (acts : List Act) (s : St) (hr : run {} acts = some s)
    (hnt : ∀ a ∈ acts, a.noTemp = true) (hp : s.probes ≤ 1) :
    ∀ p ∈ s.outcomes, (Cmd.stmt p.1 ∈ s.heard ∧ Cmd.stmt p.1 ∈ s.devLog) ∨ (s.lost = true ∧ p.2 = true) :=
  C16_sync acts s hr (C16_single_probe_clean acts s hr hnt hp).1 (C16_single_probe_clean acts s hr hnt hp).2

/-- **The ordinary handshake without line numbers is clean too**: the controller greets with `Grbl …` when the port
    is opened (the greeting is the first line on the wire: the schedule begins with `dGreet`), the reader sent one
    `G4 P0` only, and the device emitted no surplus `ok` / unsolicited error line / second greeting (`Act.noTemp`):
    both hypotheses hold - `connect()` returns on the `ok` of that probe, however late it comes. -/
theorem C16_grbl_single_probe_clean (acts : List Act) (s : St) (hr : run {} (.dGreet :: acts) = some s)
    (hnt : ∀ a ∈ acts, a.noTemp = true) (hp : s.probes ≤ 1) : s.backlog = false ∧ s.surplusHit = false := by
  rw [run_dGreet] at hr
  obtain ⟨_, _, _, hs, h1, h2⟩ := gInv_run acts grblInit s hnt gInv_init hr
  refine ⟨?_, hs⟩
  by_cases hw : s.cphase = .waitOnline
  · exact (h1 hw).2.2.2.1
  · exact h2 hw hp

/-- `C16_sync` without hypotheses on ghost flags for the ordinary handshake of a controller that greets. -/
theorem C16_sync_grbl_single_probe (acts : List Act) (s : St) (hr : run {} (.dGreet :: acts) = some s)
    (hnt : ∀ a ∈ acts, a.noTemp = true) (hp : s.probes ≤ 1) :
    ∀ p ∈ s.outcomes, (Cmd.stmt p.1 ∈ s.heard ∧ Cmd.stmt p.1 ∈ s.devLog) ∨ (s.lost = true ∧ p.2 = true) :=
  C16_sync (.dGreet :: acts) s hr (C16_grbl_single_probe_clean acts s hr hnt hp).1
    (C16_grbl_single_probe_clean acts s hr hnt hp).2

/-- **Errors surface**: if the device answered statement k with `error…|alarm…|!!…`, `write k` raised
    `DeviceError`. -/
theorem C16_error_surfaces (acts : List Act) (s : St) (hr : run {} acts = some s) (hb : s.backlog = false)
    (hsp : s.surplusHit = false) :
    ∀ p ∈ s.outcomes, Cmd.stmt p.1 ∈ s.devBad → p.2 = true := by
  have hi := (inv_run acts {} s orderInv_init wireInv_init sinv_init hr).2.2
  intro p hp hbad
  rcases (hi.2 hb hsp).1 p hp with h | h
  · exact h.2.1 hbad
  · exact h.2

/-- **Unsolicited error lines surface** (every schedule, no hypothesis): once the reader has processed an
    error line - the reply to a statement or a line the device pushed on its own, e.g. an alarm after the
    move was acknowledged - the error stays stored and the writer alive until a call raises it: the next
    `write()` to finish records `raised`, and `disconnect(wait=True)` cannot finish normally before. -/
theorem C16_unsolicited_error_surfaces (acts : List Act) (s : St) (hr : run {} acts = some s)
    (hd : s.dueErr = true) :
    s.err = true ∧ s.cphase ≠ .disconnected ∧ s.cphase ≠ .failed
    ∧ (∀ s', step s .wFinish = some s' → ∃ k, s'.outcomes = s.outcomes ++ [(k, true)])
    ∧ (∀ s', step s .cDisc = some s' → s'.discRaised = true) := by
  obtain ⟨he, hh⟩ := eInv_run acts {} s eInv_init hr hd
  simp only [halted, Bool.or_eq_false_iff, beq_eq_false_iff_ne] at hh
  refine ⟨he, hh.2, hh.1, ?_, ?_⟩
  · intro s' hs
    unfold step at hs
    split at hs
    · simp at hs
    · simp only [stepLive] at hs
      split at hs
      · rename_i k _
        simp at hs; subst hs; exact ⟨k, by simp [he]⟩
      · simp at hs
  · intro s' hs
    unfold step at hs
    split at hs
    · simp at hs
    · simp only [stepLive, he] at hs
      split at hs
      · simp at hs; subst hs; rfl
      · simp at hs

/-- every error line the reader processes is recorded as due (`bad c`: reply to a command; `xbad`: pushed
    by the device on its own) -/
theorem C16_error_line_is_due (s s' : St) (r : Reply) (rs : List Reply) (ht : s.toHost = r :: rs)
    (hb : r = .xbad ∨ ∃ c, r = .bad c) (hs : step s .lListen = some s') : s'.dueErr = true ∧ s'.err = true := by
  unfold step at hs
  split at hs
  · simp at hs
  · simp only [stepLive, ht] at hs
    split at hs
    · simp at hs
    · simp at hs; subst hs
      rcases hb with rfl | ⟨c, rfl⟩ <;> simp [hear]

/-- **No spurious error**: a `write k` that raised had an error reply to statement k, or an unsolicited
    error line had been read before, or the connection was lost. -/
theorem C16_no_spurious_error (acts : List Act) (s : St) (hr : run {} acts = some s) (hb : s.backlog = false)
    (hsp : s.surplusHit = false) :
    ∀ p ∈ s.outcomes, p.2 = true → Cmd.stmt p.1 ∈ s.devBad ∨ s.anyXbad = true ∨ s.lost = true := by
  have hi := (inv_run acts {} s orderInv_init wireInv_init sinv_init hr).2.2
  intro p hp hr
  rcases (hi.2 hb hsp).1 p hp with h | h
  · rcases h.2.2 hr with h' | h'
    · exact Or.inl h'
    · exact Or.inr (Or.inl h')
  · exact Or.inr (Or.inr h.1)

/-- **connect() ends clean**: whenever `connect()` has returned (and between two statements), every
    command printcore or the caller sent has been answered and the answer read - nothing queued, nothing
    on the wire, no terminal reply unread, printcore idle, and no stored error other than an unsolicited one. -/
theorem C16_connect_clean (acts : List Act) (s : St) (hr : run {} acts = some s) (hb : s.backlog = false)
    (hsp : s.surplusHit = false) (hc : s.cphase = .connected) (hl : s.lost = false) (hw : s.wstate = .idle) :
    s.priq = [] ∧ s.toDev = [] ∧ termOf s.toHost = [] ∧ (s.err = true → s.anyXbad = true)
    ∧ s.printing = false ∧ s.clear = true := by
  have hi := (inv_run acts {} s orderInv_init wireInv_init sinv_init hr).2.2
  obtain ⟨h1, h2, _, h4, _⟩ := ((hi.2 hb hsp).2.2 hl).2.2 (Or.inl hc)
  obtain ⟨a, b, c, _⟩ := h4 hw
  exact ⟨a, b.1, b.2, c, h1, h2⟩

/-- **disconnect(wait=True)**: it finishes without raising only when nothing is pending (queue empty,
    no print running, `clear`) and no error line is left unraised - for a caller in any state, e.g. a
    second thread in `write`; and for the sequential caller (idle, connection alive) every queued
    statement has reached the device and nothing is unanswered or unread. -/
theorem C16_disconnect_wait (acts : List Act) (s : St) (hr : run {} acts = some s)
    (hd : s.cphase = .disconnected) (hnr : s.discRaised = false) :
    (s.priq = [] ∧ s.printing = false ∧ s.clear = true ∧ s.dueErr = false)
    ∧ (s.backlog = false → s.surplusHit = false → s.lost = false → s.wstate = .idle →
        s.priq = [] ∧ s.toDev = [] ∧ termOf s.toHost = [] ∧ stmtIds s.devLog = List.range s.next) := by
  have hdi := dInv_run acts {} s dInv_init hr
  have hei := eInv_run acts {} s eInv_init hr
  have hi := inv_run acts {} s orderInv_init wireInv_init sinv_init hr
  refine ⟨?_, fun hb hsp hl hw => ?_⟩
  · have := hdi hd hnr
    simp only [pending, Bool.or_eq_false_iff, Bool.not_eq_false', List.isEmpty_iff] at this
    refine ⟨by simpa using this.2, this.1.1, this.1.2, ?_⟩
    cases hde : s.dueErr with
    | false => rfl
    | true =>
      have := (hei hde).2
      simp [halted, hd] at this
  · obtain ⟨_, _, _, h4, _⟩ := ((hi.2.2.2 hb hsp).2.2 hl).2.2 (Or.inr ⟨hd, hnr⟩)
    obtain ⟨a, b, _, _⟩ := h4 hw
    refine ⟨a, b.1, b.2, ?_⟩
    have := hi.1.ids
    rw [a, b.1] at this
    simpa using this

/-! ## Witnesses (`decide` on executed runs) -/

/-- the projection compared in the witnesses -/
structure C16_View where
  outcomes : List (Nat × Bool)
  backlog : Bool
  surplusHit : Bool
  received : List Nat
  toDev : List Cmd
  cphase : CPhase
deriving DecidableEq, Repr

def C16_view (s : St) : C16_View := ⟨s.outcomes, s.backlog, s.surplusHit, stmtIds s.devLog, s.toDev, s.cphase⟩

/-- **Finding `C16-handshake-backlog`**: two probes pile up and are both answered later.  `connect()`
    returns with the second reset unanswered, and `write 0` completes (on that reset's `ok`) while the
    device has not even received statement 0. -/
example :
    (run {} [.lProbe, .lProbe, .dProcess [] false, .dProcess [] false, .lListen, .cOnline, .lListen,
             .pSendnext, .dProcess [] false, .lListen, .cPoll,
             .wClear, .wEnq, .sSend, .dProcess [] false, .lListen, .wWake, .wFinish]).map C16_view
      = some ⟨[(0, false)], true, false, [], [.stmt 0], .connected⟩ := by decide

/-- the same defect with a single probe and a temperature report that brings printcore online first -/
example :
    (run {} [.lProbe, .dProcess [true] false, .lListen, .cOnline, .lListen, .pSendnext,
             .dProcess [] false, .lListen, .cPoll,
             .wClear, .wEnq, .sSend, .dProcess [] false, .lListen, .wWake, .wFinish]).map C16_view
      = some ⟨[(0, false)], true, false, [], [.stmt 0], .connected⟩ := by decide

/-- **Without line numbers** (`Grbl` greeting read first): no `M110` is ever sent, `connect()` returns on the `ok`
    of the probe, and an ordinary session is a run with both ghost flags down (non-vacuity of the theorems in that
    mode): statement 0 acknowledged after a status line, statement 1 answered with an error, `disconnect(wait=True)`. -/
example :
    (run {} [.lProbe, .dGreet, .lListen, .cOnline, .dProcess [] false, .lListen, .pSendnext, .cPoll,
             .wClear, .wEnq, .sSend, .dProcess [false] false, .lListen, .lListen, .wWake, .wFinish,
             .wClear, .wEnq, .sSend, .dProcess [] true, .lListen, .wWake, .wFinish, .cDisc]).map
        (fun s => (C16_view s, s.lineNumbers, s.devLog))
      = some (⟨[(0, false), (1, true)], false, false, [0, 1], [], .disconnected⟩, false,
              [.probe, .stmt 0, .stmt 1]) := by decide

/-- finding `C16-handshake-backlog` without line numbers: two probes pile up before the greeting is read; `connect()`
    returns on the first probe's `ok`, `write 0` on the second's, while the device has not received statement 0. -/
example :
    (run {} [.lProbe, .lProbe, .dGreet, .lListen, .cOnline, .dProcess [] false, .lListen, .pSendnext, .cPoll,
             .wClear, .wEnq, .sSend, .dProcess [] false, .lListen, .wWake, .wFinish]).map C16_view
      = some ⟨[(0, false)], true, false, [], [.stmt 0], .connected⟩ := by decide

/-- Observation (liveness, outside this property): without line numbers, a probe acknowledged *before* `startprint`
    runs leaves nothing that could raise `clear` again: `connect()` never returns (no host thread can move; only a
    connection loss or a further flag-setting line ends the wait).  Safety holds vacuously: no `write` starts. -/
example :
    (run {} [.lProbe, .dGreet, .lListen, .dProcess [] false, .lListen, .cOnline]).map
        (fun s => (s.backlog, s.printing, s.clear, pending s, s.toDev.isEmpty && s.toHost.isEmpty,
                   [Act.pSendnext, .cPoll, .sSend, .wClear, .cOnline, .lProbe, .lListen].all (fun a => (step s a).isNone)))
      = some (false, true, false, true, true, true) := by decide

/-- the clean connect prefix used below: one probe, both resets acknowledged -/
def C16_connectActs : List Act :=
  [.lProbe, .dProcess [] false, .lListen, .cOnline, .dProcess [] false, .lListen,
   .pSendnext, .dProcess [] false, .lListen, .cPoll]

/-- **Finding `C16-surplus-reply`**: statement 0 is answered `error…` then `ok`; the caller is already in
    `write 1` (flag cleared, statement sent) when the trailing `ok` is read: `write 1` completes while the
    device has not received statement 1. -/
example :
    (run {} (C16_connectActs ++
            [.wClear, .wEnq, .sSend, .dProcess [] true, .dPush false, .lListen, .wWake, .wFinish,
             .wClear, .wEnq, .sSend, .lListen, .wWake, .wFinish])).map C16_view
      = some ⟨[(0, true), (1, false)], false, true, [0], [.stmt 1], .connected⟩ := by decide

/-- the same two lines read before the caller starts `write 1` are harmless (`surplusHit` stays false; the
    theorems apply): `write 1` waits for its own reply. -/
example :
    (run {} (C16_connectActs ++
            [.wClear, .wEnq, .sSend, .dProcess [] true, .dPush false, .lListen, .wWake, .wFinish, .lListen,
             .wClear, .wEnq, .sSend])).bind (fun s => (step s .wWake).map C16_view) = none
    ∧ (run {} (C16_connectActs ++
            [.wClear, .wEnq, .sSend, .dProcess [] true, .dPush false, .lListen, .wWake, .wFinish, .lListen,
             .wClear, .wEnq, .sSend, .dProcess [] false, .lListen, .wWake, .wFinish])).map C16_view
      = some ⟨[(0, true), (1, false)], false, false, [0, 1], [], .connected⟩ := by decide

/-- an alarm pushed after statement 0 was acknowledged, read while the caller is idle, is raised by
    `write 1` (after statement 1's own `ok`); read after the last statement it is raised by
    `disconnect(wait=True)`. -/
example :
    (run {} (C16_connectActs ++
            [.wClear, .wEnq, .sSend, .dProcess [] false, .lListen, .wWake, .wFinish, .dPush true, .lListen,
             .wClear, .wEnq, .sSend, .dProcess [] false, .lListen, .wWake, .wFinish,
             .dPush true, .lListen, .cDisc])).map (fun s => (C16_view s, s.discRaised, s.dueErr))
      = some (⟨[(0, false), (1, true)], false, false, [0, 1], [], .disconnected⟩, true, false) := by decide

/-- Non-vacuity: an ordinary session (one probe; statement 0 acknowledged after a status line, statement 1
    answered with an error; `disconnect(wait=True)`) is a run with both ghost flags down. -/
example :
    (run {} [.lProbe, .dProcess [] false, .lListen, .cOnline, .dProcess [false] false, .lListen, .lListen,
             .pSendnext, .dProcess [] false, .lListen, .cPoll,
             .wClear, .wEnq, .sSend, .dProcess [false] false, .lListen, .lListen, .wWake, .wFinish,
             .wClear, .wEnq, .sSend, .dProcess [] true, .lListen, .wWake, .wFinish, .cDisc]).map C16_view
      = some ⟨[(0, false), (1, true)], false, false, [0, 1], [], .disconnected⟩ := by decide

/-- Non-vacuity of `C16_sync_partial`'s hypotheses, and the acknowledgement set *before* `wait()` is
    reached (device faster than the caller) is not lost. -/
example : ConnectedIdle { cphase := .connected, online := true } ∧ ¬StaleAck { cphase := .connected, online := true } := by
  refine ⟨⟨rfl, rfl, rfl, rfl, rfl, rfl, rfl, rfl, rfl, rfl, ⟨by simp [stmtIds], by simp, by simp⟩⟩, ?_⟩
  simp [StaleAck, termOf]
example :
    (run { cphase := .connected, online := true }
         [.wClear, .wEnq, .sSend, .dProcess [] false, .lListen, .wWake, .wFinish]).map (·.outcomes)
      = some [(0, false)] := by decide

import GscribModel.Lemmas.DirectWrite
/-! # C16 — direct-write statements are delivered synchronously and errors surface

Property theorems only.  The model is the transition system `Model/DirectWrite.lean`
(`PrintrunWriter.write` split into `clear ack; enqueue; wait; raise stored error`, the connect
handshake, printcore's reader / print / sender threads, a device answering every command with status
lines and one terminal reply after any delay, connection loss).  A *schedule* is any `List Act`;
`run {} acts = some s` says that `acts` is an execution from the moment the port was opened.
Helper lemmas and invariants: `Lemmas/DirectWrite.lean`.

The one hypothesis that is not discharged is `s.backlog = false`: when `startprint` ran, no command sent
before (a connect probe) was still unanswered.  It holds whenever a single probe was sent and the device
emitted no "T:" report (`C16_single_probe_no_backlog`); a run violating it is the finding
`C16-handshake-backlog`, exhibited by the `decide` witness at the end of the file. -/
open GscribModel.DirectWrite

/-- **Order, once, unmodified** (every schedule, including stale acknowledgements and connection loss):
    the user statements in the device's receive log are exactly statements `0 … m-1` in call order, each
    once (payloads are opaque to the model), and everything queued so far is, in order, in the log, on
    the wire or still in the priority queue. -/
theorem C16_order_once (acts : List Act) (s : St) (hr : run {} acts = some s) :
    stmtIds s.devLog = List.range (stmtIds s.devLog).length
    ∧ (stmtIds s.devLog).length ≤ s.next
    ∧ stmtIds (s.devLog ++ s.toDev ++ s.priq) = List.range s.next := by
  have ho := (inv_run acts {} s orderInv_init sinv_init hr).1
  have h := ho.ids
  rw [List.append_assoc, stmtIds_append] at h
  exact ⟨(range_prefix h).1, (range_prefix h).2, ho.ids⟩

/-- **Synchronous delivery, independent of the handshake** (`C16_sync_partial`: it assumes a start state
    instead of deriving it): from any state in which `connect()` has returned and no acknowledgement is
    outstanding, every `write k` that has completed did so after the reader processed the terminal reply
    the device emitted for statement k itself - or the connection was lost and `write k` raised.
    Every interleaving of caller (4 steps per `write`), sender, reader and device. -/
theorem C16_sync_partial (s₀ : St) (hc : ConnectedIdle s₀) (hn : ¬StaleAck s₀) (hw : WireInv s₀)
    (acts : List Act) (s : St) (hr : run s₀ acts = some s) (hb : s.backlog = false) :
    ∀ p ∈ s.outcomes, (Cmd.stmt p.1 ∈ s.heard ∧ Cmd.stmt p.1 ∈ s.devLog) ∨ (s.lost = true ∧ p.2 = true) := by
  have hi := (inv_run acts s₀ s hc.2.2.2.2.2.2.2.2.2.2 (sinv_of_connectedIdle hc hn) hr).2
  have hwi := wireInv_run acts s₀ s hw hr
  intro p hp
  rcases (hi.2 hb).1 p hp with h | h
  · exact Or.inl ⟨h.1, hwi.2 _ h.1⟩
  · exact Or.inr h

/-- **Synchronous delivery from the opening of the port**: for every schedule of the connect handshake
    and of the writes, if no command was unanswered when `startprint` ran, `write k` completes only after
    the terminal reply to statement k (or raises after a connection loss). -/
theorem C16_sync (acts : List Act) (s : St) (hr : run {} acts = some s) (hb : s.backlog = false) :
    ∀ p ∈ s.outcomes, (Cmd.stmt p.1 ∈ s.heard ∧ Cmd.stmt p.1 ∈ s.devLog) ∨ (s.lost = true ∧ p.2 = true) := by
  have hi := (inv_run acts {} s orderInv_init sinv_init hr).2
  have hwi := wireInv_run acts {} s wireInv_init hr
  intro p hp
  rcases (hi.2 hb).1 p hp with h | h
  · exact Or.inl ⟨h.1, hwi.2 _ h.1⟩
  · exact Or.inr h

/-- **A single answered probe leaves no backlog**: if the reader sent one `G4 P0` only and the device
    never emitted a line containing "T:", `startprint` ran with nothing unanswered. -/
theorem C16_single_probe_no_backlog (acts : List Act) (s : St) (hr : run {} acts = some s)
    (hnt : ∀ a ∈ acts, a.noTemp = true) (hp : s.probes ≤ 1) : s.backlog = false := by
  have hj := jInv_run acts {} s hnt jInv_init hr
  by_cases hw : s.cphase = .waitOnline
  · exact (hj.1 hw).2.2.2.1
  · exact (hj.2 hw).2 hp

/-- `C16_sync` without the backlog hypothesis for the ordinary handshake (one probe, no "T:" report). -/
theorem C16_sync_single_probe (acts : List Act) (s : St) (hr : run {} acts = some s)
    (hnt : ∀ a ∈ acts, a.noTemp = true) (hp : s.probes ≤ 1) :
    ∀ p ∈ s.outcomes, (Cmd.stmt p.1 ∈ s.heard ∧ Cmd.stmt p.1 ∈ s.devLog) ∨ (s.lost = true ∧ p.2 = true) :=
  C16_sync acts s hr (C16_single_probe_no_backlog acts s hr hnt hp)

/-- **Errors surface**: if the device answered statement k with `error…|alarm…|!!…`, `write k` raised
    `DeviceError`. -/
theorem C16_error_surfaces (acts : List Act) (s : St) (hr : run {} acts = some s) (hb : s.backlog = false) :
    ∀ p ∈ s.outcomes, Cmd.stmt p.1 ∈ s.devBad → p.2 = true := by
  have hi := (inv_run acts {} s orderInv_init sinv_init hr).2
  intro p hp hbad
  rcases (hi.2 hb).1 p hp with h | h
  · exact h.2.2 hbad
  · exact h.2

/-- **No spurious error**: a `write k` that raised had an error reply to statement k, or the connection
    was lost. -/
theorem C16_no_spurious_error (acts : List Act) (s : St) (hr : run {} acts = some s) (hb : s.backlog = false) :
    ∀ p ∈ s.outcomes, p.2 = true → Cmd.stmt p.1 ∈ s.devBad ∨ s.lost = true := by
  have hi := (inv_run acts {} s orderInv_init sinv_init hr).2
  intro p hp hr
  rcases (hi.2 hb).1 p hp with h | h
  · exact Or.inl (h.2.1 hr)
  · exact Or.inr h.1

/-- **connect() ends clean**: whenever `connect()` has returned (and between two statements), every
    command printcore or the caller sent has been answered and the answer read - nothing queued, nothing
    on the wire, no terminal reply unread, no stored error, printcore idle. -/
theorem C16_connect_clean (acts : List Act) (s : St) (hr : run {} acts = some s) (hb : s.backlog = false)
    (hc : s.cphase = .connected) (hl : s.lost = false) (hw : s.wstate = .idle) :
    s.priq = [] ∧ s.toDev = [] ∧ termOf s.toHost = [] ∧ s.err = false ∧ s.printing = false ∧ s.clear = true := by
  have hi := (inv_run acts {} s orderInv_init sinv_init hr).2
  obtain ⟨h1, h2, _, h4, _⟩ := ((hi.2 hb).2.2 hl).2.2 (Or.inl hc)
  obtain ⟨a, b, c, _⟩ := h4 hw
  exact ⟨a, b.1, b.2, c, h1, h2⟩

/-- **disconnect(wait=True)**: it finishes without raising only when nothing is pending (queue empty,
    no print running, `clear`) - for a caller in any state, e.g. a second thread in `write`; and for the
    sequential caller (idle, no backlog, connection alive) every queued statement has reached the device
    and nothing is unanswered or unread. -/
theorem C16_disconnect_wait (acts : List Act) (s : St) (hr : run {} acts = some s)
    (hd : s.cphase = .disconnected) :
    (s.discRaised = false → s.priq = [] ∧ s.printing = false ∧ s.clear = true)
    ∧ (s.backlog = false → s.lost = false → s.wstate = .idle →
        s.priq = [] ∧ s.toDev = [] ∧ termOf s.toHost = [] ∧ stmtIds s.devLog = List.range s.next) := by
  have hdi := dInv_run acts {} s dInv_init hr
  have hi := inv_run acts {} s orderInv_init sinv_init hr
  refine ⟨fun hr' => ?_, fun hb hl hw => ?_⟩
  · have := hdi hd hr'
    simp only [pending, Bool.or_eq_false_iff, Bool.not_eq_false', List.isEmpty_iff] at this
    exact ⟨by simpa using this.2, this.1.1, this.1.2⟩
  · obtain ⟨_, _, _, h4, _⟩ := ((hi.2.2 hb).2.2 hl).2.2 (Or.inr hd)
    obtain ⟨a, b, _, _⟩ := h4 hw
    refine ⟨a, b.1, b.2, ?_⟩
    have := hi.1.ids
    rw [a, b.1] at this
    simpa using this

/-! ## Witnesses (`decide` on executed runs) -/

/-- the projection compared in the witnesses -/
def C16_view (s : St) : List (Nat × Bool) × Bool × List Nat × List Cmd × CPhase :=
  (s.outcomes, s.backlog, stmtIds s.devLog, s.toDev, s.cphase)

/-- **Finding `C16-handshake-backlog`**: two probes pile up and are both answered later.  `connect()`
    returns with the second reset unanswered, and `write 0` completes (on that reset's `ok`) while the
    device has not even received statement 0. -/
example :
    (run {} [.lProbe, .lProbe, .dProcess [] false, .dProcess [] false, .lListen, .cOnline, .lListen,
             .pSendnext, .dProcess [] false, .lListen, .cPoll,
             .wClear, .wEnq, .sSend, .dProcess [] false, .lListen, .wWake, .wFinish]).map C16_view
      = some ([(0, false)], true, [], [.stmt 0], .connected) := by decide

/-- the same defect with a single probe and a temperature report that brings printcore online first -/
example :
    (run {} [.lProbe, .dProcess [true] false, .lListen, .cOnline, .lListen, .pSendnext,
             .dProcess [] false, .lListen, .cPoll,
             .wClear, .wEnq, .sSend, .dProcess [] false, .lListen, .wWake, .wFinish]).map C16_view
      = some ([(0, false)], true, [], [.stmt 0], .connected) := by decide

/-- Non-vacuity: an ordinary session (one probe; statement 0 acknowledged after a status line, statement 1
    answered with an error; `disconnect(wait=True)`) is a run with `backlog = false`. -/
example :
    (run {} [.lProbe, .dProcess [] false, .lListen, .cOnline, .dProcess [false] false, .lListen, .lListen,
             .pSendnext, .dProcess [] false, .lListen, .cPoll,
             .wClear, .wEnq, .sSend, .dProcess [false] false, .lListen, .lListen, .wWake, .wFinish,
             .wClear, .wEnq, .sSend, .dProcess [] true, .lListen, .wWake, .wFinish, .cDisc]).map C16_view
      = some ([(0, false), (1, true)], false, [0, 1], [], .disconnected) := by decide

/-- Non-vacuity of `C16_sync_partial`'s hypotheses, and the acknowledgement set *before* `wait()` is
    reached (device faster than the caller) is not lost. -/
example : ConnectedIdle { cphase := .connected, online := true } ∧ ¬StaleAck { cphase := .connected, online := true } := by
  refine ⟨⟨rfl, rfl, rfl, rfl, rfl, rfl, rfl, rfl, rfl, rfl, ⟨by simp [stmtIds], by simp, by simp⟩⟩, ?_⟩
  simp [StaleAck, termOf]
example :
    (run { cphase := .connected, online := true }
         [.wClear, .wEnq, .sSend, .dProcess [] false, .lListen, .wWake, .wFinish]).map (·.outcomes)
      = some [(0, false)] := by decide

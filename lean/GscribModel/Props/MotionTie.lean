import GscribModel.Gen.MotionSrc
import GscribModel.Props.BuilderTie
import GscribModel.Props.PointTie
import GscribModel.Props.C05
/-! # The builder model's motion commands are the translated `GCodeBuilder` / `GCodeCore` methods

`Gen/MotionSrc.lean` is *generated* on every run (`tools/gen_motion.py`) from the source text of
`gscrib/gcode_builder.py` and `gscrib/gcode_core.py`: `move`, `rapid`, `move_absolute`, `rapid_absolute` (with the
`absolute_mode()` context manager they run in), `set_axis`, `auto_home`, `probe` and the helpers behind them
(`to_absolute`, `_transform_move`, `_prepare_move`, `_prepare_rapid`, `_track_move_params`, `_validate_absolute_move`).
`AgreesM` between the hand-written model's `step` and the translation, for every builder state, every finite target,
every parameter list (NaN and ±inf included), every list of registered hooks:

* same outcome (accepted, or rejected with the same exception class);
* same builder afterwards — on a rejection that is the builder as it was before the call (C05), on success the
  tracked position of the core *and* of the state object, the remembered parameters, feed and power (C01, C07);
* same statements handed to `GCodeCore.write`, in the same order: instruction, axis words, other words (C01, C03, C11);
* same hook calls: every registered hook once per linear move with the true origin and target (C20).

Hypotheses: `Val.isDouble` for the F and S words that reach the validators (a finite double is at most
`sys.float_info.max`).  Coordinates are finite (`Pt`); no transform is active (`applyTransformId`). -/
open GscribModel.Builder GscribModel.GenPrelude GscribModel.Gen.StateSrc GscribModel.Gen.BuilderSrc GscribModel.Gen.MotionSrc
open GscribModel.StateTie GscribModel.BuilderTie GscribModel.Gen
namespace GscribModel.MotionTie

/-- the builder object a model value stands for, with what has been written and the hook calls made so far -/
def absB' (b : B) (o : List SStmt) (c : List HookCall) : BSt := { absB b with out := o, calls := c }

abbrev partCodes3 := partCodes
abbrev conv3 := conv
abbrev view3 := view

def outOf : Option Err → Out
  | some e => .error e
  | none => .ok

/-- agreement of a model step with a translated command run from `absB b` -/
def AgreesM (r : Res) (g : BSt × Option Err) : Prop :=
  r.out = outOf g.2 ∧ absB r.b = { g.1 with out := [], calls := [] } ∧ r.stmts.map view3 = g.1.out.map conv3 ∧ r.calls = g.1.calls

def VPt.ofPt (p : Pt) : VPt := ⟨p.x.map Val.fin, p.y.map Val.fin, p.z.map Val.fin⟩

theorem ofPt_fin (p : Pt) : (VPt.ofPt p).fin? = some p := by
  obtain ⟨x, y, z⟩ := p
  cases x <;> cases y <;> cases z <;> rfl

/-- every finite value in the list is a double -/
def Doubles (ps : VParams) : Prop := ∀ e ∈ ps, Val.isDouble e.2


/-! ## helpers: each translated helper in closed form -/

theorem dm_rel (b : B) : decide ((bif b.rel then DistanceMode.RELATIVE else DistanceMode.ABSOLUTE) = DistanceMode.RELATIVE) = b.rel := by
  cases b.rel <;> rfl

theorem to_absolute_eq (b : B) (o : List SStmt) (c : List HookCall) (p : Pt) (h : Rat) :
    GCodeCore.to_absolute (absB' b o c) p h = (absB' b o c, .ok (b.toAbsolute p)) := by
  simp only [GCodeCore.to_absolute, absB', absB, PointTie_resolve, PointTie_replace, ptAdd, B.toAbsolute]
  by_cases hr : b.rel = true <;> simp [hr]

/-- the statement's axis words and the tracked target, as the model computes them -/
def wordOf (b : B) (req : Pt) : Pt :=
  req.combine b.axes.resolve (b.toAbsolute req) (if b.rel then (b.toAbsolute req).sub b.axes.resolve else b.toAbsolute req)

theorem core_transform_move_eq (b : B) (o : List SStmt) (c : List HookCall) (req : Pt) (h : Rat) :
    GCodeCore._transform_move (absB' b o c) req h = (absB' b o c, .ok (wordOf b req, b.toAbsolute req)) := by
  simp only [GCodeCore._transform_move, to_absolute_eq, applyTransformId, PointTie_combine, ptSub, wordOf]
  simp only [absB', absB, PointTie_resolve]
  by_cases hr : b.rel = true <;> simp [hr]

theorem transform_move_eq (b : B) (o : List SStmt) (c : List HookCall) (req : Pt) (h : Rat) :
    GCodeBuilder._transform_move (absB' b o c) req h =
      if b.bounds.okAxes (b.toAbsolute req) then (absB' b o c, .ok (wordOf b req, b.toAbsolute req))
      else (absB' b o c, .error .valueError) := by
  simp only [GCodeBuilder._transform_move, core_transform_move_eq, validatePt]
  have hb : (absB' b o c).state._user_bounds = b.bounds := rfl
  rw [hb]
  by_cases hk : b.bounds.okAxes (b.toAbsolute req) <;> simp [hk]


theorem lookupV_fin (ps : VParams) (ws : List (String × Rat)) (hf : ps.fin? = some ws) (k : String) :
    lookupV ps k = (lookupQ ws k).map Val.fin := by
  induction ps generalizing ws with
  | nil => simp [VParams.fin?] at hf; subst hf; rfl
  | cons e r ih =>
    obtain ⟨k', v⟩ := e
    simp only [VParams.fin?] at hf
    cases hv : v.fin? with
    | none => simp [hv] at hf
    | some q =>
      cases hr : VParams.fin? r with
      | none => simp [hv, hr] at hf
      | some r' =>
        simp [hv, hr] at hf
        subst hf
        have hvq : v = Val.fin q := by cases v <;> simp_all [Val.fin?]
        have := ih r' hr
        simp only [lookupV, lookupQ, List.find?_cons] at this ⊢
        by_cases hk : (k' == k) = true
        · simp [hk, hvq]
        · simp [hk]; simpa using this

theorem fmtWords_eq_fin (ps : VParams) : fmtWords ps = ps.fin? := by
  induction ps with
  | nil => rfl
  | cons e r ih =>
    obtain ⟨k, v⟩ := e
    simp only [fmtWords, VParams.fin?, ih]
    cases v.fin? <;> cases VParams.fin? r <;> rfl

/-- `_track_move_params` on the dictionary of a move whose words are all finite -/
theorem track_eq (b : B) (o : List SStmt) (c : List HookCall) (ps : VParams) (xyz : Pt) (ws : List (String × Rat)) (hfin : ps.fin? = some ws)
    (hF : ∀ f, lookupQ ws "F" = some f → Val.isDouble (.fin f)) (hS : ∀ s, lookupQ ws "S" = some s → Val.isDouble (.fin s)) (h : Rat) :
    MotionSrc.GCodeBuilder._track_move_params (absB' b o c) ⟨ps, xyz⟩ h =
      if b.okTrack ws then (absB' (b.track ws) o c, none) else (absB' b o c, some .valueError) := by
  have gF := lookupV_fin ps ws hfin "F"
  have gS := lookupV_fin ps ws hfin "S"
  cases hf : lookupQ ws "F" with
  | none =>
    cases hs : lookupQ ws "S" with
    | none => simp [MotionSrc.GCodeBuilder._track_move_params, MP.get, gF, gS, B.okTrack, B.track, hf, hs]
    | some s =>
      have h2 := StateTie_validate_power b (.fin s) (hS s hs)
      simp only [Val.fin?] at h2
      by_cases hp : b.okPower s <;>
        simp [MotionSrc.GCodeBuilder._track_move_params, MP.get, gF, gS, B.okTrack, B.track, absB', absB, GState._set_tool_power, hf, hs, h2, hp] <;> rfl
  | some f =>
    have h1 := StateTie_validate_feed b (.fin f) (hF f hf)
    simp only [Val.fin?] at h1
    cases hs : lookupQ ws "S" with
    | none =>
      by_cases hp : b.okFeed f <;>
        simp [MotionSrc.GCodeBuilder._track_move_params, MP.get, gF, gS, B.okTrack, B.track, absB', absB, GState._set_feed_rate, hf, hs, h1, hp] <;> rfl
    | some s =>
      have h2 := StateTie_validate_power b (.fin s) (hS s hs)
      simp only [Val.fin?] at h2
      by_cases hq : b.okFeed f
      · by_cases hp : b.okPower s
        · have h3 := StateTie_validate_power { b with feed := f } (.fin s) (hS s hs)
          have e3 : ({ b with feed := f } : B).okPower s = b.okPower s := rfl
          simp only [Val.fin?, e3, hp, if_true] at h3
          have ea : ({ absG b with _current_feed_rate := Val.fin f } : GState) = absG { b with feed := f } := rfl
          simp [MotionSrc.GCodeBuilder._track_move_params, MP.get, gF, gS, B.okTrack, B.track, absB', absB, GState._set_feed_rate, GState._set_tool_power,
            hf, hs, h1, h2, hq, hp, ea, h3]
          rfl
        · simp [MotionSrc.GCodeBuilder._track_move_params, MP.get, gF, gS, B.okTrack, B.track, absB', absB, GState._set_feed_rate, GState._set_tool_power,
            hf, hs, h1, h2, hq, hp]
      · simp [MotionSrc.GCodeBuilder._track_move_params, MP.get, gF, gS, B.okTrack, B.track, absB', absB, GState._set_feed_rate, GState._set_tool_power, hf, hs, h1, hq]


theorem core_prepare_move_eq (s : BSt) (p : Pt) (params : MP) (h : Rat) :
    GCodeCore._prepare_move s p params h =
      match params.words.fin? with
      | none => (s, .error .valueError)
      | some ws => (s, .ok ([Part.gcode "G1" p ws], params)) := by
  simp only [GCodeCore._prepare_move, fmtCommand, MP.withXYZ, fmtWords_eq_fin]
  cases params.words.fin? <;> rfl

theorem core_prepare_rapid_eq (s : BSt) (p : Pt) (params : MP) (h : Rat) :
    GCodeCore._prepare_rapid s p params h =
      match params.words.fin? with
      | none => (s, .error .valueError)
      | some ws => (s, .ok ([Part.gcode "G0" p ws], params)) := by
  simp only [GCodeCore._prepare_rapid, fmtCommand, MP.withXYZ, fmtWords_eq_fin]
  cases params.words.fin? <;> rfl

theorem toParams_fin (ps : VParams) (ws : List (String × Rat)) (req : Pt) (hfin : ps.fin? = some ws) :
    MP.toParams ⟨ps, req⟩ = toParams req ws := by
  simp only [MP.toParams, toParams, List.append_cancel_right_eq]
  induction ps generalizing ws with
  | nil => simp [VParams.fin?] at hfin; subst hfin; rfl
  | cons e r ih =>
    obtain ⟨k, v⟩ := e
    simp only [VParams.fin?] at hfin
    cases hv : v.fin? with
    | none => simp [hv] at hfin
    | some q =>
      cases hr : VParams.fin? r with
      | none => simp [hv, hr] at hfin
      | some r' =>
        simp [hv, hr] at hfin
        subst hfin
        simp [hv, ih r' hr]

theorem update_axes_eq (b : B) (o : List SStmt) (c : List HookCall) (target req : Pt) (ps : VParams) (ws : List (String × Rat))
    (hfin : ps.fin? = some ws) :
    GCodeBuilder._update_axes (absB' b o c) target (MP.toParams ⟨ps, req⟩) =
      if b.bounds.okAxes target then (absB' (b.commitAxes target req ws) o c, none) else (absB' b o c, some .valueError) := by
  rw [toParams_fin ps ws req hfin]
  simp only [GCodeBuilder._update_axes, absB', absB, StateTie_set_axes, coreUpdateAxes, GState._set_params, B.commitAxes]
  by_cases h : b.bounds.okAxes target <;> simp [h, absG]

theorem write_eq (b : B) (o : List SStmt) (c : List HookCall) (st : SStmt) :
    GCodeBuilder.write (absB' b o c) st = (absB' b (o ++ [st]) c, none) := by
  rw [write_absB _ _ rfl]; rfl


/-- the F and S words that reach the validators are doubles -/
def DoubleFS (ps : VParams) : Prop :=
  ∀ ws, ps.fin? = some ws → (∀ f, lookupQ ws "F" = some f → Val.isDouble (.fin f)) ∧ (∀ s, lookupQ ws "S" = some s → Val.isDouble (.fin s))

theorem hookApply_eq (b : B) (h : Rat) (hk : Hook) (ps : VParams) :
    hookApplyEnv (hookEnv (absG b)) h hk ps = hk.apply b h ps := by
  have he : hookEnv (absG b) = ⟨b.erel, (b.params.get "E").getD 0⟩ := by
    simp only [hookEnv, absG]
    by_cases hr : b.erel = true <;> simp [hr]
  rw [he]
  cases hk <;> rfl

theorem runHooks_eq (b : B) (h : Rat) (hooks : List Hook) (vps : VParams) (req : Pt) :
    runHooks (hookEnv (absG b)) h hooks ⟨vps, req⟩ = ⟨hooks.foldl (fun acc hk => hk.apply b h acc) vps, req⟩ := by
  simp only [runHooks, hookApply_eq]

/-- what `_prepare_move` / `_prepare_rapid` do after the hooks: format, then track F and S -/
def prepared (b : B) (o : List SStmt) (c : List HookCall) (code : String) (word req : Pt) (ps : VParams) : BSt × Except Err (SStmt × MP) :=
  match ps.fin? with
  | none => (absB' b o c, .error .valueError)
  | some ws => if b.okTrack ws then (absB' (b.track ws) o c, .ok ([Part.gcode code word ws], ⟨ps, req⟩))
               else (absB' b o c, .error .valueError)

theorem prepare_rapid_eq (b : B) (o : List SStmt) (c : List HookCall) (word req : Pt) (vps : VParams) (h : Rat) (hd : DoubleFS vps) :
    MotionSrc.GCodeBuilder._prepare_rapid (absB' b o c) word ⟨vps, req⟩ h = prepared b o c "G0" word req vps := by
  simp only [MotionSrc.GCodeBuilder._prepare_rapid, core_prepare_rapid_eq, prepared]
  cases hf : VParams.fin? vps with
  | none => rfl
  | some ws =>
    simp only [track_eq b o c vps req ws hf (hd ws hf).1 (hd ws hf).2]
    by_cases hk : b.okTrack ws <;> simp [hk]

theorem prepare_move_eq (b : B) (o : List SStmt) (c : List HookCall) (word req : Pt) (vps : VParams) (h : Rat)
    (hd : DoubleFS (if b.hooks.isEmpty then vps else applyHooks b h vps)) :
    MotionSrc.GCodeBuilder._prepare_move (absB' b o c) word ⟨vps, req⟩ h =
      if b.hooks.isEmpty then prepared b o c "G1" word req vps
      else prepared b o (c ++ b.hooks.map (fun _ => ⟨b.axes.resolve, b.toAbsolute word⟩)) "G1" word req (applyHooks b h vps) := by
  have hl : (absB' b o c)._hooks = b.hooks := rfl
  by_cases he : b.hooks.isEmpty = true
  · have h0 : ¬ ((b.hooks.length : Int) > 0) := by
      have : b.hooks = [] := by simpa using he
      simp [this]
    simp only [he, if_true] at hd ⊢
    simp only [MotionSrc.GCodeBuilder._prepare_move, hl, h0, decide_false, Bool.false_eq_true, if_false, core_prepare_move_eq, prepared]
    cases hf : VParams.fin? vps with
    | none => simp
    | some ws =>
      simp only [track_eq b o c vps req ws hf (hd ws hf).1 (hd ws hf).2]
      by_cases hk : b.okTrack ws <;> simp [hk]
  · have h0 : ((b.hooks.length : Int) > 0) := by
      cases hb : b.hooks with
      | nil => simp [hb] at he
      | cons a r => simp
    simp only [he, if_false] at hd ⊢
    simp only [MotionSrc.GCodeBuilder._prepare_move, hl, h0, decide_true, if_true, to_absolute_eq, core_prepare_move_eq, prepared]
    have hs : (absB' b o c).state = absG b := rfl
    have ha : BSt._current_axes (absB' b o c) = b.axes := rfl
    have hc : (absB' b o c).calls = c := rfl
    have hn : ∀ cs, ({ state := (absB' b o c).state, _distance_mode := BSt._distance_mode (absB' b o c), _current_axes := BSt._current_axes (absB' b o c), _current_params := BSt._current_params (absB' b o c), _hooks := b.hooks, out := (absB' b o c).out, calls := cs } : BSt) = absB' b o cs := fun _ => rfl
    simp only [hn]
    simp only [hs, ha, hc, PointTie_resolve, runHooks_eq, Bool.false_eq_true, if_false]
    simp only [applyHooks]
    cases hf : VParams.fin? (b.hooks.foldl (fun acc hk => hk.apply b h acc) vps) with
    | none => rfl
    | some ws =>
      have hd' := hd ws (by simpa [applyHooks] using hf)
      simp only [track_eq b o _ _ req ws hf hd'.1 hd'.2]
      by_cases hk : b.okTrack ws <;> simp [hk]


theorem track_bounds (b : B) (ws : List (String × Rat)) : (b.track ws).bounds = b.bounds := by
  simp only [B.track]; split <;> split <;> rfl

theorem absB'_strip (b : B) (o : List SStmt) (c : List HookCall) : ({ absB' b o c with out := [], calls := [] } : BSt) = absB b := rfl

end GscribModel.MotionTie
open GscribModel.MotionTie

/-- **`move()`**: bounds on the target first, then the hooks, then formatting, then F and S (both validated before either
    is tracked), then the position of core and state, then the statement. -/
theorem MotionTie_move (b : B) (req : Pt) (vps : VParams) (h : Rat)
    (hd : DoubleFS (if b.hooks.isEmpty then vps else applyHooks b h vps)) :
    AgreesM (step b (.move false (VPt.ofPt req) vps h)) (GCodeCore.move (absB b) req vps h) := by
  have e0 : absB b = absB' b [] [] := rfl
  simp only [step, stepMove, ofPt_fin, GCodeCore.move, processMoveParams, e0, transform_move_eq]
  by_cases hk : b.bounds.okAxes (b.toAbsolute req)
  · simp only [hk, Bool.not_true, Bool.false_eq_true, if_false, if_true, prepare_move_eq b [] [] _ req vps h hd, Bool.not_false, Bool.true_and]
    by_cases he : b.hooks.isEmpty = true
    · simp only [he, if_true, Bool.not_true, Bool.false_eq_true, if_false, prepared] at hd ⊢
      cases hf : VParams.fin? vps with
      | none => (simp [AgreesM, reject, outOf, absB'_strip, absB'] <;> first | done | rfl)
      | some ws =>
        by_cases ht : b.okTrack ws
        · simp only [ht, if_true, Bool.not_true, Bool.false_eq_true, if_false, update_axes_eq (b.track ws) [] [] _ req vps ws hf, track_bounds, hk, write_eq]
          (simp [AgreesM, accept, outOf, absB'_strip, absB', view, conv, partCodes, partAx, partWords, Code.text, wordOf] <;> first | done | rfl)
        · (simp [ht, AgreesM, reject, outOf, absB'_strip, absB'] <;> first | done | rfl)
    · simp only [he, if_false, Bool.not_false, if_true, prepared] at hd ⊢
      cases hf : VParams.fin? (applyHooks b h vps) with
      | none => (simp [AgreesM, reject, outOf, absB'_strip, absB', wordOf] <;> first | done | rfl)
      | some ws =>
        by_cases ht : b.okTrack ws
        · simp only [ht, if_true, Bool.not_true, Bool.false_eq_true, if_false, update_axes_eq (b.track ws) [] _ _ req _ ws hf, track_bounds, hk, write_eq]
          (simp [AgreesM, accept, outOf, absB'_strip, absB', view, conv, partCodes, partAx, partWords, Code.text, wordOf] <;> first | done | rfl)
        · (simp [ht, AgreesM, reject, outOf, absB'_strip, absB', wordOf] <;> first | done | rfl)
  · (simp [hk, AgreesM, reject, outOf, absB'_strip, absB'] <;> first | done | rfl)

/-- **`rapid()`**: as `move()`, without hooks. -/
theorem MotionTie_rapid (b : B) (req : Pt) (vps : VParams) (h : Rat) (hd : DoubleFS vps) :
    AgreesM (step b (.move true (VPt.ofPt req) vps h)) (GCodeCore.rapid (absB b) req vps h) := by
  have e0 : absB b = absB' b [] [] := rfl
  simp only [step, stepMove, ofPt_fin, GCodeCore.rapid, processMoveParams, e0, transform_move_eq]
  by_cases hk : b.bounds.okAxes (b.toAbsolute req)
  · simp only [hk, Bool.not_true, Bool.false_eq_true, if_false, if_true, prepare_rapid_eq b [] [] _ req vps h hd, Bool.false_and, prepared]
    cases hf : VParams.fin? vps with
    | none => (simp [AgreesM, reject, outOf, absB'_strip, absB'] <;> first | done | rfl)
    | some ws =>
      by_cases ht : b.okTrack ws
      · simp only [ht, if_true, Bool.not_true, Bool.false_eq_true, if_false, update_axes_eq (b.track ws) [] [] _ req vps ws hf, track_bounds, hk, write_eq]
        (simp [AgreesM, accept, outOf, absB'_strip, absB', view, conv, partCodes, partAx, partWords, Code.text, wordOf] <;> first | done | rfl)
      · (simp [ht, AgreesM, reject, outOf, absB'_strip, absB'] <;> first | done | rfl)
  · (simp [hk, AgreesM, reject, outOf, absB'_strip, absB'] <;> first | done | rfl)

namespace GscribModel.MotionTie

/-- the source table's instructions for the members the motion commands look up (kernel evaluation of the generated table) -/
theorem tlm :
    tableLookup "PositioningMode" "OFFSET" = some "G92" ∧ tableLookup "PositioningMode" "HOME" = some "G28" ∧
    tableLookup "ProbingMode" "TOWARDS" = some "G38.2" ∧ tableLookup "ProbingMode" "TOWARDS_NO_ERROR" = some "G38.3" ∧
    tableLookup "ProbingMode" "AWAY" = some "G38.4" ∧ tableLookup "ProbingMode" "AWAY_NO_ERROR" = some "G38.5" := by decide +kernel

theorem pmp1 (p : Pt) (k : VParams) : (processMoveParams p k).1 = p := rfl
theorem pmp2 (p : Pt) (k : VParams) : (processMoveParams p k).2 = ⟨k, p⟩ := rfl

theorem getStatementMP_eq (cls member : String) (vps : VParams) (req : Pt) :
    getStatementMP cls member ⟨vps, req⟩ = (vps.fin?).map fun ws => [Part.ainstr cls member req ws] := by
  simp only [getStatementMP, fmtWords_eq_fin]

theorem unknown_dec (p : Pt) : decide (p = Pt.unknown) = p.isUnknown := by
  obtain ⟨x, y, z⟩ := p
  cases x <;> cases y <;> cases z <;> simp [Pt.unknown, Pt.isUnknown]

/-- masking coordinates can only help the bounds check -/
theorem okAxes_mask (bd : Bounds) (p m : Pt) (hp : bd.okAxes p = true) : bd.okAxes (p.mask m) = true := by
  obtain ⟨x, y, z⟩ := p
  obtain ⟨mx, my, mz⟩ := m
  simp only [Bounds.okAxes] at hp ⊢
  cases ha : bd.axes with
  | none => rfl
  | some lh =>
    obtain ⟨lo, hi⟩ := lh
    simp only [ha, List.all_cons, List.all_nil, Bool.and_true, Pt.get, Pt.mask, Pt.mk', Bool.and_eq_true] at hp ⊢
    refine ⟨?_, ?_, ?_⟩
    · cases mx <;> simp_all
    · cases my <;> simp_all
    · cases mz <;> simp_all

def argProbe : ProbeArg → Arg ProbingMode
  | .towards => .val .TOWARDS | .towardsNoErr => .val .TOWARDS_NO_ERROR | .away => .val .AWAY | .awayNoErr => .val .AWAY_NO_ERROR
  | .bogus => .bogus

end GscribModel.MotionTie

/-- **`set_axis()`** (`G92`): formatted first, then the bounds on the new tracked position, then the statement. -/
theorem MotionTie_set_axis (b : B) (req : Pt) (vps : VParams) (h : Rat) :
    AgreesM (step b (.setAxis (VPt.ofPt req) vps)) (GCodeBuilder.set_axis (absB b) req vps h) := by
  have e0 : absB b = absB' b [] [] := rfl
  have ha : (absB' b [] [])._current_axes = b.axes := rfl
  simp only [step, stepSetAxis, ofPt_fin, GCodeBuilder.set_axis, processMoveParams, e0, getStatementMP_eq, ha, PointTie_replace]
  cases hf : VParams.fin? vps with
  | none => (simp [AgreesM, reject, outOf, absB'_strip, absB'] <;> first | done | rfl)
  | some ws =>
    simp only [Option.map_some, update_axes_eq b [] [] _ req vps ws hf]
    by_cases hk : b.bounds.okAxes (b.axes.replace req)
    · simp only [hk, if_true, Bool.not_true, Bool.false_eq_true, if_false, write_eq]
      (simp [AgreesM, accept, outOf, absB'_strip, absB', view, conv, partCodes, partAx, partWords, Code.text, tlm, PositioningMode.memberName] <;> first | done | rfl)
    · (simp [hk, AgreesM, reject, outOf, absB'_strip, absB'] <;> first | done | rfl)

/-- **`auto_home()`** (`G28`): the homed axes become unknown. -/
theorem MotionTie_auto_home (b : B) (req : Pt) (vps : VParams) (h : Rat) :
    AgreesM (step b (.home (VPt.ofPt req) vps)) (GCodeBuilder.auto_home (absB b) req vps h) := by
  have e0 : absB b = absB' b [] [] := rfl
  have ha : (absB' b [] [])._current_axes = b.axes := rfl
  have key : (if decide (req = Pt.unknown) then Pt.zero else req) = (if req.isUnknown then Pt.zero else req) := by
    rw [unknown_dec]
  simp only [step, stepHome, ofPt_fin, GCodeBuilder.auto_home, pmp1, pmp2, e0, getStatementMP_eq, ha, key, PointTie_mask]
  cases hf : VParams.fin? vps with
  | none => (simp [AgreesM, reject, outOf, absB'_strip, absB'] <;> first | done | rfl)
  | some ws =>
    simp only [Option.map_some, update_axes_eq b [] [] _ req vps ws hf]
    generalize (if req.isUnknown then Pt.zero else req) = m
    by_cases hk : b.bounds.okAxes (b.axes.mask m)
    · simp only [hk, if_true, Bool.not_true, Bool.false_eq_true, if_false, write_eq]
      (simp [AgreesM, accept, outOf, absB'_strip, absB', view, conv, partCodes, partAx, partWords, Code.text, tlm, PositioningMode.memberName] <;> first | done | rfl)
    · (simp [hk, AgreesM, reject, outOf, absB'_strip, absB'] <;> first | done | rfl)

/-- **`probe()`**: bounds on the target, formatting, F and S, then the probed axes become unknown. -/
theorem MotionTie_probe (b : B) (m : ProbeArg) (req : Pt) (vps : VParams) (h : Rat) (hd : DoubleFS vps) :
    AgreesM (step b (.probe m (VPt.ofPt req) vps)) (GCodeBuilder.probe (absB b) (argProbe m) req vps h) := by
  have e0 : absB b = absB' b [] [] := rfl
  cases m with
  | bogus => exact ⟨rfl, rfl, rfl, rfl⟩
  | towards | towardsNoErr | away | awayNoErr =>
    simp only [step, stepProbe, ofPt_fin, GCodeBuilder.probe, argProbe, pmp1, pmp2, e0, transform_move_eq, reduceCtorEq, if_false]
    by_cases hk : b.bounds.okAxes (b.toAbsolute req)
    · simp only [hk, if_true, MP.withXYZ, getStatementMP_eq]
      cases hf : VParams.fin? vps with
      | none => (simp [AgreesM, reject, outOf, absB'_strip, absB'] <;> first | done | rfl)
      | some ws =>
        simp only [Option.map_some, track_eq b [] [] vps req ws hf (hd ws hf).1 (hd ws hf).2]
        by_cases ht : b.okTrack ws
        · have hm : (b.track ws).bounds.okAxes ((b.toAbsolute req).mask (wordOf b req)) = true := by
            rw [track_bounds]; exact okAxes_mask _ _ _ hk
          simp only [ht, if_true, PointTie_mask, update_axes_eq (b.track ws) [] [] _ req vps ws hf, hm, write_eq]
          (simp [hk, AgreesM, accept, outOf, absB'_strip, absB', view, conv, partCodes, partAx, partWords, Code.text, tlm, ProbingMode.memberName, ProbeArg.code, wordOf] <;> first | done | rfl)
        · (simp [hk, ht, AgreesM, reject, outOf, absB'_strip, absB'] <;> first | done | rfl)
    · cases hf : VParams.fin? vps <;> (simp [hk, AgreesM, reject, outOf, absB'_strip, absB'] <;> first | done | rfl)

namespace GscribModel.MotionTie

def dmOf (r : Bool) : DistanceMode := bif r then .RELATIVE else .ABSOLUTE
def dmStmt (r : Bool) : SStmt := [Part.instr "DistanceMode" (DistanceMode.memberName (dmOf r)) []]

theorem set_dist_eq (b : B) (o : List SStmt) (c : List HookCall) (r : Bool) :
    GCodeBuilder.set_distance_mode (absB' b o c) (Arg.val (dmOf r)) =
      (absB' { b with rel := r, srel := r } (o ++ [dmStmt r]) c, none) := by
  simp only [GCodeBuilder.set_distance_mode, GState._set_distance_mode, getStatement, fmtWords, Option.map_some]
  rw [write_absB _ _ rfl]
  cases r <;> rfl

theorem fmtParamsOk_eq (vps : VParams) (req : Pt) : fmtParamsOk ⟨vps, req⟩ = (vps.fin?).isSome := by
  simp only [fmtParamsOk, fmtWords_eq_fin]

/-- `_validate_absolute_move`: formatting, bounds on the target, F, S - and nothing is changed -/
theorem validate_abs_eq (b : B) (o : List SStmt) (c : List HookCall) (req : Pt) (vps : VParams) (h : Rat) (hd : DoubleFS vps) :
    GCodeBuilder._validate_absolute_move (absB' b o c) req vps h =
      (absB' b o c, match vps.fin? with
        | some ps => if b.bounds.okAxes (b.axes.replace req) && b.okTrack ps then none else some .valueError
        | none => some .valueError) := by
  have ha : (absB' b o c)._current_axes = b.axes := rfl
  have hs : (absB' b o c).state = absG b := rfl
  have hb : (absG b)._user_bounds = b.bounds := rfl
  simp only [GCodeBuilder._validate_absolute_move, pmp1, pmp2, fmtParamsOk_eq, ha, hs, hb, PointTie_replace, validatePt, MP.get]
  cases hf : VParams.fin? vps with
  | none => simp
  | some ws =>
    have gF := lookupV_fin vps ws hf "F"
    have gS := lookupV_fin vps ws hf "S"
    have hF := (hd ws hf).1
    have hS := (hd ws hf).2
    simp only [Option.isSome_some, Bool.not_true, Bool.false_eq_true, if_false, if_true, gF, gS]
    by_cases hk : b.bounds.okAxes (b.axes.replace req)
    · simp only [hk, if_true, Bool.true_and, B.okTrack]
      cases hf' : lookupQ ws "F" with
      | none =>
        cases hs' : lookupQ ws "S" with
        | none => simp
        | some s =>
          have h2 := StateTie_validate_power b (.fin s) (hS s hs')
          simp only [Val.fin?] at h2
          by_cases hp : b.okPower s <;> simp [h2, hp] <;> rfl
      | some f =>
        have h1 := StateTie_validate_feed b (.fin f) (hF f hf')
        simp only [Val.fin?] at h1
        cases hs' : lookupQ ws "S" with
        | none => by_cases hq : b.okFeed f <;> simp [h1, hq] <;> rfl
        | some s =>
          have h2 := StateTie_validate_power b (.fin s) (hS s hs')
          simp only [Val.fin?] at h2
          by_cases hq : b.okFeed f
          · by_cases hp : b.okPower s <;> simp [h1, h2, hq, hp, hs] <;> rfl
          · simp [h1, hq] <;> rfl
    · simp [hk]

end GscribModel.MotionTie


namespace GscribModel.MotionTie
theorem bA_eq (b : B) (hr : b.rel = false) (hs : b.srel = b.rel) : ({ b with rel := false, srel := false } : B) = b := by
  cases b; simp_all
end GscribModel.MotionTie

/-- **`move_absolute()`**: everything is validated before `G90` is written; the move is issued inside `absolute_mode()`, whose
    exit restores `G91` whatever the body did (the hook-parameter leak `C05-absolute-bypass-hook-params` included). -/
theorem MotionTie_move_absolute (b : B) (req : Pt) (vps : VParams) (h : Rat) (hsync : b.srel = b.rel) (hd : DoubleFS vps)
    (hd' : DoubleFS (if b.hooks.isEmpty then vps else applyHooks { b with rel := false, srel := false } h vps)) :
    AgreesM (step b (.moveAbs false (VPt.ofPt req) vps h)) (GCodeBuilder.move_absolute (absB b) req vps h) := by
  have e0 : absB b = absB' b [] [] := rfl
  obtain ⟨bA, hbA⟩ : ∃ bA : B, bA = ({ b with rel := false, srel := false } : B) := ⟨_, rfl⟩
  have hAh : bA.hooks = b.hooks := by rw [hbA]
  have hAa : bA.axes = b.axes := by rw [hbA]
  have hAb : bA.bounds = b.bounds := by rw [hbA]
  have hAr : bA.rel = false := by rw [hbA]
  have hAt : ∀ ws, bA.okTrack ws = b.okTrack ws := by intro ws; rw [hbA]; rfl
  simp only [step, stepMoveAbs, ofPt_fin, GCodeBuilder.move_absolute, e0, validate_abs_eq b [] [] req vps h hd]
  simp only [← hbA] at hd' ⊢
  cases hf : VParams.fin? vps with
  | none => exact ⟨rfl, rfl, rfl, rfl⟩
  | some ps =>
    by_cases hk : b.bounds.okAxes (b.axes.replace req)
    · by_cases ht : b.okTrack ps
      · simp only [hk, ht, Bool.and_self, if_true, Bool.not_true, Bool.false_eq_true, if_false]
        have ha : (absB' b [] [])._current_axes = b.axes := rfl
        simp only [GCodeCore.move_absolute, pmp1, pmp2, ha, PointTie_replace]
        by_cases hr : b.rel = true
        · have hm : (absB' b [] [])._distance_mode = DistanceMode.RELATIVE := by simp [absB', absB, hr]
          have hset := set_dist_eq b [] [] false
          simp only [dmOf, cond_false, ← hbA] at hset
          simp only [hm, reduceCtorEq, decide_false, Bool.not_false, if_true, hset]
          have hokA : bA.bounds.okAxes (b.axes.replace req) = true := by rw [hAb]; exact hk
          have hdA : DoubleFS (if bA.hooks.isEmpty then vps else applyHooks bA h vps) := by rw [hAh]; exact hd'
          rw [prepare_move_eq bA _ [] req req vps h hdA]
          have hsetT : ∀ (bX : B) o c, GCodeBuilder.set_distance_mode (absB' bX o c) (Arg.val DistanceMode.RELATIVE) =
              (absB' { bX with rel := true, srel := true } (o ++ [dmStmt true]) c, none) := fun bX o c => set_dist_eq bX o c true
          have hdmA : ∀ o c, (absB' bA o c)._distance_mode = DistanceMode.ABSOLUTE := by intro o c; simp [absB', absB, hAr]
          have hdmT : ∀ ws o c, (absB' ((bA.track ws).commitAxes (b.axes.replace req) req ws) o c)._distance_mode = DistanceMode.ABSOLUTE := by
            intro ws o c
            have : ((bA.track ws).commitAxes (b.axes.replace req) req ws).rel = false := by
              simp only [B.commitAxes, B.track]; split <;> split <;> simp [hAr]
            simp [absB', absB, this]
          by_cases he : b.hooks.isEmpty = true
          · simp only [hAh, he, if_true, prepared, Bool.not_true, Bool.and_false, Bool.false_eq_true, if_false, hAt]
            cases hf' : VParams.fin? vps with
            | none => simp [hf'] at hf
            | some ws =>
              simp only [hf] at hf'
              cases hf'
              simp only [ht, if_true, update_axes_eq (bA.track ps) _ [] _ req vps ps hf, track_bounds, hokA, write_eq,
                hdmT, reduceCtorEq, decide_false, Bool.not_false, hsetT, Bool.not_true, Bool.false_eq_true, if_false, hr]
              (simp [AgreesM, accept, outOf, absB', absB, absG, view, conv, partCodes, partAx, partWords, Code.text, modeStmt, dmStmt, dmOf, tl, DistanceMode.memberName, hsync, hr, B.commitAxes] <;> first | done | rfl)
          · have hback : ({ bA with rel := true, srel := true } : B) = b := by
              rw [hbA]; cases b; simp_all
            simp only [hAh, he, Bool.false_eq_true, if_false, prepared, Bool.not_false, Bool.and_true, if_true, hAt, hAa]
            have htgt : bA.toAbsolute req = b.axes.resolve.replace req := by simp [B.toAbsolute, hAr, hAa]
            cases hf' : VParams.fin? (applyHooks bA h vps) with
            | none =>
              simp only [hdmA, reduceCtorEq, decide_false, Bool.not_false, if_true, hsetT, hback, htgt]
              (simp [AgreesM, outOf, absB', absB, view, conv, partCodes, partAx, partWords, Code.text, modeStmt, dmStmt, dmOf, tl, DistanceMode.memberName, hr] <;> first | done | rfl)
            | some ws =>
              by_cases ht' : b.okTrack ws
              · simp only [ht', if_true, update_axes_eq (bA.track ws) _ _ _ req _ ws hf', track_bounds, hokA, write_eq,
                  hdmT, reduceCtorEq, decide_false, Bool.not_false, hsetT, Bool.not_true, Bool.false_eq_true, if_false, hr, htgt]
                (simp [AgreesM, accept, outOf, absB', absB, absG, view, conv, partCodes, partAx, partWords, Code.text, modeStmt, dmStmt, dmOf, tl, DistanceMode.memberName, hsync, hr, B.commitAxes] <;> first | done | rfl)
              · simp only [ht', Bool.false_eq_true, if_false, Bool.not_false, if_true, hdmA, reduceCtorEq, decide_false, hsetT, hback, htgt]
                (simp [AgreesM, outOf, absB', absB, view, conv, partCodes, partAx, partWords, Code.text, modeStmt, dmStmt, dmOf, tl, DistanceMode.memberName, hr] <;> first | done | rfl)
        · have hr' : b.rel = false := by simpa using hr
          have hbb : bA = b := by rw [hbA]; exact bA_eq b hr' hsync
          subst hbb
          have hm : (absB' bA [] [])._distance_mode = DistanceMode.ABSOLUTE := by simp [absB', absB, hr']
          have hdmA : ∀ o c, (absB' bA o c)._distance_mode = DistanceMode.ABSOLUTE := by intro o c; simp [absB', absB, hr']
          have hdmT : ∀ ws o c, (absB' ((bA.track ws).commitAxes (bA.axes.replace req) req ws) o c)._distance_mode = DistanceMode.ABSOLUTE := by
            intro ws o c
            have : ((bA.track ws).commitAxes (bA.axes.replace req) req ws).rel = false := by
              simp only [B.commitAxes, B.track]; split <;> split <;> simp [hr']
            simp [absB', absB, this]
          simp only [hm, decide_true, Bool.not_true, Bool.false_eq_true, if_false]
          rw [prepare_move_eq bA [] [] req req vps h hd']
          have htgt : bA.toAbsolute req = bA.axes.resolve.replace req := by simp [B.toAbsolute, hr']
          by_cases he : bA.hooks.isEmpty = true
          · simp only [he, if_true, prepared, Bool.not_true, Bool.and_false, Bool.false_eq_true, if_false]
            simp only [hf, ht, if_true, update_axes_eq (bA.track ps) _ [] _ req vps ps hf, track_bounds, hk, write_eq,
              hdmT, decide_true, Bool.not_true, Bool.false_eq_true, if_false, hr']
            (simp [AgreesM, accept, outOf, absB', absB, absG, view, conv, partCodes, partAx, partWords, Code.text, hr'] <;> first | done | rfl)
          · simp only [he, Bool.false_eq_true, if_false, prepared, Bool.not_false, Bool.and_true, if_true]
            cases hf' : VParams.fin? (applyHooks bA h vps) with
            | none =>
              simp only [hdmA, decide_true, Bool.not_true, Bool.false_eq_true, if_false, htgt]
              (simp [AgreesM, outOf, absB', absB, hr'] <;> first | done | rfl)
            | some ws =>
              by_cases ht' : bA.okTrack ws
              · simp only [ht', if_true, update_axes_eq (bA.track ws) _ _ _ req _ ws hf', track_bounds, hk, write_eq,
                  hdmT, decide_true, Bool.not_true, Bool.false_eq_true, if_false, hr', htgt]
                (simp [AgreesM, accept, outOf, absB', absB, absG, view, conv, partCodes, partAx, partWords, Code.text, hr'] <;> first | done | rfl)
              · simp only [ht', Bool.false_eq_true, if_false, Bool.not_false, if_true, hdmA, decide_true, Bool.not_true, htgt]
                (simp [AgreesM, outOf, absB', absB, hr'] <;> first | done | rfl)
      · (simp [hk, ht, AgreesM, reject, outOf, absB'_strip, absB'] <;> first | done | rfl)
    · (simp [hk, AgreesM, reject, outOf, absB'_strip, absB'] <;> first | done | rfl)

/-- **`rapid_absolute()`**: as `move_absolute()`, without hooks. -/
theorem MotionTie_rapid_absolute (b : B) (req : Pt) (vps : VParams) (h : Rat) (hsync : b.srel = b.rel) (hd : DoubleFS vps) :
    AgreesM (step b (.moveAbs true (VPt.ofPt req) vps h)) (GCodeBuilder.rapid_absolute (absB b) req vps h) := by
  have e0 : absB b = absB' b [] [] := rfl
  obtain ⟨bA, hbA⟩ : ∃ bA : B, bA = ({ b with rel := false, srel := false } : B) := ⟨_, rfl⟩
  have hAa : bA.axes = b.axes := by rw [hbA]
  have hAb : bA.bounds = b.bounds := by rw [hbA]
  have hAr : bA.rel = false := by rw [hbA]
  have hAt : ∀ ws, bA.okTrack ws = b.okTrack ws := by intro ws; rw [hbA]; rfl
  simp only [step, stepMoveAbs, ofPt_fin, GCodeBuilder.rapid_absolute, e0, validate_abs_eq b [] [] req vps h hd]
  simp only [← hbA]
  cases hf : VParams.fin? vps with
  | none => exact ⟨rfl, rfl, rfl, rfl⟩
  | some ps =>
    by_cases hk : b.bounds.okAxes (b.axes.replace req)
    · by_cases ht : b.okTrack ps
      · simp only [hk, ht, Bool.and_self, if_true, Bool.not_true, Bool.false_eq_true, if_false, Bool.false_and]
        have ha : (absB' b [] [])._current_axes = b.axes := rfl
        simp only [GCodeCore.rapid_absolute, pmp1, pmp2, ha, PointTie_replace]
        by_cases hr : b.rel = true
        · have hm : (absB' b [] [])._distance_mode = DistanceMode.RELATIVE := by simp [absB', absB, hr]
          have hset := set_dist_eq b [] [] false
          simp only [dmOf, cond_false, ← hbA] at hset
          simp only [hm, reduceCtorEq, decide_false, Bool.not_false, if_true, hset]
          have hokA : bA.bounds.okAxes (b.axes.replace req) = true := by rw [hAb]; exact hk
          rw [prepare_rapid_eq bA _ [] req req vps h hd]
          have hsetT : ∀ (bX : B) o c, GCodeBuilder.set_distance_mode (absB' bX o c) (Arg.val DistanceMode.RELATIVE) =
              (absB' { bX with rel := true, srel := true } (o ++ [dmStmt true]) c, none) := fun bX o c => set_dist_eq bX o c true
          have hdmT : ∀ ws o c, (absB' ((bA.track ws).commitAxes (b.axes.replace req) req ws) o c)._distance_mode = DistanceMode.ABSOLUTE := by
            intro ws o c
            have : ((bA.track ws).commitAxes (b.axes.replace req) req ws).rel = false := by
              simp only [B.commitAxes, B.track]; split <;> split <;> simp [hAr]
            simp [absB', absB, this]
          simp only [prepared, hf, hAt, ht, if_true, update_axes_eq (bA.track ps) _ [] _ req vps ps hf, track_bounds, hokA, write_eq,
            hdmT, reduceCtorEq, decide_false, Bool.not_false, hsetT, Bool.not_true, Bool.false_eq_true, if_false, hr]
          (simp [AgreesM, accept, outOf, absB', absB, absG, view, conv, partCodes, partAx, partWords, Code.text, modeStmt, dmStmt, dmOf, tl, DistanceMode.memberName, hsync, hr, B.commitAxes] <;> first | done | rfl)
        · have hr' : b.rel = false := by simpa using hr
          have hbb : bA = b := by rw [hbA]; exact bA_eq b hr' hsync
          subst hbb
          have hm : (absB' bA [] [])._distance_mode = DistanceMode.ABSOLUTE := by simp [absB', absB, hr']
          have hdmT : ∀ ws o c, (absB' ((bA.track ws).commitAxes (bA.axes.replace req) req ws) o c)._distance_mode = DistanceMode.ABSOLUTE := by
            intro ws o c
            have : ((bA.track ws).commitAxes (bA.axes.replace req) req ws).rel = false := by
              simp only [B.commitAxes, B.track]; split <;> split <;> simp [hr']
            simp [absB', absB, this]
          simp only [hm, decide_true, Bool.not_true, Bool.false_eq_true, if_false]
          rw [prepare_rapid_eq bA [] [] req req vps h hd]
          simp only [prepared, hf, ht, if_true, update_axes_eq (bA.track ps) _ [] _ req vps ps hf, track_bounds, hk, write_eq,
            hdmT, decide_true, Bool.not_true, Bool.false_eq_true, if_false, hr']
          (simp [AgreesM, accept, outOf, absB', absB, absG, view, conv, partCodes, partAx, partWords, Code.text, hr'] <;> first | done | rfl)
      · (simp [hk, ht, AgreesM, reject, outOf, absB'_strip, absB'] <;> first | done | rfl)
    · (simp [hk, AgreesM, reject, outOf, absB'_strip, absB'] <;> first | done | rfl)

/-! ## non-vacuity: concrete runs of the translated source -/

/-- a relative-mode `move_absolute(x=5, F=100)` from X1 with a recording hook: `G90`, the move, `G91`; one hook call with
    the true origin and target; position and feed tracked -/
example :
    let b : B := { axes := ⟨some 1, some 2, none⟩, saxes := ⟨some 1, some 2, none⟩, rel := true, srel := true, hooks := [.record] }
    let g := GCodeBuilder.move_absolute (absB b) ⟨some 5, none, none⟩ [("F", .fin 100)] 0
    g.2 = none ∧ g.1.out.map conv3 = [(["G90"], {}, []), (["G1"], ⟨some 5, none, none⟩, [("F", 100)]), (["G91"], {}, [])] ∧
    g.1._current_axes = ⟨some 5, some 2, none⟩ ∧ g.1.state._current_feed_rate = .fin 100 ∧ g.1._distance_mode = .RELATIVE ∧
    g.1.calls = [⟨⟨some 1, some 2, some 0⟩, ⟨some 5, some 2, some 0⟩⟩] := by decide +kernel

/-- a move out of the axes box is refused by the translated source before anything is touched -/
example :
    let b : B := { bounds := { axes := some (⟨0, 0, 0⟩, ⟨10, 10, 10⟩) } }
    let g := GCodeCore.move (absB b) ⟨some 11, none, none⟩ [("F", .fin 100)] 0
    g = (absB b, some .valueError) := by decide +kernel

/-- a good F with a bad S: nothing is tracked, nothing is written (`_track_move_params` validates both first) -/
example :
    let b : B := { }
    let g := GCodeCore.move (absB b) ⟨some 1, none, none⟩ [("F", .fin 100), ("S", .fin (-1))] 0
    g = (absB b, some .valueError) := by decide +kernel

/-! ## halts, comments, hooks -/
namespace GscribModel.MotionTie

def argHalt : HaltArg → Arg HaltMode
  | .off => .val .OFF | .bogus => .bogus | m => .val (haltOf m)

theorem tlh :
    tableLookup "HaltMode" "PAUSE" = some "M00" ∧ tableLookup "HaltMode" "OPTIONAL_PAUSE" = some "M01" ∧
    tableLookup "HaltMode" "END_WITHOUT_RESET" = some "M02" ∧ tableLookup "HaltMode" "END_WITH_RESET" = some "M30" ∧
    tableLookup "HaltMode" "PALLET_EXCHANGE" = some "M60" ∧ tableLookup "HaltMode" "WAIT_FOR_BED" = some "M190" ∧
    tableLookup "HaltMode" "WAIT_FOR_HOTEND" = some "M109" ∧ tableLookup "HaltMode" "WAIT_FOR_CHAMBER" = some "M191" ∧
    tableLookup "HaltMode" "WAIT_FOR_MOTION" = some "M400" := by decide +kernel

/-- `write(statement)` from any state: the halt mode goes back to `OFF` and the statement is handed on -/
theorem write_any (s : BSt) (st : SStmt) :
    GCodeBuilder.write s st = ({ s with state := { s.state with _current_halt_mode := .OFF }, out := s.out ++ [st] }, none) := by
  simp only [GCodeBuilder.write, GState._set_halt_mode, coreWrite]
  simp

theorem lookupQ_none_of_not_mem (ps : List (String × Rat)) (k : String) (h : k ∉ ps.map (·.1)) : lookupQ ps k = none := by
  induction ps with
  | nil => rfl
  | cons e r ih =>
    simp only [List.map_cons, List.mem_cons, not_or] at h
    have hne : (e.1 == k) = false := by
      have : ¬ e.1 = k := fun hh => h.1 hh.symm
      simpa using this
    simp only [lookupQ, List.find?_cons, hne] at ih ⊢
    exact ih h.2

def optAll (o : OQ) (p : Rat → Bool) : Bool := match o with | some v => p v | none => true

theorem haltTemps_all (ps : List (String × Rat)) (p : Rat → Bool) :
    (haltTemps ps).all p = (optAll (lookupQ ps "S") p && optAll (lookupQ ps "R") p) := by
  simp only [haltTemps]
  cases lookupQ ps "S" <;> cases lookupQ ps "R" <;> simp [optAll]

theorem lookupQ_cons (k : String) (v : Rat) (r : List (String × Rat)) (k' : String) :
    lookupQ ((k, v) :: r) k' = if k == k' then some v else lookupQ r k' := by
  simp only [lookupQ, List.find?_cons]
  cases (k == k') <;> rfl

/-- the S / R entries of a parameter list with distinct names are the two lookups -/
theorem sr_all (ps : List (String × Rat)) (p : Rat → Bool) (hn : (ps.map (·.1)).Nodup) :
    (ps.filter fun e => ["S", "R"].contains e.1).all (fun e => p e.2) = (haltTemps ps).all p := by
  rw [haltTemps_all]
  induction ps with
  | nil => rfl
  | cons e r ih =>
    obtain ⟨k, v⟩ := e
    simp only [List.map_cons, List.nodup_cons] at hn
    have ih' := ih hn.2
    rw [lookupQ_cons, lookupQ_cons, List.filter_cons]
    by_cases hS : k = "S"
    · subst hS
      have hr : lookupQ r "S" = none := lookupQ_none_of_not_mem r "S" hn.1
      have c1 : (["S", "R"].contains "S") = true := by decide
      have c2 : ("S" == "S") = true := by decide
      have c3 : ("S" == "R") = false := by decide
      simp only [c1, c2, c3, if_true, Bool.false_eq_true, if_false, List.all_cons, ih', hr, optAll, Bool.true_and]
    · by_cases hR : k = "R"
      · subst hR
        have hr : lookupQ r "R" = none := lookupQ_none_of_not_mem r "R" hn.1
        have c1 : (["S", "R"].contains "R") = true := by decide
        have c2 : ("R" == "R") = true := by decide
        have c3 : ("R" == "S") = false := by decide
        simp only [c1, c2, c3, if_true, Bool.false_eq_true, if_false, List.all_cons, ih', hr, optAll, Bool.and_true]
        exact Bool.and_comm _ _
      · have h1 : (k == "S") = false := by simpa using hS
        have h2 : (k == "R") = false := by simpa using hR
        have c1 : (["S", "R"].contains k) = false := by simp [hS, hR]
        simp only [c1, h1, h2, Bool.false_eq_true, if_false, ih']

theorem validateEach_eq (bd : Bounds) (name : String) (k : BKind) (hk : kindOfName name = some k) (vps : VParams)
    (ps : List (String × Rat)) (hf : vps.fin? = some ps) :
    validateEach bd name ["S", "R"] vps =
      if (ps.filter fun e => ["S", "R"].contains e.1).all (fun e => bd.okNum k e.2) then none else some .valueError := by
  induction vps generalizing ps with
  | nil => simp [VParams.fin?] at hf; subst hf; rfl
  | cons e r ih =>
    obtain ⟨k', v⟩ := e
    simp only [VParams.fin?] at hf
    cases hv : v.fin? with
    | none => simp [hv] at hf
    | some q =>
      cases hr : VParams.fin? r with
      | none => simp [hv, hr] at hf
      | some r' =>
        simp [hv, hr] at hf
        subst hf
        have hvq : v = Val.fin q := by cases v <;> simp_all [Val.fin?]
        subst hvq
        simp only [validateEach, validateNum_fin bd k name hk, ih r' hr, List.filter_cons]
        generalize (["S", "R"].contains k') = c
        cases c
        · simp only [Bool.false_eq_true, if_false]
        · simp only [if_true, List.all_cons]
          cases bd.okNum k q <;> simp only [Bool.true_and, Bool.false_and, Bool.false_eq_true, if_true, if_false]

theorem userParam_eq (vps : VParams) (ps : List (String × Rat)) (hf : vps.fin? = some ps) :
    userParam ["S", "R"] vps = (haltTemp ps).map Val.fin := by
  simp only [userParam, List.findSome?, lookupV_fin vps ps hf, haltTemp]
  cases lookupQ ps "S" <;> cases lookupQ ps "R" <;> rfl

theorem fin_keys (vps : VParams) (ps : List (String × Rat)) (hf : vps.fin? = some ps) : ps.map (·.1) = vps.map (·.1) := by
  induction vps generalizing ps with
  | nil => simp [VParams.fin?] at hf; subst hf; rfl
  | cons e r ih =>
    obtain ⟨k, v⟩ := e
    simp only [VParams.fin?] at hf
    cases hv : v.fin? with
    | none => simp [hv] at hf
    | some q =>
      cases hr : VParams.fin? r with
      | none => simp [hv, hr] at hf
      | some r' =>
        simp [hv, hr] at hf
        subst hf
        simp [ih r' hr]

/-- the model's bookkeeping of a wait command's temperature -/
def setTemp (b : B) (k : BKind) (t : OQ) : B :=
  match t, k with
  | some t, .bed => { b with bed := some t }
  | some t, .hotend => { b with hotend := some t }
  | some t, .chamber => { b with chamber := some t }
  | _, _ => b

theorem ensure_tool (b : B) : GState._ensure_tool_is_inactive (absG b) "" = (absG b, if b.toolActive then some .toolState else none) := by
  cases h : b.toolActive <;> simp [GState._ensure_tool_is_inactive, absG, h]
theorem ensure_cool (b : B) : GState._ensure_coolant_is_inactive (absG b) "" = (absG b, if b.coolActive then some .coolantState else none) := by
  cases h : b.coolActive <;> simp [GState._ensure_coolant_is_inactive, absG, h]

theorem set_halt (b : B) (md : HaltMode) (ht : b.toolActive = false) (hc : b.coolActive = false) :
    GState._set_halt_mode (absG b) md = ({ absG b with _current_halt_mode := md }, none) := by
  have e1 : (absG b)._is_tool_active = false := by simp [absG, ht]
  have e2 : (absG b)._is_coolant_active = false := by simp [absG, hc]
  by_cases hm : md = .OFF
  · subst hm; simp [GState._set_halt_mode]
  · simp [GState._set_halt_mode, GState._ensure_tool_is_inactive, GState._ensure_coolant_is_inactive, e1, e2, hm]

/-- what `halt()` does once the interlocks and the formatter have passed: `_set_halt_mode(mode)`, then `write` (which puts
    the halt mode back to `OFF`) -/
theorem halt_finish (b : B) (o : List SStmt) (c : List HookCall) (md : HaltMode) (st : SStmt)
    (ht : b.toolActive = false) (hc : b.coolActive = false) (g : GState) (hg : g = absG b) :
    GCodeBuilder.write ({ absB' b o c with state := { g with _current_halt_mode := md } }) st = (absB' b (o ++ [st]) c, none) := by
  subst hg
  rw [write_any]; rfl

def haltStmt (m : HaltArg) (ps : List (String × Rat)) : SStmt := [Part.instr "HaltMode" (HaltMode.memberName (haltOf m)) ps]

/-- `halt(mode, **kwargs)` in closed form, from a state with anything already written -/
def haltRes (b : B) (o : List SStmt) (c : List HookCall) (m : HaltArg) (vps : VParams) : BSt × Option Err :=
  if b.toolActive then (absB' b o c, some .toolState) else
  if b.coolActive then (absB' b o c, some .coolantState) else
  match vps.fin? with
  | none => (absB' b o c, some .valueError)
  | some ps =>
    match m.kind with
    | none => (absB' b (o ++ [haltStmt m ps]) c, none)
    | some k =>
      if (haltTemps ps).all (b.bounds.okNum k) then (absB' (setTemp b k (haltTemp ps)) (o ++ [haltStmt m ps]) c, none)
      else (absB' b o c, some .valueError)

theorem halt_eq_plain (b : B) (o : List SStmt) (c : List HookCall) (m : HaltArg) (vps : VParams) (h : Rat)
    (hm : m = .pause ∨ m = .optionalPause ∨ m = .endNoReset ∨ m = .endReset ∨ m = .pallet ∨ m = .waitMotion) :
    GCodeBuilder.halt (absB' b o c) (Arg.val (haltOf m)) vps h = haltRes b o c m vps := by
  have hs : (absB' b o c).state = absG b := rfl
  have e1 : ({ absB' b o c with state := absG b } : BSt) = absB' b o c := rfl
  rcases hm with rfl | rfl | rfl | rfl | rfl | rfl <;>
  (simp only [GCodeBuilder.halt, haltOf, Arg.val.injEq, reduceCtorEq, decide_false, Bool.false_eq_true, if_false, hs, ensure_tool, ensure_cool, haltRes, HaltArg.kind]
   by_cases ht : b.toolActive = true
   · (simp [ht] <;> first | done | rfl)
   · have ht' : b.toolActive = false := by simpa using ht
     simp only [ht', Bool.false_eq_true, if_false, e1, hs, ensure_cool]
     by_cases hc : b.coolActive = true
     · (simp [hc] <;> first | done | rfl)
     · have hc' : b.coolActive = false := by simpa using hc
       simp only [hc', Bool.false_eq_true, if_false, e1, getStatement, fmtWords_eq_fin]
       cases hf : VParams.fin? vps with
       | none => rfl
       | some ps =>
         simp only [Option.map_some, hs, set_halt b _ ht' hc']
         cases hu : userParam ["S", "R"] vps <;>
           simp only [halt_finish b o c _ _ ht' hc' _ rfl, haltStmt, haltOf, Arg.val.injEq, reduceCtorEq, decide_false, Bool.false_eq_true, if_false])

theorem haltTemp_ok (ps : List (String × Rat)) (p : Rat → Bool) (t : Rat) (ht : haltTemp ps = some t)
    (ha : (haltTemps ps).all p = true) : p t = true := by
  rw [haltTemps_all] at ha
  simp only [haltTemp] at ht
  cases hS : lookupQ ps "S" with
  | some s => simp only [hS, Option.some.injEq] at ht; subst ht; simp [hS, optAll] at ha; exact ha.1
  | none => simp only [hS] at ht; simp [hS, ht, optAll] at ha; exact ha

theorem halt_eq_bed (b : B) (o : List SStmt) (c : List HookCall) (vps : VParams) (h : Rat) (hn : (vps.map (·.1)).Nodup) :
    GCodeBuilder.halt (absB' b o c) (Arg.val (haltOf .waitBed)) vps h = haltRes b o c .waitBed vps := by
  have hs : (absB' b o c).state = absG b := rfl
  have hb : (absG b)._user_bounds = b.bounds := rfl
  have e1 : ({ absB' b o c with state := absG b } : BSt) = absB' b o c := rfl
  simp only [GCodeBuilder.halt, haltOf, Arg.val.injEq, reduceCtorEq, decide_false, Bool.false_eq_true, if_false, hs, ensure_tool, ensure_cool, haltRes, HaltArg.kind]
  by_cases ht : b.toolActive = true
  · (simp [ht] <;> first | done | rfl)
  · have ht' : b.toolActive = false := by simpa using ht
    simp only [ht', Bool.false_eq_true, if_false, e1, hs, ensure_cool]
    by_cases hc : b.coolActive = true
    · (simp [hc] <;> first | done | rfl)
    · have hc' : b.coolActive = false := by simpa using hc
      simp only [hc', Bool.false_eq_true, if_false, e1, getStatement, fmtWords_eq_fin]
      cases hf : VParams.fin? vps with
      | none => rfl
      | some ps =>
        have hnp : (ps.map (·.1)).Nodup := by rw [fin_keys vps ps hf]; exact hn
        have v1 := validateEach_eq b.bounds "bed-temperature" .bed rfl vps ps hf
        simp only [Option.map_some, hs, hb, v1, sr_all ps _ hnp, userParam_eq vps ps hf]
        by_cases ha : (haltTemps ps).all (b.bounds.okNum .bed) = true
        · simp only [ha, if_true]
          cases htm : haltTemp ps with
          | none =>
            simp only [Option.map_none, set_halt b _ ht' hc', halt_finish b o c _ _ ht' hc' _ rfl, setTemp, haltStmt, haltOf]
          | some t =>
            have hok : (absG b)._user_bounds.okNum .bed t = true := haltTemp_ok ps _ t htm ha
            simp only [Option.map_some, decide_true, if_true, GState._set_target_bed_temperature, validateNum_fin _ .bed "bed-temperature" rfl,
              hok, reduceCtorEq, decide_false, Bool.false_eq_true, if_false]
            have eb : ({ absG b with _target_bed_temperature := Val.fin t } : GState) = absG { b with bed := some t } := rfl
            simp only [eb, set_halt { b with bed := some t } _ ht' hc']
            exact halt_finish { b with bed := some t } o c _ _ ht' hc' _ rfl
        · simp only [ha, Bool.false_eq_true, if_false]

theorem halt_eq_hotend (b : B) (o : List SStmt) (c : List HookCall) (vps : VParams) (h : Rat) (hn : (vps.map (·.1)).Nodup) :
    GCodeBuilder.halt (absB' b o c) (Arg.val (haltOf .waitHotend)) vps h = haltRes b o c .waitHotend vps := by
  have hs : (absB' b o c).state = absG b := rfl
  have hb : (absG b)._user_bounds = b.bounds := rfl
  have e1 : ({ absB' b o c with state := absG b } : BSt) = absB' b o c := rfl
  simp only [GCodeBuilder.halt, haltOf, Arg.val.injEq, reduceCtorEq, decide_false, Bool.false_eq_true, if_false, hs, ensure_tool, ensure_cool, haltRes, HaltArg.kind]
  by_cases ht : b.toolActive = true
  · (simp [ht] <;> first | done | rfl)
  · have ht' : b.toolActive = false := by simpa using ht
    simp only [ht', Bool.false_eq_true, if_false, e1, hs, ensure_cool]
    by_cases hc : b.coolActive = true
    · (simp [hc] <;> first | done | rfl)
    · have hc' : b.coolActive = false := by simpa using hc
      simp only [hc', Bool.false_eq_true, if_false, e1, getStatement, fmtWords_eq_fin]
      cases hf : VParams.fin? vps with
      | none => rfl
      | some ps =>
        have hnp : (ps.map (·.1)).Nodup := by rw [fin_keys vps ps hf]; exact hn
        have v1 := validateEach_eq b.bounds "hotend-temperature" .hotend rfl vps ps hf
        simp only [Option.map_some, hs, hb, v1, sr_all ps _ hnp, userParam_eq vps ps hf]
        by_cases ha : (haltTemps ps).all (b.bounds.okNum .hotend) = true
        · simp only [ha, if_true]
          cases htm : haltTemp ps with
          | none =>
            simp only [Option.map_none, set_halt b _ ht' hc', halt_finish b o c _ _ ht' hc' _ rfl, setTemp, haltStmt, haltOf]
          | some t =>
            have hok : (absG b)._user_bounds.okNum .hotend t = true := haltTemp_ok ps _ t htm ha
            simp only [Option.map_some, decide_true, if_true, GState._set_target_hotend_temperature, validateNum_fin _ .hotend "hotend-temperature" rfl,
              hok, reduceCtorEq, decide_false, Bool.false_eq_true, if_false]
            have eb : ({ absG b with _target_hotend_temperature := Val.fin t } : GState) = absG { b with hotend := some t } := rfl
            simp only [eb, set_halt { b with hotend := some t } _ ht' hc']
            exact halt_finish { b with hotend := some t } o c _ _ ht' hc' _ rfl
        · simp only [ha, Bool.false_eq_true, if_false]

theorem halt_eq_chamber (b : B) (o : List SStmt) (c : List HookCall) (vps : VParams) (h : Rat) (hn : (vps.map (·.1)).Nodup) :
    GCodeBuilder.halt (absB' b o c) (Arg.val (haltOf .waitChamber)) vps h = haltRes b o c .waitChamber vps := by
  have hs : (absB' b o c).state = absG b := rfl
  have hb : (absG b)._user_bounds = b.bounds := rfl
  have e1 : ({ absB' b o c with state := absG b } : BSt) = absB' b o c := rfl
  simp only [GCodeBuilder.halt, haltOf, Arg.val.injEq, reduceCtorEq, decide_false, Bool.false_eq_true, if_false, hs, ensure_tool, ensure_cool, haltRes, HaltArg.kind]
  by_cases ht : b.toolActive = true
  · (simp [ht] <;> first | done | rfl)
  · have ht' : b.toolActive = false := by simpa using ht
    simp only [ht', Bool.false_eq_true, if_false, e1, hs, ensure_cool]
    by_cases hc : b.coolActive = true
    · (simp [hc] <;> first | done | rfl)
    · have hc' : b.coolActive = false := by simpa using hc
      simp only [hc', Bool.false_eq_true, if_false, e1, getStatement, fmtWords_eq_fin]
      cases hf : VParams.fin? vps with
      | none => rfl
      | some ps =>
        have hnp : (ps.map (·.1)).Nodup := by rw [fin_keys vps ps hf]; exact hn
        have v1 := validateEach_eq b.bounds "chamber-temperature" .chamber rfl vps ps hf
        simp only [Option.map_some, hs, hb, v1, sr_all ps _ hnp, userParam_eq vps ps hf]
        by_cases ha : (haltTemps ps).all (b.bounds.okNum .chamber) = true
        · simp only [ha, if_true]
          cases htm : haltTemp ps with
          | none =>
            simp only [Option.map_none, set_halt b _ ht' hc', halt_finish b o c _ _ ht' hc' _ rfl, setTemp, haltStmt, haltOf]
          | some t =>
            have hok : (absG b)._user_bounds.okNum .chamber t = true := haltTemp_ok ps _ t htm ha
            simp only [Option.map_some, decide_true, if_true, GState._set_target_chamber_temperature, validateNum_fin _ .chamber "chamber-temperature" rfl,
              hok, reduceCtorEq, decide_false, Bool.false_eq_true, if_false]
            have eb : ({ absG b with _target_chamber_temperature := Val.fin t } : GState) = absG { b with chamber := some t } := rfl
            simp only [eb, set_halt { b with chamber := some t } _ ht' hc']
            exact halt_finish { b with chamber := some t } o c _ _ ht' hc' _ rfl
        · simp only [ha, Bool.false_eq_true, if_false]

end GscribModel.MotionTie

open GscribModel.MotionTie in
/-- `haltRes` against the model's `stepHalt` -/
theorem GscribModel.MotionTie.haltRes_agrees (b : B) (m : HaltArg) (vps : VParams) (hm : ¬ (m = .off ∨ m = .bogus)) :
    AgreesM (stepHalt b m vps) (haltRes b [] [] m vps) := by
  simp only [stepHalt, hm, if_false, haltRes]
  by_cases ht : b.toolActive = true
  · (simp [ht, AgreesM, reject, outOf, absB'_strip, absB'] <;> first | done | rfl)
  · have ht' : b.toolActive = false := by simpa using ht
    by_cases hc : b.coolActive = true
    · (simp [ht', hc, AgreesM, reject, outOf, absB'_strip, absB'] <;> first | done | rfl)
    · have hc' : b.coolActive = false := by simpa using hc
      have pt : (b.toolActive = true) = False := by simp [ht']
      have pc : (b.coolActive = true) = False := by simp [hc']
      simp only [pt, pc, if_false]
      clear ht ht' hc hc' pt pc
      cases hf : VParams.fin? vps with
      | none => (simp [AgreesM, reject, outOf, absB'_strip, absB'] <;> first | done | rfl)
      | some ps =>
        cases hk : m.kind with
        | none =>
          cases m <;> simp_all [HaltArg.kind] <;>
            (simp [AgreesM, accept, outOf, absB', absB, view, conv, partCodes, partAx, partWords, Code.text, haltStmt, haltOf, HaltArg.code, HaltMode.memberName, tlh] <;> first | done | rfl)
        | some k =>
          by_cases ha : (haltTemps ps).all (b.bounds.okNum k) = true
          · simp only [ha, Bool.not_true, Bool.false_eq_true, if_false, if_true]
            cases m <;> simp_all [HaltArg.kind] <;> subst hk <;>
              (cases htm : haltTemp ps <;>
                (simp [setTemp, AgreesM, accept, outOf, absB', absB, view, conv, partCodes, partAx, partWords, Code.text, haltStmt, haltOf, HaltArg.code, HaltMode.memberName, tlh] <;> first | done | rfl))
          · (simp [ha, AgreesM, reject, outOf, absB'_strip, absB'] <;> first | done | rfl)

/-- **`halt()`**: the mode, then the tool and coolant interlocks, then formatting, then every S / R temperature against the
    bounds, then the tracked target and the halt mode, then the statement. -/
theorem MotionTie_halt (b : B) (m : HaltArg) (vps : VParams) (h : Rat) (hn : (vps.map (·.1)).Nodup) :
    AgreesM (step b (.halt m vps)) (GCodeBuilder.halt (absB b) (argHalt m) vps h) := by
  have e0 : absB b = absB' b [] [] := rfl
  cases m with
  | off => exact ⟨rfl, rfl, rfl, rfl⟩
  | bogus => exact ⟨rfl, rfl, rfl, rfl⟩
  | pause =>
    show AgreesM (stepHalt b .pause vps) (GCodeBuilder.halt (absB b) (Arg.val (haltOf .pause)) vps h)
    rw [e0, halt_eq_plain b [] [] .pause vps h (by simp)]
    exact haltRes_agrees b _ vps (by decide)
  | optionalPause =>
    show AgreesM (stepHalt b .optionalPause vps) (GCodeBuilder.halt (absB b) (Arg.val (haltOf .optionalPause)) vps h)
    rw [e0, halt_eq_plain b [] [] .optionalPause vps h (by simp)]
    exact haltRes_agrees b _ vps (by decide)
  | endNoReset =>
    show AgreesM (stepHalt b .endNoReset vps) (GCodeBuilder.halt (absB b) (Arg.val (haltOf .endNoReset)) vps h)
    rw [e0, halt_eq_plain b [] [] .endNoReset vps h (by simp)]
    exact haltRes_agrees b _ vps (by decide)
  | endReset =>
    show AgreesM (stepHalt b .endReset vps) (GCodeBuilder.halt (absB b) (Arg.val (haltOf .endReset)) vps h)
    rw [e0, halt_eq_plain b [] [] .endReset vps h (by simp)]
    exact haltRes_agrees b _ vps (by decide)
  | pallet =>
    show AgreesM (stepHalt b .pallet vps) (GCodeBuilder.halt (absB b) (Arg.val (haltOf .pallet)) vps h)
    rw [e0, halt_eq_plain b [] [] .pallet vps h (by simp)]
    exact haltRes_agrees b _ vps (by decide)
  | waitMotion =>
    show AgreesM (stepHalt b .waitMotion vps) (GCodeBuilder.halt (absB b) (Arg.val (haltOf .waitMotion)) vps h)
    rw [e0, halt_eq_plain b [] [] .waitMotion vps h (by simp)]
    exact haltRes_agrees b _ vps (by decide)
  | waitBed =>
    show AgreesM (stepHalt b .waitBed vps) (GCodeBuilder.halt (absB b) (Arg.val (haltOf .waitBed)) vps h)
    rw [e0, halt_eq_bed b [] [] vps h hn]
    exact haltRes_agrees b _ vps (by decide)
  | waitHotend =>
    show AgreesM (stepHalt b .waitHotend vps) (GCodeBuilder.halt (absB b) (Arg.val (haltOf .waitHotend)) vps h)
    rw [e0, halt_eq_hotend b [] [] vps h hn]
    exact haltRes_agrees b _ vps (by decide)
  | waitChamber =>
    show AgreesM (stepHalt b .waitChamber vps) (GCodeBuilder.halt (absB b) (Arg.val (haltOf .waitChamber)) vps h)
    rw [e0, halt_eq_chamber b [] [] vps h hn]
    exact haltRes_agrees b _ vps (by decide)

namespace GscribModel.MotionTie

theorem pair_eta (x : BSt × Option Err) :
    (match x with | (s, some e) => (s, some e) | (s, none) => (s, none)) = x := by
  obtain ⟨s, o⟩ := x; cases o <;> rfl

theorem comment_eq (b : B) (o : List SStmt) (c : List HookCall) (h : Rat) :
    GCodeCore.comment (absB' b o c) h = (absB' b (o ++ [[Part.comment]]) c, none) := by
  simp only [GCodeCore.comment, write_eq]

theorem tool_off_eq (b : B) (o : List SStmt) (c : List HookCall) :
    GCodeBuilder.tool_off (absB' b o c) =
      (absB' (stepToolOff b).1 (o ++ [[Part.instr "SpinMode" (SpinMode.memberName .OFF) []]]) c, none) := by
  have hs : (absB' b o c).state = absG b := rfl
  simp only [GCodeBuilder.tool_off, hs, StateTie_tool_off, getStatement, fmtWords, Option.map_some]
  exact write_eq (stepToolOff b).1 o c _

theorem coolant_off_eq (b : B) (o : List SStmt) (c : List HookCall) :
    GCodeBuilder.coolant_off (absB' b o c) =
      (absB' (stepCoolOff b).1 (o ++ [[Part.instr "CoolantMode" (CoolantMode.memberName .OFF) []]]) c, none) := by
  have hs : (absB' b o c).state = absG b := rfl
  simp only [GCodeBuilder.coolant_off, hs, StateTie_coolant_off, getStatement, fmtWords, Option.map_some]
  exact write_eq (stepCoolOff b).1 o c _

end GscribModel.MotionTie

/-- **`comment()`**: one statement without words, nothing tracked. -/
theorem MotionTie_comment (b : B) (h : Rat) : AgreesM (step b .comment) (GCodeCore.comment (absB b) h) := by
  have e0 : absB b = absB' b [] [] := rfl
  rw [e0, comment_eq]
  exact ⟨rfl, rfl, rfl, rfl⟩

/-- **`wait()`, `pause()`, `stop()`** are `halt()` with a fixed mode. -/
theorem MotionTie_wait_pause_stop (b : B) (flag : Bool) (h : Rat) :
    GCodeBuilder.wait (absB b) h = GCodeBuilder.halt (absB b) (Arg.val HaltMode.WAIT_FOR_MOTION) [] h ∧
    GCodeBuilder.pause (absB b) flag h = GCodeBuilder.halt (absB b) (Arg.val (if flag then HaltMode.OPTIONAL_PAUSE else HaltMode.PAUSE)) [] h ∧
    GCodeBuilder.stop (absB b) flag h = GCodeBuilder.halt (absB b) (Arg.val (if flag then HaltMode.END_WITH_RESET else HaltMode.END_WITHOUT_RESET)) [] h := by
  refine ⟨?_, ?_, ?_⟩
  · simp only [GCodeBuilder.wait]; exact pair_eta _
  · simp only [GCodeBuilder.pause]; exact pair_eta _
  · simp only [GCodeBuilder.stop]; exact pair_eta _

/-- **`emergency_halt()`**: tool off, coolant off, the message comment, then the halt - which the two interlocks can no
    longer refuse; every statement is written and the builder reports tool and coolant inactive (C06). -/
theorem MotionTie_emergency_halt (b : B) (reset : Bool) (h : Rat) :
    AgreesM (step b (.ehalt reset)) (GCodeBuilder.emergency_halt (absB b) reset h) := by
  have e0 : absB b = absB' b [] [] := rfl
  simp only [GCodeBuilder.emergency_halt, e0, tool_off_eq, coolant_off_eq, comment_eq]
  have ht : (stepCoolOff (stepToolOff b).1).1.toolActive = false := rfl
  have hc : (stepCoolOff (stepToolOff b).1).1.coolActive = false := rfl
  cases reset
  · have hh := halt_eq_plain (stepCoolOff (stepToolOff b).1).1 ([] ++ [[Part.instr "SpinMode" (SpinMode.memberName .OFF) []]] ++ [[Part.instr "CoolantMode" (CoolantMode.memberName .OFF) []]] ++ [[Part.comment]]) [] .pause [] h (by simp)
    simp only [haltOf] at hh
    simp only [Bool.false_eq_true, if_false, hh, haltRes, ht, hc, VParams.fin?, HaltArg.kind]
    (simp [step, AgreesM, accept, outOf, absB', absB, view, conv, partCodes, partAx, partWords, Code.text, haltStmt, haltOf, HaltMode.memberName, SpinMode.memberName, CoolantMode.memberName, tlh, tl, stepToolOff, stepCoolOff] <;> first | done | rfl)
  · have hh := halt_eq_plain (stepCoolOff (stepToolOff b).1).1 ([] ++ [[Part.instr "SpinMode" (SpinMode.memberName .OFF) []]] ++ [[Part.instr "CoolantMode" (CoolantMode.memberName .OFF) []]] ++ [[Part.comment]]) [] .endReset [] h (by simp)
    simp only [haltOf] at hh
    simp only [if_true, hh, haltRes, ht, hc, VParams.fin?, HaltArg.kind, Bool.false_eq_true, if_false]
    (simp [step, AgreesM, accept, outOf, absB', absB, view, conv, partCodes, partAx, partWords, Code.text, haltStmt, haltOf, HaltMode.memberName, SpinMode.memberName, CoolantMode.memberName, tlh, tl, stepToolOff, stepCoolOff] <;> first | done | rfl)

/-- **`add_hook()` / `remove_hook()`**: the hook list has no duplicates and removing an unknown hook changes nothing. -/
theorem MotionTie_hooks (b : B) (hk : Hook) (h : Rat) :
    AgreesM (step b (.addHook hk)) (GCodeBuilder.add_hook (absB b) hk h) ∧
    AgreesM (step b (.removeHook hk)) (GCodeBuilder.remove_hook (absB b) hk h) := by
  have hl : (absB b)._hooks = b.hooks := rfl
  constructor
  · simp only [GCodeBuilder.add_hook, hl, step]
    by_cases hm : hk ∈ b.hooks <;> (simp [hm, AgreesM, accept, outOf, absB] <;> first | done | rfl)
  · simp only [GCodeBuilder.remove_hook, hl, step]
    by_cases hm : hk ∈ b.hooks
    · (simp [hm, AgreesM, accept, outOf, absB] <;> first | done | rfl)
    · have he : b.hooks.erase hk = b.hooks := List.erase_of_not_mem hm
      (simp [hm, he, AgreesM, accept, outOf, absB] <;> first | done | rfl)

/-- **`move_hook()`**: entering the context registers the hook exactly as `add_hook` does, leaving it - normally or through an
    exception, it is the `finally` block - removes it exactly as `remove_hook` does; so a `with g.move_hook(h):` block is the
    model's `addHook h`, the body, `removeHook h`. -/
theorem MotionTie_move_hook (b : B) (hk : Hook) (h : Rat) :
    AgreesM (step b (.addHook hk)) (GCodeBuilder.move_hook_enter (absB b) hk h) ∧
    AgreesM (step b (.removeHook hk)) (GCodeBuilder.move_hook_exit (absB b) hk h) := by
  obtain ⟨h1, h2⟩ := MotionTie_hooks b hk h
  have e1 : GCodeBuilder.move_hook_enter (absB b) hk h = GCodeBuilder.add_hook (absB b) hk h := by
    simp only [GCodeBuilder.move_hook_enter]
    generalize GCodeBuilder.add_hook (absB b) hk h = p
    obtain ⟨s, _ | e⟩ := p <;> rfl
  have e2 : GCodeBuilder.move_hook_exit (absB b) hk h = GCodeBuilder.remove_hook (absB b) hk h := by
    simp only [GCodeBuilder.move_hook_exit]
    generalize GCodeBuilder.remove_hook (absB b) hk h = p
    obtain ⟨s, _ | e⟩ := p <;> rfl
  rw [e1, e2]
  exact ⟨h1, h2⟩

/-- **The constructors**: `GCodeBuilder(...)` - `GCodeCore.__init__`, `GCodeBuilder.__init__` and `GState.__init__` as translated -
    yields the model's initial builder: every tracked field assigned per object (a field declared on the class, shared between
    builders, is refused by the translator), position unknown, absolute mode, no remembered parameters, no hooks, the initial
    state object of `StateTie_init`; nothing is written.  With `MotionTie_run`: every history from a *new* builder. -/
theorem MotionTie_init : GCodeBuilder.init = (absB {}, none) := by
  simp only [GCodeBuilder.init, StateTie_init]
  rfl

/-! ## C05 read off the translated source -/

/-- **A translated command that raises has changed nothing**: whenever a translated command agrees with the model's step
    (every theorem above) and raises, the builder object it leaves behind - state object, core position, remembered
    parameters, distance mode, hooks - is the one it was called on. -/
theorem MotionTie_reject_unchanged (b : B) (op : Op) (g : BSt × Option Err) (hag : AgreesM (step b op) g) (e : Err)
    (he : g.2 = some e) : ({ g.1 with out := [], calls := [] } : BSt) = absB b := by
  obtain ⟨h1, h2, _, _⟩ := hag
  rw [he] at h1
  rw [← h2, C05_reject_state b op e h1]

/-- ... **and has written nothing**, except at the call site of the known finding (`move_absolute` in relative mode with hooks). -/
theorem MotionTie_reject_silent (b : B) (op : Op) (g : BSt × Option Err) (hag : AgreesM (step b op) g) (e : Err)
    (he : g.2 = some e) (hsite : ¬ BypassWithHooks b op) : g.1.out = [] := by
  obtain ⟨h1, _, h3, _⟩ := hag
  rw [he] at h1
  have := C05_reject_silent_partial b op e h1 hsite
  rw [this] at h3
  simpa using h3.symm

/-! ## units and the mode context managers -/
namespace GscribModel.MotionTie

def unitsOf (i : Bool) : LengthUnits := bif i then .INCHES else .MILLIMETERS

theorem tlu : tableLookup "LengthUnits" "INCHES" = some "G20" ∧ tableLookup "LengthUnits" "MILLIMETERS" = some "G21" := by decide +kernel

theorem scale_to_pixels (u : LengthUnits) (q : Rat) : LengthUnits.scale u (LengthUnits.to_pixels u (.fin q)) = .fin q := by
  have hf : LengthUnits.scale_factor u ≠ 0 := by cases u <;> decide +kernel
  simp only [LengthUnits.scale, LengthUnits.to_pixels, Val.divQ, Val.mulQ, Val.fin.injEq]
  exact Rat.div_mul_cancel hf

end GscribModel.MotionTie

/-- **`set_length_units()`**: the resolution is converted through pixels with the *new* unit both ways (the identity in exact
    arithmetic) and must stay positive; then the unit is tracked and `G20` / `G21` written. -/
theorem MotionTie_length_units (b : B) (i : Bool) (h : Rat) (hres : 0 < b.res) :
    AgreesM (step b (.units i)) (GCodeBuilder.set_length_units (absB b) (Arg.val (unitsOf i)) h) := by
  have e0 : absB b = absB' b [] [] := rfl
  have hu : (absB' b [] []).state._current_length_units = unitsOf b.inches := rfl
  have hr : (absB' b [] []).state._current_resolution = .fin b.res := rfl
  have key : AgreesM (step b (.units i)) (GCodeBuilder.set_length_units (absB b) (Arg.val (unitsOf i)) h) := by
    simp only [GCodeBuilder.set_length_units, e0, hu, hr, scale_to_pixels, getStatement, fmtWords, Option.map_some]
    by_cases hi : i = b.inches
    · subst hi
      simp only [decide_true, Bool.not_true, Bool.false_eq_true, if_false, write_eq]
      have hb : ({ b with inches := b.inches } : B) = b := rfl
      cases hq : b.inches <;>
        (simp [step, hq, AgreesM, accept, outOf, absB', absB, absG, view, conv, partCodes, partAx, partWords, Code.text, unitsOf, LengthUnits.memberName, tlu] <;> first | done | rfl)
    · have hne : decide (unitsOf i = unitsOf b.inches) = false := by
        cases i <;> cases hq : b.inches <;> simp_all [unitsOf]
      have hle : Val.le (.fin b.res) (.fin 0) = false := by
        simp only [Val.le, decide_eq_false_iff_not, Rat.not_le]; exact hres
      simp only [hne, Bool.not_false, if_true, GCodeBuilder.set_resolution, GState._set_resolution, hr, hle, Bool.false_eq_true, if_false,
        GState._set_length_units]
      rw [write_any]
      cases i <;>
        (simp [step, AgreesM, accept, outOf, absB', absB, absG, view, conv, partCodes, partAx, partWords, Code.text, unitsOf, LengthUnits.memberName, tlu] <;> first | done | rfl)
  exact key

namespace GscribModel.MotionTie

theorem dmOf_inj (a b : Bool) : decide (dmOf a = dmOf b) = decide (a = b) := by cases a <;> cases b <;> rfl

theorem enter_eq (b : B) (r : Bool) (h : Rat) :
    (if r then GCodeCore.relative_mode_enter (absB' b [] []) h else GCodeCore.absolute_mode_enter (absB' b [] []) h) =
      if r = b.rel then (absB' b [] [], .ok (dmOf b.rel))
      else (absB' { b with rel := r, srel := r } [dmStmt r] [], .ok (dmOf b.rel)) := by
  have hm : (absB' b [] [])._distance_mode = dmOf b.rel := rfl
  have h1 : DistanceMode.RELATIVE = dmOf true := rfl
  have h0 : DistanceMode.ABSOLUTE = dmOf false := rfl
  cases r
  · simp only [Bool.false_eq_true, if_false, GCodeCore.absolute_mode_enter, hm, h0, dmOf_inj, set_dist_eq]
    cases hb : b.rel <;> simp
  · simp only [if_true, GCodeCore.relative_mode_enter, hm, h1, dmOf_inj, set_dist_eq]
    cases hb : b.rel <;> simp

theorem exit_eq (b : B) (prev : Bool) (h : Rat) :
    GCodeCore.absolute_mode_exit (absB' b [] []) (dmOf prev) h =
      (if prev = b.rel then (absB' b [] [], none) else (absB' { b with rel := prev, srel := prev } [dmStmt prev] [], none)) ∧
    GCodeCore.relative_mode_exit (absB' b [] []) (dmOf prev) h =
      (if prev = b.rel then (absB' b [] [], none) else (absB' { b with rel := prev, srel := prev } [dmStmt prev] [], none)) := by
  have hm : (absB' b [] [])._distance_mode = dmOf b.rel := rfl
  constructor <;>
  · simp only [GCodeCore.absolute_mode_exit, GCodeCore.relative_mode_exit, hm, dmOf_inj, set_dist_eq]
    cases prev <;> cases hb : b.rel <;> simp

end GscribModel.MotionTie

/-- **`absolute_mode()` / `relative_mode()`** as the caller sees them: entering saves the mode in force and switches (writing
    `G90` / `G91`) only when it differs; leaving - the `finally` block, whatever the body did - restores the saved mode the same way. -/
theorem MotionTie_contexts (b : B) (r : Bool) (h : Rat) :
    (let g := if r then GCodeCore.relative_mode_enter (absB b) h else GCodeCore.absolute_mode_enter (absB b) h
     g.2 = .ok (dmOf b.rel) ∧ absB (step b (.enterCtx r)).b = { g.1 with out := [] } ∧
     (step b (.enterCtx r)).stmts.map view3 = g.1.out.map conv3 ∧ (step b (.enterCtx r)).out = .ok ∧
     (step b (.enterCtx r)).b.ctx = b.rel :: b.ctx) ∧
    (∀ prev rest, b.ctx = prev :: rest →
      AgreesM (step b .exitCtx) (GCodeCore.absolute_mode_exit (absB b) (dmOf prev) h) ∧
      AgreesM (step b .exitCtx) (GCodeCore.relative_mode_exit (absB b) (dmOf prev) h) ∧ (step b .exitCtx).b.ctx = rest) := by
  have e0 : absB b = absB' b [] [] := rfl
  constructor
  · rw [e0, enter_eq b r h]
    by_cases hr : r = b.rel
    · subst hr
      (simp [step, accept, absB', absB, absG] <;> first | done | rfl)
    · have hr' : r ≠ b.rel := hr
      cases r <;>
        (simp [step, hr, hr', stepSetDist, accept, absB', absB, absG, view, conv, partCodes, partAx, partWords, Code.text, modeStmt, dmStmt, dmOf, tl, DistanceMode.memberName] <;> first | done | rfl)
  · intro prev rest hc
    rw [e0, (exit_eq b prev h).1, (exit_eq b prev h).2]
    by_cases hr : prev = b.rel
    · (simp [step, hc, hr, AgreesM, accept, outOf, absB', absB, absG] <;> first | done | rfl)
    · have hr' : prev ≠ b.rel := hr
      cases prev <;>
        (simp [step, hc, hr, hr', stepSetDist, AgreesM, accept, outOf, absB', absB, absG, view, conv, partCodes, partAx, partWords, Code.text, modeStmt, dmStmt, dmOf, tl, DistanceMode.memberName] <;> first | done | rfl)

/-! ## every history: running the translated source is running the model -/
namespace GscribModel.MotionTie

theorem agreesB_M (r : Res) (b : B) (g : BSt × Option Err) (h : AgreesB r b g) (hc : r.calls = []) : AgreesM r g := by
  obtain ⟨g1, g2⟩ := g
  cases g2 with
  | some e =>
    obtain ⟨h1, h2⟩ := h
    simp only at h2
    subst h1 h2
    exact ⟨rfl, rfl, rfl, rfl⟩
  | none =>
    obtain ⟨h1, h2, h3⟩ := h
    simp only at h2 h3
    have hcalls : g1.calls = [] := by
      have := congrArg BSt.calls h2
      simpa [absB] using this.symm
    refine ⟨h1, ?_, h3, ?_⟩
    · rw [h2]; cases g1; simp_all
    · simp [hc, hcalls]

/-- the operations whose translated counterpart the theorems above cover, with their side conditions -/
def OpOk (b : B) : Op → Prop
  | .move r p ps h => (∃ req, p = VPt.ofPt req) ∧ (if r then DoubleFS ps else DoubleFS (if b.hooks.isEmpty then ps else applyHooks b h ps))
  | .moveAbs r p ps h => (∃ req, p = VPt.ofPt req) ∧ b.srel = b.rel ∧ DoubleFS ps ∧
      (r = false → DoubleFS (if b.hooks.isEmpty then ps else applyHooks { b with rel := false, srel := false } h ps))
  | .setAxis p _ => ∃ req, p = VPt.ofPt req
  | .home p _ => ∃ req, p = VPt.ofPt req
  | .probe _ p ps => (∃ req, p = VPt.ofPt req) ∧ DoubleFS ps
  | .halt _ ps => (ps.map (·.1)).Nodup
  | .feed v => Val.isDouble v
  | .power v => Val.isDouble v
  | .toolOn _ v => Val.isDouble v
  | .powerOn _ v => Val.isDouble v
  | .units _ => 0 < b.res
  | .boundsAxes _ _ => False
  | .boundsNum _ _ _ => False
  | _ => True

/-- the translated command an operation of the model stands for (`cx`: the modes saved by the open mode contexts) -/
def srcStep (s : BSt) (cx : List DistanceMode) : Op → (BSt × Option Err) × List DistanceMode
  | .move r p ps h => (match p.fin? with
      | some req => if r then GCodeCore.rapid s req ps h else GCodeCore.move s req ps h
      | none => (s, some .valueError), cx)
  | .moveAbs r p ps h => (match p.fin? with
      | some req => if r then GCodeBuilder.rapid_absolute s req ps h else GCodeBuilder.move_absolute s req ps h
      | none => (s, some .valueError), cx)
  | .setAxis p ps => (match p.fin? with | some req => GCodeBuilder.set_axis s req ps 0 | none => (s, some .valueError), cx)
  | .home p ps => (match p.fin? with | some req => GCodeBuilder.auto_home s req ps 0 | none => (s, some .valueError), cx)
  | .probe m p ps => (match p.fin? with | some req => GCodeBuilder.probe s (argProbe m) req ps 0 | none => (s, some .valueError), cx)
  | .setDist r => (GCodeBuilder.set_distance_mode s (.val (bif r then .RELATIVE else .ABSOLUTE)), cx)
  | .setDistBogus => (GCodeBuilder.set_distance_mode s .bogus, cx)
  | .enterCtx r =>
      let g := if r then GCodeCore.relative_mode_enter s 0 else GCodeCore.absolute_mode_enter s 0
      match g.2 with
      | .ok prev => ((g.1, none), prev :: cx)
      | .error e => ((g.1, some e), cx)
  | .exitCtx => match cx with
      | [] => ((s, none), [])
      | prev :: rest => (GCodeCore.absolute_mode_exit s prev 0, rest)
  | .feed v => (GCodeBuilder.set_feed_rate s v, cx)
  | .power v => (GCodeBuilder.set_tool_power s v, cx)
  | .toolOn m v => (GCodeBuilder.tool_on s (argSpin m) v, cx)
  | .toolOff => (GCodeBuilder.tool_off s, cx)
  | .powerOn m v => (GCodeBuilder.power_on s (argPow m) v, cx)
  | .powerOff => (GCodeBuilder.power_off s, cx)
  | .coolOn m => (GCodeBuilder.coolant_on s (argCool m), cx)
  | .coolOff => (GCodeBuilder.coolant_off s, cx)
  | .toolChange m n => (GCodeBuilder.tool_change s (argSwap m) n, cx)
  | .halt m ps => (GCodeBuilder.halt s (argHalt m) ps 0, cx)
  | .ehalt reset => (GCodeBuilder.emergency_halt s reset 0, cx)
  | .bed v => (GCodeBuilder.set_bed_temperature s v, cx)
  | .hotend v => (GCodeBuilder.set_hotend_temperature s v, cx)
  | .chamber v => (GCodeBuilder.set_chamber_temperature s v, cx)
  | .sleep v => (GCodeBuilder.sleep s v, cx)
  | .fan v n => (GCodeBuilder.set_fan_speed s v n, cx)
  | .units i => (GCodeBuilder.set_length_units s (.val (unitsOf i)) 0, cx)
  | .plane n => (GCodeBuilder.set_plane s (argPlane n), cx)
  | .direction c => (GCodeBuilder.set_direction s (.val (bif c then .COUNTER else .CLOCKWISE)), cx)
  | .resolution q => (GCodeBuilder.set_resolution s (.fin q), cx)
  | .emode r => (GCodeBuilder.set_extrusion_mode s (.val (bif r then .RELATIVE else .ABSOLUTE)), cx)
  | .fmode n => (GCodeBuilder.set_feed_mode s (argFmode n), cx)
  | .timeUnits t => (GCodeBuilder.set_time_units s (.val (bif t then .MILLISECONDS else .SECONDS)), cx)
  | .tempUnits k => (GCodeBuilder.set_temperature_units s (.val (bif k then .KELVIN else .CELSIUS)), cx)
  | .query t => (GCodeBuilder.query s (.val (bif t then .TEMPERATURE else .POSITION)), cx)
  | .comment => (GCodeCore.comment s 0, cx)
  | .addHook hk => (GCodeBuilder.add_hook s hk 0, cx)
  | .removeHook hk => (GCodeBuilder.remove_hook s hk 0, cx)
  | .boundsAxes _ _ => ((s, none), cx)      -- `set_bounds` is tied through `BoundsTie`, not through the builder translation
  | .boundsNum _ _ _ => ((s, none), cx)

end GscribModel.MotionTie

namespace GscribModel.MotionTie

/-- only linear moves call hooks -/
theorem step_calls_nil (b : B) (op : Op) (h : ∀ r p ps hh, op ≠ .move r p ps hh ∧ op ≠ .moveAbs r p ps hh) : (step b op).calls = [] := by
  cases op <;> simp only [step, stepSetAxis, stepHome, stepProbe, stepHalt, stepSetDist, stepToolOff, stepPowerOff, stepCoolOff, reject, accept] <;>
    first
    | (exfalso; exact (h _ _ _ _).1 rfl)
    | (exfalso; exact (h _ _ _ _).2 rfl)
    | (repeat' split) <;> rfl

/-- the stack of open mode contexts is touched by entering and leaving a context only -/
theorem step_ctx (b : B) (op : Op) (h1 : ∀ r, op ≠ .enterCtx r) (h2 : op ≠ .exitCtx) : (step b op).b.ctx = b.ctx := by
  cases op <;> simp only [step, stepMove, stepMoveAbs, stepSetAxis, stepHome, stepProbe, stepHalt, stepSetDist, stepToolOff, stepPowerOff,
      stepCoolOff, reject, accept] <;>
    first
    | (exfalso; exact h1 _ rfl)
    | (exfalso; exact h2 rfl)
    | ((repeat' split) <;> first | rfl | (simp only [B.commitAxes, B.track]; (repeat' split) <;> rfl))

end GscribModel.MotionTie

open GscribModel.MotionTie in
/-- **One step of any history**: for every operation of the model whose counterpart is translated (all but `set_bounds`, which
    `BoundsTie` ties at the level of the bounds manager), the model's `step` agrees with the translated command run from `absB b`,
    and the saved modes of the open contexts stay in step. -/
theorem MotionTie_step (b : B) (op : Op) (hok : OpOk b op) :
    AgreesM (step b op) (srcStep (absB b) (b.ctx.map dmOf) op).1 ∧
    (srcStep (absB b) (b.ctx.map dmOf) op).2 = (step b op).b.ctx.map dmOf := by
  have nc : ∀ op', (∀ r p ps hh, op' ≠ Op.move r p ps hh ∧ op' ≠ Op.moveAbs r p ps hh) → (step b op').calls = [] := step_calls_nil b
  cases op with
  | move r p ps h =>
    obtain ⟨⟨req, rfl⟩, hd⟩ := hok
    refine ⟨?_, by rw [step_ctx b _ (by simp) (by simp)]; rfl⟩
    cases r
    · simp only [srcStep, ofPt_fin, Bool.false_eq_true, if_false] at hd ⊢; exact MotionTie_move b req ps h hd
    · simp only [srcStep, ofPt_fin, if_true] at hd ⊢; exact MotionTie_rapid b req ps h hd
  | moveAbs r p ps h =>
    obtain ⟨⟨req, rfl⟩, hs, hd, hd'⟩ := hok
    refine ⟨?_, by rw [step_ctx b _ (by simp) (by simp)]; rfl⟩
    cases r
    · simp only [srcStep, ofPt_fin, Bool.false_eq_true, if_false]; exact MotionTie_move_absolute b req ps h hs hd (hd' rfl)
    · simp only [srcStep, ofPt_fin, if_true]; exact MotionTie_rapid_absolute b req ps h hs hd
  | setAxis p ps =>
    obtain ⟨req, rfl⟩ := hok
    exact ⟨by simp only [srcStep, ofPt_fin]; exact MotionTie_set_axis b req ps 0, by rw [step_ctx b _ (by simp) (by simp)]; rfl⟩
  | home p ps =>
    obtain ⟨req, rfl⟩ := hok
    exact ⟨by simp only [srcStep, ofPt_fin]; exact MotionTie_auto_home b req ps 0, by rw [step_ctx b _ (by simp) (by simp)]; rfl⟩
  | probe m p ps =>
    obtain ⟨⟨req, rfl⟩, hd⟩ := hok
    exact ⟨by simp only [srcStep, ofPt_fin]; exact MotionTie_probe b m req ps 0 hd, by rw [step_ctx b _ (by simp) (by simp)]; rfl⟩
  | setDist r => exact ⟨agreesB_M _ b _ (BuilderTie_distance_mode b r).1 (nc _ (by simp)), by rw [step_ctx b _ (by simp) (by simp)]; rfl⟩
  | setDistBogus => exact ⟨agreesB_M _ b _ (BuilderTie_distance_mode b false).2 (nc _ (by simp)), by rw [step_ctx b _ (by simp) (by simp)]; rfl⟩
  | enterCtx r =>
    have hc := (MotionTie_contexts b r 0).1
    simp only at hc
    obtain ⟨h1, h2, h3, h4, h5⟩ := hc
    simp only [srcStep, h1]
    refine ⟨⟨h4, ?_, h3, ?_⟩, by rw [h5]; rfl⟩
    · rw [h2]
      have : (if r then GCodeCore.relative_mode_enter (absB b) 0 else GCodeCore.absolute_mode_enter (absB b) 0).1.calls = [] := by
        have := congrArg BSt.calls h2; simpa [absB] using this.symm
      generalize (if r then GCodeCore.relative_mode_enter (absB b) 0 else GCodeCore.absolute_mode_enter (absB b) 0).1 = g at this ⊢
      cases g; simp_all
    · have : (if r then GCodeCore.relative_mode_enter (absB b) 0 else GCodeCore.absolute_mode_enter (absB b) 0).1.calls = [] := by
        have := congrArg BSt.calls h2; simpa [absB] using this.symm
      rw [this, nc _ (by simp)]
  | exitCtx =>
    cases hcx : b.ctx with
    | nil => simp only [srcStep, hcx, List.map_nil, step]; exact ⟨⟨rfl, rfl, rfl, rfl⟩, by simp [accept, hcx]⟩
    | cons prev rest =>
      obtain ⟨h1, _, h3⟩ := (MotionTie_contexts b false 0).2 prev rest hcx
      simp only [srcStep, List.map_cons]
      exact ⟨h1, by rw [h3]⟩
  | feed v => exact ⟨agreesB_M _ b _ (BuilderTie_feed b v hok) (nc _ (by simp)), by rw [step_ctx b _ (by simp) (by simp)]; rfl⟩
  | power v => exact ⟨agreesB_M _ b _ (BuilderTie_power b v hok) (nc _ (by simp)), by rw [step_ctx b _ (by simp) (by simp)]; rfl⟩
  | toolOn m v => exact ⟨agreesB_M _ b _ (BuilderTie_tool_on b m v hok) (nc _ (by simp)), by rw [step_ctx b _ (by simp) (by simp)]; rfl⟩
  | toolOff => exact ⟨agreesB_M _ b _ (BuilderTie_tool_off b) (nc _ (by simp)), by rw [step_ctx b _ (by simp) (by simp)]; rfl⟩
  | powerOn m v => exact ⟨agreesB_M _ b _ (BuilderTie_power_on b m v hok) (nc _ (by simp)), by rw [step_ctx b _ (by simp) (by simp)]; rfl⟩
  | powerOff => exact ⟨agreesB_M _ b _ (BuilderTie_power_off b) (nc _ (by simp)), by rw [step_ctx b _ (by simp) (by simp)]; rfl⟩
  | coolOn m => exact ⟨agreesB_M _ b _ (BuilderTie_coolant_on b m) (nc _ (by simp)), by rw [step_ctx b _ (by simp) (by simp)]; rfl⟩
  | coolOff => exact ⟨agreesB_M _ b _ (BuilderTie_coolant_off b) (nc _ (by simp)), by rw [step_ctx b _ (by simp) (by simp)]; rfl⟩
  | toolChange m n => exact ⟨agreesB_M _ b _ (BuilderTie_tool_change b m n) (nc _ (by simp)), by rw [step_ctx b _ (by simp) (by simp)]; rfl⟩
  | halt m ps => exact ⟨MotionTie_halt b m ps 0 hok, by rw [step_ctx b _ (by simp) (by simp)]; rfl⟩
  | ehalt reset => exact ⟨MotionTie_emergency_halt b reset 0, by rw [step_ctx b _ (by simp) (by simp)]; rfl⟩
  | bed v => exact ⟨agreesB_M _ b _ (BuilderTie_bed b v) (nc _ (by simp)), by rw [step_ctx b _ (by simp) (by simp)]; rfl⟩
  | hotend v => exact ⟨agreesB_M _ b _ (BuilderTie_hotend b v) (nc _ (by simp)), by rw [step_ctx b _ (by simp) (by simp)]; rfl⟩
  | chamber v => exact ⟨agreesB_M _ b _ (BuilderTie_chamber b v) (nc _ (by simp)), by rw [step_ctx b _ (by simp) (by simp)]; rfl⟩
  | sleep v => exact ⟨agreesB_M _ b _ (BuilderTie_sleep b v) (nc _ (by simp)), by rw [step_ctx b _ (by simp) (by simp)]; rfl⟩
  | fan v n => exact ⟨agreesB_M _ b _ (BuilderTie_fan b v n) (nc _ (by simp)), by rw [step_ctx b _ (by simp) (by simp)]; rfl⟩
  | units i => exact ⟨MotionTie_length_units b i 0 hok, by rw [step_ctx b _ (by simp) (by simp)]; rfl⟩
  | plane n => exact ⟨agreesB_M _ b _ (BuilderTie_plane b n) (nc _ (by simp)), by rw [step_ctx b _ (by simp) (by simp)]; rfl⟩
  | direction c => exact ⟨agreesB_M _ b _ ((BuilderTie_plain b).1 c) (nc _ (by simp)), by rw [step_ctx b _ (by simp) (by simp)]; rfl⟩
  | resolution q => exact ⟨agreesB_M _ b _ ((BuilderTie_plain b).2.2.2 q) (nc _ (by simp)), by rw [step_ctx b _ (by simp) (by simp)]; rfl⟩
  | emode r => exact ⟨agreesB_M _ b _ (BuilderTie_extrusion_mode b r) (nc _ (by simp)), by rw [step_ctx b _ (by simp) (by simp)]; rfl⟩
  | fmode n => exact ⟨agreesB_M _ b _ (BuilderTie_feed_mode b n) (nc _ (by simp)), by rw [step_ctx b _ (by simp) (by simp)]; rfl⟩
  | timeUnits t => exact ⟨agreesB_M _ b _ ((BuilderTie_plain b).2.1 t) (nc _ (by simp)), by rw [step_ctx b _ (by simp) (by simp)]; rfl⟩
  | tempUnits k => exact ⟨agreesB_M _ b _ ((BuilderTie_plain b).2.2.1 k) (nc _ (by simp)), by rw [step_ctx b _ (by simp) (by simp)]; rfl⟩
  | query t => exact ⟨agreesB_M _ b _ (BuilderTie_query b t) (nc _ (by simp)), by rw [step_ctx b _ (by simp) (by simp)]; rfl⟩
  | comment => exact ⟨MotionTie_comment b 0, by rw [step_ctx b _ (by simp) (by simp)]; rfl⟩
  | addHook hk => exact ⟨(MotionTie_hooks b hk 0).1, by rw [step_ctx b _ (by simp) (by simp)]; rfl⟩
  | removeHook hk => exact ⟨(MotionTie_hooks b hk 0).2, by rw [step_ctx b _ (by simp) (by simp)]; rfl⟩
  | boundsAxes lo hi => exact hok.elim
  | boundsNum k lo hi => exact hok.elim

namespace GscribModel.MotionTie

/-- the side conditions along a whole history -/
def HistOk (b : B) : List Op → Prop
  | [] => True
  | op :: ops => OpOk b op ∧ HistOk (step b op).b ops

/-- a whole history on the translated source: each command starts with an empty log (`out`, `calls` are per-call logs of what
    was handed to `GCodeCore.write` / to the hooks; no translated command reads them) and what it logged is collected -/
def srcRun (s : BSt) (cx : List DistanceMode) : List Op → BSt × List SStmt
  | [] => ({ s with out := [], calls := [] }, [])
  | op :: ops =>
    let g := srcStep { s with out := [], calls := [] } cx op
    let r := srcRun g.1.1 g.2 ops
    (r.1, g.1.1.out ++ r.2)

end GscribModel.MotionTie

open GscribModel.MotionTie in
/-- **Every history**: from any builder value, running the *translated source* of the commands of a history yields the builder the
    model's `run` yields and the same statements in the same order (instruction, axis words, other words).  Every theorem about
    `run` (C01_agree_run, C02_run_safe, C03, C05_history_erasure, C07_mirror_run, C11, C20 …) therefore speaks about what the
    translated source writes and tracks. -/
theorem MotionTie_run (ops : List Op) : ∀ (b : B), HistOk b ops →
    absB (run b ops).1 = (srcRun (absB b) (b.ctx.map dmOf) ops).1 ∧
    (run b ops).2.map view = (srcRun (absB b) (b.ctx.map dmOf) ops).2.map conv := by
  induction ops with
  | nil => intro b _; exact ⟨rfl, rfl⟩
  | cons op ops ih =>
    intro b hok
    obtain ⟨h1, h2⟩ := hok
    obtain ⟨⟨_, hb, hs, _⟩, hc⟩ := MotionTie_step b op h1
    have e0 : ({ absB b with out := [], calls := [] } : BSt) = absB b := rfl
    have ih' := ih (step b op).b h2
    simp only [run, srcRun, e0]
    rw [hc]
    have e1 : (srcStep (absB b) (b.ctx.map dmOf) op).1.1 =
        { (srcStep (absB b) (b.ctx.map dmOf) op).1.1 with out := (srcStep (absB b) (b.ctx.map dmOf) op).1.1.out,
                                                          calls := (srcStep (absB b) (b.ctx.map dmOf) op).1.1.calls } := rfl
    have key : ∀ (g : BSt) (cx : List DistanceMode) (os : List Op), absB (step b op).b = { g with out := [], calls := [] } →
        srcRun g cx os = srcRun (absB (step b op).b) cx os := by
      intro g cx os hg
      cases os with
      | nil => simp only [srcRun, hg]
      | cons o os' =>
        have e2 : ({ absB (step b op).b with out := [], calls := [] } : BSt) = absB (step b op).b := rfl
        simp only [srcRun, ← hg, e2]
    rw [key _ _ _ hb]
    exact ⟨ih'.1, by simp only [List.map_append, hs, ih'.2]⟩

namespace GscribModel.MotionTie
/-- the two state conditions `OpOk` asks for are invariants of every history -/
def SyncInv (b : B) : Prop := b.srel = b.rel ∧ 0 < b.res

theorem sync_step (b : B) (op : Op) (h : SyncInv b) : SyncInv (step b op).b := by
  obtain ⟨h1, h2⟩ := h
  cases op <;> simp only [step, stepMove, stepMoveAbs, stepSetAxis, stepHome, stepProbe, stepHalt, stepSetDist, stepToolOff, stepPowerOff,
      stepCoolOff, reject, accept, SyncInv] <;>
    ((repeat' split) <;> first
      | exact ⟨h1, h2⟩
      | (simp only [B.commitAxes, B.track]; (repeat' split) <;> first | exact ⟨h1, h2⟩ | (constructor <;> first | rfl | assumption | simp_all))
      | (constructor <;> first | rfl | assumption | (exact Rat.not_le.mp (by assumption)) | simp_all))

theorem sync_init : SyncInv {} := ⟨rfl, by decide +kernel⟩
end GscribModel.MotionTie

/-- non-vacuity of `MotionTie_run`: a history with a context, a bypass move and a rejected move, run on the translated source -/
example :
    let ops : List Op := [.setAxis ⟨some (.fin 0), some (.fin 0), some (.fin 0)⟩ [], .enterCtx true, .move false ⟨some (.fin 1), none, none⟩ [("F", .fin 100)] 0,
      .moveAbs true ⟨none, some (.fin 5), none⟩ [] 0, .move false ⟨some .nan, none, none⟩ [] 0, .exitCtx, .ehalt false]
    (GscribModel.MotionTie.srcRun (absB {}) [] ops).2.map conv =
      [(["G92"], ⟨some 0, some 0, some 0⟩, []), (["G91"], {}, []), (["G1"], ⟨some 1, none, none⟩, [("F", 100)]),
       (["G90"], {}, []), (["G0"], ⟨none, some 5, none⟩, []), (["G91"], {}, []), (["G90"], {}, []),
       (["M05"], {}, []), (["M09"], {}, []), ([], {}, []), (["M00"], {}, [])] ∧
    (GscribModel.MotionTie.srcRun (absB {}) [] ops).1._current_axes = ⟨some 1, some 5, some 0⟩ := by decide +kernel


/-! ## The move path under a transform (C04)

`Model/Transform.lean` transcribes `to_absolute` / `_transform_move` by hand for the C04/C13 model.  Here the translated
`_transform_move`, with `self.transform.apply_transform` an arbitrary function `T`, is shown to be that transcription when
`T` is the transformer of the model - for every transformer state, every tracked position (unknown axes included), every
request and both distance modes.  The transform is read nowhere else on the move path (any other `self.transform` in a
translated method is refused by the translator), and `T := id` is the text the other theorems of this file are about. -/
namespace GscribModel.MotionTie
open GscribModel.PointTie

/-- the transformer of the C04/C13 model as the function the translated source applies to a point -/
def xfOf (tr : GscribModel.Transform.Tr) (p : Pt) : Pt := ofV (tr.applyTransform ⟨p.x, p.y, p.z⟩)

theorem ptAdd_ofV (a b : GscribModel.Transform.V3) : ptAdd (ofV a) (ofV b) = ofV (a.add b) := rfl
theorem ptSub_ofV (a b : GscribModel.Transform.V3) : ptSub (ofV a) (ofV b) = ofV (a.sub b) := rfl
theorem xfOf_ofV (tr : GscribModel.Transform.Tr) (v : GscribModel.Transform.V3) :
    xfOf tr (ofV v) = ofV (tr.applyTransform (GscribModel.Transform.Pt.ofV3 v)) := rfl
end GscribModel.MotionTie

open GscribModel.MotionTie GscribModel.PointTie in
/-- the text the motion theorems are about is the general text at `T := id` -/
theorem MotionTie_transform_move_id (s : BSt) (p : Pt) (h : Rat) :
    GCodeCore._transform_move s p h = GCodeCore._transform_move_T applyTransformId s p h := rfl

open GscribModel.MotionTie GscribModel.PointTie in
/-- **`_transform_move` under any transform is the C04 model's `transformMove`**: same move vector (the words written), same
    new tracked position, the builder untouched. -/
theorem MotionTie_transform_move_xf (c : GscribModel.Transform.Core) (s : BSt) (req : GscribModel.Transform.Pt) (h : Rat)
    (hax : s._current_axes = ofT c.axes) (hdm : s._distance_mode = dmOf c.rel) :
    GCodeCore._transform_move_T (xfOf c.tr) s (ofT req) h =
      (s, .ok (ofT (c.transformMove req).1, ofV (c.transformMove req).2)) := by
  simp only [GCodeCore._transform_move_T, GCodeCore.to_absolute, hax, hdm, PointTie_transform_resolve]
  by_cases hr : c.rel = true
  · simp only [hr, dmOf, cond_true, decide_true, if_true, ptAdd_ofV, xfOf_ofV, ptSub_ofV, PointTie_transform_combine,
      GscribModel.Transform.Core.transformMove, GscribModel.Transform.Core.moveVector, GscribModel.Transform.Core.toAbsolute]
  · have hf : c.rel = false := by simpa using hr
    have hq : GscribModel.Gen.PointSrc.replace (ofV c.axes.resolve) (ofT req).x (ofT req).y (ofT req).z = ofV (c.axes.resolve.replace req) :=
      PointTie_transform_replace _ _
    have hd : decide (DistanceMode.ABSOLUTE = DistanceMode.RELATIVE) = false := by decide
    simp only [hf, dmOf, cond_false, hq, hd, Bool.false_eq_true, if_false, xfOf_ofV, PointTie_transform_combine,
      GscribModel.Transform.Core.transformMove, GscribModel.Transform.Core.moveVector, GscribModel.Transform.Core.toAbsolute]

namespace GscribModel.MotionTie
open GscribModel.PointTie

theorem okAxes_none (bd : Bounds) (p : Pt) (hb : bd.axes = none) : bd.okAxes p = true := by
  simp [Bounds.okAxes, hb]

/-- `GCodeBuilder._transform_move` under the model's transformer, no axes bounds set: the C04 model's move vector and target -/
theorem builder_transform_move_xf (c : GscribModel.Transform.Core) (b : B) (req : GscribModel.Transform.Pt) (h : Rat)
    (hax : b.axes = ofT c.axes) (hrel : b.rel = c.rel) (hb : b.bounds.axes = none) :
    GCodeBuilder._transform_move_T (xfOf c.tr) (absB' b [] []) (ofT req) h =
      (absB' b [] [], .ok (ofT (c.transformMove req).1, ofV (c.transformMove req).2)) := by
  have h1 : (absB' b [] [])._current_axes = ofT c.axes := hax
  have h2 : (absB' b [] [])._distance_mode = dmOf c.rel := by
    show (bif b.rel then DistanceMode.RELATIVE else DistanceMode.ABSOLUTE) = dmOf c.rel
    rw [hrel]; rfl
  have hbd : (absB' b [] []).state._user_bounds = b.bounds := rfl
  simp only [GCodeBuilder._transform_move_T, MotionTie_transform_move_xf c _ req h h1 h2, validatePt, hbd, okAxes_none _ _ hb]
  simp
end GscribModel.MotionTie

open GscribModel.MotionTie GscribModel.PointTie in
/-- the texts the motion theorems are about are the general texts at `T := id` -/
theorem MotionTie_move_chain_id (s : BSt) (p : Pt) (k : VParams) (h : Rat) :
    GCodeBuilder._transform_move s p h = GCodeBuilder._transform_move_T applyTransformId s p h ∧
    GCodeCore.move s p k h = GCodeCore.move_T applyTransformId s p k h ∧
    GCodeCore.rapid s p k h = GCodeCore.rapid_T applyTransformId s p k h := ⟨rfl, rfl, rfl⟩

open GscribModel.MotionTie GscribModel.PointTie in
/-- **`move()` / `rapid()` under any transform are the C04 model's `go`**: from a builder whose tracked position and distance
    mode are the model's (no hooks, no axes bounds, no extra words), the translated command succeeds, writes exactly one
    `G1` / `G0` whose axis words are the model's move vector - the image of the target in absolute mode, the linear image of
    the displacement in relative mode, unmentioned and unmoved axes left out - and tracks the model's new position. -/
theorem MotionTie_go_xf (c : GscribModel.Transform.Core) (b : B) (rapid : Bool) (req : GscribModel.Transform.Pt) (h : Rat)
    (hax : b.axes = ofT c.axes) (hrel : b.rel = c.rel) (hh : b.hooks = []) (hb : b.bounds.axes = none) :
    let g := if rapid then GCodeCore.rapid_T (xfOf c.tr) (absB b) (ofT req) [] h else GCodeCore.move_T (xfOf c.tr) (absB b) (ofT req) [] h
    g.2 = none ∧ g.1._current_axes = ofT (c.go rapid req).1.axes ∧
    g.1.out.map conv = [([if rapid then "G0" else "G1"], ofT (c.transformMove req).1, [])] := by
  have e0 : absB b = absB' b [] [] := rfl
  have hd : DoubleFS [] := by
    intro ws hw; cases hw
    refine ⟨?_, ?_⟩
    · intro f hf; cases hf
    · intro s hs; cases hs
  have hemp : b.hooks.isEmpty = true := by rw [hh]; rfl
  have hd' : DoubleFS (if b.hooks.isEmpty then [] else applyHooks b h []) := by rw [hemp]; exact hd
  have hfin : VParams.fin? ([] : VParams) = some [] := rfl
  have hok : b.okTrack [] = true := rfl
  have htr : b.track [] = b := rfl
  cases rapid
  · simp only [Bool.false_eq_true, if_false, GCodeCore.move_T, processMoveParams, e0, builder_transform_move_xf c b req h hax hrel hb,
      prepare_move_eq b [] [] _ (ofT req) [] h hd', hemp, if_true, prepared, hfin, hok, htr,
      update_axes_eq b [] [] _ (ofT req) [] [] hfin, okAxes_none _ _ hb, write_eq]
    refine ⟨trivial, ?_, ?_⟩
    · rfl
    · simp [absB', conv, partCodes, partAx, partWords]
  · simp only [if_true, GCodeCore.rapid_T, processMoveParams, e0, builder_transform_move_xf c b req h hax hrel hb,
      prepare_rapid_eq b [] [] _ (ofT req) [] h hd, prepared, hfin, hok, htr,
      update_axes_eq b [] [] _ (ofT req) [] [] hfin, okAxes_none _ _ hb, write_eq]
    refine ⟨trivial, ?_, ?_⟩
    · rfl
    · simp [absB', conv, partCodes, partAx, partWords]

/-! ## The bypass commands and `set_axis` against the C04 model -/
namespace GscribModel.MotionTie
open GscribModel.PointTie
/-- a statement of the C04 model as the ties compare statements: instruction text, axis words, other words -/
def stmtView : GscribModel.Transform.Stmt → List String × Pt × List (String × Rat)
  | .mode rel => ([if rel then "G91" else "G90"], {}, [])
  | .go rapid w => ([if rapid then "G0" else "G1"], ofT w, [])
  | .set w => (["G92"], ofT w, [])
end GscribModel.MotionTie


namespace GscribModel.MotionTie
theorem stepMoveAbs_plain (b : B) (rapid : Bool) (req : Pt) (h : Rat) (hh : b.hooks = [])
    (hk : b.bounds.okAxes (b.axes.replace req) = true) :
    stepMoveAbs b rapid (VPt.ofPt req) [] h =
      (let b2 := (({ b with rel := false, srel := false } : B).track []).commitAxes (b.axes.replace req) req []
       let g : Stmt := { codes := [if rapid then .G0 else .G1], ax := req, words := [] }
       if b.rel then { accept { b2 with rel := true, srel := true } [modeStmt false, g, modeStmt true] with calls := [] }
       else { accept b2 [g] with calls := [] }) := by
  have hf : VParams.fin? ([] : VParams) = some [] := rfl
  have ht : ∀ b' : B, b'.okTrack [] = true := fun _ => rfl
  simp only [stepMoveAbs, ofPt_fin, hf, hk, hh, ht, List.isEmpty_nil, Bool.not_true, Bool.and_false, Bool.false_eq_true, if_false]

theorem agrees_ok (r : Res) (g : BSt × Option Err) (hag : AgreesM r g) (hok : r.out = .ok) :
    g.2 = none ∧ g.1._current_axes = r.b.axes ∧ g.1.out.map conv = r.stmts.map view := by
  obtain ⟨h1, h2, h3, _⟩ := hag
  refine ⟨?_, ?_, h3.symm⟩
  · rw [hok] at h1
    cases hg : g.2 with
    | none => rfl
    | some e => rw [hg] at h1; cases h1
  · have := congrArg BSt._current_axes h2
    exact this.symm
end GscribModel.MotionTie

open GscribModel.MotionTie GscribModel.PointTie in
/-- **`move_absolute()` / `rapid_absolute()` are the C04 model's `goAbs`** (they bypass the transform: the raw request is written, bracketed by
    `G90` … `G91` in relative mode, and replaces the requested coordinates of the tracked position) -/
theorem MotionTie_goabs_xf (c : GscribModel.Transform.Core) (b : B) (rapid : Bool) (req : GscribModel.Transform.Pt) (h : Rat)
    (hax : b.axes = ofT c.axes) (hrel : b.rel = c.rel) (hsync : b.srel = b.rel) (hh : b.hooks = []) (hb : b.bounds.axes = none) :
    let g := if rapid then GCodeBuilder.rapid_absolute (absB b) (ofT req) [] h else GCodeBuilder.move_absolute (absB b) (ofT req) [] h
    g.2 = none ∧ g.1._current_axes = ofT (c.goAbs rapid req).1.axes ∧ g.1.out.map conv = (c.goAbs rapid req).2.map stmtView := by
  have hd : DoubleFS [] := by
    intro ws hw; cases hw
    refine ⟨?_, ?_⟩
    · intro f hf; cases hf
    · intro s hs; cases hs
  have hemp : b.hooks.isEmpty = true := by rw [hh]; rfl
  have hd' : DoubleFS (if b.hooks.isEmpty then [] else applyHooks { b with rel := false, srel := false } h []) := by rw [hemp]; exact hd
  have hrep : b.axes.replace (ofT req) = ofT (GscribModel.Transform.Pt.replace c.axes req) := by
    rw [hax, ← PointTie_replace]; exact PointTie_transform_replace_pt c.axes req
  have hk : b.bounds.okAxes (b.axes.replace (ofT req)) = true := okAxes_none _ _ hb
  cases rapid
  · simp only [Bool.false_eq_true, if_false]
    have ag := MotionTie_move_absolute b (ofT req) [] h hsync hd hd'
    simp only [step, stepMoveAbs_plain b false (ofT req) h hh hk] at ag
    by_cases hr : b.rel = true
    · have hc : c.rel = true := by rw [← hrel]; exact hr
      simp only [hr, if_true] at ag
      obtain ⟨g1, g2, g3⟩ := agrees_ok _ _ ag rfl
      refine ⟨g1, ?_, ?_⟩
      · rw [g2]; simp only [GscribModel.Transform.Core.goAbs]; exact hrep
      · rw [g3]; simp only [GscribModel.Transform.Core.goAbs, hc, if_true]; rfl
    · have hr' : b.rel = false := by simpa using hr
      have hc : c.rel = false := by rw [← hrel]; exact hr'
      simp only [hr', Bool.false_eq_true, if_false] at ag
      obtain ⟨g1, g2, g3⟩ := agrees_ok _ _ ag rfl
      refine ⟨g1, ?_, ?_⟩
      · rw [g2]; simp only [GscribModel.Transform.Core.goAbs]; exact hrep
      · rw [g3]; simp only [GscribModel.Transform.Core.goAbs, hc, Bool.false_eq_true, if_false]; rfl
  · simp only [if_true]
    have ag := MotionTie_rapid_absolute b (ofT req) [] h hsync hd
    simp only [step, stepMoveAbs_plain b true (ofT req) h hh hk] at ag
    by_cases hr : b.rel = true
    · have hc : c.rel = true := by rw [← hrel]; exact hr
      simp only [hr, if_true] at ag
      obtain ⟨g1, g2, g3⟩ := agrees_ok _ _ ag rfl
      refine ⟨g1, ?_, ?_⟩
      · rw [g2]; simp only [GscribModel.Transform.Core.goAbs]; exact hrep
      · rw [g3]; simp only [GscribModel.Transform.Core.goAbs, hc, if_true]; rfl
    · have hr' : b.rel = false := by simpa using hr
      have hc : c.rel = false := by rw [← hrel]; exact hr'
      simp only [hr', Bool.false_eq_true, if_false] at ag
      obtain ⟨g1, g2, g3⟩ := agrees_ok _ _ ag rfl
      refine ⟨g1, ?_, ?_⟩
      · rw [g2]; simp only [GscribModel.Transform.Core.goAbs]; exact hrep
      · rw [g3]; simp only [GscribModel.Transform.Core.goAbs, hc, Bool.false_eq_true, if_false]; rfl

open GscribModel.MotionTie GscribModel.PointTie in
/-- **`set_axis()` is the C04 model's `setAxis`**: `G92` with the raw request, no transform applied -/
theorem MotionTie_setaxis_xf (c : GscribModel.Transform.Core) (b : B) (req : GscribModel.Transform.Pt) (h : Rat)
    (hax : b.axes = ofT c.axes) (hb : b.bounds.axes = none) :
    let g := GCodeBuilder.set_axis (absB b) (ofT req) [] h
    g.2 = none ∧ g.1._current_axes = ofT (c.setAxis req).1.axes ∧ g.1.out.map conv = (c.setAxis req).2.map stmtView := by
  have hrep : b.axes.replace (ofT req) = ofT (GscribModel.Transform.Pt.replace c.axes req) := by
    rw [hax, ← PointTie_replace]; exact PointTie_transform_replace_pt c.axes req
  have hk : b.bounds.okAxes (b.axes.replace (ofT req)) = true := okAxes_none _ _ hb
  have hf : VParams.fin? ([] : VParams) = some [] := rfl
  have ag := MotionTie_set_axis b (ofT req) [] h
  simp only [step, stepSetAxis, ofPt_fin, hf, hk, Bool.not_true, Bool.false_eq_true, if_false] at ag
  obtain ⟨g1, g2, g3⟩ := agrees_ok _ _ ag rfl
  refine ⟨g1, ?_, ?_⟩
  · rw [g2]; simp only [GscribModel.Transform.Core.setAxis]; exact hrep
  · rw [g3]; rfl

open GscribModel.MotionTie GscribModel.PointTie in
/-- `MotionTie_go_xf` in the same vocabulary: what the translated `move()` / `rapid()` write is the model's statement list -/
theorem MotionTie_go_stmt_xf (c : GscribModel.Transform.Core) (b : B) (rapid : Bool) (req : GscribModel.Transform.Pt) (h : Rat)
    (hax : b.axes = ofT c.axes) (hrel : b.rel = c.rel) (hh : b.hooks = []) (hb : b.bounds.axes = none) :
    (if rapid then GCodeCore.rapid_T (xfOf c.tr) (absB b) (ofT req) [] h else GCodeCore.move_T (xfOf c.tr) (absB b) (ofT req) [] h).1.out.map conv =
      (c.go rapid req).2.map stmtView := by
  rw [(MotionTie_go_xf c b rapid req h hax hrel hh hb).2.2]
  rfl

/-! ## Probes under a transform -/
open GscribModel.MotionTie GscribModel.PointTie in
theorem MotionTie_probe_id (s : BSt) (m : Arg ProbingMode) (p : Pt) (k : VParams) (h : Rat) :
    GCodeBuilder.probe s m p k h = GCodeBuilder.probe_T applyTransformId s m p k h := rfl

open GscribModel.MotionTie GscribModel.PointTie in
/-- **`probe()` under any transform**: one probe statement whose axis words are the C04 model's move vector for the request (the
    image of the target in absolute mode, the linear image of the displacement in relative mode, unmentioned and unmoved axes left
    out); afterwards exactly the probed axes of the tracked position are unknown, the others hold the target. -/
theorem MotionTie_probe_xf (c : GscribModel.Transform.Core) (b : B) (m : ProbeArg) (hm : m ≠ .bogus) (req : GscribModel.Transform.Pt) (h : Rat)
    (hax : b.axes = ofT c.axes) (hrel : b.rel = c.rel) (hb : b.bounds.axes = none) :
    let g := GCodeBuilder.probe_T (xfOf c.tr) (absB b) (argProbe m) (ofT req) [] h
    g.2 = none ∧ g.1._current_axes = (ofV (c.transformMove req).2).mask (ofT (c.transformMove req).1) ∧
    g.1.out.map conv = [([m.code.text], ofT (c.transformMove req).1, [])] := by
  have e0 : absB b = absB' b [] [] := rfl
  have hfin : VParams.fin? ([] : VParams) = some [] := rfl
  have hok : b.okTrack [] = true := rfl
  have htr : b.track [] = b := rfl
  have hF : ∀ f, lookupQ ([] : List (String × Rat)) "F" = some f → Val.isDouble (.fin f) := by intro f hf; cases hf
  have hS : ∀ s, lookupQ ([] : List (String × Rat)) "S" = some s → Val.isDouble (.fin s) := by intro s hs; cases hs
  cases m with
  | bogus => exact absurd rfl hm
  | towards | towardsNoErr | away | awayNoErr =>
    simp only [GCodeBuilder.probe_T, argProbe, pmp1, pmp2, e0, builder_transform_move_xf c b req h hax hrel hb, MP.withXYZ, getStatementMP_eq,
      hfin, Option.map_some, track_eq b [] [] [] (ofT req) [] hfin hF hS, hok, if_true, htr, PointTie_mask,
      update_axes_eq b [] [] _ (ofT req) [] [] hfin, okAxes_none _ _ hb, write_eq]
    refine ⟨trivial, rfl, ?_⟩
    simp [absB', conv, partCodes, partAx, partWords, tlm, ProbingMode.memberName, ProbeArg.code, Code.text]

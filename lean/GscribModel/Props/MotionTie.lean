import GscribModel.Gen.MotionSrc
import GscribModel.Props.BuilderTie
import GscribModel.Props.PointTie
/-! # The builder model's motion commands are the translated `GCodeBuilder` / `GCodeCore` methods

`Gen/MotionSrc.lean` is *generated* on every run (`tools/gen_motion.py`) from the source text of
`gscrib/gcode_builder.py` and `gscrib/gcode_core.py`: `move`, `rapid`, `move_absolute`, `rapid_absolute` (with the
`absolute_mode()` context manager they run in), `set_axis`, `auto_home`, `probe` and the helpers behind them
(`to_absolute`, `_transform_move`, `_prepare_move`, `_prepare_rapid`, `_track_move_params`, `_validate_absolute_move`).
`AgreesM` between the hand-written model's `step` and the translation, for every builder state, every finite target,
every parameter list (NaN and ±inf included), every list of registered hooks:

* same outcome (accepted, or rejected with the same exception class);
* same builder afterwards — on a rejection that is the builder as it was before the call (C05), on success the
  tracked position of the core *and* of the state object, the remembered parameters, feed and power (C01, C07);
* same statements handed to `GCodeCore.write`, in the same order: instruction, axis words, other words (C01, C03, C11);
* same hook calls: every registered hook once per linear move with the true origin and target (C20).

Hypotheses: `Val.isDouble` for the F and S words that reach the validators (a finite double is at most
`sys.float_info.max`).  Coordinates are finite (`Pt`); no transform is active (`applyTransformId`). -/
open GscribModel.Builder GscribModel.GenPrelude GscribModel.Gen.StateSrc GscribModel.Gen.BuilderSrc GscribModel.Gen.MotionSrc
open GscribModel.StateTie GscribModel.BuilderTie GscribModel.Gen
namespace GscribModel.MotionTie

/-- the builder object a model value stands for, with what has been written and the hook calls made so far -/
def absB' (b : B) (o : List SStmt) (c : List HookCall) : BSt := { absB b with out := o, calls := c }

def partCodes3 : Part → List String
  | .instr c m _ => [(tableLookup c m).getD "?"]
  | .gcode i _ _ => [i]
  | .ainstr c m _ _ => [(tableLookup c m).getD "?"]
  | _ => []
def partAx : Part → Pt
  | .gcode _ ax _ => ax
  | .ainstr _ _ ax _ => ax
  | _ => {}
/-- a translated statement as (instructions, axis words, other words) -/
def conv3 (s : SStmt) : List String × Pt × List (String × Rat) :=
  (s.flatMap partCodes3, (s.head?.map partAx).getD {}, s.flatMap partWords)
def view3 (s : Stmt) : List String × Pt × List (String × Rat) := (s.codes.map Code.text, s.ax, s.words)

def outOf : Option Err → Out
  | some e => .error e
  | none => .ok

/-- agreement of a model step with a translated command run from `absB b` -/
def AgreesM (r : Res) (g : BSt × Option Err) : Prop :=
  r.out = outOf g.2 ∧ absB r.b = { g.1 with out := [], calls := [] } ∧ r.stmts.map view3 = g.1.out.map conv3 ∧ r.calls = g.1.calls

def VPt.ofPt (p : Pt) : VPt := ⟨p.x.map Val.fin, p.y.map Val.fin, p.z.map Val.fin⟩

theorem ofPt_fin (p : Pt) : (VPt.ofPt p).fin? = some p := by
  obtain ⟨x, y, z⟩ := p
  cases x <;> cases y <;> cases z <;> rfl

/-- every finite value in the list is a double -/
def Doubles (ps : VParams) : Prop := ∀ e ∈ ps, Val.isDouble e.2


/-! ## helpers: each translated helper in closed form -/

theorem dm_rel (b : B) : decide ((bif b.rel then DistanceMode.RELATIVE else DistanceMode.ABSOLUTE) = DistanceMode.RELATIVE) = b.rel := by
  cases b.rel <;> rfl

theorem to_absolute_eq (b : B) (o : List SStmt) (c : List HookCall) (p : Pt) (h : Rat) :
    GCodeCore.to_absolute (absB' b o c) p h = (absB' b o c, .ok (b.toAbsolute p)) := by
  simp only [GCodeCore.to_absolute, absB', absB, PointTie_resolve, PointTie_replace, ptAdd, B.toAbsolute]
  by_cases hr : b.rel = true <;> simp [hr]

/-- the statement's axis words and the tracked target, as the model computes them -/
def wordOf (b : B) (req : Pt) : Pt :=
  req.combine b.axes.resolve (b.toAbsolute req) (if b.rel then (b.toAbsolute req).sub b.axes.resolve else b.toAbsolute req)

theorem core_transform_move_eq (b : B) (o : List SStmt) (c : List HookCall) (req : Pt) (h : Rat) :
    GCodeCore._transform_move (absB' b o c) req h = (absB' b o c, .ok (wordOf b req, b.toAbsolute req)) := by
  simp only [GCodeCore._transform_move, to_absolute_eq, applyTransformId, PointTie_combine, ptSub, wordOf]
  simp only [absB', absB, PointTie_resolve]
  by_cases hr : b.rel = true <;> simp [hr]

theorem transform_move_eq (b : B) (o : List SStmt) (c : List HookCall) (req : Pt) (h : Rat) :
    GCodeBuilder._transform_move (absB' b o c) req h =
      if b.bounds.okAxes (b.toAbsolute req) then (absB' b o c, .ok (wordOf b req, b.toAbsolute req))
      else (absB' b o c, .error .valueError) := by
  simp only [GCodeBuilder._transform_move, core_transform_move_eq, validatePt]
  have hb : (absB' b o c).state._user_bounds = b.bounds := rfl
  rw [hb]
  by_cases hk : b.bounds.okAxes (b.toAbsolute req) <;> simp [hk]


theorem lookupV_fin (ps : VParams) (ws : List (String × Rat)) (hf : ps.fin? = some ws) (k : String) :
    lookupV ps k = (lookupQ ws k).map Val.fin := by
  induction ps generalizing ws with
  | nil => simp [VParams.fin?] at hf; subst hf; rfl
  | cons e r ih =>
    obtain ⟨k', v⟩ := e
    simp only [VParams.fin?] at hf
    cases hv : v.fin? with
    | none => simp [hv] at hf
    | some q =>
      cases hr : VParams.fin? r with
      | none => simp [hv, hr] at hf
      | some r' =>
        simp [hv, hr] at hf
        subst hf
        have hvq : v = Val.fin q := by cases v <;> simp_all [Val.fin?]
        have := ih r' hr
        simp only [lookupV, lookupQ, List.find?_cons] at this ⊢
        by_cases hk : (k' == k) = true
        · simp [hk, hvq]
        · simp [hk]; simpa using this

theorem fmtWords_eq_fin (ps : VParams) : fmtWords ps = ps.fin? := by
  induction ps with
  | nil => rfl
  | cons e r ih =>
    obtain ⟨k, v⟩ := e
    simp only [fmtWords, VParams.fin?, ih]
    cases v.fin? <;> cases VParams.fin? r <;> rfl

/-- `_track_move_params` on the dictionary of a move whose words are all finite -/
theorem track_eq (b : B) (o : List SStmt) (c : List HookCall) (ps : VParams) (xyz : Pt) (ws : List (String × Rat)) (hfin : ps.fin? = some ws)
    (hF : ∀ f, lookupQ ws "F" = some f → Val.isDouble (.fin f)) (hS : ∀ s, lookupQ ws "S" = some s → Val.isDouble (.fin s)) (h : Rat) :
    MotionSrc.GCodeBuilder._track_move_params (absB' b o c) ⟨ps, xyz⟩ h =
      if b.okTrack ws then (absB' (b.track ws) o c, none) else (absB' b o c, some .valueError) := by
  have gF := lookupV_fin ps ws hfin "F"
  have gS := lookupV_fin ps ws hfin "S"
  cases hf : lookupQ ws "F" with
  | none =>
    cases hs : lookupQ ws "S" with
    | none => simp [MotionSrc.GCodeBuilder._track_move_params, MP.get, gF, gS, B.okTrack, B.track, hf, hs]
    | some s =>
      have h2 := StateTie_validate_power b (.fin s) (hS s hs)
      simp only [Val.fin?] at h2
      by_cases hp : b.okPower s <;>
        simp [MotionSrc.GCodeBuilder._track_move_params, MP.get, gF, gS, B.okTrack, B.track, absB', absB, GState._set_tool_power, hf, hs, h2, hp] <;> rfl
  | some f =>
    have h1 := StateTie_validate_feed b (.fin f) (hF f hf)
    simp only [Val.fin?] at h1
    cases hs : lookupQ ws "S" with
    | none =>
      by_cases hp : b.okFeed f <;>
        simp [MotionSrc.GCodeBuilder._track_move_params, MP.get, gF, gS, B.okTrack, B.track, absB', absB, GState._set_feed_rate, hf, hs, h1, hp] <;> rfl
    | some s =>
      have h2 := StateTie_validate_power b (.fin s) (hS s hs)
      simp only [Val.fin?] at h2
      by_cases hq : b.okFeed f
      · by_cases hp : b.okPower s
        · have h3 := StateTie_validate_power { b with feed := f } (.fin s) (hS s hs)
          have e3 : ({ b with feed := f } : B).okPower s = b.okPower s := rfl
          simp only [Val.fin?, e3, hp, if_true] at h3
          have ea : ({ absG b with _current_feed_rate := Val.fin f } : GState) = absG { b with feed := f } := rfl
          simp [MotionSrc.GCodeBuilder._track_move_params, MP.get, gF, gS, B.okTrack, B.track, absB', absB, GState._set_feed_rate, GState._set_tool_power,
            hf, hs, h1, h2, hq, hp, ea, h3]
          rfl
        · simp [MotionSrc.GCodeBuilder._track_move_params, MP.get, gF, gS, B.okTrack, B.track, absB', absB, GState._set_feed_rate, GState._set_tool_power,
            hf, hs, h1, h2, hq, hp]
      · simp [MotionSrc.GCodeBuilder._track_move_params, MP.get, gF, gS, B.okTrack, B.track, absB', absB, GState._set_feed_rate, GState._set_tool_power, hf, hs, h1, hq]


theorem core_prepare_move_eq (s : BSt) (p : Pt) (params : MP) (h : Rat) :
    GCodeCore._prepare_move s p params h =
      match params.words.fin? with
      | none => (s, .error .valueError)
      | some ws => (s, .ok ([Part.gcode "G1" p ws], params)) := by
  simp only [GCodeCore._prepare_move, fmtCommand, MP.withXYZ, fmtWords_eq_fin]
  cases params.words.fin? <;> rfl

theorem core_prepare_rapid_eq (s : BSt) (p : Pt) (params : MP) (h : Rat) :
    GCodeCore._prepare_rapid s p params h =
      match params.words.fin? with
      | none => (s, .error .valueError)
      | some ws => (s, .ok ([Part.gcode "G0" p ws], params)) := by
  simp only [GCodeCore._prepare_rapid, fmtCommand, MP.withXYZ, fmtWords_eq_fin]
  cases params.words.fin? <;> rfl

theorem toParams_fin (ps : VParams) (ws : List (String × Rat)) (req : Pt) (hfin : ps.fin? = some ws) :
    MP.toParams ⟨ps, req⟩ = toParams req ws := by
  simp only [MP.toParams, toParams, List.append_cancel_right_eq]
  induction ps generalizing ws with
  | nil => simp [VParams.fin?] at hfin; subst hfin; rfl
  | cons e r ih =>
    obtain ⟨k, v⟩ := e
    simp only [VParams.fin?] at hfin
    cases hv : v.fin? with
    | none => simp [hv] at hfin
    | some q =>
      cases hr : VParams.fin? r with
      | none => simp [hv, hr] at hfin
      | some r' =>
        simp [hv, hr] at hfin
        subst hfin
        simp [hv, ih r' hr]

theorem update_axes_eq (b : B) (o : List SStmt) (c : List HookCall) (target req : Pt) (ps : VParams) (ws : List (String × Rat))
    (hfin : ps.fin? = some ws) :
    GCodeBuilder._update_axes (absB' b o c) target (MP.toParams ⟨ps, req⟩) =
      if b.bounds.okAxes target then (absB' (b.commitAxes target req ws) o c, none) else (absB' b o c, some .valueError) := by
  rw [toParams_fin ps ws req hfin]
  simp only [GCodeBuilder._update_axes, absB', absB, StateTie_set_axes, coreUpdateAxes, GState._set_params, B.commitAxes]
  by_cases h : b.bounds.okAxes target <;> simp [h, absG]

theorem write_eq (b : B) (o : List SStmt) (c : List HookCall) (st : SStmt) :
    GCodeBuilder.write (absB' b o c) st = (absB' b (o ++ [st]) c, none) := by
  rw [write_absB _ _ rfl]; rfl


/-- the F and S words that reach the validators are doubles -/
def DoubleFS (ps : VParams) : Prop :=
  ∀ ws, ps.fin? = some ws → (∀ f, lookupQ ws "F" = some f → Val.isDouble (.fin f)) ∧ (∀ s, lookupQ ws "S" = some s → Val.isDouble (.fin s))

theorem hookApply_eq (b : B) (h : Rat) (hk : Hook) (ps : VParams) :
    hookApplyEnv (hookEnv (absG b)) h hk ps = hk.apply b h ps := by
  have he : hookEnv (absG b) = ⟨b.erel, (b.params.get "E").getD 0⟩ := by
    simp only [hookEnv, absG]
    by_cases hr : b.erel = true <;> simp [hr]
  rw [he]
  cases hk <;> rfl

theorem runHooks_eq (b : B) (h : Rat) (hooks : List Hook) (vps : VParams) (req : Pt) :
    runHooks (hookEnv (absG b)) h hooks ⟨vps, req⟩ = ⟨hooks.foldl (fun acc hk => hk.apply b h acc) vps, req⟩ := by
  simp only [runHooks, hookApply_eq]

/-- what `_prepare_move` / `_prepare_rapid` do after the hooks: format, then track F and S -/
def prepared (b : B) (o : List SStmt) (c : List HookCall) (code : String) (word req : Pt) (ps : VParams) : BSt × Except Err (SStmt × MP) :=
  match ps.fin? with
  | none => (absB' b o c, .error .valueError)
  | some ws => if b.okTrack ws then (absB' (b.track ws) o c, .ok ([Part.gcode code word ws], ⟨ps, req⟩))
               else (absB' b o c, .error .valueError)

theorem prepare_rapid_eq (b : B) (o : List SStmt) (c : List HookCall) (word req : Pt) (vps : VParams) (h : Rat) (hd : DoubleFS vps) :
    MotionSrc.GCodeBuilder._prepare_rapid (absB' b o c) word ⟨vps, req⟩ h = prepared b o c "G0" word req vps := by
  simp only [MotionSrc.GCodeBuilder._prepare_rapid, core_prepare_rapid_eq, prepared]
  cases hf : VParams.fin? vps with
  | none => rfl
  | some ws =>
    simp only [track_eq b o c vps req ws hf (hd ws hf).1 (hd ws hf).2]
    by_cases hk : b.okTrack ws <;> simp [hk]

theorem prepare_move_eq (b : B) (o : List SStmt) (c : List HookCall) (word req : Pt) (vps : VParams) (h : Rat)
    (hd : DoubleFS (if b.hooks.isEmpty then vps else applyHooks b h vps)) :
    MotionSrc.GCodeBuilder._prepare_move (absB' b o c) word ⟨vps, req⟩ h =
      if b.hooks.isEmpty then prepared b o c "G1" word req vps
      else prepared b o (c ++ b.hooks.map (fun _ => ⟨b.axes.resolve, b.toAbsolute word⟩)) "G1" word req (applyHooks b h vps) := by
  have hl : (absB' b o c)._hooks = b.hooks := rfl
  by_cases he : b.hooks.isEmpty = true
  · have h0 : ¬ ((b.hooks.length : Int) > 0) := by
      have : b.hooks = [] := by simpa using he
      simp [this]
    simp only [he, if_true] at hd ⊢
    simp only [MotionSrc.GCodeBuilder._prepare_move, hl, h0, decide_false, Bool.false_eq_true, if_false, core_prepare_move_eq, prepared]
    cases hf : VParams.fin? vps with
    | none => simp
    | some ws =>
      simp only [track_eq b o c vps req ws hf (hd ws hf).1 (hd ws hf).2]
      by_cases hk : b.okTrack ws <;> simp [hk]
  · have h0 : ((b.hooks.length : Int) > 0) := by
      cases hb : b.hooks with
      | nil => simp [hb] at he
      | cons a r => simp
    simp only [he, if_false] at hd ⊢
    simp only [MotionSrc.GCodeBuilder._prepare_move, hl, h0, decide_true, if_true, to_absolute_eq, core_prepare_move_eq, prepared]
    have hs : (absB' b o c).state = absG b := rfl
    have ha : BSt._current_axes (absB' b o c) = b.axes := rfl
    have hc : (absB' b o c).calls = c := rfl
    have hn : ∀ cs, ({ state := (absB' b o c).state, _distance_mode := BSt._distance_mode (absB' b o c), _current_axes := BSt._current_axes (absB' b o c), _current_params := BSt._current_params (absB' b o c), _hooks := b.hooks, out := (absB' b o c).out, calls := cs } : BSt) = absB' b o cs := fun _ => rfl
    simp only [hn]
    simp only [hs, ha, hc, PointTie_resolve, runHooks_eq, Bool.false_eq_true, if_false]
    simp only [applyHooks]
    cases hf : VParams.fin? (b.hooks.foldl (fun acc hk => hk.apply b h acc) vps) with
    | none => rfl
    | some ws =>
      have hd' := hd ws (by simpa [applyHooks] using hf)
      simp only [track_eq b o _ _ req ws hf hd'.1 hd'.2]
      by_cases hk : b.okTrack ws <;> simp [hk]


theorem track_bounds (b : B) (ws : List (String × Rat)) : (b.track ws).bounds = b.bounds := by
  simp only [B.track]; split <;> split <;> rfl

theorem absB'_strip (b : B) (o : List SStmt) (c : List HookCall) : ({ absB' b o c with out := [], calls := [] } : BSt) = absB b := rfl

end GscribModel.MotionTie
open GscribModel.MotionTie

/-- **`move()`**: bounds on the target first, then the hooks, then formatting, then F and S (both validated before either
    is tracked), then the position of core and state, then the statement. -/
theorem MotionTie_move (b : B) (req : Pt) (vps : VParams) (h : Rat)
    (hd : DoubleFS (if b.hooks.isEmpty then vps else applyHooks b h vps)) :
    AgreesM (step b (.move false (VPt.ofPt req) vps h)) (GCodeCore.move (absB b) req vps h) := by
  have e0 : absB b = absB' b [] [] := rfl
  simp only [step, stepMove, ofPt_fin, GCodeCore.move, processMoveParams, e0, transform_move_eq]
  by_cases hk : b.bounds.okAxes (b.toAbsolute req)
  · simp only [hk, Bool.not_true, Bool.false_eq_true, if_false, if_true, prepare_move_eq b [] [] _ req vps h hd, Bool.not_false, Bool.true_and]
    by_cases he : b.hooks.isEmpty = true
    · simp only [he, if_true, Bool.not_true, Bool.false_eq_true, if_false, prepared] at hd ⊢
      cases hf : VParams.fin? vps with
      | none => (simp [AgreesM, reject, outOf, absB'_strip, absB'] <;> first | done | rfl)
      | some ws =>
        by_cases ht : b.okTrack ws
        · simp only [ht, if_true, Bool.not_true, Bool.false_eq_true, if_false, update_axes_eq (b.track ws) [] [] _ req vps ws hf, track_bounds, hk, write_eq]
          (simp [AgreesM, accept, outOf, absB'_strip, absB', view3, conv3, partCodes3, partAx, partWords, Code.text, wordOf] <;> first | done | rfl)
        · (simp [ht, AgreesM, reject, outOf, absB'_strip, absB'] <;> first | done | rfl)
    · simp only [he, if_false, Bool.not_false, if_true, prepared] at hd ⊢
      cases hf : VParams.fin? (applyHooks b h vps) with
      | none => (simp [AgreesM, reject, outOf, absB'_strip, absB', wordOf] <;> first | done | rfl)
      | some ws =>
        by_cases ht : b.okTrack ws
        · simp only [ht, if_true, Bool.not_true, Bool.false_eq_true, if_false, update_axes_eq (b.track ws) [] _ _ req _ ws hf, track_bounds, hk, write_eq]
          (simp [AgreesM, accept, outOf, absB'_strip, absB', view3, conv3, partCodes3, partAx, partWords, Code.text, wordOf] <;> first | done | rfl)
        · (simp [ht, AgreesM, reject, outOf, absB'_strip, absB', wordOf] <;> first | done | rfl)
  · (simp [hk, AgreesM, reject, outOf, absB'_strip, absB'] <;> first | done | rfl)

/-- **`rapid()`**: as `move()`, without hooks. -/
theorem MotionTie_rapid (b : B) (req : Pt) (vps : VParams) (h : Rat) (hd : DoubleFS vps) :
    AgreesM (step b (.move true (VPt.ofPt req) vps h)) (GCodeCore.rapid (absB b) req vps h) := by
  have e0 : absB b = absB' b [] [] := rfl
  simp only [step, stepMove, ofPt_fin, GCodeCore.rapid, processMoveParams, e0, transform_move_eq]
  by_cases hk : b.bounds.okAxes (b.toAbsolute req)
  · simp only [hk, Bool.not_true, Bool.false_eq_true, if_false, if_true, prepare_rapid_eq b [] [] _ req vps h hd, Bool.false_and, prepared]
    cases hf : VParams.fin? vps with
    | none => (simp [AgreesM, reject, outOf, absB'_strip, absB'] <;> first | done | rfl)
    | some ws =>
      by_cases ht : b.okTrack ws
      · simp only [ht, if_true, Bool.not_true, Bool.false_eq_true, if_false, update_axes_eq (b.track ws) [] [] _ req vps ws hf, track_bounds, hk, write_eq]
        (simp [AgreesM, accept, outOf, absB'_strip, absB', view3, conv3, partCodes3, partAx, partWords, Code.text, wordOf] <;> first | done | rfl)
      · (simp [ht, AgreesM, reject, outOf, absB'_strip, absB'] <;> first | done | rfl)
  · (simp [hk, AgreesM, reject, outOf, absB'_strip, absB'] <;> first | done | rfl)

namespace GscribModel.MotionTie

/-- the source table's instructions for the members the motion commands look up (kernel evaluation of the generated table) -/
theorem tlm :
    tableLookup "PositioningMode" "OFFSET" = some "G92" ∧ tableLookup "PositioningMode" "HOME" = some "G28" ∧
    tableLookup "ProbingMode" "TOWARDS" = some "G38.2" ∧ tableLookup "ProbingMode" "TOWARDS_NO_ERROR" = some "G38.3" ∧
    tableLookup "ProbingMode" "AWAY" = some "G38.4" ∧ tableLookup "ProbingMode" "AWAY_NO_ERROR" = some "G38.5" := by decide +kernel

theorem pmp1 (p : Pt) (k : VParams) : (processMoveParams p k).1 = p := rfl
theorem pmp2 (p : Pt) (k : VParams) : (processMoveParams p k).2 = ⟨k, p⟩ := rfl

theorem getStatementMP_eq (cls member : String) (vps : VParams) (req : Pt) :
    getStatementMP cls member ⟨vps, req⟩ = (vps.fin?).map fun ws => [Part.ainstr cls member req ws] := by
  simp only [getStatementMP, fmtWords_eq_fin]

theorem unknown_dec (p : Pt) : decide (p = Pt.unknown) = p.isUnknown := by
  obtain ⟨x, y, z⟩ := p
  cases x <;> cases y <;> cases z <;> simp [Pt.unknown, Pt.isUnknown]

/-- masking coordinates can only help the bounds check -/
theorem okAxes_mask (bd : Bounds) (p m : Pt) (hp : bd.okAxes p = true) : bd.okAxes (p.mask m) = true := by
  obtain ⟨x, y, z⟩ := p
  obtain ⟨mx, my, mz⟩ := m
  simp only [Bounds.okAxes] at hp ⊢
  cases ha : bd.axes with
  | none => rfl
  | some lh =>
    obtain ⟨lo, hi⟩ := lh
    simp only [ha, List.all_cons, List.all_nil, Bool.and_true, Pt.get, Pt.mask, Pt.mk', Bool.and_eq_true] at hp ⊢
    refine ⟨?_, ?_, ?_⟩
    · cases mx <;> simp_all
    · cases my <;> simp_all
    · cases mz <;> simp_all

def argProbe : ProbeArg → Arg ProbingMode
  | .towards => .val .TOWARDS | .towardsNoErr => .val .TOWARDS_NO_ERROR | .away => .val .AWAY | .awayNoErr => .val .AWAY_NO_ERROR
  | .bogus => .bogus

end GscribModel.MotionTie

/-- **`set_axis()`** (`G92`): formatted first, then the bounds on the new tracked position, then the statement. -/
theorem MotionTie_set_axis (b : B) (req : Pt) (vps : VParams) (h : Rat) :
    AgreesM (step b (.setAxis (VPt.ofPt req) vps)) (GCodeBuilder.set_axis (absB b) req vps h) := by
  have e0 : absB b = absB' b [] [] := rfl
  have ha : (absB' b [] [])._current_axes = b.axes := rfl
  simp only [step, stepSetAxis, ofPt_fin, GCodeBuilder.set_axis, processMoveParams, e0, getStatementMP_eq, ha, PointTie_replace]
  cases hf : VParams.fin? vps with
  | none => (simp [AgreesM, reject, outOf, absB'_strip, absB'] <;> first | done | rfl)
  | some ws =>
    simp only [Option.map_some, update_axes_eq b [] [] _ req vps ws hf]
    by_cases hk : b.bounds.okAxes (b.axes.replace req)
    · simp only [hk, if_true, Bool.not_true, Bool.false_eq_true, if_false, write_eq]
      (simp [AgreesM, accept, outOf, absB'_strip, absB', view3, conv3, partCodes3, partAx, partWords, Code.text, tlm, PositioningMode.memberName] <;> first | done | rfl)
    · (simp [hk, AgreesM, reject, outOf, absB'_strip, absB'] <;> first | done | rfl)

/-- **`auto_home()`** (`G28`): the homed axes become unknown. -/
theorem MotionTie_auto_home (b : B) (req : Pt) (vps : VParams) (h : Rat) :
    AgreesM (step b (.home (VPt.ofPt req) vps)) (GCodeBuilder.auto_home (absB b) req vps h) := by
  have e0 : absB b = absB' b [] [] := rfl
  have ha : (absB' b [] [])._current_axes = b.axes := rfl
  have key : (if decide (req = Pt.unknown) then Pt.zero else req) = (if req.isUnknown then Pt.zero else req) := by
    rw [unknown_dec]
  simp only [step, stepHome, ofPt_fin, GCodeBuilder.auto_home, pmp1, pmp2, e0, getStatementMP_eq, ha, key, PointTie_mask]
  cases hf : VParams.fin? vps with
  | none => (simp [AgreesM, reject, outOf, absB'_strip, absB'] <;> first | done | rfl)
  | some ws =>
    simp only [Option.map_some, update_axes_eq b [] [] _ req vps ws hf]
    generalize (if req.isUnknown then Pt.zero else req) = m
    by_cases hk : b.bounds.okAxes (b.axes.mask m)
    · simp only [hk, if_true, Bool.not_true, Bool.false_eq_true, if_false, write_eq]
      (simp [AgreesM, accept, outOf, absB'_strip, absB', view3, conv3, partCodes3, partAx, partWords, Code.text, tlm, PositioningMode.memberName] <;> first | done | rfl)
    · (simp [hk, AgreesM, reject, outOf, absB'_strip, absB'] <;> first | done | rfl)

/-- **`probe()`**: bounds on the target, formatting, F and S, then the probed axes become unknown. -/
theorem MotionTie_probe (b : B) (m : ProbeArg) (req : Pt) (vps : VParams) (h : Rat) (hd : DoubleFS vps) :
    AgreesM (step b (.probe m (VPt.ofPt req) vps)) (GCodeBuilder.probe (absB b) (argProbe m) req vps h) := by
  have e0 : absB b = absB' b [] [] := rfl
  cases m with
  | bogus => exact ⟨rfl, rfl, rfl, rfl⟩
  | towards | towardsNoErr | away | awayNoErr =>
    simp only [step, stepProbe, ofPt_fin, GCodeBuilder.probe, argProbe, pmp1, pmp2, e0, transform_move_eq, reduceCtorEq, if_false]
    by_cases hk : b.bounds.okAxes (b.toAbsolute req)
    · simp only [hk, if_true, MP.withXYZ, getStatementMP_eq]
      cases hf : VParams.fin? vps with
      | none => (simp [AgreesM, reject, outOf, absB'_strip, absB'] <;> first | done | rfl)
      | some ws =>
        simp only [Option.map_some, track_eq b [] [] vps req ws hf (hd ws hf).1 (hd ws hf).2]
        by_cases ht : b.okTrack ws
        · have hm : (b.track ws).bounds.okAxes ((b.toAbsolute req).mask (wordOf b req)) = true := by
            rw [track_bounds]; exact okAxes_mask _ _ _ hk
          simp only [ht, if_true, PointTie_mask, update_axes_eq (b.track ws) [] [] _ req vps ws hf, hm, write_eq]
          (simp [hk, AgreesM, accept, outOf, absB'_strip, absB', view3, conv3, partCodes3, partAx, partWords, Code.text, tlm, ProbingMode.memberName, ProbeArg.code, wordOf] <;> first | done | rfl)
        · (simp [hk, ht, AgreesM, reject, outOf, absB'_strip, absB'] <;> first | done | rfl)
    · cases hf : VParams.fin? vps <;> (simp [hk, AgreesM, reject, outOf, absB'_strip, absB'] <;> first | done | rfl)

namespace GscribModel.MotionTie

def dmOf (r : Bool) : DistanceMode := bif r then .RELATIVE else .ABSOLUTE
def dmStmt (r : Bool) : SStmt := [Part.instr "DistanceMode" (DistanceMode.memberName (dmOf r)) []]

theorem set_dist_eq (b : B) (o : List SStmt) (c : List HookCall) (r : Bool) :
    GCodeBuilder.set_distance_mode (absB' b o c) (Arg.val (dmOf r)) =
      (absB' { b with rel := r, srel := r } (o ++ [dmStmt r]) c, none) := by
  simp only [GCodeBuilder.set_distance_mode, GState._set_distance_mode, getStatement, fmtWords, Option.map_some]
  rw [write_absB _ _ rfl]
  cases r <;> rfl

theorem fmtParamsOk_eq (vps : VParams) (req : Pt) : fmtParamsOk ⟨vps, req⟩ = (vps.fin?).isSome := by
  simp only [fmtParamsOk, fmtWords_eq_fin]

/-- `_validate_absolute_move`: formatting, bounds on the target, F, S - and nothing is changed -/
theorem validate_abs_eq (b : B) (o : List SStmt) (c : List HookCall) (req : Pt) (vps : VParams) (h : Rat) (hd : DoubleFS vps) :
    GCodeBuilder._validate_absolute_move (absB' b o c) req vps h =
      (absB' b o c, match vps.fin? with
        | some ps => if b.bounds.okAxes (b.axes.replace req) && b.okTrack ps then none else some .valueError
        | none => some .valueError) := by
  have ha : (absB' b o c)._current_axes = b.axes := rfl
  have hs : (absB' b o c).state = absG b := rfl
  have hb : (absG b)._user_bounds = b.bounds := rfl
  simp only [GCodeBuilder._validate_absolute_move, pmp1, pmp2, fmtParamsOk_eq, ha, hs, hb, PointTie_replace, validatePt, MP.get]
  cases hf : VParams.fin? vps with
  | none => simp
  | some ws =>
    have gF := lookupV_fin vps ws hf "F"
    have gS := lookupV_fin vps ws hf "S"
    have hF := (hd ws hf).1
    have hS := (hd ws hf).2
    simp only [Option.isSome_some, Bool.not_true, Bool.false_eq_true, if_false, if_true, gF, gS]
    by_cases hk : b.bounds.okAxes (b.axes.replace req)
    · simp only [hk, if_true, Bool.true_and, B.okTrack]
      cases hf' : lookupQ ws "F" with
      | none =>
        cases hs' : lookupQ ws "S" with
        | none => simp
        | some s =>
          have h2 := StateTie_validate_power b (.fin s) (hS s hs')
          simp only [Val.fin?] at h2
          by_cases hp : b.okPower s <;> simp [h2, hp] <;> rfl
      | some f =>
        have h1 := StateTie_validate_feed b (.fin f) (hF f hf')
        simp only [Val.fin?] at h1
        cases hs' : lookupQ ws "S" with
        | none => by_cases hq : b.okFeed f <;> simp [h1, hq] <;> rfl
        | some s =>
          have h2 := StateTie_validate_power b (.fin s) (hS s hs')
          simp only [Val.fin?] at h2
          by_cases hq : b.okFeed f
          · by_cases hp : b.okPower s <;> simp [h1, h2, hq, hp, hs] <;> rfl
          · simp [h1, hq] <;> rfl
    · simp [hk]

end GscribModel.MotionTie


namespace GscribModel.MotionTie
theorem bA_eq (b : B) (hr : b.rel = false) (hs : b.srel = b.rel) : ({ b with rel := false, srel := false } : B) = b := by
  cases b; simp_all
end GscribModel.MotionTie

/-- **`move_absolute()`**: everything is validated before `G90` is written; the move is issued inside `absolute_mode()`, whose
    exit restores `G91` whatever the body did (the hook-parameter leak `C05-absolute-bypass-hook-params` included). -/
theorem MotionTie_move_absolute (b : B) (req : Pt) (vps : VParams) (h : Rat) (hsync : b.srel = b.rel) (hd : DoubleFS vps)
    (hd' : DoubleFS (if b.hooks.isEmpty then vps else applyHooks { b with rel := false, srel := false } h vps)) :
    AgreesM (step b (.moveAbs false (VPt.ofPt req) vps h)) (GCodeBuilder.move_absolute (absB b) req vps h) := by
  have e0 : absB b = absB' b [] [] := rfl
  obtain ⟨bA, hbA⟩ : ∃ bA : B, bA = ({ b with rel := false, srel := false } : B) := ⟨_, rfl⟩
  have hAh : bA.hooks = b.hooks := by rw [hbA]
  have hAa : bA.axes = b.axes := by rw [hbA]
  have hAb : bA.bounds = b.bounds := by rw [hbA]
  have hAr : bA.rel = false := by rw [hbA]
  have hAt : ∀ ws, bA.okTrack ws = b.okTrack ws := by intro ws; rw [hbA]; rfl
  simp only [step, stepMoveAbs, ofPt_fin, GCodeBuilder.move_absolute, e0, validate_abs_eq b [] [] req vps h hd]
  simp only [← hbA] at hd' ⊢
  cases hf : VParams.fin? vps with
  | none => exact ⟨rfl, rfl, rfl, rfl⟩
  | some ps =>
    by_cases hk : b.bounds.okAxes (b.axes.replace req)
    · by_cases ht : b.okTrack ps
      · simp only [hk, ht, Bool.and_self, if_true, Bool.not_true, Bool.false_eq_true, if_false]
        have ha : (absB' b [] [])._current_axes = b.axes := rfl
        simp only [GCodeCore.move_absolute, pmp1, pmp2, ha, PointTie_replace]
        by_cases hr : b.rel = true
        · have hm : (absB' b [] [])._distance_mode = DistanceMode.RELATIVE := by simp [absB', absB, hr]
          have hset := set_dist_eq b [] [] false
          simp only [dmOf, cond_false, ← hbA] at hset
          simp only [hm, reduceCtorEq, decide_false, Bool.not_false, if_true, hset]
          have hokA : bA.bounds.okAxes (b.axes.replace req) = true := by rw [hAb]; exact hk
          have hdA : DoubleFS (if bA.hooks.isEmpty then vps else applyHooks bA h vps) := by rw [hAh]; exact hd'
          rw [prepare_move_eq bA _ [] req req vps h hdA]
          have hsetT : ∀ (bX : B) o c, GCodeBuilder.set_distance_mode (absB' bX o c) (Arg.val DistanceMode.RELATIVE) =
              (absB' { bX with rel := true, srel := true } (o ++ [dmStmt true]) c, none) := fun bX o c => set_dist_eq bX o c true
          have hdmA : ∀ o c, (absB' bA o c)._distance_mode = DistanceMode.ABSOLUTE := by intro o c; simp [absB', absB, hAr]
          have hdmT : ∀ ws o c, (absB' ((bA.track ws).commitAxes (b.axes.replace req) req ws) o c)._distance_mode = DistanceMode.ABSOLUTE := by
            intro ws o c
            have : ((bA.track ws).commitAxes (b.axes.replace req) req ws).rel = false := by
              simp only [B.commitAxes, B.track]; split <;> split <;> simp [hAr]
            simp [absB', absB, this]
          by_cases he : b.hooks.isEmpty = true
          · simp only [hAh, he, if_true, prepared, Bool.not_true, Bool.and_false, Bool.false_eq_true, if_false, hAt]
            cases hf' : VParams.fin? vps with
            | none => simp [hf'] at hf
            | some ws =>
              simp only [hf] at hf'
              cases hf'
              simp only [ht, if_true, update_axes_eq (bA.track ps) _ [] _ req vps ps hf, track_bounds, hokA, write_eq,
                hdmT, reduceCtorEq, decide_false, Bool.not_false, hsetT, Bool.not_true, Bool.false_eq_true, if_false, hr]
              (simp [AgreesM, accept, outOf, absB', absB, absG, view3, conv3, partCodes3, partAx, partWords, Code.text, modeStmt, dmStmt, dmOf, tl, DistanceMode.memberName, hsync, hr, B.commitAxes] <;> first | done | rfl)
          · have hback : ({ bA with rel := true, srel := true } : B) = b := by
              rw [hbA]; cases b; simp_all
            simp only [hAh, he, Bool.false_eq_true, if_false, prepared, Bool.not_false, Bool.and_true, if_true, hAt, hAa]
            have htgt : bA.toAbsolute req = b.axes.resolve.replace req := by simp [B.toAbsolute, hAr, hAa]
            cases hf' : VParams.fin? (applyHooks bA h vps) with
            | none =>
              simp only [hdmA, reduceCtorEq, decide_false, Bool.not_false, if_true, hsetT, hback, htgt]
              (simp [AgreesM, outOf, absB', absB, view3, conv3, partCodes3, partAx, partWords, Code.text, modeStmt, dmStmt, dmOf, tl, DistanceMode.memberName, hr] <;> first | done | rfl)
            | some ws =>
              by_cases ht' : b.okTrack ws
              · simp only [ht', if_true, update_axes_eq (bA.track ws) _ _ _ req _ ws hf', track_bounds, hokA, write_eq,
                  hdmT, reduceCtorEq, decide_false, Bool.not_false, hsetT, Bool.not_true, Bool.false_eq_true, if_false, hr, htgt]
                (simp [AgreesM, accept, outOf, absB', absB, absG, view3, conv3, partCodes3, partAx, partWords, Code.text, modeStmt, dmStmt, dmOf, tl, DistanceMode.memberName, hsync, hr, B.commitAxes] <;> first | done | rfl)
              · simp only [ht', Bool.false_eq_true, if_false, Bool.not_false, if_true, hdmA, reduceCtorEq, decide_false, hsetT, hback, htgt]
                (simp [AgreesM, outOf, absB', absB, view3, conv3, partCodes3, partAx, partWords, Code.text, modeStmt, dmStmt, dmOf, tl, DistanceMode.memberName, hr] <;> first | done | rfl)
        · have hr' : b.rel = false := by simpa using hr
          have hbb : bA = b := by rw [hbA]; exact bA_eq b hr' hsync
          subst hbb
          have hm : (absB' bA [] [])._distance_mode = DistanceMode.ABSOLUTE := by simp [absB', absB, hr']
          have hdmA : ∀ o c, (absB' bA o c)._distance_mode = DistanceMode.ABSOLUTE := by intro o c; simp [absB', absB, hr']
          have hdmT : ∀ ws o c, (absB' ((bA.track ws).commitAxes (bA.axes.replace req) req ws) o c)._distance_mode = DistanceMode.ABSOLUTE := by
            intro ws o c
            have : ((bA.track ws).commitAxes (bA.axes.replace req) req ws).rel = false := by
              simp only [B.commitAxes, B.track]; split <;> split <;> simp [hr']
            simp [absB', absB, this]
          simp only [hm, decide_true, Bool.not_true, Bool.false_eq_true, if_false]
          rw [prepare_move_eq bA [] [] req req vps h hd']
          have htgt : bA.toAbsolute req = bA.axes.resolve.replace req := by simp [B.toAbsolute, hr']
          by_cases he : bA.hooks.isEmpty = true
          · simp only [he, if_true, prepared, Bool.not_true, Bool.and_false, Bool.false_eq_true, if_false]
            simp only [hf, ht, if_true, update_axes_eq (bA.track ps) _ [] _ req vps ps hf, track_bounds, hk, write_eq,
              hdmT, decide_true, Bool.not_true, Bool.false_eq_true, if_false, hr']
            (simp [AgreesM, accept, outOf, absB', absB, absG, view3, conv3, partCodes3, partAx, partWords, Code.text, hr'] <;> first | done | rfl)
          · simp only [he, Bool.false_eq_true, if_false, prepared, Bool.not_false, Bool.and_true, if_true]
            cases hf' : VParams.fin? (applyHooks bA h vps) with
            | none =>
              simp only [hdmA, decide_true, Bool.not_true, Bool.false_eq_true, if_false, htgt]
              (simp [AgreesM, outOf, absB', absB, hr'] <;> first | done | rfl)
            | some ws =>
              by_cases ht' : bA.okTrack ws
              · simp only [ht', if_true, update_axes_eq (bA.track ws) _ _ _ req _ ws hf', track_bounds, hk, write_eq,
                  hdmT, decide_true, Bool.not_true, Bool.false_eq_true, if_false, hr', htgt]
                (simp [AgreesM, accept, outOf, absB', absB, absG, view3, conv3, partCodes3, partAx, partWords, Code.text, hr'] <;> first | done | rfl)
              · simp only [ht', Bool.false_eq_true, if_false, Bool.not_false, if_true, hdmA, decide_true, Bool.not_true, htgt]
                (simp [AgreesM, outOf, absB', absB, hr'] <;> first | done | rfl)
      · (simp [hk, ht, AgreesM, reject, outOf, absB'_strip, absB'] <;> first | done | rfl)
    · (simp [hk, AgreesM, reject, outOf, absB'_strip, absB'] <;> first | done | rfl)

/-- **`rapid_absolute()`**: as `move_absolute()`, without hooks. -/
theorem MotionTie_rapid_absolute (b : B) (req : Pt) (vps : VParams) (h : Rat) (hsync : b.srel = b.rel) (hd : DoubleFS vps) :
    AgreesM (step b (.moveAbs true (VPt.ofPt req) vps h)) (GCodeBuilder.rapid_absolute (absB b) req vps h) := by
  have e0 : absB b = absB' b [] [] := rfl
  obtain ⟨bA, hbA⟩ : ∃ bA : B, bA = ({ b with rel := false, srel := false } : B) := ⟨_, rfl⟩
  have hAa : bA.axes = b.axes := by rw [hbA]
  have hAb : bA.bounds = b.bounds := by rw [hbA]
  have hAr : bA.rel = false := by rw [hbA]
  have hAt : ∀ ws, bA.okTrack ws = b.okTrack ws := by intro ws; rw [hbA]; rfl
  simp only [step, stepMoveAbs, ofPt_fin, GCodeBuilder.rapid_absolute, e0, validate_abs_eq b [] [] req vps h hd]
  simp only [← hbA]
  cases hf : VParams.fin? vps with
  | none => exact ⟨rfl, rfl, rfl, rfl⟩
  | some ps =>
    by_cases hk : b.bounds.okAxes (b.axes.replace req)
    · by_cases ht : b.okTrack ps
      · simp only [hk, ht, Bool.and_self, if_true, Bool.not_true, Bool.false_eq_true, if_false, Bool.false_and]
        have ha : (absB' b [] [])._current_axes = b.axes := rfl
        simp only [GCodeCore.rapid_absolute, pmp1, pmp2, ha, PointTie_replace]
        by_cases hr : b.rel = true
        · have hm : (absB' b [] [])._distance_mode = DistanceMode.RELATIVE := by simp [absB', absB, hr]
          have hset := set_dist_eq b [] [] false
          simp only [dmOf, cond_false, ← hbA] at hset
          simp only [hm, reduceCtorEq, decide_false, Bool.not_false, if_true, hset]
          have hokA : bA.bounds.okAxes (b.axes.replace req) = true := by rw [hAb]; exact hk
          rw [prepare_rapid_eq bA _ [] req req vps h hd]
          have hsetT : ∀ (bX : B) o c, GCodeBuilder.set_distance_mode (absB' bX o c) (Arg.val DistanceMode.RELATIVE) =
              (absB' { bX with rel := true, srel := true } (o ++ [dmStmt true]) c, none) := fun bX o c => set_dist_eq bX o c true
          have hdmT : ∀ ws o c, (absB' ((bA.track ws).commitAxes (b.axes.replace req) req ws) o c)._distance_mode = DistanceMode.ABSOLUTE := by
            intro ws o c
            have : ((bA.track ws).commitAxes (b.axes.replace req) req ws).rel = false := by
              simp only [B.commitAxes, B.track]; split <;> split <;> simp [hAr]
            simp [absB', absB, this]
          simp only [prepared, hf, hAt, ht, if_true, update_axes_eq (bA.track ps) _ [] _ req vps ps hf, track_bounds, hokA, write_eq,
            hdmT, reduceCtorEq, decide_false, Bool.not_false, hsetT, Bool.not_true, Bool.false_eq_true, if_false, hr]
          (simp [AgreesM, accept, outOf, absB', absB, absG, view3, conv3, partCodes3, partAx, partWords, Code.text, modeStmt, dmStmt, dmOf, tl, DistanceMode.memberName, hsync, hr, B.commitAxes] <;> first | done | rfl)
        · have hr' : b.rel = false := by simpa using hr
          have hbb : bA = b := by rw [hbA]; exact bA_eq b hr' hsync
          subst hbb
          have hm : (absB' bA [] [])._distance_mode = DistanceMode.ABSOLUTE := by simp [absB', absB, hr']
          have hdmT : ∀ ws o c, (absB' ((bA.track ws).commitAxes (bA.axes.replace req) req ws) o c)._distance_mode = DistanceMode.ABSOLUTE := by
            intro ws o c
            have : ((bA.track ws).commitAxes (bA.axes.replace req) req ws).rel = false := by
              simp only [B.commitAxes, B.track]; split <;> split <;> simp [hr']
            simp [absB', absB, this]
          simp only [hm, decide_true, Bool.not_true, Bool.false_eq_true, if_false]
          rw [prepare_rapid_eq bA [] [] req req vps h hd]
          simp only [prepared, hf, ht, if_true, update_axes_eq (bA.track ps) _ [] _ req vps ps hf, track_bounds, hk, write_eq,
            hdmT, decide_true, Bool.not_true, Bool.false_eq_true, if_false, hr']
          (simp [AgreesM, accept, outOf, absB', absB, absG, view3, conv3, partCodes3, partAx, partWords, Code.text, hr'] <;> first | done | rfl)
      · (simp [hk, ht, AgreesM, reject, outOf, absB'_strip, absB'] <;> first | done | rfl)
    · (simp [hk, AgreesM, reject, outOf, absB'_strip, absB'] <;> first | done | rfl)

/-! ## non-vacuity: concrete runs of the translated source -/

/-- a relative-mode `move_absolute(x=5, F=100)` from X1 with a recording hook: `G90`, the move, `G91`; one hook call with
    the true origin and target; position and feed tracked -/
example :
    let b : B := { axes := ⟨some 1, some 2, none⟩, saxes := ⟨some 1, some 2, none⟩, rel := true, srel := true, hooks := [.record] }
    let g := GCodeBuilder.move_absolute (absB b) ⟨some 5, none, none⟩ [("F", .fin 100)] 0
    g.2 = none ∧ g.1.out.map conv3 = [(["G90"], {}, []), (["G1"], ⟨some 5, none, none⟩, [("F", 100)]), (["G91"], {}, [])] ∧
    g.1._current_axes = ⟨some 5, some 2, none⟩ ∧ g.1.state._current_feed_rate = .fin 100 ∧ g.1._distance_mode = .RELATIVE ∧
    g.1.calls = [⟨⟨some 1, some 2, some 0⟩, ⟨some 5, some 2, some 0⟩⟩] := by decide +kernel

/-- a move out of the axes box is refused by the translated source before anything is touched -/
example :
    let b : B := { bounds := { axes := some (⟨0, 0, 0⟩, ⟨10, 10, 10⟩) } }
    let g := GCodeCore.move (absB b) ⟨some 11, none, none⟩ [("F", .fin 100)] 0
    g = (absB b, some .valueError) := by decide +kernel

/-- a good F with a bad S: nothing is tracked, nothing is written (`_track_move_params` validates both first) -/
example :
    let b : B := { }
    let g := GCodeCore.move (absB b) ⟨some 1, none, none⟩ [("F", .fin 100), ("S", .fin (-1))] 0
    g = (absB b, some .valueError) := by decide +kernel

import GscribModel.Lemmas.Heightmap
/-! # C19 — heightmaps interpolate faithfully and sample paths within tolerance

Property theorems only (helper lemmas live in `Lemmas/Heightmap.lean`).  The model is
`Model/Heightmap.lean`, a transcription of `RasterHeightMap`, `SparseHeightMap` and `FlatHeightMap`.
The external numeric libraries are PARAMETERS of the model, their defining property a hypothesis:
* FITPACK's interpolating spline `interp` — `Interpolates interp g` (it reproduces the grid);
* Qhull + scipy's point location `locate` — "`locate p = some t`" with `p` a vertex of `t`
  (`C19_sparse_vertex`) or `p` inside `t` (`C19_sparse_between`).  scipy violates the first for
  stored samples that are acute hull vertices: that is the listed finding `C19-sparse-hull-vertex`,
  shown on its witness in the examples at the end. -/
open GscribModel.Heightmap

/-- **Raster, pixel centres.**  For any interpolant that reproduces the grid, an integer `(x, y)`
    inside the image gives `scale · h[row y][column x]` and every other integer point gives 0:
    `x` is the column, `y` the row, the range is `0 ≤ x < width`, `0 ≤ y < height`. -/
theorem C19_raster_sample (sc : Rat) (interp : Rat → Rat → Rat) (g : Grid)
    (hI : Interpolates interp g) (x y : Int) :
    getDepthRaster sc interp g x y =
      if 0 ≤ x ∧ x < g.width ∧ 0 ≤ y ∧ y < g.height then sc * g.cell y.toNat x.toNat else 0 := by
  rw [getDepthRaster_range]
  by_cases h : 0 ≤ x ∧ x < g.width ∧ 0 ≤ y ∧ y < g.height
  · obtain ⟨h1, h2, h3, h4⟩ := h
    have c : (0 : Rat) ≤ x ∧ (x : Rat) < g.width ∧ (0 : Rat) ≤ y ∧ (y : Rat) < g.height :=
      ⟨by exact_mod_cast h1, by exact_mod_cast h2, by exact_mod_cast h3, by exact_mod_cast h4⟩
    rw [if_pos c, if_pos ⟨h1, h2, h3, h4⟩]
    have ex : (x : Rat) = ((x.toNat : Nat) : Rat) := by
      have : (x.toNat : Int) = x := Int.toNat_of_nonneg h1
      exact_mod_cast this.symm
    have ey : (y : Rat) = ((y.toNat : Nat) : Rat) := by
      have : (y.toNat : Int) = y := Int.toNat_of_nonneg h3
      exact_mod_cast this.symm
    rw [ex, ey, hI y.toNat x.toNat (by omega) (by omega)]
  · rw [if_neg h, if_neg]
    intro ⟨h1, h2, h3, h4⟩
    exact h ⟨by exact_mod_cast h1, by exact_mod_cast h2, by exact_mod_cast h3, by exact_mod_cast h4⟩

/-- **Raster, any point, any interpolant**: the range test is half-open on both axes — the value
    is `scale · interp(row = y, col = x)` exactly when `0 ≤ x < width ∧ 0 ≤ y < height`, else 0. -/
theorem C19_raster_range (sc : Rat) (interp : Rat → Rat → Rat) (g : Grid) (x y : Rat) :
    getDepthRaster sc interp g x y =
      if 0 ≤ x ∧ x < g.width ∧ 0 ≤ y ∧ y < g.height then sc * interp y x else 0 :=
  getDepthRaster_range sc interp g x y

/-- **Sparse, stored samples.**  If the triangulation locates `p` in a (non-degenerate) simplex
    having the stored sample `v` at `p` as a vertex, the map returns `scale · stored height`. -/
theorem C19_sparse_vertex (sc : Rat) (locate : Rat → Rat → Option Tri) (px py : Rat) (t : Tri) (v : Vtx)
    (hloc : locate px py = some t) (hd : t.det ≠ 0) (hv : v = t.a ∨ v = t.b ∨ v = t.c)
    (hx : v.x = px) (hy : v.y = py) :
    getDepthSparse sc locate px py = sc * v.h := by
  subst hx hy
  simp only [getDepthSparse, hloc]
  rcases hv with rfl | rfl | rfl
  · rw [Tri.interp_at_a]
  · rw [Tri.interp_at_b t hd]
  · rw [Tri.interp_at_c t hd]

/-- **Convex combinations** (ℚ): non-negative weights summing to 1 give a value between the
    minimum and the maximum of the three vertex heights. -/
theorem C19_convex_between (w1 w2 w3 h1 h2 h3 : Rat)
    (p1 : 0 ≤ w1) (p2 : 0 ≤ w2) (p3 : 0 ≤ w3) (hs : w1 + w2 + w3 = 1) :
    min (min h1 h2) h3 ≤ w1 * h1 + w2 * h2 + w3 * h3 ∧
    w1 * h1 + w2 * h2 + w3 * h3 ≤ max (max h1 h2) h3 :=
  convex3_bounds w1 w2 w3 h1 h2 h3 _ _ p1 p2 p3 hs
    (le_trans (min_le_left _ _) (min_le_left _ _)) (le_trans (min_le_left _ _) (min_le_right _ _))
    (min_le_right _ _)
    (le_trans (le_max_left _ _) (le_max_left _ _)) (le_trans (le_max_right _ _) (le_max_left _ _))
    (le_max_right _ _)

/-- **Sparse, inside the data.**  If the triangulation locates `p` in a simplex that contains it
    (barycentric coordinates ≥ 0), the map returns a value between `scale · min` and `scale · max`
    of that simplex's stored heights (hence of all stored heights). -/
theorem C19_sparse_between (sc : Rat) (hsc : 0 ≤ sc) (locate : Rat → Rat → Option Tri) (px py : Rat)
    (t : Tri) (hloc : locate px py = some t)
    (hin : 0 ≤ (t.bary px py).1 ∧ 0 ≤ (t.bary px py).2.1 ∧ 0 ≤ (t.bary px py).2.2) :
    sc * min (min t.a.h t.b.h) t.c.h ≤ getDepthSparse sc locate px py ∧
    getDepthSparse sc locate px py ≤ sc * max (max t.a.h t.b.h) t.c.h := by
  simp only [getDepthSparse, hloc]
  obtain ⟨lo, hi⟩ := C19_convex_between _ _ _ t.a.h t.b.h t.c.h hin.1 hin.2.1 hin.2.2 (t.bary_sum px py)
  exact ⟨mul_le_mul_of_nonneg_left lo hsc, mul_le_mul_of_nonneg_left hi hsc⟩

/-- **Sparse, outside the data**: where no simplex is located the map returns 0. -/
theorem C19_sparse_outside (sc : Rat) (locate : Rat → Rat → Option Tri) (px py : Rat)
    (hloc : locate px py = none) : getDepthSparse sc locate px py = 0 := by
  simp [getDepthSparse, hloc]

/-- **The path filter** (`_filter_points`, tolerance > 0, at least one sample): the output is a
    sub-list of the samples that starts with the first and ends with the last sample, and
    (`Aligned`) every sample that was dropped differs in height from the previously KEPT sample by
    less than the tolerance. -/
theorem C19_filter (tol : Rat) (ht : 0 < tol) (first : Sample) (rest : List Sample) :
    let kept := filterPoints tol (first :: rest)
    kept.Sublist (first :: rest) ∧ kept.head? = some first ∧
    kept.getLast? = (first :: rest).getLast? ∧
    ∃ tail, kept = first :: tail ∧ Aligned tol first.z rest tail := by
  obtain ⟨tail, h1, h2, h3⟩ := filterPoints_spec ht first rest
  simp only [h1]
  exact ⟨h2.sublist.cons_cons _, rfl, h3, tail, rfl, h2⟩

/-- **Sparse `sample_path`**: with `n = max(⌊dist / tol⌋, 1)` segments the output starts at the
    requested start, ends at the requested end, and is the list of line points
    `start + (i / n) · (end − start)` for a strictly increasing list of indices `i ≤ n` (points on
    the line, in order, parameter `i / n` monotone), each carrying the map's own height there. -/
theorem C19_path_ends_order (sc : Rat) (locate : Rat → Rat → Option Tri) (tol dist : Rat)
    (ht : 0 < tol) (x1 y1 x2 y2 : Rat) :
    let depth := getDepthSparse sc locate
    let n := numSegments dist tol
    let out := samplePathSparse sc locate tol dist x1 y1 x2 y2
    1 ≤ n ∧
    out.head? = some ⟨x1, y1, depth x1 y1⟩ ∧
    out.getLast? = some ⟨x2, y2, depth x2 y2⟩ ∧
    (∃ idx : List Nat, idx.Pairwise (· < ·) ∧ (∀ i ∈ idx, i ≤ n) ∧
      out = idx.map fun i =>
        ⟨x1 + (i : Rat) / (n : Rat) * (x2 - x1), y1 + (i : Rat) / (n : Rat) * (y2 - y1),
         depth (x1 + (i : Rat) / (n : Rat) * (x2 - x1)) (y1 + (i : Rat) / (n : Rat) * (y2 - y1))⟩) ∧
    ∀ i j : Nat, i < j → (i : Rat) / (n : Rat) < (j : Rat) / (n : Rat) := by
  intro depth n out
  have hn : 1 ≤ n := numSegments_pos dist tol
  have hne : List.range (n + 1) ≠ [] := by simp
  obtain ⟨h1, h2, l', hs, he⟩ :=
    filterPoints_map ht (linePoint depth n x1 y1 x2 y2) (List.range (n + 1)) hne
  have ho : out = filterPoints tol ((List.range (n + 1)).map (linePoint depth n x1 y1 x2 y2)) := by
    simp only [out, samplePathSparse, interpolateLineSparse_eq]; rfl
  refine ⟨hn, ?_, ?_, ⟨l', ?_, ?_, ?_⟩, ?_⟩
  · rw [ho, h1, List.range_succ_eq_map, List.map_cons, List.head?_cons, linePoint_zero]
  · rw [ho, h2, List.getLast?_map, List.getLast?_range]
    simp [linePoint_last depth n hn]
  · exact List.pairwise_lt_range.sublist hs
  · intro i hi
    have := List.mem_range.mp (hs.subset hi)
    omega
  · rw [ho, he]; rfl
  · intro i j hij
    have : (0 : Rat) < n := by exact_mod_cast hn
    exact div_lt_div_of_pos_right (by exact_mod_cast hij) this

/-- **Bresenham's line of the raster map** (`skimage.draw.line`, transcribed): `N + 1` pixels with
    `N = max(|Δr|, |Δc|)`, the first is the start, the last is the end, the `i`-th pixel has moved
    exactly the fraction `i / N` along the major axis (parameter strictly monotone), and lies within
    half a pixel of the ideal line (`2·|cross product| ≤ N ≤ length`). -/
theorem C19_raster_line (r0 c0 r1 c1 : Int) :
    let L := bresenham r0 c0 r1 c1
    let N := max (r1 - r0).natAbs (c1 - c0).natAbs
    L.length = N + 1 ∧ L[0]? = some (r0, c0) ∧ L[N]? = some (r1, c1) ∧
    ∀ i : Nat, i ≤ N → ∃ p : Int × Int, L[i]? = some p ∧
      (if (r1 - r0).natAbs > (c1 - c0).natAbs then (p.1 - r0) * N = i * (r1 - r0)
        else (p.2 - c0) * N = i * (c1 - c0)) ∧
      -(N : Int) ≤ 2 * ((p.1 - r0) * (c1 - c0) - (p.2 - c0) * (r1 - r0)) ∧
      2 * ((p.1 - r0) * (c1 - c0) - (p.2 - c0) * (r1 - r0)) ≤ N :=
  bresenham_spec r0 c0 r1 c1

/-- **Raster `sample_path`**: the output starts at the (rounded) start pixel, ends at the (rounded)
    end pixel, and is the image of a sub-list of Bresenham's pixels (order kept), each carrying the
    map's own height at its location. -/
theorem C19_raster_path (sc : Rat) (interp : Rat → Rat → Rat) (g : Grid) (tol : Rat) (ht : 0 < tol)
    (x1 y1 x2 y2 : Rat) :
    let depth := getDepthRaster sc interp g
    let a : Int × Int := (roundHalfEven x1, roundHalfEven y1)
    let b : Int × Int := (roundHalfEven x2, roundHalfEven y2)
    let out := samplePathRaster sc interp g tol x1 y1 x2 y2
    out.head? = some ⟨a.1, a.2, depth a.1 a.2⟩ ∧
    out.getLast? = some ⟨b.1, b.2, depth b.1 b.2⟩ ∧
    ∃ px : List (Int × Int), px.Sublist (bresenham a.1 a.2 b.1 b.2) ∧
      out = px.map fun p => ⟨p.1, p.2, depth p.1 p.2⟩ := by
  intro depth a b out
  obtain ⟨hlen, h0, hN, _⟩ := bresenham_spec a.1 a.2 b.1 b.2
  have hne : bresenham a.1 a.2 b.1 b.2 ≠ [] := by
    intro h; rw [h] at hlen; simp at hlen
  obtain ⟨h1, h2, l', hs, he⟩ :=
    filterPoints_map ht (fun p : Int × Int => (⟨p.1, p.2, depth p.1 p.2⟩ : Sample)) _ hne
  refine ⟨?_, ?_, l', hs, he⟩
  · show (filterPoints tol _).head? = _
    rw [show interpolateLineRaster depth x1 y1 x2 y2 = (bresenham a.1 a.2 b.1 b.2).map _ from rfl, h1,
      List.head?_map, List.head?_eq_getElem?, h0]; rfl
  · show (filterPoints tol _).getLast? = _
    rw [show interpolateLineRaster depth x1 y1 x2 y2 = (bresenham a.1 a.2 b.1 b.2).map _ from rfl, h2,
      List.getLast?_map, List.getLast?_eq_getElem?, hlen, Nat.add_sub_cancel, hN]; rfl

/-- **Flat map**: depth 0 everywhere; the path is the two line ends at height 0. -/
theorem C19_flat (x y x1 y1 x2 y2 : Rat) :
    flatDepth x y = 0 ∧ flatPath x1 y1 x2 y2 = [⟨x1, y1, 0⟩, ⟨x2, y2, 0⟩] := ⟨rfl, rfl⟩

/-! ## Non-vacuity -/

/-- an interpolant that reproduces a 2 × 3 grid (hypothesis of `C19_raster_sample` is satisfiable) -/
example : Interpolates (fun r c => 10 * r + c) [[0, 1, 2], [10, 11, 12]] := by
  intro r c hr hc
  have hr' : r = 0 ∨ r = 1 := by simp [Grid.height] at hr; omega
  have hc' : c = 0 ∨ c = 1 ∨ c = 2 := by simp [Grid.width] at hc; omega
  rcases hr' with rfl | rfl <;> rcases hc' with rfl | rfl | rfl <;> simp [Grid.cell] <;> norm_num
/-- column 2 of row 1 (x = 2, y = 1), scale 3; x = 3 is outside (width 3), y = 2 is outside -/
example : getDepthRaster 3 (fun r c => 10 * r + c) [[0, 1, 2], [10, 11, 12]] 2 1 = 36
    ∧ getDepthRaster 3 (fun r c => 10 * r + c) [[0, 1, 2], [10, 11, 12]] 3 1 = 0
    ∧ getDepthRaster 3 (fun r c => 10 * r + c) [[0, 1, 2], [10, 11, 12]] 1 2 = 0 := by decide +kernel

/-- the filter on a slow ramp: samples 1 and 3 are dropped (0.25 and 0.25 from the kept ones) -/
example : filterPoints (1/2) [⟨0, 0, 0⟩, ⟨1, 0, 1/4⟩, ⟨2, 0, 3/4⟩, ⟨3, 0, 1⟩, ⟨4, 0, 1⟩]
    = [⟨0, 0, 0⟩, ⟨2, 0, 3/4⟩, ⟨4, 0, 1⟩] := by decide +kernel
/-- tolerance 0 is excluded for a reason: the first sample would be kept twice -/
example : filterPoints 0 [⟨0, 0, 0⟩, ⟨1, 0, 1/4⟩] = [⟨0, 0, 0⟩, ⟨0, 0, 0⟩, ⟨1, 0, 1/4⟩] := by decide +kernel

example : bresenham 0 0 5 2 = [(0, 0), (1, 0), (2, 1), (3, 1), (4, 2), (5, 2)] := by decide +kernel
example : numSegments (3/2) (1/2) = 3 ∧ numSegments 0 (1/2) = 1 := by decide +kernel

/-! ### The listed finding `C19-sparse-hull-vertex` on its witness

Stored samples (1,18,1) (8,12,2) (14,7,3) (16,5,4).  `(16,5)` is a vertex of the simplex
`(16,5) (8,12) (1,18)` of scipy's triangulation (area 1/2: an acute hull vertex).  With a point
location that satisfies the hypothesis of `C19_sparse_vertex` the model returns the stored height 4;
scipy's `find_simplex` answers "outside" (`none`) for this stored sample, and then model and
implementation both return 0 — the property fails, the correspondence holds. -/
def witnessTri : Tri := ⟨⟨16, 5, 4⟩, ⟨8, 12, 2⟩, ⟨1, 18, 1⟩⟩
example : witnessTri.det ≠ 0 := by decide +kernel
example : getDepthSparse 1 (fun _ _ => some witnessTri) 16 5 = 4 := by decide +kernel
example : getDepthSparse 1 (fun _ _ => none) 16 5 = 0 ∧ (0 : Rat) ≠ 1 * 4 := by decide +kernel
/-- an interior point of a simplex: barycentric coordinates ≥ 0 (hypothesis of `C19_sparse_between`) -/
example : witnessTri.bary (25/3) (35/3) = (1/3, 1/3, 1/3) ∧ witnessTri.interp (25/3) (35/3) = 7/3 := by decide +kernel

import GscribModel.Gen.HeightSrc
/-! # The heightmap model is the translated `RasterHeightMap` / `SparseHeightMap` / `FlatHeightMap`

`Gen/HeightSrc.lean` is *generated* on every run from the source text of `gscrib/heightmaps/*.py` (`tools/gen_height.py`).
The theorems of C19 are about the hand-written `Model/Heightmap.lean`; the theorems below prove, for every argument and
every state, that the model's functions are the translated methods.

How the model's parameters appear in the source:
* the model's `sc`, `tol`, `g` are the fields `_scale_z`, `_tolerance`, `_height_map` of the translated record;
* raster: the model's `interp : row → col → value` is the field `_interpolator`, and the translated `get_depth_at` applies
  it to `(y, x)` — the argument order is the source's, so swapping it breaks `HeightTie_raster_depth`;
* sparse: the model's `locate : x → y → Option Tri` (Qhull) gives the interpolant `linearND locate` (barycentric on the
  located simplex, the fill value `0` of `_create_interpolator` outside), applied by the source to `(x, y)`;
* the model's `dist` is `hypot (x2 - x1) (y2 - y1)` with `hypot` the parameter standing for `numpy.hypot`.

Two places where the source does something the model has no word for are stated as theorems of their own:
`HeightTie_filter_points_*` (an empty array raises `IndexError`; the model answers `[]`; unreachable, both
`_interpolate_line` return at least one sample) and `HeightTie_sparse_zero_tolerance` (`set_tolerance(0)` is accepted, and
then `sample_path` raises `OverflowError` / `ValueError` out of `int(inf)` / `int(nan)`; the model's `numSegments _ 0 = 1`):
so `HeightTie_num_segments`, `_sparse_line`, `_sparse_path` carry the hypothesis `tol ≠ 0`. -/
open GscribModel.Heightmap GscribModel.HeightPrelude
open GscribModel.Gen.HeightSrc

namespace GscribModel.HeightTie

/-- the `LinearNDInterpolator(points, z, fill_value=0.0)` of `SparseHeightMap._create_interpolator`, given Qhull's point
    location: linear on the located simplex, `0` where there is none -/
def linearND (locate : Rat → Rat → Option Tri) (x y : Rat) : Rat :=
  match locate x y with
  | none => 0
  | some t => t.interp x y

/-! ### indexing -/

theorem pyIndex_zero {α : Type} (a : α) (l : List α) : pyIndex (a :: l) 0 = .ok a := by
  simp [pyIndex]

theorem pyIndex_last {α : Type} (l : List α) (d : α) (h : l ≠ []) : pyIndex l (-1) = .ok (l.getLastD d) := by
  have hlen : 0 < l.length := List.length_pos_iff.mpr h
  have e : ((l.length : Int) + -1).toNat = l.length - 1 := by omega
  have hlt : l.length - 1 < l.length := by omega
  have hneg : ¬ ((l.length : Int) + -1 < 0) := by omega
  have hk : ¬ ((0 : Int) ≤ -1) := by decide
  unfold pyIndex
  simp only [hk, if_false]
  rw [if_neg hneg, e, List.getElem?_eq_getElem hlt]
  rw [List.getLastD_eq_getLast?, List.getLast?_eq_getElem?, List.getElem?_eq_getElem hlt]
  rfl

theorem pyIndex_nil {α : Type} (k : Int) : pyIndex ([] : List α) k = .error .IndexError := by
  unfold pyIndex
  by_cases h : 0 ≤ k <;> simp [h]

theorem pyAbs_eq (q : Rat) : pyAbs q = absR q := rfl

theorem npArrayEqual_iff (p q : Sample) : npArrayEqual p q = true ↔ p = q := by
  cases p; cases q; simp [npArrayEqual]

/-! ### the loop of `_filter_points` -/

/-- any loop body that does what the source's does: append and remember when the step is at least the tolerance -/
theorem foldl_keep (tol : Rat) (f : List Sample × Rat → Sample → List Sample × Rat)
    (hf : ∀ s p, f s p = if tol ≤ absR (p.z - s.2) then (s.1 ++ [p], p.z) else s) :
    ∀ (ps : List Sample) (acc : List Sample) (z : Rat),
      (List.foldl f (acc, z) ps).1 = acc ++ keepLoop tol z ps := by
  intro ps
  induction ps with
  | nil => intro acc z; simp [keepLoop]
  | cons p ps ih =>
    intro acc z
    rw [List.foldl_cons, hf]
    by_cases h : tol ≤ absR (p.z - z)
    · simp only [h, if_true, keepLoop]
      rw [ih]; simp
    · simp only [h, if_false, keepLoop]
      rw [ih]

theorem filter_tail (tol : Rat) (first : Sample) (rest : List Sample) :
  (match (pyIndex ([first] ++ keepLoop tol first.z (first :: rest)) (-1) : Except PyErr Sample) with
    | .error e => (.error e : Except PyErr (List Sample))
    | .ok t3 => .ok (if (!(npArrayEqual t3 ((first :: rest).getLastD first))) = true
        then ([first] ++ keepLoop tol first.z (first :: rest)) ++ [(first :: rest).getLastD first]
        else ([first] ++ keepLoop tol first.z (first :: rest)))) = .ok (filterPoints tol (first :: rest)) := by
  rw [pyIndex_last _ first (by simp)]
  simp only [filterPoints]
  by_cases h : (first :: keepLoop tol first.z (first :: rest)).getLastD first = (first :: rest).getLastD first
  · have := (npArrayEqual_iff _ _).mpr h
    simp_all
  · have : npArrayEqual ((first :: keepLoop tol first.z (first :: rest)).getLastD first) ((first :: rest).getLastD first) = false := by
      cases hh : npArrayEqual ((first :: keepLoop tol first.z (first :: rest)).getLastD first) ((first :: rest).getLastD first)
      · rfl
      · exact absurd ((npArrayEqual_iff _ _).mp hh) h
    simp_all

end GscribModel.HeightTie
open GscribModel.HeightTie

/-- `RasterHeightMap._filter_points` IS the model's `filterPoints` (first sample kept, a sample kept when `|z - last kept z| ≥ tolerance` — `≥`, not `>` —, the last sample appended unless it is already the last kept one); on an empty array the source raises `IndexError` out of `points[0]` -/
theorem HeightTie_filter_points_raster (self : RasterSt) (points : List Sample) (tol : Rat) :
    RasterHeightMap._filter_points self points tol =
      match points with
      | [] => .error .IndexError
      | _ :: _ => .ok (filterPoints tol points) := by
  cases points with
  | nil => simp [RasterHeightMap._filter_points, pyIndex_nil]
  | cons first rest =>
    have hl := pyIndex_last (first :: rest) first (by simp)
    simp only [RasterHeightMap._filter_points, pyIndex_zero, hl]
    rw [foldl_keep tol]
    · exact filter_tail tol first rest
    · intro s p
      by_cases h : tol ≤ absR (p.z - s.2) <;> simp [h, pyAbs_eq]

/-- the mapping of `round`: Python's round-half-to-even of a float (prelude `pyRound`, "nearer neighbour, even on a tie") is the model's `roundHalfEven` -/
theorem HeightTie_round (q : Rat) : pyRound q = roundHalfEven q := by
  have hc : (((q.floor + 1 : Int)) : Rat) = (q.floor : Rat) + 1 := by
    rw [Rat.intCast_add]; rfl
  simp only [pyRound, roundHalfEven, hc]
  by_cases h1 : q - (q.floor : Rat) < 1 / 2
  · have : q - (q.floor : Rat) < (q.floor : Rat) + 1 - q := by grind
    simp [h1, this]
  · by_cases h2 : 1 / 2 < q - (q.floor : Rat)
    · have a : ¬ (q - (q.floor : Rat) < (q.floor : Rat) + 1 - q) := by grind
      have b : (q.floor : Rat) + 1 - q < q - (q.floor : Rat) := by grind
      simp [h1, h2, a, b]
    · have a : ¬ (q - (q.floor : Rat) < (q.floor : Rat) + 1 - q) := by grind
      have b : ¬ ((q.floor : Rat) + 1 - q < q - (q.floor : Rat)) := by grind
      simp [h1, h2, a, b]

/-- `RasterHeightMap.get_depth_at`: `x < 0` / `y < 0` strict, `x ≥ width` / `y ≥ height` inclusive, the answer outside is `0` (unscaled), inside `_scale_z * spline(y, x)` — rows first -/
theorem HeightTie_raster_depth (self : RasterSt) (x y : Rat) :
    RasterHeightMap.get_depth_at self x y =
      getDepthRaster self._scale_z self._interpolator self._height_map x y := by
  simp [RasterHeightMap.get_depth_at, RasterHeightMap.get_width, RasterHeightMap.get_height, getDepthRaster, npItem00]

/-- `RasterHeightMap._interpolate_line`: the four ends rounded half-to-even, `draw.line` on them, one sample `(x, y, get_depth_at(x, y))` per pixel, in skimage's order -/
theorem HeightTie_raster_line (self : RasterSt) (x1 y1 x2 y2 : Rat) :
    RasterHeightMap._interpolate_line self [x1, y1, x2, y2] =
      .ok (interpolateLineRaster (getDepthRaster self._scale_z self._interpolator self._height_map) x1 y1 x2 y2) := by
  simp only [RasterHeightMap._interpolate_line, List.map, skimageLine, HeightTie_round, interpolateLineRaster]
  rw [List.zip_unzip]
  simp only [HeightTie_raster_depth]

/-- … and with any other number of coordinates `draw.line(*…)` raises `TypeError` (unreachable behind the shape check of `sample_path`) -/
theorem HeightTie_raster_line_arity (self : RasterSt) (line : List Rat) (h : line.length ≠ 4) :
    RasterHeightMap._interpolate_line self line = .error .TypeError := by
  match line, h with
  | [], _ | [_], _ | [_, _], _ | [_, _, _], _ | _ :: _ :: _ :: _ :: _ :: _, _ => simp [RasterHeightMap._interpolate_line, skimageLine]
  | [_, _, _, _], h => simp at h

namespace GscribModel.HeightTie

theorem bresenham_ne_nil (r0 c0 r1 c1 : Int) : bresenham r0 c0 r1 c1 ≠ [] := by
  unfold bresenham
  simp only
  split <;> simp

theorem interpolateLineRaster_ne_nil (d : Rat → Rat → Rat) (x1 y1 x2 y2 : Rat) :
    interpolateLineRaster d x1 y1 x2 y2 ≠ [] := by
  simp [interpolateLineRaster, bresenham_ne_nil]

theorem trunc_max (q : Rat) : max (pyTrunc q) 1 = ((max q.floor.toNat 1 : Nat) : Int) := by
  unfold pyTrunc
  by_cases h : 0 ≤ q
  · have : 0 ≤ q.floor := Rat.le_floor_iff.mpr (by simpa using h)
    simp only [h, if_true]
    omega
  · have h' : q < 0 := by grind
    have a : q.floor < 0 := Rat.floor_lt_iff.mpr (by simpa using h')
    have b : 0 ≤ (-q).floor := Rat.le_floor_iff.mpr (by
      have : (0 : Rat) ≤ -q := by grind
      simpa using this)
    simp only [h, if_false]
    omega

end GscribModel.HeightTie

/-- `max(int(distance / tolerance), 1)`: `int` truncates towards zero, the model floors and clips at 0 — the same number for every quotient, negative ones included; needs `tolerance ≠ 0` -/
theorem HeightTie_num_segments (dist tol : Rat) (h : tol ≠ 0) :
    (pyIntF (npTrueDiv dist tol)).map (fun k => max k 1) = .ok ((numSegments dist tol : Nat) : Int) := by
  simp [npTrueDiv, h, pyIntF, Except.map, trunc_max, numSegments]

/-- `numpy.linspace(a, b, n + 1)` is the model's `linspace a b n` -/
theorem HeightTie_linspace (a b : Rat) (n : Nat) : npLinspace a b ((n : Int) + 1) = linspace a b n := by
  have e : ((n : Int) + 1).toNat = n + 1 := by omega
  simp [npLinspace, linspace, e]

/-- `SparseHeightMap.get_depth_at`: `_scale_z * interpolator(x, y)` — x first —, with scipy's interpolant = barycentric on the located simplex, fill value 0 -/
theorem HeightTie_sparse_depth (sc tol : Rat) (locate : Rat → Rat → Option Tri) (x y : Rat) :
    SparseHeightMap.get_depth_at ⟨sc, tol, linearND locate⟩ x y = getDepthSparse sc locate x y := by
  simp only [SparseHeightMap.get_depth_at, getDepthSparse, linearND]
  cases locate x y <;> rfl

namespace GscribModel.HeightTie

theorem filter_ok_raster (self : RasterSt) (points : List Sample) (tol : Rat) (h : points ≠ []) :
    RasterHeightMap._filter_points self points tol = .ok (filterPoints tol points) := by
  rw [HeightTie_filter_points_raster]
  cases points with
  | nil => exact absurd rfl h
  | cons _ _ => rfl

end GscribModel.HeightTie

/-- `RasterHeightMap.sample_path` on four coordinates: `_interpolate_line`, then `_filter_points` with `self._tolerance`; never raises -/
theorem HeightTie_raster_path (self : RasterSt) (x1 y1 x2 y2 : Rat) :
    RasterHeightMap.sample_path self [x1, y1, x2, y2] =
      .ok (samplePathRaster self._scale_z self._interpolator self._height_map self._tolerance x1 y1 x2 y2) := by
  simp only [RasterHeightMap.sample_path, npAsarrayFloat, npShape1, HeightTie_raster_line,
    filter_ok_raster _ _ _ (interpolateLineRaster_ne_nil _ _ _ _ _), samplePathRaster]
  simp

/-- `sample_path` rejects every other length with `ValueError` (the model's `lineShapeOk`) -/
theorem HeightTie_raster_path_shape (self : RasterSt) (line : List Rat) (h : lineShapeOk line = false) :
    RasterHeightMap.sample_path self line = .error .ValueError := by
  have : line.length ≠ 4 := by simpa [lineShapeOk] using h
  simp [RasterHeightMap.sample_path, npAsarrayFloat, npShape1, this]

namespace GscribModel.HeightTie

theorem seg_ok (dist tol : Rat) (h : tol ≠ 0) : pyIntF (npTrueDiv dist tol) = .ok (pyTrunc (dist / tol)) := by
  simp [npTrueDiv, h, pyIntF]

end GscribModel.HeightTie

/-- `SparseHeightMap._interpolate_line`: `numSegments (hypot (x2 - x1) (y2 - y1)) tol` segments, `linspace` on x and on y, one sample per pair -/
theorem HeightTie_sparse_line (hypot : Rat → Rat → Rat) (sc tol : Rat) (locate : Rat → Rat → Option Tri)
    (htol : tol ≠ 0) (x1 y1 x2 y2 : Rat) :
    SparseHeightMap._interpolate_line hypot ⟨sc, tol, linearND locate⟩ [x1, y1, x2, y2] =
      .ok (interpolateLineSparse (getDepthSparse sc locate) (numSegments (hypot (x2 - x1) (y2 - y1)) tol) x1 y1 x2 y2) := by
  simp only [SparseHeightMap._interpolate_line, pyUnpack4, seg_ok _ _ htol, trunc_max, HeightTie_linspace,
    HeightTie_sparse_depth, interpolateLineSparse, numSegments]

namespace GscribModel.HeightTie

theorem interpolateLineSparse_ne_nil (d : Rat → Rat → Rat) (n : Nat) (x1 y1 x2 y2 : Rat) :
    interpolateLineSparse d n x1 y1 x2 y2 ≠ [] := by
  simp [interpolateLineSparse, linspace, List.range_succ]

end GscribModel.HeightTie

/-- … and unpacking any other number of coordinates raises `ValueError` -/
theorem HeightTie_sparse_line_arity (hypot : Rat → Rat → Rat) (self : SparseSt) (line : List Rat) (h : line.length ≠ 4) :
    SparseHeightMap._interpolate_line hypot self line = .error .ValueError := by
  match line, h with
  | [], _ | [_], _ | [_, _], _ | [_, _, _], _ | _ :: _ :: _ :: _ :: _ :: _, _ => simp [SparseHeightMap._interpolate_line, pyUnpack4]
  | [_, _, _, _], h => simp at h

/-- the same for `SparseHeightMap._filter_points` (the two copies of the method are translated separately) -/
theorem HeightTie_filter_points_sparse (self : SparseSt) (points : List Sample) (tol : Rat) :
    SparseHeightMap._filter_points self points tol =
      match points with
      | [] => .error .IndexError
      | _ :: _ => .ok (filterPoints tol points) := by
  cases points with
  | nil => simp [SparseHeightMap._filter_points, pyIndex_nil]
  | cons first rest =>
    have hl := pyIndex_last (first :: rest) first (by simp)
    simp only [SparseHeightMap._filter_points, pyIndex_zero, hl]
    rw [foldl_keep tol]
    · exact filter_tail tol first rest
    · intro s p
      by_cases h : tol ≤ absR (p.z - s.2) <;> simp [h, pyAbs_eq]

namespace GscribModel.HeightTie

theorem filter_ok_sparse (self : SparseSt) (points : List Sample) (tol : Rat) (h : points ≠ []) :
    SparseHeightMap._filter_points self points tol = .ok (filterPoints tol points) := by
  rw [HeightTie_filter_points_sparse]
  cases points with
  | nil => exact absurd rfl h
  | cons _ _ => rfl

end GscribModel.HeightTie

/-- `SparseHeightMap.sample_path` on four coordinates (`tolerance ≠ 0`) -/
theorem HeightTie_sparse_path (hypot : Rat → Rat → Rat) (sc tol : Rat) (locate : Rat → Rat → Option Tri)
    (htol : tol ≠ 0) (x1 y1 x2 y2 : Rat) :
    SparseHeightMap.sample_path hypot ⟨sc, tol, linearND locate⟩ [x1, y1, x2, y2] =
      .ok (samplePathSparse sc locate tol (hypot (x2 - x1) (y2 - y1)) x1 y1 x2 y2) := by
  simp only [SparseHeightMap.sample_path, npAsarrayFloat, npShape1, HeightTie_sparse_line _ _ _ _ htol,
    filter_ok_sparse _ _ _ (interpolateLineSparse_ne_nil _ _ _ _ _ _), samplePathSparse]
  simp

/-- `sample_path` rejects every other length with `ValueError` -/
theorem HeightTie_sparse_path_shape (hypot : Rat → Rat → Rat) (self : SparseSt) (line : List Rat)
    (h : lineShapeOk line = false) : SparseHeightMap.sample_path hypot self line = .error .ValueError := by
  have : line.length ≠ 4 := by simpa [lineShapeOk] using h
  simp [SparseHeightMap.sample_path, npAsarrayFloat, npShape1, this]

/-- FINDING (source ≠ model at `tolerance = 0`): `set_tolerance(0)` is accepted, after which every `sample_path` of the sparse map raises (`int(inf)`: `OverflowError`; `int(nan)` for a zero-length line: `ValueError`); the model's `numSegments _ 0` is `1` -/
theorem HeightTie_sparse_zero_tolerance (hypot : Rat → Rat → Rat) (sc : Rat) (f : Rat → Rat → Rat) (x1 y1 x2 y2 : Rat) :
    SparseHeightMap.set_tolerance ⟨sc, 1, f⟩ 0 = .ok ⟨sc, 0, f⟩ ∧
    SparseHeightMap.sample_path hypot ⟨sc, 0, f⟩ [x1, y1, x2, y2] =
      .error (if hypot (x2 - x1) (y2 - y1) = 0 then .ValueError else .OverflowError) ∧
    numSegments (hypot (x2 - x1) (y2 - y1)) 0 = 1 := by
  refine ⟨by simp [SparseHeightMap.set_tolerance], ?_, by simp [numSegments, Rat.div_def]; decide⟩
  by_cases h : hypot (x2 - x1) (y2 - y1) = 0 <;>
    simp [SparseHeightMap.sample_path, SparseHeightMap._interpolate_line, npAsarrayFloat, npShape1, pyUnpack4,
      npTrueDiv, pyIntF, h]

/-- `FlatHeightMap`: depth 0 everywhere, the path is the two ends at height 0 -/
theorem HeightTie_flat (self : FlatSt) (x y x1 y1 x2 y2 : Rat) :
    FlatHeightMap.get_depth_at self x y = flatDepth x y ∧
    FlatHeightMap.sample_path self [x1, y1, x2, y2] = .ok (flatPath x1 y1 x2 y2) := by
  constructor
  · rfl
  · simp [FlatHeightMap.sample_path, npAsarrayFloat, npShape1, pyIndex, flatPath]

/-- … and the same shape check -/
theorem HeightTie_flat_shape (self : FlatSt) (line : List Rat) (h : lineShapeOk line = false) :
    FlatHeightMap.sample_path self line = .error .ValueError := by
  have : line.length ≠ 4 := by simpa [lineShapeOk] using h
  simp [FlatHeightMap.sample_path, npAsarrayFloat, npShape1, this]

/-- what the setters reject: `set_scale` everything `≤ 0`, `set_tolerance` everything `< 0` (zero is accepted); otherwise exactly one field changes -/
theorem HeightTie_setters (r : RasterSt) (s : SparseSt) (v : Rat) :
    RasterHeightMap.set_scale r v = (if v ≤ 0 then .error .ValueError else .ok { r with _scale_z := v }) ∧
    RasterHeightMap.set_tolerance r v = (if v < 0 then .error .ValueError else .ok { r with _tolerance := v }) ∧
    SparseHeightMap.set_scale s v = (if v ≤ 0 then .error .ValueError else .ok { s with _scale_z := v }) ∧
    SparseHeightMap.set_tolerance s v = (if v < 0 then .error .ValueError else .ok { s with _tolerance := v }) := by
  simp [RasterHeightMap.set_scale, RasterHeightMap.set_tolerance, SparseHeightMap.set_scale, SparseHeightMap.set_tolerance]

/-- `_to_height_map`: every pixel divided by 65535 for a uint16 image and by 255 for ANY other dtype, rounded to float32 (`f32`) -/
theorem HeightTie_normalize (f32 : Rat → Rat) (self : RasterSt) (img : Image) :
    RasterHeightMap._to_height_map f32 self img =
      img.px.map fun row => row.map fun (v : Nat) =>
        f32 ((v : Rat) / (match img.dtype with | .uint16 => 65535 | .uint8 => 255)) := by
  cases img with
  | mk dt px => cases dt <;> simp [RasterHeightMap._to_height_map, npDivideOut]

/-- the constructors: scale 1.0, tolerance 0.378, the normalised image; the interpolant is scipy's -/
theorem HeightTie_init (f32 : Rat → Rat) (r : RasterSt) (s : SparseSt) (img : Image) (data : SparseData) :
    RasterHeightMap.init f32 r img =
      ⟨1, 378 / 1000, RasterHeightMap._to_height_map f32 r img, r._interpolator⟩ ∧
    SparseHeightMap.init s data = ⟨1, 378 / 1000, s._interpolator⟩ := by
  constructor
  · simp only [RasterHeightMap.init, RasterHeightMap._to_height_map]
    congr 1
    decide +kernel
  · simp only [SparseHeightMap.init]
    congr 1
    decide +kernel

/-! ### concrete evaluations of the translated methods (kernel-checked) -/

namespace GscribModel.HeightTie
/-- a 3×3 map; the "spline" reads the pixel under the query (rows first) -/
def exGrid : Grid := [[0, 1/2, 1], [1/4, 3/4, 7/8], [1/2, 1, 1]]
def exRaster : RasterSt := ⟨2, 1, exGrid, fun row col => exGrid.cell row.floor.toNat col.floor.toNat⟩
def exSparse : SparseSt := ⟨3, 1/2, fun x y => x + 2 * y⟩
end GscribModel.HeightTie

-- ends rounded half-to-even (5/2 ↦ 2, 1/2 ↦ 0, 3/2 ↦ 2); three pixels, row 1 column 2 read at (x, y) = (2, 1)
example : (RasterHeightMap._interpolate_line exRaster [1/2, -1/4, 5/2, 5/4]).toOption =
    some [⟨0, 0, 0⟩, ⟨1, 1, 3/2⟩, ⟨2, 1, 7/4⟩] := by decide +kernel
-- with tolerance 1 the middle sample stays (|3/2 - 0| ≥ 1) and the last is appended; with tolerance 2 only the ends are left
example : (RasterHeightMap.sample_path exRaster [1/2, -1/4, 5/2, 5/4]).toOption =
    some [⟨0, 0, 0⟩, ⟨1, 1, 3/2⟩, ⟨2, 1, 7/4⟩] := by decide +kernel
example : (RasterHeightMap.sample_path { exRaster with _tolerance := 2 } [1/2, -1/4, 5/2, 5/4]).toOption =
    some [⟨0, 0, 0⟩, ⟨2, 1, 7/4⟩] := by decide +kernel
example : RasterHeightMap.get_depth_at exRaster 3 0 = 0 ∧ RasterHeightMap.get_depth_at exRaster 2 0 = 2 := by decide +kernel
-- sparse: "distance" 3/2, tolerance 1/2: three segments
example : (SparseHeightMap.sample_path (fun a b => a + b) exSparse [0, 0, 1, 1/2]).toOption =
    some [⟨0, 0, 0⟩, ⟨1/3, 1/6, 2⟩, ⟨2/3, 1/3, 4⟩, ⟨1, 1/2, 6⟩] := by decide +kernel
example : (match SparseHeightMap.sample_path (fun a b => a + b) { exSparse with _tolerance := 0 } [0, 0, 1, 1/2] with
    | .error e => some e | .ok _ => none) = some .OverflowError := by decide +kernel
example : (FlatHeightMap.sample_path ⟨⟩ [1, 2, 3, 4]).toOption = some [⟨1, 2, 0⟩, ⟨3, 4, 0⟩] := by decide +kernel
example : RasterHeightMap._to_height_map (fun q => q) exRaster ⟨.uint16, [[0, 65535], [13107, 1]]⟩ =
    [[0, 1], [1/5, 1/65535]] := by decide +kernel

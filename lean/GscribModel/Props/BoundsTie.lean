import GscribModel.Gen.BoundsSrc
import GscribModel.Props.PointTie
/-! # The prelude's `BoundManager` and the builder model's bounds are the translated `BoundManager`

`Gen/BoundsSrc.lean` is *generated* on every run from the source text of `gscrib/geometry/bounds.py` (and the
comparison methods of `gscrib/geometry/point.py`) by `tools/gen_bounds.py`: `VALID_PROPERTIES`, `get_bounds`,
`set_bounds`, `validate`, statement by statement, over run-time values (`BVal`: a number or a Point) and a dictionary.

The hand-written side - `kindOfName`, `validateNum`, `validateInt`, `validatePt` of `Model/GenPrelude.lean` (what every
translated `GState` setter calls), `Bounds`, `Bounds.get/.set/.okNum/.okAxes` and the `boundsAxes` / `boundsNum`
operations of `Model/Builder.lean` - works on a record of optional ranges.  `conc b` is the manager that holds exactly
the ranges of the model value `b`; the theorems say, for every `b` and every argument, that the translated method run
on `conc b` does what the model says, and lands in `conc` of the model's new value.  The theorems about rejected calls
(`_unknown`, `_wrong_kind`, `_rejected_unchanged`) hold for *every* manager, not only those of the form `conc b`. -/
open GscribModel.Builder GscribModel.GenPrelude GscribModel.BoundsPrelude GscribModel.Gen.BoundsSrc

namespace GscribModel.BoundsTie

/-- the property name of a kind of numeric bounds -/
def nameOf : BKind → String
  | .bed => "bed-temperature" | .chamber => "chamber-temperature" | .hotend => "hotend-temperature"
  | .feed => "feed-rate" | .toolNumber => "tool-number" | .toolPower => "tool-power"

def toPt (p : P3) : Pt := ⟨some p.x, some p.y, some p.z⟩
def numPair (r : Rat × Rat) : BVal × BVal := (.num (.fin r.1), .num (.fin r.2))
def ptPair (r : P3 × P3) : BVal × BVal := (.pt (toPt r.1), .pt (toPt r.2))

/-- the dictionary that holds exactly the ranges of a model `Bounds` -/
def dictOf (b : Bounds) : BDict := fun name =>
  if name = "axes" then b.axes.map ptPair
  else match kindOfName name with
    | some k => (b.get k).map numPair
    | none => none

/-- the manager that holds exactly the ranges of a model `Bounds` -/
def conc (b : Bounds) : BoundManager := { _bounds := dictOf b }

/-- the model only ever raises `ValueError` from a validation -/
def asVE : Except Err Unit → Except PyErr Unit
  | .ok _ => .ok ()
  | .error _ => .error .valueError

/-- a `set_bounds` of the model against the translated one: same manager afterwards, same verdict -/
def AgreesS (r : Res) (t : BoundManager × Except PyErr Unit) : Prop :=
  t.1 = conc r.b.bounds ∧ ((r.out = .ok ∧ t.2 = .ok ()) ∨ (r.out = .error .valueError ∧ t.2 = .error .valueError))

/-- the exception class of an outcome (`none` = returned normally) -/
def errOf {α : Type} : Except PyErr α → Option PyErr
  | .ok _ => none
  | .error e => some e

theorem kind_nameOf (k : BKind) : kindOfName (nameOf k) = some k := by cases k <;> rfl

theorem kind_eq (name : String) (k : BKind) (h : kindOfName name = some k) : name = nameOf k := by
  unfold kindOfName at h
  split at h <;> first | (cases h; rfl) | (simp at h)

theorem kind_axes : kindOfName "axes" = none := by decide

theorem nameOf_ne_axes (k : BKind) : nameOf k ≠ "axes" := by cases k <;> decide

theorem contains_valid (name : String) :
    VALID_PROPERTIES.contains name = (name == "axes" || (kindOfName name).isSome) := by
  unfold kindOfName
  split
  all_goals first
    | (simp_all [VALID_PROPERTIES]; done)
    | (simp_all [VALID_PROPERTIES]; by_cases h : name = "axes" <;> simp [h])

theorem valid_of_kind (name : String) (k : BKind) (h : kindOfName name = some k) : VALID_PROPERTIES.contains name = true := by
  rw [contains_valid, h]; simp

theorem andE_ok (a b : Bool) : andE (.ok a) (.ok b) = .ok (a && b) := by cases a <;> rfl
theorem orE_ok (a b : Bool) : orE (.ok a) (.ok b) = .ok (a || b) := by cases a <;> rfl
theorem notE_ok (a : Bool) : notE (.ok a) = .ok (!a) := rfl

theorem get_set_same (b : Bounds) (k : BKind) (r : Rat × Rat) : (b.set k r).get k = some r := by cases k <;> rfl
theorem get_set_other (b : Bounds) (k k' : BKind) (r : Rat × Rat) (h : k' ≠ k) : (b.set k r).get k' = b.get k' := by
  cases k <;> cases k' <;> first | rfl | exact absurd rfl h
theorem axes_set (b : Bounds) (k : BKind) (r : Rat × Rat) : (b.set k r).axes = b.axes := by cases k <;> rfl

theorem dictOf_kind (b : Bounds) (name : String) (k : BKind) (h : kindOfName name = some k) :
    dictOf b name = (b.get k).map numPair := by
  have h1 : name ≠ "axes" := by
    intro e; rw [e, kind_axes] at h; cases h
  simp only [dictOf, h1, if_false, h]

theorem dictOf_axes (b : Bounds) : dictOf b "axes" = b.axes.map ptPair := by simp [dictOf]

/-- storing a numeric range in the dictionary of `b` gives the dictionary of `b.set` -/
theorem dictOf_set (b : Bounds) (k : BKind) (r : Rat × Rat) :
    BDict.set (dictOf b) (nameOf k) (numPair r) = dictOf (b.set k r) := by
  funext n
  by_cases h1 : n = nameOf k
  · subst h1
    simp only [BDict.set, if_true]
    rw [dictOf_kind _ _ k (kind_nameOf k), get_set_same]; rfl
  · simp only [BDict.set, h1, if_false, dictOf, axes_set]
    split
    · rfl
    · split
      · rename_i k' hk'
        have : k' ≠ k := by
          intro e; subst e; exact h1 (kind_eq n k' hk')
        rw [get_set_other _ _ _ _ this]
      · rfl

theorem dictOf_set_axes (b : Bounds) (r : P3 × P3) :
    BDict.set (dictOf b) "axes" (ptPair r) = dictOf { b with axes := some r } := by
  funext n
  by_cases h1 : n = "axes"
  · subst h1; simp [BDict.set, dictOf]
  · simp only [BDict.set, h1, if_false, dictOf]
    split <;> first | rfl | (rename_i k _; cases k <;> rfl)

/-- `Point.__lt__` on fully known points is the model's `P3.lt` -/
theorem lt_known (a b : P3) : Point.__lt__ (toPt a) (toPt b) = .ok (P3.lt a b) := by
  simp only [Point.__lt__, toPt, OQ.leE, OQ.ltE, andE_ok, orE_ok, P3.lt, Bool.and_assoc, Bool.or_assoc]

theorem ge_known (a b : P3) : Point.__ge__ (toPt a) (toPt b) = .ok (!P3.lt a b) := by
  simp only [Point.__ge__, lt_known, notE_ok]

end GscribModel.BoundsTie
open GscribModel.BoundsTie

/-! ## names -/

/-- **The table of property names**: a name is accepted iff it is `"axes"` or one of the six names the model gives a
    numeric kind (`kindOfName`) -/
theorem BoundsTie_names (name : String) :
    VALID_PROPERTIES.contains name = (name == "axes" || (kindOfName name).isSome) := contains_valid name

/-- … and the table is exactly `"axes"` followed by the names of the six kinds, each mapped back to its kind -/
theorem BoundsTie_names_table :
    VALID_PROPERTIES = "axes" :: [BKind.bed, .chamber, .hotend, .feed, .toolNumber, .toolPower].map nameOf ∧
    ∀ k, kindOfName (nameOf k) = some k := ⟨by decide, kind_nameOf⟩

/-- a fresh manager holds the model's empty bounds -/
theorem BoundsTie_init : BoundManager.__init__ = conc {} := by
  simp only [BoundManager.__init__, conc, BoundManager.mk.injEq]
  funext n
  simp only [BDict.empty, dictOf]
  split
  · rfl
  · split
    · rename_i k _; cases k <;> rfl
    · rfl

/-! ## validate -/

/-- **`validate(name, number)`** is the prelude's `validateNum` (for every name but `"axes"`, which `GState` never
    validates a number against; see the report: the prelude says `ValueError` there, the source looks the bounds up) -/
theorem BoundsTie_validate_num (b : Bounds) (name : String) (v : Val) (h : name ≠ "axes") :
    BoundManager.validate (conc b) name (.num v) = (conc b, asVE (validateNum b name v)) := by
  cases hk : kindOfName name with
  | none =>
    have hc : VALID_PROPERTIES.contains name = false := by rw [contains_valid, hk]; simp [h]
    simp only [BoundManager.validate, validateNum, hc, hk, asVE, Bool.not_false, if_true]
  | some k =>
    have hc := valid_of_kind name k hk
    have hd := dictOf_kind b name k hk
    simp only [BoundManager.validate, validateNum, hc, hk, conc, BDict.contains, BDict.get, hd, Bool.not_true, Bool.false_eq_true, if_false]
    cases hg : b.get k with
    | none => simp [asVE]
    | some r =>
      obtain ⟨lo, hi⟩ := r
      simp only [Option.map_some, Option.isSome_some, Bool.not_true, Bool.false_eq_true, if_false, numPair, BVal.isPoint, BVal.cmp,
        andE_ok, notE_ok]
      cases Val.le (.fin lo) v && Val.le v (.fin hi) <;> simp [asVE]

theorem BoundsTie_validate_int (b : Bounds) (name : String) (n : Int) (h : name ≠ "axes") :
    BoundManager.validate (conc b) name (.num (.fin n)) = (conc b, asVE (validateInt b name n)) :=
  BoundsTie_validate_num b name (.fin n) h

/-- **`validate("axes", point)`** is the prelude's `validatePt`, i.e. the model's `okAxes` (through the translated
    `Point.within_bounds` and `PointTie_within_bounds`) -/
theorem BoundsTie_validate_point (b : Bounds) (p : Pt) :
    BoundManager.validate (conc b) "axes" (.pt p) = (conc b, asVE (validatePt b "axes" p)) := by
  have hc : VALID_PROPERTIES.contains "axes" = true := by decide
  simp only [BoundManager.validate, validatePt, hc, conc, BDict.contains, BDict.get, dictOf_axes, Bool.not_true, Bool.false_eq_true,
    if_false, if_true]
  cases hg : b.axes with
  | none => simp [asVE, Bounds.okAxes, hg]
  | some r =>
    obtain ⟨lo, hi⟩ := r
    have hw := PointTie_within_bounds b lo hi p hg
    simp only [Option.map_some, Option.isSome_some, Bool.not_true, Bool.false_eq_true, if_false, ptPair, BVal.isPoint, if_true,
      BVal.callPt2, toPt, hw, notE_ok]
    cases b.okAxes p <;> simp [asVE]

/-- a name outside the table is a `ValueError` whatever the manager holds and whatever is validated; so is it in the
    prelude (`validatePt` on such a name, `validateNum` on such a name) -/
theorem BoundsTie_validate_unknown (m : BoundManager) (name : String) (v : BVal) (h : VALID_PROPERTIES.contains name = false) :
    BoundManager.validate m name v = (m, .error .valueError) := by
  simp only [BoundManager.validate, h, Bool.not_false, if_true]

theorem BoundsTie_validate_point_unknown (b : Bounds) (name : String) (p : Pt) (h : VALID_PROPERTIES.contains name = false) :
    BoundManager.validate (conc b) name (.pt p) = (conc b, asVE (validatePt b name p)) := by
  have h1 : name ≠ "axes" := by
    intro e; subst e; revert h; decide
  simp [BoundsTie_validate_unknown _ _ _ h, validatePt, h1, asVE]

/-- a finite number passes `validate` for a kind iff the model's `okNum` says so -/
theorem BoundsTie_okNum (b : Bounds) (k : BKind) (v : Rat) :
    ((BoundManager.validate (conc b) (nameOf k) (.num (.fin v))).2 = .ok ()) ↔ b.okNum k v = true := by
  rw [BoundsTie_validate_num b (nameOf k) (.fin v) (nameOf_ne_axes k)]
  simp only [validateNum, kind_nameOf, Bounds.okNum]
  cases b.get k with
  | none => simp [asVE]
  | some r =>
    obtain ⟨lo, hi⟩ := r
    simp only [Val.le]
    by_cases hx : (decide (lo ≤ v) && decide (v ≤ hi)) = true <;> simp [asVE, hx]

/-! ## set_bounds -/

/-- **`set_bounds(name, lo, hi)`, numeric kinds**: the model's `boundsNum` operation - rejected with `ValueError` exactly
    when `lo >= hi`, manager unchanged then; otherwise the manager of the model's new bounds -/
theorem BoundsTie_set_bounds (bb : B) (name : String) (k : BKind) (lo hi : Rat) (hk : kindOfName name = some k) :
    AgreesS (step bb (.boundsNum k lo hi)) (BoundManager.set_bounds (conc bb.bounds) name (.num (.fin lo)) (.num (.fin hi))) := by
  have hn := kind_eq name k hk
  subst hn
  have hc := valid_of_kind _ k hk
  have h1 : (nameOf k == "axes") = false := by cases k <;> decide
  simp only [AgreesS, step, BoundManager.set_bounds, hc, h1, BVal.isNumber, BVal.cmp, Val.ge, Val.le, Bool.not_true, Bool.false_eq_true,
    if_false, accept, reject, conc]
  by_cases hlt : lo < hi
  · have : ¬ hi ≤ lo := Rat.not_le.mpr hlt
    simp [hlt, this]
    exact (dictOf_set bb.bounds k (lo, hi))
  · have : hi ≤ lo := Rat.not_lt.mp hlt
    simp [hlt, this]

/-- **`set_bounds("axes", lo, hi)`** with fully known points (the builder resolves them): the model's `boundsAxes` - rejected
    with `ValueError` exactly when not `lo < hi` in `Point.__lt__`'s sense (all `<=`, one `<`) -/
theorem BoundsTie_set_bounds_axes (bb : B) (lo hi : P3) :
    AgreesS (step bb (.boundsAxes lo hi)) (BoundManager.set_bounds (conc bb.bounds) "axes" (.pt (toPt lo)) (.pt (toPt hi))) := by
  have hc : VALID_PROPERTIES.contains "axes" = true := by decide
  simp only [AgreesS, step, BoundManager.set_bounds, hc, BVal.isPoint, BVal.cmp, ge_known, Bool.not_true, Bool.false_eq_true,
    if_false, accept, reject, conc, beq_self_eq_true, if_true]
  cases hlt : P3.lt lo hi
  · simp
  · simp
    exact (dictOf_set_axes bb.bounds (lo, hi))

/-- **unknown name**: `ValueError`, whatever the manager and the values -/
theorem BoundsTie_set_bounds_unknown (m : BoundManager) (name : String) (lo hi : BVal) (h : VALID_PROPERTIES.contains name = false) :
    BoundManager.set_bounds m name lo hi = (m, .error .valueError) := by
  simp only [BoundManager.set_bounds, h, Bool.not_false, if_true]

/-- **wrong kind**: a number where `"axes"` wants Points, or a Point where a numeric property wants numbers, is a
    `TypeError` (the model's operations cannot even express such a call), whatever the manager -/
theorem BoundsTie_set_bounds_wrong_kind (m : BoundManager) (name : String) (lo hi : BVal) (h : VALID_PROPERTIES.contains name = true)
    (hw : if name = "axes" then (lo.isPoint && hi.isPoint) = false else (lo.isNumber && hi.isNumber) = false) :
    BoundManager.set_bounds m name lo hi = (m, .error .typeError) := by
  by_cases h1 : name = "axes"
  · subst h1
    simp only [if_true] at hw
    cases lo <;> cases hi <;> simp_all [BoundManager.set_bounds, BVal.isPoint]
  · simp only [h1, if_false] at hw
    cases lo <;> cases hi <;> simp_all [BoundManager.set_bounds, BVal.isNumber]

/-- **a rejected `set_bounds` changes nothing**, for every manager, name and pair of values (the only assignment is the
    last statement of the source) -/
theorem BoundsTie_set_bounds_rejected_unchanged (m : BoundManager) (name : String) (lo hi : BVal) (e : PyErr)
    (h : (BoundManager.set_bounds m name lo hi).2 = .error e) : (BoundManager.set_bounds m name lo hi).1 = m := by
  revert h
  simp only [BoundManager.set_bounds]
  repeat' split
  all_goals simp_all

/-! ## get_bounds -/

/-- **`get_bounds(name)`** for a numeric kind: the model's `Bounds.get`, `(None, None)` when nothing is configured -/
theorem BoundsTie_get_bounds (b : Bounds) (name : String) (k : BKind) (hk : kindOfName name = some k) :
    BoundManager.get_bounds (conc b) name =
      (conc b, .ok (match b.get k with
                    | some (lo, hi) => (some (.num (.fin lo)), some (.num (.fin hi)))
                    | none => (none, none))) := by
  simp only [BoundManager.get_bounds, valid_of_kind name k hk, conc, BDict.get, dictOf_kind b name k hk, Bool.not_true,
    Bool.false_eq_true, if_false]
  cases b.get k with
  | none => rfl
  | some r => rfl

theorem BoundsTie_get_bounds_axes (b : Bounds) :
    BoundManager.get_bounds (conc b) "axes" =
      (conc b, .ok (match b.axes with
                    | some (lo, hi) => (some (.pt (toPt lo)), some (.pt (toPt hi)))
                    | none => (none, none))) := by
  have hc : VALID_PROPERTIES.contains "axes" = true := by decide
  simp only [BoundManager.get_bounds, hc, conc, BDict.get, dictOf_axes, Bool.not_true, Bool.false_eq_true, if_false]
  cases b.axes with
  | none => rfl
  | some r => rfl

theorem BoundsTie_get_bounds_unknown (m : BoundManager) (name : String) (h : VALID_PROPERTIES.contains name = false) :
    BoundManager.get_bounds m name = (m, .error .valueError) := by
  simp only [BoundManager.get_bounds, h, Bool.not_false, if_true]

/-! ## non-vacuity: the translated functions, evaluated -/

/-- configure a feed-rate range and an axes box on a fresh manager; validate values inside, on the boundary and outside;
    a number against `"axes"` ends in `AttributeError`; an inverted range and a number for `"axes"` are refused -/
example :
    let m0 := BoundManager.__init__
    let m1 := (BoundManager.set_bounds m0 "feed-rate" (.num (.fin 100)) (.num (.fin 1000))).1
    let m2 := (BoundManager.set_bounds m1 "axes" (.pt ⟨some 0, some 0, some 0⟩) (.pt ⟨some 20, some 20, some 0⟩)).1
    [errOf (BoundManager.validate m2 "feed-rate" (.num (.fin 1000))).2,
     errOf (BoundManager.validate m2 "feed-rate" (.num (.fin (32001 / 32)))).2,
     errOf (BoundManager.validate m2 "feed-rate" (.num .nan)).2,
     errOf (BoundManager.validate m2 "tool-power" (.num (.fin 5000))).2,
     errOf (BoundManager.validate m2 "axes" (.pt ⟨some 20, none, some 0⟩)).2,
     errOf (BoundManager.validate m2 "axes" (.pt ⟨some 20, none, some 1⟩)).2,
     errOf (BoundManager.validate m2 "axes" (.num (.fin 5))).2,
     errOf (BoundManager.validate m2 "speed" (.num (.fin 5))).2,
     errOf (BoundManager.set_bounds m2 "feed-rate" (.num (.fin 5)) (.num (.fin 5))).2,
     errOf (BoundManager.set_bounds m2 "axes" (.num (.fin 0)) (.pt ⟨some 1, some 1, some 1⟩)).2,
     errOf (BoundManager.set_bounds m2 "axes" (.pt ⟨some 0, none, some 0⟩) (.pt ⟨some 1, some 1, some 1⟩)).2]
    = [none, some .valueError, some .valueError, none, none, some .valueError, some .attributeError, some .valueError,
       some .valueError, some .typeError, some .typeError] ∧
    (BoundManager.get_bounds m2 "feed-rate").2.toOption = some (some (.num (.fin 100)), some (.num (.fin 1000))) ∧
    (BoundManager.get_bounds m2 "bed-temperature").2.toOption = some (none, none) := by
  decide +kernel

/-- an observation the translation makes visible (not a model/source difference: the model's operations only carry finite
    bounds): `set_bounds` accepts a NaN bound (`nan >= 5` is false), after which every value is refused -/
example :
    let m := (BoundManager.set_bounds BoundManager.__init__ "feed-rate" (.num .nan) (.num (.fin 5))).1
    errOf (BoundManager.set_bounds BoundManager.__init__ "feed-rate" (.num .nan) (.num (.fin 5))).2 = none ∧
    [errOf (BoundManager.validate m "feed-rate" (.num (.fin 1))).2, errOf (BoundManager.validate m "feed-rate" (.num (.fin 5))).2,
     errOf (BoundManager.validate m "feed-rate" (.num .ninf)).2] = [some .valueError, some .valueError, some .valueError] := by
  decide +kernel

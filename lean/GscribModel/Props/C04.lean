import GscribModel.Lemmas.Transform
/-! # C04 — coordinate transforms are applied faithfully to every move

Property theorems only (helper lemmas live in `Lemmas/Transform.lean`).  The model is
`Model/Transform.lean`: `Core.transformMove` transcribes `GCodeCore._transform_move`
(`to_absolute`, `apply_transform`, `Point.combine`), `Core.go` is `move` / `rapid`.

Every statement is for an **arbitrary** state `c : Core`: the current 4×4 matrix is any matrix at
all, `c.A` is the affine map its first three rows define (the only rows `apply` reads), the tracked
position may have unknown axes, the request may mention any subset of the axes.  What is reachable
through `translate / rotate / scale / reflect / mirror / set_pivot` is a special case (C13 proves
which map that is). -/
open GscribModel.Transform

/-- **Absolute mode (G90)**: the statement written is one `G0`/`G1`; every axis it mentions carries the
    image under the transform of the requested target (= tracked position with the requested
    coordinates replaced), which is also the new tracked position. -/
theorem C04_abs_word (c : Core) (rapid : Bool) (req : Pt) (hrel : c.rel = false) :
    (c.go rapid req).2 = [Stmt.go rapid (c.transformMove req).1] ∧
    (c.go rapid req).1.axes = Pt.ofV3 (c.axes.resolve.replace req) ∧
    ∀ ax v, (c.transformMove req).1.get ax = some v →
      v = (c.A.apply (c.axes.resolve.replace req)).get ax := by
  refine ⟨rfl, ?_, ?_⟩
  · simp [Core.go, Core.transformMove, Core.toAbsolute, hrel]
  · intro ax v h
    simp only [Core.transformMove, Core.moveVector, Core.toAbsolute, hrel, Core.applyTransform_ofV3, Pt.combine] at h
    cases ax <;> simp only [Pt.get, V3.get] at h ⊢ <;> split at h <;> simp_all

/-- **Relative mode (G91)**: every axis mentioned carries the image of the requested displacement under
    the *linear part* of the transform; the new tracked position is the old one plus the displacement. -/
theorem C04_rel_word (c : Core) (rapid : Bool) (req : Pt) (hrel : c.rel = true) :
    (c.go rapid req).2 = [Stmt.go rapid (c.transformMove req).1] ∧
    (c.go rapid req).1.axes = Pt.ofV3 (c.axes.resolve.add req.resolve) ∧
    ∀ ax v, (c.transformMove req).1.get ax = some v → v = (c.A.lin.apply req.resolve).get ax := by
  refine ⟨rfl, ?_, ?_⟩
  · simp [Core.go, Core.transformMove, Core.toAbsolute, hrel]
  · intro ax v h
    have hd := Aff.diff_linear c.A (c.axes.resolve.add req.resolve) c.axes.resolve
    have hs : (c.axes.resolve.add req.resolve).sub c.axes.resolve = req.resolve := by
      cases hr : req.resolve
      cases hc : c.axes.resolve
      simp only [V3.add, V3.sub, V3.mk.injEq]
      refine ⟨?_, ?_, ?_⟩ <;> grind
    rw [hs] at hd
    rw [← hd]
    simp only [Core.transformMove, Core.moveVector, Core.toAbsolute, hrel, Core.applyTransform_ofV3, Pt.combine, if_true] at h
    cases ax <;> simp only [Pt.get, V3.get] at h ⊢ <;> split at h <;> simp_all

/-- **Which axes are mentioned**: exactly the requested ones and those whose machine coordinate has to
    change (`A·current` and `A·target` differ on it) — in either distance mode. -/
theorem C04_mentions (c : Core) (rapid : Bool) (req : Pt) (ax : Axis) :
    ((c.transformMove req).1.get ax).isSome ↔
      ((req.get ax).isSome ∨
       (c.A.apply c.axes.resolve).get ax ≠ (c.A.apply (c.go rapid req).1.axes.resolve).get ax) := by
  simp only [Core.go, Core.transformMove, Core.applyTransform_ofV3, Pt.combine, Pt.resolve_ofV3]
  cases ax <;> simp only [Pt.get, V3.get] <;> split <;> simp_all

/-- **One move keeps the machine on the image of the tracked position**: if the machine that reads the
    output is at `A·tracked` and in the same distance mode, then after executing what `move`/`rapid`
    wrote it is at `A·(new tracked)`; the transform itself is untouched.  Any `A`, any partial-axis
    request, both distance modes. -/
theorem C04_invariant (c : Core) (m : Machine) (rapid : Bool) (req : Pt)
    (hpos : m.pos = c.A.apply c.axes.resolve) (hrel : m.rel = c.rel) :
    (c.go rapid req).2.foldl Machine.exec m =
      ⟨(c.go rapid req).1.A.apply (c.go rapid req).1.axes.resolve, (c.go rapid req).1.rel⟩
    ∧ (c.go rapid req).1.tr = c.tr := by
  refine ⟨?_, rfl⟩
  simp only [Core.go, Core.transformMove, Core.moveVector, Core.applyTransform_ofV3, Pt.resolve_ofV3, List.foldl,
    Machine.exec, hrel, hpos, Pt.combine, Core.A]
  generalize c.tr.cur.matrix.toAff.apply c.axes.resolve = o
  generalize c.tr.cur.matrix.toAff.apply (c.toAbsolute req) = t
  cases hr : c.rel
  · simp only [Bool.false_eq_true, if_false]
    rw [word_abs, word_abs, word_abs]
  · simp only [if_true, V3.sub]
    rw [word_rel, word_rel, word_rel]

/-- **Absolute-bypass moves** (`move_absolute` / `rapid_absolute`) are documented to *bypass* the
    transform: they write the raw request (bracketed by `G90` … `G91` when the builder is in relative
    mode), track the raw target and leave transform and distance mode alone. -/
theorem C04_bypass_word (c : Core) (rapid : Bool) (req : Pt) :
    (c.goAbs rapid req).2 =
      (if c.rel then [Stmt.mode false, Stmt.go rapid req, Stmt.mode true] else [Stmt.go rapid req]) ∧
    (c.goAbs rapid req).1.axes = Pt.replace c.axes req ∧
    (c.goAbs rapid req).1.tr = c.tr ∧ (c.goAbs rapid req).1.rel = c.rel := ⟨rfl, rfl, rfl, rfl⟩

/-- the machine that reads a bypass move ends on its old position with the requested coordinates
    replaced, back in the builder's distance mode -/
theorem C04_bypass_machine (c : Core) (m : Machine) (rapid : Bool) (req : Pt) (hrel : m.rel = c.rel) :
    (c.goAbs rapid req).2.foldl Machine.exec m = ⟨m.pos.replace req, c.rel⟩ := by
  cases m with
  | mk pos rel =>
    simp only at hrel
    subst hrel
    cases hr : c.rel <;> simp [Core.goAbs, hr, Machine.exec, V3.replace]

/-- `set_axis` (`G92`): the machine's coordinates are renamed to the raw request -/
theorem C04_setaxis_machine (c : Core) (m : Machine) (req : Pt) :
    (c.setAxis req).2.foldl Machine.exec m = ⟨m.pos.replace req, m.rel⟩ ∧
    (c.setAxis req).1.axes = Pt.replace c.axes req ∧ (c.setAxis req).1.tr = c.tr ∧ (c.setAxis req).1.rel = c.rel := by
  refine ⟨?_, rfl, rfl, rfl⟩
  simp [Core.setAxis, Machine.exec, V3.replace]

theorem C04_bypass_agree_iff (c : Core) (m : Machine) (rapid : Bool) (req : Pt)
    (hpos : m.pos = c.A.apply c.axes.resolve) (hrel : m.rel = c.rel) :
    (c.goAbs rapid req).2.foldl Machine.exec m =
        ⟨(c.goAbs rapid req).1.A.apply (c.goAbs rapid req).1.axes.resolve, (c.goAbs rapid req).1.rel⟩
      ↔ c.resyncs req := by
  rw [C04_bypass_machine c m rapid req hrel, hpos]
  simp only [Core.goAbs, Core.A, Pt.resolve_replace, Core.resyncs, Machine.mk.injEq, and_true]
  exact eq_comm

theorem C04_setaxis_agree_iff (c : Core) (m : Machine) (req : Pt)
    (hpos : m.pos = c.A.apply c.axes.resolve) (hrel : m.rel = c.rel) :
    (c.setAxis req).2.foldl Machine.exec m =
        ⟨(c.setAxis req).1.A.apply (c.setAxis req).1.axes.resolve, (c.setAxis req).1.rel⟩
      ↔ c.resyncs req := by
  rw [(C04_setaxis_machine c m req).1, hpos, hrel]
  simp only [Core.setAxis, Core.A, Pt.resolve_replace, Core.resyncs, Machine.mk.injEq, and_true]
  exact eq_comm

/-- **Any call history that leaves the mapping alone** — moves, rapids, distance-mode switches, the
    transformer calls that cannot change the current matrix, and bypass moves / axis resets at points
    where they `resync`: once machine and builder agree, interpreting the whole output keeps the machine
    at `transform(tracked position)` and in the builder's distance mode.  Hence also for interpolated
    paths, which are sequences of `move` calls.  In particular the image of the position a move starts
    from is always that of the *current* tracked position, however that position was reached. -/
theorem C04_invariant_run (ops : List Op) : ∀ (c : Core) (m : Machine),
    c.keepsAgreeAll ops → m.pos = c.A.apply c.axes.resolve → m.rel = c.rel →
    (c.run ops).2.foldl Machine.exec m =
      ⟨(c.run ops).1.A.apply (c.run ops).1.axes.resolve, (c.run ops).1.rel⟩
    ∧ (c.run ops).1.A = c.A := by
  induction ops with
  | nil =>
    intro c m _ hpos hrel
    refine ⟨?_, rfl⟩
    cases m; simp_all [Core.run]
  | cons op ops ih =>
    intro c m hk hpos hrel
    obtain ⟨hop, hrest⟩ := hk
    -- the step keeps machine = A·tracked and the map
    have hstep : (c.step op).2.1.foldl Machine.exec m =
          ⟨(c.step op).1.A.apply (c.step op).1.axes.resolve, (c.step op).1.rel⟩ ∧ (c.step op).1.A = c.A := by
      cases op with
      | move req => exact ⟨(C04_invariant c m false req hpos hrel).1, rfl⟩
      | rapid req => exact ⟨(C04_invariant c m true req hpos hrel).1, rfl⟩
      | moveAbs r req => exact ⟨(C04_bypass_agree_iff c m r req hpos hrel).2 hop, rfl⟩
      | setAxis req => exact ⟨(C04_setaxis_agree_iff c m req hpos hrel).2 hop, rfl⟩
      | dist r => cases m; simp_all [Core.step, Machine.exec, Core.A]
      | setPivot p => cases m; simp_all [Core.step, Core.A, Tr.setPivot, Xf.setPivot]
      | save name =>
        have hA := Core.step_keepsMap c (.save name) rfl
        refine ⟨?_, hA⟩
        rw [hA]
        cases m
        simp only [Core.step, Tr.saveState, List.foldl] at *
        cases Tr.nameKey name <;> simp_all
      | delete name =>
        have hA := Core.step_keepsMap c (.delete name) rfl
        refine ⟨?_, hA⟩
        rw [hA]
        cases m
        simp only [Core.step, Tr.deleteState] at *
        cases c.tr.named.get name <;> simp_all [Core.lift]
      | enterCurrent => cases m; simp_all [Core.step, Core.A]
      | translate | scale | rotate | chain | reflect | mirror | restore | enterNamed | exit =>
        simp [Core.keepsAgree, Op.keepsMap] at hop
    have hm : ((c.step op).2.1.foldl Machine.exec m).pos = (c.step op).1.A.apply (c.step op).1.axes.resolve
        ∧ ((c.step op).2.1.foldl Machine.exec m).rel = (c.step op).1.rel := by rw [hstep.1]; exact ⟨rfl, rfl⟩
    obtain ⟨i1, i2⟩ := ih (c.step op).1 ((c.step op).2.1.foldl Machine.exec m) hrest hm.1 hm.2
    simp only [Core.run, List.foldl_append]
    exact ⟨i1, by rw [i2, hstep.2]⟩

/-! Non-vacuity.  Rotation by 90° about z followed by a translation by (5,0,0) (as the 4×4 matrix the
    code would hold); tracked position (1,1,0).  A relative request `x=+2` must also write `Y`
    (the axis the rotation couples), and the machine ends on the image of the new tracked position. -/
def C04_exA : M4 := ⟨0,-1,0,5, 1,0,0,0, 0,0,1,0, 0,0,0,1⟩
def C04_exC (rel : Bool) : Core :=
  ⟨{ Tr.init with cur := { Xf.init with matrix := C04_exA } }, [], ⟨some 1, some 1, some 0⟩, rel⟩

example : ((C04_exC true).transformMove ⟨some 2, none, none⟩).1 = ⟨some 0, some 2, none⟩ := by decide +kernel
example : ((C04_exC false).transformMove ⟨some 3, none, none⟩).1 = ⟨some 4, some 3, none⟩ := by decide +kernel
example : ((C04_exC true).run [.move ⟨some 2, none, none⟩, .dist false, .rapid ⟨none, some 7, some 1⟩]).2
    = [.go false ⟨some 0, some 2, none⟩, .mode false, .go true ⟨some (-2), some 3, some 1⟩] := by decide +kernel
example : ((C04_exC true).run [.move ⟨some 2, none, none⟩, .dist false, .rapid ⟨none, some 7, some 1⟩]).2.foldl
    Machine.exec ⟨(C04_exC true).A.apply ⟨1, 1, 0⟩, true⟩ = ⟨(C04_exC true).A.apply ⟨3, 7, 1⟩, false⟩ := by decide +kernel

/-! Bypass moves.  Under the rotation by 90° about z (a linear map), `rapid_absolute(0,0,0)` is a fixed
    point: agreement survives, and the next relative `move(x=1)` is measured from the image of the *new*
    tracked position (the origin), not from where the previous move ended.  A bypass to (1,0,0) does not
    resync. -/
def C04_exR : M4 := ⟨0,-1,0,0, 1,0,0,0, 0,0,1,0, 0,0,0,1⟩
def C04_exD (rel : Bool) : Core :=
  ⟨{ Tr.init with cur := { Xf.init with matrix := C04_exR } }, [], ⟨some 5, some 0, some 0⟩, rel⟩
example : (C04_exD true).resyncs ⟨some 0, some 0, some 0⟩ := by decide +kernel
example : ¬ (C04_exD true).resyncs ⟨some 1, some 0, some 0⟩ := by decide +kernel
example : (C04_exD true).keepsAgreeAll [.moveAbs true ⟨some 0, some 0, some 0⟩, .move ⟨some 1, none, none⟩] := by
  decide +kernel
example : ((C04_exD true).run [.moveAbs true ⟨some 0, some 0, some 0⟩, .move ⟨some 1, none, none⟩]).2
    = [.mode false, .go true ⟨some 0, some 0, some 0⟩, .mode true, .go false ⟨some 0, some 1, none⟩] := by decide +kernel

import GscribModel.Gen.FormatSrc
/-! # The formatter model is the translated `DefaultFormatter`

`Gen/FormatSrc.lean` is *generated* on every run from the source text of
`gscrib/formatters/default_formatter.py` (`tools/gen_format.py`): every method of `DefaultFormatter`, statement by
statement, over a structure with the five `__slots__` fields, with every partial operation (`d[k]`, `t.index(x)`,
`t[i]`, an `Optional` used as a value, an unknown regex / numpy flag set) an explicit error.  The theorems below prove,
for all arguments, that the hand-written model (`Model/Format.lean`, the subject of C08 / C09) computes exactly what the
translated methods compute on the object `absF cfg` that a model configuration `cfg` stands for:

* `FormatTie_constants`      the comment-symbol table, the regex / replacement / count of the sanitiser, the axis names
                             and the defaults the source holds are the ones the model hard-codes;
* `FormatTie_number_guards`  `number`: zero shortcut, then the finiteness check (`ValueError`), then the digit printer;
* `FormatTie_comment`        `comment`: template split at `{}`, line breaks collapsed, *then* the closing symbols replaced,
                             then reassembled (any style whose opening does not contain `{}`);
* `FormatTie_parameters`     `parameters`: upper-cased keys (later duplicates overwrite in place), axes X Y Z first under their
                             labels and only when numbers, then every other key in dict order, `None` printed as `None`,
                             words joined by single spaces; the first failing number raises;
* `FormatTie_command`, `FormatTie_line`;
* `FormatTie_setters`        `__init__` followed by the six setter calls of `GCodeCore._initialize_formatter` yields `absF (mkCfg …)`;
                             `FormatTie_init`, `FormatTie_set_*`, `FormatTie_to_comment_template` describe each setter alone
                             (including the `ValueError`s the model's `mkCfg` has no room for).

Only the source's own `raise ValueError` is ever reached: no `KeyError` / `IndexError` / type error / unmodelled
primitive survives in any theorem (`liftE` only maps `ValueError` to `ValueError`). -/
open GscribModel.Format GscribModel.FormatPrelude GscribModel.Gen.FormatSrc

namespace GscribModel.FormatTie

/-! ## abstraction -/
def liftE {α : Type} : Except Err α → Except PyErr α
  | .ok a => .ok a
  | .error .valueError => .error .valueError

def templateOf (st : Style) : Str :=
  if st.closing.isEmpty then st.opening ++ [' ', '{', '}'] else st.opening ++ [' ', '{', '}', ' '] ++ st.closing

def absF (cfg : Cfg) : DefaultFormatter :=
  ⟨[(axisX, cfg.lx), (axisY, cfg.ly), (axisZ, cfg.lz)], cfg.eol, (cfg.dp : Int), templateOf cfg.style, [axisX, axisY, axisZ]⟩

theorem number_tie (cfg : Cfg) (v : Val) :
    DefaultFormatter.number (absF cfg) v = liftE (fmtVal cfg.dp v) := by
  cases v with
  | fin q =>
    by_cases h : q = 0
    · subst h; simp [DefaultFormatter.number, Val.eqInt, fmtVal, fmtNumber, liftE, npIsFinite, pyFloat]
    · simp [DefaultFormatter.number, Val.eqInt, fmtVal, liftE, h, npIsFinite, pyFloat, formatFloatPositional, absF]
  | nan => simp [DefaultFormatter.number, Val.eqInt, fmtVal, liftE, npIsFinite, pyFloat]
  | pinf => simp [DefaultFormatter.number, Val.eqInt, fmtVal, liftE, npIsFinite, pyFloat]
  | ninf => simp [DefaultFormatter.number, Val.eqInt, fmtVal, liftE, npIsFinite, pyFloat]


/-! ## comments -/
theorem replaceGoW_space (pat : Str) : ∀ (l : Str) (n : Nat), replaceGoW pat [' '] n l = replaceGo pat n l := by
  intro l
  induction l with
  | nil => intro n; cases n <;> simp [replaceGoW, replaceGo]
  | cons c cs ih =>
    intro n
    cases n with
    | zero => simp only [replaceGoW, replaceGo, ih]; split <;> simp
    | succ k => simp only [replaceGoW, replaceGo, ih]

abbrev braces : Str := ['{', '}']

theorem findFirst_template (r : Str) : ∀ (o : Str), findFirst braces o = none →
    findFirst braces (o ++ ' ' :: '{' :: '}' :: r) = some (o ++ [' '], r) := by
  intro o
  induction o with
  | nil => intro _; simp [findFirst, braces, List.isPrefixOf]
  | cons c cs ih =>
    intro h
    by_cases hp : braces.isPrefixOf (c :: cs) = true
    · simp [findFirst, hp] at h
    · cases hf : findFirst braces cs with
      | some p => simp [findFirst, hp, hf] at h
      | none =>
        have := ih hf
        have hp' : braces.isPrefixOf (c :: (cs ++ ' ' :: '{' :: '}' :: r)) = false := by
          cases cs with
          | nil => simp [List.isPrefixOf] at hp ⊢
          | cons d ds => simpa [List.isPrefixOf] using hp
        simp only [List.cons_append, findFirst, hp', this]
        simp

structure WF (st : Style) : Prop where
  noBraces : findFirst braces st.opening = none
  stripped : strip (' ' :: st.closing) = st.closing

theorem partition_template (st : Style) (h : findFirst braces st.opening = none) :
    partition (templateOf st) braces =
      (st.opening ++ [' '], braces, if st.closing.isEmpty then [] else ' ' :: st.closing) := by
  unfold partition templateOf
  by_cases hc : st.closing.isEmpty = true
  · have := findFirst_template [] st.opening h
    simp only [hc, if_true, this]
  · have := findFirst_template (' ' :: st.closing) st.opening h
    simp only [hc]
    simp only [List.append_assoc, List.cons_append, List.nil_append, Bool.false_eq_true, if_false]
    rw [this]

theorem comment_sub_eq : comment_re_sub_1 = breaksSub := by decide

theorem comment_tie (f : DefaultFormatter) (st : Style) (text : Str)
    (hf : f._comment_template = templateOf st) (wf : WF st) :
    DefaultFormatter.comment f text = .ok (comment st text) := by
  unfold DefaultFormatter.comment
  simp only [hf, partition_template st wf.noBraces, comment_sub_eq, reSub, if_true]
  by_cases hc : st.closing.isEmpty = true
  · simp [hc, strip, rstrip, lstrip, comment, sanitize]
  · simp [hc, wf.stripped, strReplace, replaceGoW_space, comment, sanitize, replaceAll]

/-! ## comment symbols and setters -/
theorem lookup_mem {α β : Type} [BEq α] : ∀ (l : List (α × β)) (k : α) (v : β), l.lookup k = some v → v ∈ l.map (·.2) := by
  intro l
  induction l with
  | nil => intro k v h; simp [List.lookup] at h
  | cons p r ih =>
    intro k v h
    obtain ⟨a, b⟩ := p
    simp only [List.lookup] at h
    split at h
    · simp at h; simp [h]
    · simp [ih k v h]

theorem closings_stripped : ∀ e ∈ commentPairs.map (·.2), strip (' ' :: e) = e ∧ e.isEmpty = false := by decide

/-- `styleOf` without the `strip` of `set_comment_symbols` -/
def styleOfStripped (s : Str) : Style :=
  match commentPairs.lookup s with
  | some e => ⟨s, e⟩
  | none => ⟨s, []⟩

theorem styleOf_eq (symbols : Str) : styleOf symbols = styleOfStripped (strip symbols) := rfl

theorem styleOf_stripped (s : Str) : strip (' ' :: (styleOfStripped s).closing) = (styleOfStripped s).closing := by
  unfold styleOfStripped
  cases h : commentPairs.lookup s with
  | none => show strip [' '] = []; decide
  | some e => exact (closings_stripped e (lookup_mem _ _ _ h)).1

theorem index_get_lookup : ∀ (os es : List Str) (s : Str), os.length = es.length → s ∈ os →
    ∃ i e, listIndex os s = .ok i ∧ listGet es i = .ok e ∧ (os.zip es).lookup s = some e := by
  intro os
  induction os with
  | nil => intro es s _ hm; simp at hm
  | cons a r ih =>
    intro es s hl hm
    cases es with
    | nil => simp at hl
    | cons b t =>
      by_cases ha : a = s
      · subst ha; exact ⟨0, b, by simp [listIndex], by simp [listGet], by simp [List.lookup]⟩
      · have hm' : s ∈ r := by
          rcases List.mem_cons.mp hm with h | h
          · exact absurd h.symm ha
          · exact h
        obtain ⟨i, e, h1, h2, h3⟩ := ih t s (by simpa using hl) hm'
        have hb : (s == a) = false := by simpa using fun h => ha h.symm
        exact ⟨i + 1, e, by simp [listIndex, ha, h1], by simp [listGet, h2], by simp [List.lookup, hb, h3]⟩

theorem lookup_not_mem : ∀ (os es : List Str) (s : Str), s ∉ os → (os.zip es).lookup s = none := by
  intro os
  induction os with
  | nil => intro es s _; simp [List.lookup]
  | cons a r ih =>
    intro es s hm
    cases es with
    | nil => simp [List.lookup]
    | cons b t =>
      have hb : (s == a) = false := by simpa using fun h => hm (by simp [h])
      simp only [List.zip_cons_cons, List.lookup, hb]
      exact ih t s (fun h => hm (List.mem_cons_of_mem _ h))

theorem pairs_zip : commentPairs = List.zip COMMENT_OPENINGS COMMENT_ENDINGS := by decide

theorem to_template (f : DefaultFormatter) (s : Str) :
    DefaultFormatter._to_comment_template f s = .ok (templateOf (styleOfStripped s)) := by
  unfold DefaultFormatter._to_comment_template styleOfStripped
  by_cases hm : s ∈ COMMENT_OPENINGS
  · obtain ⟨i, e, h1, h2, h3⟩ := index_get_lookup COMMENT_OPENINGS COMMENT_ENDINGS s (by decide) hm
    have he := (closings_stripped e (lookup_mem _ _ _ (pairs_zip ▸ h3))).2
    simp [hm, h1, h2, pairs_zip, h3, templateOf, he]
  · simp [hm, pairs_zip, lookup_not_mem _ COMMENT_ENDINGS _ hm, templateOf]

/-- the decoded `line_endings` argument -/
def eolOf (le : Str) : Str := if le = ['o', 's'] then osLinesep else decodeUnicodeEscape (bytesUtf8 le)

theorem set_comment_symbols_eq (f : DefaultFormatter) (sym : Str) :
    DefaultFormatter.set_comment_symbols f sym =
      if strip sym = [] then .error .valueError else .ok { f with _comment_template := templateOf (styleOf sym) } := by
  unfold DefaultFormatter.set_comment_symbols
  by_cases h : strip sym = []
  · simp [h]
  · simp [h, to_template, styleOf_eq]

theorem set_decimal_places_eq (f : DefaultFormatter) (n : Int) :
    DefaultFormatter.set_decimal_places f n =
      if n < 0 then .error .valueError else .ok { f with _decimal_places := n } := by
  unfold DefaultFormatter.set_decimal_places
  by_cases h : n < 0 <;> simp [h]

theorem set_line_endings_eq (f : DefaultFormatter) (le : Str) :
    DefaultFormatter.set_line_endings f le = { f with _line_endings := eolOf le } := by
  unfold DefaultFormatter.set_line_endings eolOf
  by_cases h : le = ['o', 's'] <;> simp [h]

theorem set_axis_label_eq (f : DefaultFormatter) (a : Axis) (label : Str) :
    DefaultFormatter.set_axis_label f (Axis.value a) label =
      if strip label = [] then .error .valueError
      else .ok { f with _labels := dSet f._labels (upper (Axis.value a)) (axisLabelOf label) } := by
  unfold DefaultFormatter.set_axis_label
  by_cases h : strip label = []
  · simp [h]
  · cases a <;> simp [h, Axis.value, Axis.ofValue, lower, asciiLower, axisLabelOf]

theorem set_axis_label_invalid (f : DefaultFormatter) (axis label : Str)
    (h : ∀ a : Axis, lower axis ≠ Axis.value a) (hl : strip label ≠ []) :
    DefaultFormatter.set_axis_label f axis label = .error .valueError := by
  have hx := h .X; have hy := h .Y; have hz := h .Z
  simp only [Axis.value] at hx hy hz
  simp [DefaultFormatter.set_axis_label, hl, Axis.ofValue, hx, hy, hz]

/-- `GCodeCore._initialize_formatter` (hand transcription: six setter calls on a fresh formatter) -/
def configure (dp : Int) (sym le lx ly lz : Str) : Except PyErr DefaultFormatter := do
  let f ← DefaultFormatter.init
  let f ← DefaultFormatter.set_decimal_places f dp
  let f ← DefaultFormatter.set_comment_symbols f sym
  let f := DefaultFormatter.set_line_endings f le
  let f ← DefaultFormatter.set_axis_label f ['x'] lx
  let f ← DefaultFormatter.set_axis_label f ['y'] ly
  DefaultFormatter.set_axis_label f ['z'] lz

theorem init_eq : DefaultFormatter.init = .ok (absF (mkCfg 5 [';'] osLinesep axisX axisY axisZ)) := by
  have h : strip DEFAULT_COMMENT_SYMBOLS ≠ [] := by decide
  simp only [DefaultFormatter.init, set_comment_symbols_eq, h, if_false]
  rfl

theorem configure_eq (dp : Nat) (sym le lx ly lz : Str)
    (hs : strip sym ≠ []) (hx : strip lx ≠ []) (hy : strip ly ≠ []) (hz : strip lz ≠ []) :
    configure dp sym le lx ly lz = .ok (absF (mkCfg dp sym (eolOf le) lx ly lz)) := by
  have ex := set_axis_label_eq (a := .X); have ey := set_axis_label_eq (a := .Y); have ez := set_axis_label_eq (a := .Z)
  have ux : upper ['x'] = axisX := by decide
  have uy : upper ['y'] = axisY := by decide
  have uz : upper ['z'] = axisZ := by decide
  simp only [Axis.value, ux, uy, uz] at ex ey ez
  have hdp : ¬ ((dp : Int) < 0) := by omega
  simp only [configure, init_eq, bind, Except.bind, set_decimal_places_eq, set_comment_symbols_eq, set_line_endings_eq,
    ex, ey, ez, hs, hx, hy, hz, hdp, if_false]
  simp [absF, mkCfg, dSet, axisX, axisY, axisZ]

theorem wf_styleOf (symbols : Str) (h : findFirst braces (strip symbols) = none) : WF (styleOf symbols) := by
  refine ⟨?_, ?_⟩
  · have : (styleOf symbols).opening = strip symbols := by
      rw [styleOf_eq]; unfold styleOfStripped
      cases commentPairs.lookup (strip symbols) <;> rfl
    rw [this]; exact h
  · rw [styleOf_eq]; exact styleOf_stripped _

/-! ## parameters -/

/-! ### dict lemmas -/
theorem dSet_eq : ∀ (d : Params) (k : Str) (v : PVal), dSet d k v = dictSet d k v := by
  intro d
  induction d with
  | nil => intro k v; rfl
  | cons p r ih => intro k v; obtain ⟨a, b⟩ := p; simp only [dSet, dictSet, ih]

theorem keys_dictSet : ∀ (d : Params) (k : Str) (v : PVal),
    (dictSet d k v).map (·.1) = if k ∈ d.map (·.1) then d.map (·.1) else d.map (·.1) ++ [k] := by
  intro d
  induction d with
  | nil => intro k v; simp [dictSet]
  | cons p r ih =>
    intro k v
    obtain ⟨a, b⟩ := p
    by_cases h : a = k
    · simp [dictSet, h]
    · have h' : ¬ k = a := fun e => h e.symm
      simp only [dictSet, h, if_false, List.map_cons, ih, List.mem_cons, h', false_or]
      split <;> simp

theorem nodup_dictSet (d : Params) (k : Str) (v : PVal) (h : (d.map (·.1)).Nodup) :
    ((dictSet d k v).map (·.1)).Nodup := by
  rw [keys_dictSet]
  split
  · exact h
  · rename_i hk
    rw [List.nodup_append]
    refine ⟨h, by simp, ?_⟩
    intro a ha b hb
    simp at hb
    subst hb
    exact fun e => hk (e ▸ ha)

theorem nodup_foldl : ∀ (ps d : Params), (d.map (·.1)).Nodup →
    ((ps.foldl (fun d kv => dictSet d (upper kv.1) kv.2) d).map (·.1)).Nodup := by
  intro ps
  induction ps with
  | nil => intro d h; exact h
  | cons p r ih => intro d h; exact ih _ (nodup_dictSet d _ _ h)

theorem nodup_upperParams (ps : Params) : ((upperParams ps).map (·.1)).Nodup :=
  nodup_foldl ps [] (by simp)

theorem lookup_of_nodup : ∀ (d : Params), (d.map (·.1)).Nodup → ∀ kv ∈ d, d.lookup kv.1 = some kv.2 := by
  intro d
  induction d with
  | nil => intro _ kv h; simp at h
  | cons p r ih =>
    intro hn kv hkv
    obtain ⟨a, b⟩ := p
    simp only [List.map_cons, List.nodup_cons] at hn
    rcases List.mem_cons.mp hkv with h | h
    · subst h; simp [List.lookup]
    · have hne : (kv.1 == a) = false := by
        simp only [beq_eq_false_iff_ne, ne_eq]
        intro e
        exact hn.1 (e ▸ List.mem_map_of_mem (f := (·.1)) h)
      simp only [List.lookup, hne]
      exact ih hn.2 kv h

/-! ### words -/
/-- label and value text of one parameter (the two strings `parameters` appends after a space) -/
def wordParts (dp : Nat) : Str × PVal → Except Err (Str × Str)
  | (l, .num v) => match fmtVal dp v with
      | .ok s => .ok (l, s)
      | .error e => .error e
  | (l, .raw s) => .ok (l, s)
  | (l, .none) => .ok (l, noneText)

/-- what the loops append to `buffer` -/
def chunks (ps : List (Str × Str)) : List Str := ps.flatMap fun p => [[' '], p.1, p.2]

theorem chunks_append (a b : List (Str × Str)) : chunks (a ++ b) = chunks a ++ chunks b := by
  simp [chunks]

theorem mapE_append {α β : Type} (f : α → Except Err β) : ∀ (a c : List α),
    mapE f (a ++ c) = match mapE f a with
      | .error e => .error e
      | .ok as => match mapE f c with
        | .error e => .error e
        | .ok cs => .ok (as ++ cs) := by
  intro a
  induction a with
  | nil => intro c; simp only [List.nil_append, mapE]; cases mapE f c <;> rfl
  | cons x r ih =>
    intro c
    simp only [List.cons_append, mapE, ih]
    cases f x with
    | error e => rfl
    | ok b =>
      cases mapE f r with
      | error e => rfl
      | ok bs => cases mapE f c <;> rfl

theorem paramWord_parts (dp : Nat) (e : Str × PVal) :
    paramWord dp e = match wordParts dp e with
      | .ok p => .ok (p.1 ++ p.2)
      | .error e => .error e := by
  obtain ⟨l, v⟩ := e
  cases v with
  | num v => simp only [paramWord, wordParts]; cases fmtVal dp v <;> rfl
  | raw s => rfl
  | none => rfl

theorem mapE_paramWord (dp : Nat) : ∀ (es : List (Str × PVal)),
    mapE (paramWord dp) es = match mapE (wordParts dp) es with
      | .ok ps => .ok (ps.map fun p => p.1 ++ p.2)
      | .error e => .error e := by
  intro es
  induction es with
  | nil => rfl
  | cons x r ih =>
    simp only [mapE, ih, paramWord_parts]
    cases wordParts dp x with
    | error e => rfl
    | ok p => cases mapE (wordParts dp) r <;> rfl

theorem forE_spec {α : Type} (dp : Nat) (ent : α → List (Str × PVal))
    (body : List Str → α → Except PyErr (List Str)) : ∀ (items : List α) (b : List Str),
    (∀ b x, x ∈ items → body b x = match mapE (wordParts dp) (ent x) with
        | .ok ps => .ok (b ++ chunks ps)
        | .error _ => .error .valueError) →
    forE items b body = match mapE (wordParts dp) (items.flatMap ent) with
        | .ok ps => .ok (b ++ chunks ps)
        | .error _ => .error .valueError := by
  intro items
  induction items with
  | nil => intro b _; simp [forE, mapE, chunks]
  | cons x r ih =>
    intro b h
    have hx := h b x (by simp)
    have ih' := fun b' => ih b' (fun b x hm => h b x (List.mem_cons_of_mem _ hm))
    simp only [forE, hx, List.flatMap_cons, mapE_append]
    cases mapE (wordParts dp) (ent x) with
    | error e => rfl
    | ok ps =>
      simp only [ih']
      cases mapE (wordParts dp) (r.flatMap ent) with
      | error e => rfl
      | ok qs => simp [chunks_append]

theorem strJoin_nil : ∀ (l : List Str), strJoin [] l = l.flatten := by
  intro l
  induction l with
  | nil => rfl
  | cons w ws ih =>
    cases ws with
    | nil => simp [strJoin]
    | cons v vs => simp only [strJoin, List.append_nil, List.flatten_cons] at ih ⊢; rw [ih]

theorem flatten_chunks : ∀ (ps : List (Str × Str)),
    (chunks ps).flatten = if ps.isEmpty then [] else ' ' :: joinSp (ps.map fun p => p.1 ++ p.2) := by
  intro ps
  induction ps with
  | nil => rfl
  | cons p r ih =>
    have hc : chunks (p :: r) = [[' '], p.1, p.2] ++ chunks r := by simp [chunks]
    rw [hc, List.flatten_append, ih]
    cases r with
    | nil => simp [joinSp]
    | cons q r' => simp [joinSp]

theorem join_chunks (ps : List (Str × Str)) :
    strJoin [] (List.drop 1 (chunks ps)) = joinSp (ps.map fun p => p.1 ++ p.2) := by
  rw [strJoin_nil]
  cases ps with
  | nil => rfl
  | cons p r =>
    have hc : chunks (p :: r) = [' '] :: ([p.1, p.2] ++ chunks r) := by simp [chunks]
    rw [hc, List.drop_one, List.tail_cons, List.flatten_append, flatten_chunks]
    cases r with
    | nil => simp [joinSp]
    | cons q r' => simp [joinSp]

/-- what the first loop contributes for one axis name -/
def axisEnt (cfg : Cfg) (up : Params) (a : Str) : List (Str × PVal) :=
  match up.lookup a, (absF cfg)._labels.lookup a with
  | some (.num v), some l => [(l, .num v)]
  | _, _ => []

/-- what the second loop contributes for one key -/
def otherEnt (up : Params) (k : Str) : List (Str × PVal) :=
  match up.lookup k with
  | some pv => [(k, pv)]
  | none => []

theorem axes_entries (cfg : Cfg) (up : Params) :
    (List.filter (fun a => dHas up a) [axisX, axisY, axisZ]).flatMap (axisEnt cfg up) =
      axisEntry up axisX cfg.lx ++ axisEntry up axisY cfg.ly ++ axisEntry up axisZ cfg.lz := by
  have e : ∀ a l, (absF cfg)._labels.lookup a = some l → (if dHas up a then axisEnt cfg up a else []) = axisEntry up a l := by
    intro a l hl
    unfold dHas axisEnt axisEntry
    rw [hl]
    cases h : up.lookup a with
    | none => simp
    | some pv => cases pv <;> simp
  have ex := e axisX cfg.lx (by rfl)
  have ey := e axisY cfg.ly (by rfl)
  have ez := e axisZ cfg.lz (by rfl)
  rw [← ex, ← ey, ← ez]
  simp only [List.filter]
  cases dHas up axisX <;> cases dHas up axisY <;> cases dHas up axisZ <;> simp

theorem other_entries (p : Str → Bool) (d : Params) (hn : (d.map (·.1)).Nodup) :
    (List.filter p (dKeys d)).flatMap (otherEnt d) = d.filter (fun kv => p kv.1) := by
  have hl := lookup_of_nodup d hn
  suffices h : ∀ d' : Params, (∀ kv ∈ d', d.lookup kv.1 = some kv.2) →
      (List.filter p (dKeys d')).flatMap (otherEnt d) = d'.filter (fun kv => p kv.1) from h d hl
  intro d'
  induction d' with
  | nil => intro _; rfl
  | cons q r ih =>
    intro h
    have hq := h q (by simp)
    have ihr := ih (fun kv hm => h kv (List.mem_cons_of_mem _ hm))
    simp only [dKeys, List.map_cons, List.filter] at ihr ⊢
    cases hp : p q.1 with
    | false => simpa using ihr
    | true => simp only [List.flatMap_cons, otherEnt, hq, ihr]; simp

theorem upper_params_eq (ps : Params) :
    List.foldl (fun (d : Dict PVal) (kv : Str × PVal) => dSet d (upper kv.1) kv.2) [] ps = upperParams ps := by
  simp only [upperParams, dSet_eq]

theorem not_axis (k : Str) : decide (¬ k ∈ [axisX, axisY, axisZ]) = !isAxis k := by
  simp only [isAxis, List.mem_cons, List.not_mem_nil, or_false]
  by_cases h1 : k = axisX <;> by_cases h2 : k = axisY <;> by_cases h3 : k = axisZ <;> simp [h1, h2, h3]

theorem parameters_tie (cfg : Cfg) (ps : Params) :
    DefaultFormatter.parameters (absF cfg) ps = liftE (parameters cfg ps) := by
  unfold DefaultFormatter.parameters
  simp only [upper_params_eq, show (absF cfg)._valid_axes = [axisX, axisY, axisZ] from rfl]
  rw [forE_spec (dp := cfg.dp) (ent := axisEnt cfg (upperParams ps))]
  · rw [axes_entries]
    have hm : parameters cfg ps = match mapE (wordParts cfg.dp)
          (axisEntry (upperParams ps) axisX cfg.lx ++ axisEntry (upperParams ps) axisY cfg.ly ++
            axisEntry (upperParams ps) axisZ cfg.lz) with
        | .error e => .error e
        | .ok ps1 => match mapE (wordParts cfg.dp) ((upperParams ps).filter fun kv => !isAxis kv.1) with
          | .error e => .error e
          | .ok ps2 => .ok (joinSp ((ps1 ++ ps2).map fun p => p.1 ++ p.2)) := by
      simp only [parameters, orderedParams]
      rw [mapE_paramWord, mapE_append]
      generalize mapE (wordParts cfg.dp) (axisEntry (upperParams ps) axisX cfg.lx ++ axisEntry (upperParams ps) axisY cfg.ly ++
            axisEntry (upperParams ps) axisZ cfg.lz) = r1
      generalize mapE (wordParts cfg.dp) ((upperParams ps).filter fun kv => !isAxis kv.1) = r2
      cases r1 <;> cases r2 <;> rfl
    rw [hm]
    cases mapE (wordParts cfg.dp) (axisEntry (upperParams ps) axisX cfg.lx ++ axisEntry (upperParams ps) axisY cfg.ly ++
            axisEntry (upperParams ps) axisZ cfg.lz) with
    | error e => cases e; rfl
    | ok ps1 =>
      simp only []
      rw [forE_spec (dp := cfg.dp) (ent := otherEnt (upperParams ps))]
      · rw [other_entries _ _ (nodup_upperParams ps)]
        simp only [not_axis]
        cases mapE (wordParts cfg.dp) ((upperParams ps).filter fun kv => !isAxis kv.1) with
        | error e => cases e; rfl
        | ok ps2 =>
          simp only [List.nil_append, ← chunks_append, join_chunks, liftE]
      · intro b x hx
        simp only [List.mem_filter, dKeys, List.mem_map] at hx
        obtain ⟨⟨kv, hkv, rfl⟩, _⟩ := hx
        have hu := lookup_of_nodup _ (nodup_upperParams ps) kv hkv
        obtain ⟨k, pv⟩ := kv
        simp only at hu
        cases pv with
        | num v =>
          simp only [dGet, hu, otherEnt, PVal.isNumber, PVal.toNumber, number_tie, mapE, wordParts, if_true]
          cases fmtVal cfg.dp v with
          | error e => cases e; rfl
          | ok s => simp [liftE, chunks]
        | raw s => simp [dGet, hu, otherEnt, PVal.isNumber, PVal.str, mapE, wordParts, chunks]
        | none => simp [dGet, hu, otherEnt, PVal.isNumber, PVal.str, mapE, wordParts, chunks]
  · intro b x hx
    simp only [List.mem_filter, List.mem_cons, List.not_mem_nil, or_false] at hx
    obtain ⟨hx, hhas⟩ := hx
    have hlab : ∃ l, (absF cfg)._labels.lookup x = some l := by
      rcases hx with rfl | rfl | rfl <;> exact ⟨_, rfl⟩
    obtain ⟨l, hl⟩ := hlab
    unfold dHas at hhas
    cases hu : (upperParams ps).lookup x with
    | none => simp [hu] at hhas
    | some pv =>
      cases pv with
      | num v =>
        simp only [dGet, hu, hl, axisEnt, PVal.isNumber, PVal.toNumber, number_tie, mapE, wordParts, if_true]
        cases fmtVal cfg.dp v with
        | error e => cases e; rfl
        | ok s => simp [liftE, chunks]
      | raw s => simp [dGet, hu, hl, axisEnt, PVal.isNumber, mapE, chunks]
      | none => simp [dGet, hu, hl, axisEnt, PVal.isNumber, mapE, chunks]

/-! ## command -/
theorem command_tie (cfg : Cfg) (wf : WF cfg.style) (cmd : Str) (params : Option Params) (cm : Option Str) :
    DefaultFormatter.command (absF cfg) cmd params cm = liftE (command cfg cmd params cm) := by
  have hc : ∀ c, DefaultFormatter.comment (absF cfg) c = .ok (comment cfg.style c) :=
    fun c => comment_tie (absF cfg) cfg.style c rfl wf
  have hp : ∀ q qs, DefaultFormatter.parameters (absF cfg) (q :: qs) = liftE (parameters cfg (q :: qs)) :=
    fun q qs => parameters_tie cfg (q :: qs)
  unfold DefaultFormatter.command
  have fin : ∀ (r : Except Err Str) (suffix : Str),
      (match liftE r with
        | .error e => .error e
        | .ok t8 => (.ok (cmd ++ [' '] ++ t8 ++ suffix) : Except PyErr Str)) =
      liftE (match r with
        | .ok s => .ok (cmd ++ ' ' :: s ++ suffix)
        | .error e => .error e) := by
    intro r suffix
    cases r with
    | error e => cases e; rfl
    | ok s => simp [liftE]
  cases cm with
  | none =>
    cases params with
    | none => simp [optGet, command, commentSuffix, liftE]
    | some l =>
      cases l with
      | nil => simp [optGet, command, commentSuffix, liftE]
      | cons q qs =>
        simp only [optGet, command, commentSuffix, hp, Option.isSome]
        have h := fin (parameters cfg (q :: qs)) []
        simp at h ⊢
        first | exact h | omega
  | some c =>
    by_cases he : strip c = []
    · cases params with
      | none => simp [optGet, command, commentSuffix, liftE, he]
      | some l =>
        cases l with
        | nil => simp [optGet, command, commentSuffix, liftE, he]
        | cons q qs =>
          simp only [optGet, command, commentSuffix, hp, he, Option.isSome]
          have h := fin (parameters cfg (q :: qs)) []
          simp at h ⊢
          exact h
    · have hl : 0 < (strip c).length := Nat.pos_of_ne_zero (by simpa using he)
      cases params with
      | none => simp [optGet, command, commentSuffix, liftE, he, hl, hc]
      | some l =>
        cases l with
        | nil => simp [optGet, command, commentSuffix, liftE, he, hl, hc]
        | cons q qs =>
          simp only [optGet, command, commentSuffix, hp, he, hc, Option.isSome]
          have h := fin (parameters cfg (q :: qs)) (' ' :: comment cfg.style c)
          simp [hl, he] at h ⊢
          exact h
end GscribModel.FormatTie

open GscribModel.FormatTie

/-- every table, pattern and default the source holds is the one the model hard-codes -/
theorem FormatTie_constants :
    List.zip COMMENT_OPENINGS COMMENT_ENDINGS = commentPairs ∧ COMMENT_OPENINGS.length = COMMENT_ENDINGS.length ∧
    comment_re_sub_1 = breaksSub ∧
    Axis.all.map (fun a => upper (Axis.value a)) = [axisX, axisY, axisZ] ∧
    DEFAULT_DECIMAL_PLACES = 5 ∧ DEFAULT_COMMENT_SYMBOLS = [';'] ∧ osLinesep = ['\n'] := by
  refine ⟨by decide, by decide, by decide, by decide, rfl, rfl, rfl⟩

/-- `number`: `== 0` shortcut, finiteness check, digit printer - in that order -/
theorem FormatTie_number_guards (cfg : Cfg) (v : Val) :
    DefaultFormatter.number (absF cfg) v = liftE (fmtVal cfg.dp v) := number_tie cfg v

/-- a non-finite number raises `ValueError` whatever the formatter's state (no text is produced) -/
theorem FormatTie_number_nonfinite (f : DefaultFormatter) (v : Val) (h : npIsFinite v = false) :
    DefaultFormatter.number f v = .error .valueError := by
  cases v <;> simp_all [DefaultFormatter.number, Val.eqInt, npIsFinite, pyFloat]

theorem FormatTie_line (cfg : Cfg) (s : Str) : DefaultFormatter.line (absF cfg) s = line cfg s := rfl

/-- `comment` on any formatter whose template is the one of style `st` -/
theorem FormatTie_comment (f : DefaultFormatter) (st : Style) (text : Str)
    (hf : f._comment_template = templateOf st) (wf : WF st) :
    DefaultFormatter.comment f text = .ok (comment st text) := comment_tie f st text hf wf

/-- … in particular for every style `set_comment_symbols` can install (symbols free of the text `{}`) -/
theorem FormatTie_comment_styleOf (cfg : Cfg) (symbols text : Str) (hs : cfg.style = styleOf symbols)
    (h : findFirst braces (strip symbols) = none) :
    DefaultFormatter.comment (absF cfg) text = .ok (comment cfg.style text) :=
  comment_tie (absF cfg) cfg.style text rfl (hs ▸ wf_styleOf symbols h)

theorem FormatTie_parameters (cfg : Cfg) (ps : Params) :
    DefaultFormatter.parameters (absF cfg) ps = liftE (parameters cfg ps) := parameters_tie cfg ps

theorem FormatTie_command (cfg : Cfg) (wf : WF cfg.style) (cmd : Str) (params : Option Params) (cm : Option Str) :
    DefaultFormatter.command (absF cfg) cmd params cm = liftE (command cfg cmd params cm) :=
  command_tie cfg wf cmd params cm

theorem FormatTie_to_comment_template (f : DefaultFormatter) (s : Str) :
    DefaultFormatter._to_comment_template f s = .ok (templateOf (styleOfStripped s)) := to_template f s

theorem FormatTie_init : DefaultFormatter.init = .ok (absF (mkCfg 5 [';'] osLinesep axisX axisY axisZ)) := init_eq

theorem FormatTie_set_comment_symbols (f : DefaultFormatter) (sym : Str) :
    DefaultFormatter.set_comment_symbols f sym =
      if strip sym = [] then .error .valueError else .ok { f with _comment_template := templateOf (styleOf sym) } :=
  set_comment_symbols_eq f sym

theorem FormatTie_set_decimal_places (f : DefaultFormatter) (n : Int) :
    DefaultFormatter.set_decimal_places f n =
      if n < 0 then .error .valueError else .ok { f with _decimal_places := n } := set_decimal_places_eq f n

theorem FormatTie_set_line_endings (f : DefaultFormatter) (le : Str) :
    DefaultFormatter.set_line_endings f le = { f with _line_endings := eolOf le } := set_line_endings_eq f le

theorem FormatTie_set_axis_label (f : DefaultFormatter) (a : Axis) (label : Str) :
    DefaultFormatter.set_axis_label f (Axis.value a) label =
      if strip label = [] then .error .valueError
      else .ok { f with _labels := dSet f._labels (upper (Axis.value a)) (axisLabelOf label) } :=
  set_axis_label_eq f a label

theorem FormatTie_set_axis_label_invalid (f : DefaultFormatter) (axis label : Str)
    (h : ∀ a : Axis, lower axis ≠ Axis.value a) (hl : strip label ≠ []) :
    DefaultFormatter.set_axis_label f axis label = .error .valueError := set_axis_label_invalid f axis label h hl

/-- `__init__` + the six setter calls of `GCodeCore._initialize_formatter` build the object the model's `mkCfg` stands for -/
theorem FormatTie_setters (dp : Nat) (sym le lx ly lz : Str)
    (hs : strip sym ≠ []) (hx : strip lx ≠ []) (hy : strip ly ≠ []) (hz : strip lz ≠ []) :
    configure dp sym le lx ly lz = .ok (absF (mkCfg dp sym (eolOf le) lx ly lz)) :=
  configure_eq dp sym le lx ly lz hs hx hy hz

/-! ## the translated functions compute (non-vacuity) -/
namespace GscribModel.FormatTie
def okIs (r : Except PyErr Str) (s : Str) : Bool :=
  match r with
  | .ok t => t == s
  | .error _ => false
def demoCfg : Cfg := mkCfg 3 ['('] ['\n'] ['x'] [' ', 'a', ' '] ['z']
def demoParams : Params :=
  [(['f'], .num (.fin 1200)), (['y'], .num (.fin (-5 / 4))), (['X'], .num (.fin (1 / 3))), (['p'], .none), (['z'], .raw ['q']), (['t'], .raw ['q'])]
end GscribModel.FormatTie

example : okIs (DefaultFormatter.command (absF demoCfg) ['G', '1'] (some demoParams) (some ['a', ')', 'b', '\r', '\n', 'c']))
    ['G', '1', ' ', 'X', '0', '.', '3', '3', '3', ' ', 'A', '-', '1', '.', '2', '5', ' ', 'F', '1', '2', '0', '0', ' ', 'P', 'N', 'o', 'n', 'e', ' ', 'T', 'q', ' ', '(', ' ', 'a', ' ', 'b', ' ', 'c', ' ', ')'] = true := by decide +kernel
example : okIs (DefaultFormatter.comment (absF demoCfg) ['x', '\n', 'M', '3', ')', ' ', 'G', '0']) ['(', ' ', 'x', ' ', 'M', '3', ' ', ' ', 'G', '0', ' ', ')'] = true := by decide +kernel
example : DefaultFormatter.parameters (absF demoCfg) [(['x'], .num .nan)] = .error .valueError := by
  rw [FormatTie_parameters]; rfl
example : DefaultFormatter.line (absF demoCfg) ['G', '1', ' ', '\t'] = ['G', '1', '\n'] := by decide

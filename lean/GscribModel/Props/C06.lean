import GscribModel.Model.Machine
/-! # C06 — the tool and coolant can always be switched off

No reachability hypothesis: the theorems hold for *every* builder value, hence for every reachable
state under every bounds configuration (tool-power ranges that exclude zero included). -/
open GscribModel.Builder

theorem C06_tool_off (b : B) :
    (step b .toolOff).out = .ok ∧ (step b .toolOff).stmts = [{ codes := [.M05] }] ∧
    (step b .toolOff).b.toolActive = false ∧ (step b .toolOff).b.coolActive = b.coolActive := by
  simp [step, stepToolOff, accept]

theorem C06_power_off (b : B) :
    (step b .powerOff).out = .ok ∧ (step b .powerOff).stmts = [{ codes := [.M05] }] ∧
    (step b .powerOff).b.toolActive = false ∧ (step b .powerOff).b.coolActive = b.coolActive := by
  simp [step, stepPowerOff, accept]

theorem C06_coolant_off (b : B) :
    (step b .coolOff).out = .ok ∧ (step b .coolOff).stmts = [{ codes := [.M09] }] ∧
    (step b .coolOff).b.coolActive = false ∧ (step b .coolOff).b.toolActive = b.toolActive := by
  simp [step, stepCoolOff, accept]

/-- emergency sequence: `M05`, `M09`, the message comment, then `M00` (or `M30`), in this order -/
theorem C06_emergency (b : B) (reset : Bool) :
    (step b (.ehalt reset)).out = .ok ∧
    (step b (.ehalt reset)).stmts =
      [{ codes := [.M05] }, { codes := [.M09] }, {}, { codes := [if reset then .M30 else .M00] }] ∧
    (step b (.ehalt reset)).b.toolActive = false ∧ (step b (.ehalt reset)).b.coolActive = false := by
  simp [step, stepToolOff, stepCoolOff, accept]

/-- the shutdown sequence is safe to execute whatever was running -/
theorem C06_emergency_safe (b : B) (reset : Bool) (f : Flags) :
    f.safeSeq (step b (.ehalt reset)).stmts = true := by
  rw [(C06_emergency b reset).2.1]
  cases reset <;> cases f with | mk t c => cases t <;> cases c <;> decide

/-! Non-vacuity: tool running at power 500 under a tool-power range that excludes zero. -/
example : (step { toolActive := true, spin := .cw, power := 500, coolActive := true, cool := .mist,
                  bounds := { toolPower := some (100, 1000) } } .toolOff).out = .ok := by decide

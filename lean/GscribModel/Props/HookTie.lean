import GscribModel.Gen.HookSrc
import GscribModel.Props.StateTie
/-! # The builder model's `Hook.extrude` is the translated `extrusion_hook`

`Gen/HookSrc.lean` is *generated* on every run from the source text of `gscrib/hooks/extrusion_hook.py`
(`tools/gen_hook.py`): the factory's three assignments (`extrusion_hook`, returning the record `Closure` of the locals the
inner function captures) and the inner `hook_function`, statement by statement.  The builder model (C20) describes the
same hook as data, `Hook.extrude k`, applied by `Hook.apply b h`: `E := k * h`, plus the E remembered in the move
parameters when the extrusion mode is absolute, where `h` stands for `math.hypot(dx, dy)` of the move and `k` is what the
harness computes as `extrusion_area / cross_section`.

* `HookTie_extrude`: for every closure with a non-zero cross-section, every `hypot`, points, parameters and builder
  state `b`, the translated hook run on the state object of `b` (`absG b`, the abstraction of the state tie) returns
  exactly the model's parameters, with `k = extrusion_area / cross_section` and `h = hypot (tx - ox) (ty - oy)`;
* `HookTie_factor`: the factory's closure has `extrusion_area = nozzle * layer`, `cross_section = pi * (filament / 2)^2`,
  so `k = nozzle * layer / (pi * (filament / 2)^2)`, `pi` standing for the number `math.pi`;
* `HookTie_extrude_factory`: the two combined, for a non-zero `pi` and filament diameter;
* `HookTie_zero_division`: with a zero cross-section (filament diameter 0) the hook raises on every call - the model has
  no such outcome, the harness never builds such a hook. -/
open GscribModel.Builder GscribModel.Gen.StateSrc GscribModel.HookPrelude GscribModel.Gen.HookSrc GscribModel.StateTie

namespace GscribModel.HookTie

/-- `x or 0.0` is "the value, 0 when unset" -/
theorem pyOr_zero (x : OQ) : pyOr x 0 = x.getD 0 := by
  cases x with
  | none => rfl
  | some v => by_cases h : v = 0 <;> simp [pyOr, h]

theorem mode_abs (b : B) : decide ((absG b).extrusion_mode = ExtrusionMode.ABSOLUTE) = !b.erel := by
  cases h : b.erel <;> simp [absG, GState.extrusion_mode, h]

theorem get_param (b : B) (name : String) : (absG b).get_parameter name = b.params.get name := rfl

theorem mul_div_comm (a h c : Rat) : a * h / c = a / c * h := by
  rw [Rat.div_def, Rat.div_def, Rat.mul_assoc, Rat.mul_assoc, Rat.mul_comm h]

theorem lookupV_setV (ps : VParams) (k : String) (v : Val) : lookupV (setV ps k v) k = some v := by
  simp only [lookupV, setV]
  split
  · rename_i h
    induction ps with
    | nil => simp at h
    | cons e es ih =>
      by_cases he : e.1 = k
      · simp [he]
      · have h' : es.any (fun e => e.1 == k) = true := by simpa [he] using h
        have hb : (e.1 == k) = false := by simpa using he
        simp only [List.map_cons, hb, Bool.false_eq_true, if_false, List.find?_cons]
        exact ih h'
  · rename_i h
    have hn : ps.find? (fun e => e.1 == k) = none := by
      apply List.find?_eq_none.mpr
      intro e he hk
      exact h (List.any_eq_true.mpr ⟨e, he, hk⟩)
    simp [List.find?_append, hn]

end GscribModel.HookTie
open GscribModel.HookTie

/-- **the hook**: the translated `hook_function` on the state object of `b` returns what the model's
    `Hook.apply b h (.extrude k)` returns, with `k = extrusion_area / cross_section`, `h = hypot (dx) (dy)`, `d = target - origin` -/
theorem HookTie_extrude (c : Closure) (hypot : Rat → Rat → Rat) (origin target : P3) (ps : VParams) (b : B)
    (hc : c.cross_section ≠ 0) :
    hook_function c hypot origin target ps (absG b) =
      some (Hook.apply b (hypot (target.x - origin.x) (target.y - origin.y)) (.extrude (c.extrusion_area / c.cross_section)) ps) := by
  simp only [hook_function, pyDiv, hc, if_false, mode_abs, get_param, pyOr_zero, Hook.apply, P3.sub, mul_div_comm]
  cases b.erel <;> simp

/-- **the factor**: what the factory hands to the hook, statement by statement, is `nozzle * layer` and
    `pi * (filament / 2)^2`; their ratio is the model's `k` -/
theorem HookTie_factor (pi layer nozzle filament : Rat) :
    (extrusion_hook pi layer nozzle filament).extrusion_area = nozzle * layer ∧
    (extrusion_hook pi layer nozzle filament).cross_section = pi * (filament / 2) ^ 2 ∧
    (extrusion_hook pi layer nozzle filament).extrusion_area / (extrusion_hook pi layer nozzle filament).cross_section
      = nozzle * layer / (pi * (filament / 2) ^ 2) := by
  refine ⟨?_, ?_, ?_⟩ <;> simp only [extrusion_hook] <;> grind

/-- **factory and hook together**: `extrusion_hook(layer, nozzle, filament)` is the model's
    `Hook.extrude (nozzle * layer / (pi * (filament / 2)^2))` -/
theorem HookTie_extrude_factory (pi layer nozzle filament : Rat) (hypot : Rat → Rat → Rat) (origin target : P3) (ps : VParams) (b : B)
    (hpi : pi ≠ 0) (hf : filament ≠ 0) :
    hook_function (extrusion_hook pi layer nozzle filament) hypot origin target ps (absG b) =
      some (Hook.apply b (hypot (target.x - origin.x) (target.y - origin.y))
        (.extrude (nozzle * layer / (pi * (filament / 2) ^ 2))) ps) := by
  have h2 : filament / 2 ≠ 0 := by
    intro h; apply hf; grind
  have hc : (extrusion_hook pi layer nozzle filament).cross_section ≠ 0 := by
    simp only [extrusion_hook]
    intro h
    rcases Rat.mul_eq_zero.mp h with h | h
    · rcases Rat.mul_eq_zero.mp h with h | h
      · exact hpi h
      · exact h2 h
    · exact h2 h
  rw [HookTie_extrude _ _ _ _ _ _ hc, (HookTie_factor pi layer nozzle filament).2.2]

/-- a zero cross-section (filament diameter 0, or `pi` 0) makes every call raise `ZeroDivisionError` -/
theorem HookTie_zero_division (c : Closure) (hypot : Rat → Rat → Rat) (origin target : P3) (ps : VParams) (g : GState)
    (hc : c.cross_section = 0) : hook_function c hypot origin target ps g = none := by
  simp [hook_function, pyDiv, hc]

/-- what the hook writes is the model's E word: in relative mode `k * h`, in absolute mode added to the remembered E -/
theorem HookTie_extrude_word (c : Closure) (hypot : Rat → Rat → Rat) (origin target : P3) (ps : VParams) (b : B)
    (hc : c.cross_section ≠ 0) :
    (hook_function c hypot origin target ps (absG b)).map (fun r => lookupV r "E") =
      some (some (.fin (let e := c.extrusion_area / c.cross_section * hypot (target.x - origin.x) (target.y - origin.y)
                        if b.erel then e else e + (b.params.get "E").getD 0))) := by
  rw [HookTie_extrude _ _ _ _ _ _ hc]
  simp only [Hook.apply, Option.map_some, lookupV_setV]

/-! ## non-vacuity: the translated functions, evaluated -/

/-- layer 1/5, nozzle 2/5, filament 7/4, `pi` replaced by 22/7 for the example, a 3-4-5 move: `k = 128/4235`... -/
example :
    let c := extrusion_hook (22 / 7) (1 / 5) (2 / 5) (7 / 4)
    let hyp : Rat → Rat → Rat := fun dx dy => if dx = 3 ∧ dy = 4 then 5 else 0
    let b : B := { params := [("E", some 2)] }
    c.extrusion_area = 2 / 25 ∧ c.cross_section = 77 / 32 ∧
    hook_function c hyp ⟨1, 1, 0⟩ ⟨4, 5, 0⟩ [("F", .fin 600)] (absG b) = some [("F", .fin 600), ("E", .fin (2 + 64 / 385))] ∧
    hook_function c hyp ⟨1, 1, 0⟩ ⟨4, 5, 0⟩ [("E", .fin 1), ("F", .fin 600)] (absG { b with erel := true })
      = some [("E", .fin (64 / 385)), ("F", .fin 600)] ∧
    hook_function (extrusion_hook (22 / 7) (1 / 5) (2 / 5) 0) hyp ⟨1, 1, 0⟩ ⟨4, 5, 0⟩ [] (absG b) = none := by
  decide +kernel

import GscribModel.Props.MotionTie
import GscribModel.Props.C01
import GscribModel.Props.C02
import GscribModel.Props.C07
import GscribModel.Props.C06
import GscribModel.Props.C03
import GscribModel.Props.C20
import GscribModel.Props.C11
import GscribModel.Props.C04
/-! # C01 and C02 for the translated source

`MotionTie_run` (every history: running the translated source of the builder's commands is running the model) composed with the
property theorems `C01_agree_run` and `C02_run_safe`, restated with interpreters that read nothing but instruction *texts*, axis
words and other words - the form in which the translated source hands its statements to `GCodeCore.write`. -/
open GscribModel.Builder GscribModel.GenPrelude GscribModel.Gen.StateSrc GscribModel.Gen.BuilderSrc GscribModel.Gen.MotionSrc
open GscribModel.StateTie GscribModel.BuilderTie GscribModel.Gen GscribModel.MotionTie

namespace GscribModel.MotionTie

/-- an emitted statement as the ties compare it: instruction texts, axis words, other words -/
abbrev Line := List String × Pt × List (String × Rat)

/-- the position machine of `Model/Machine.lean`, reading instruction texts -/
def lineExec (m : Machine) (l : Line) : Machine :=
  let cs := l.1
  let ax := l.2.1
  if cs.contains "G90" then { m with rel := false }
  else if cs.contains "G91" then { m with rel := true }
  else if cs.contains "G0" || cs.contains "G1" then
    { m with pos := Pt.mk' fun a => match ax.get a with
        | none => m.pos.get a
        | some w => if m.rel then (m.pos.get a).map (· + w) else some w }
  else if cs.contains "G92" then
    { m with pos := Pt.mk' fun a => match ax.get a with | none => m.pos.get a | some w => some w }
  else if cs.contains "G28" then
    { m with pos := if ax.isUnknown then Pt.unknown else m.pos.mask ax }
  else if cs.contains "G38.2" || cs.contains "G38.3" || cs.contains "G38.4" || cs.contains "G38.5" then
    { m with pos := m.pos.mask ax }
  else m

theorem contains_text (cs : List Code) (c0 : Code) (hinj : ∀ c, (c0 == c) = (c0.text == c.text)) :
    cs.contains c0 = (cs.map Code.text).contains c0.text := by
  induction cs with
  | nil => rfl
  | cons c r ih => simp only [List.contains_cons, List.map_cons, ih, hinj c]

theorem text_G90 (c : Code) : (Code.G90 == c) = ("G90" == c.text) := by cases c <;> decide
theorem text_G91 (c : Code) : (Code.G91 == c) = ("G91" == c.text) := by cases c <;> decide
theorem text_G0 (c : Code) : (Code.G0 == c) = ("G0" == c.text) := by cases c <;> decide
theorem text_G1 (c : Code) : (Code.G1 == c) = ("G1" == c.text) := by cases c <;> decide
theorem text_G92 (c : Code) : (Code.G92 == c) = ("G92" == c.text) := by cases c <;> decide
theorem text_G28 (c : Code) : (Code.G28 == c) = ("G28" == c.text) := by cases c <;> decide
theorem text_G382 (c : Code) : (Code.G38_2 == c) = ("G38.2" == c.text) := by cases c <;> decide
theorem text_G383 (c : Code) : (Code.G38_3 == c) = ("G38.3" == c.text) := by cases c <;> decide
theorem text_G384 (c : Code) : (Code.G38_4 == c) = ("G38.4" == c.text) := by cases c <;> decide
theorem text_G385 (c : Code) : (Code.G38_5 == c) = ("G38.5" == c.text) := by cases c <;> decide

theorem exec_view (m : Machine) (s : Stmt) : Machine.exec m s = lineExec m (view s) := by
  simp only [Machine.exec, lineExec, view, isMotion, isProbe,
    contains_text _ _ text_G90, contains_text _ _ text_G91, contains_text _ _ text_G0, contains_text _ _ text_G1,
    contains_text _ _ text_G92, contains_text _ _ text_G28, contains_text _ _ text_G382, contains_text _ _ text_G383,
    contains_text _ _ text_G384, contains_text _ _ text_G385, Code.text]
  rfl

theorem run_view (m : Machine) (ss : List Stmt) : Machine.run m ss = (ss.map view).foldl lineExec m := by
  induction ss generalizing m with
  | nil => rfl
  | cons s r ih => simp only [Machine.run, List.foldl_cons, List.map_cons, exec_view] at ih ⊢; exact ih _

theorem runBM_run (ops : List Op) : ∀ (b : B) (m : Machine),
    runBM (b, m) ops = ((run b ops).1, Machine.run m (run b ops).2) := by
  induction ops with
  | nil => intro b m; rfl
  | cons op ops ih =>
    intro b m
    simp only [runBM, run, ih, Machine.run, List.foldl_append]

/-- the translated builder and a machine agree: same distance mode (core and state object), and on every axis the machine
    knows both tracked positions report exactly that coordinate -/
def SAgree (s : BSt) (m : Machine) : Prop :=
  s._distance_mode = dmOf m.rel ∧ s.state._current_distance_mode = dmOf m.rel ∧
  ∀ a q, m.pos.get a = some q → s._current_axes.get a = some q ∧ s.state._current_axes.get a = some q

theorem agree_sagree (b : B) (m : Machine) (h : Agree b m) : SAgree (absB b) m := by
  obtain ⟨h1, h2, h3⟩ := h
  refine ⟨?_, ?_, h3⟩
  · show (bif b.rel then DistanceMode.RELATIVE else DistanceMode.ABSOLUTE) = dmOf m.rel
    rw [h1]; rfl
  · show (bif b.srel then DistanceMode.RELATIVE else DistanceMode.ABSOLUTE) = dmOf m.rel
    rw [h2]; rfl

end GscribModel.MotionTie

open GscribModel.MotionTie in
/-- **C01 for the translated source**: for every history, a machine that executes the lines the *translated source* wrote -
    reading nothing but instruction texts and axis words - ends where the translated builder says it is, on every axis it
    knows, in the mode the builder reports.  (With `ops.take k` for `ops`: after every call.) -/
theorem SourceTie_C01 (ops : List Op) (b : B) (m : Machine) (hok : HistOk b ops) (hag : Agree b m) :
    let g := srcRun (absB b) (b.ctx.map dmOf) ops
    SAgree g.1 ((g.2.map conv).foldl lineExec m) := by
  obtain ⟨h1, h2⟩ := MotionTie_run ops b hok
  have hk := C01_agree_run ops b m hag ops.length
  rw [List.take_length, runBM_run] at hk
  simp only at hk
  have := agree_sagree _ _ hk
  rw [h1, run_view, h2] at this
  exact this

/-- the interlock view of a controller, reading instruction texts -/
def GscribModel.MotionTie.lineSafeSeq : Flags → List GscribModel.MotionTie.Line → Bool
  | _, [] => true
  | f, l :: r =>
    let cs := l.1
    let toolStart := cs.any fun t => t == "M03" || t == "M04"
    let coolStart := cs.any fun t => t == "M07" || t == "M08"
    let toolStop := cs.any fun t => t == "M05"
    let coolStop := cs.any fun t => t == "M09"
    let needsIdle := cs.any fun t => ["M06", "M00", "M01", "M02", "M30", "M60", "M109", "M190", "M191", "M400"].contains t
    let safe := (!toolStart || !f.tool) && (!coolStart || !f.cool) && (!needsIdle || (!f.tool && !f.cool))
    let f1 : Flags := if toolStart then { f with tool := true } else if toolStop then { f with tool := false } else f
    let f2 : Flags := if coolStart then { f1 with cool := true } else if coolStop then { f1 with cool := false } else f1
    safe && GscribModel.MotionTie.lineSafeSeq f2 r

open GscribModel.MotionTie in
theorem GscribModel.MotionTie.safeSeq_view (f : Flags) (ss : List Stmt) : f.safeSeq ss = lineSafeSeq f (ss.map view) := by
  induction ss generalizing f with
  | nil => rfl
  | cons s r ih =>
    have a1 : toolStart s = (s.codes.map Code.text).any (fun t => t == "M03" || t == "M04") := by
      simp only [toolStart, List.any_map]; congr 1; funext c; cases c <;> decide
    have a2 : coolStart s = (s.codes.map Code.text).any (fun t => t == "M07" || t == "M08") := by
      simp only [coolStart, List.any_map]; congr 1; funext c; cases c <;> decide
    have a3 : toolStop s = (s.codes.map Code.text).any (fun t => t == "M05") := by
      simp only [toolStop, List.any_map]; congr 1; funext c; cases c <;> decide
    have a4 : coolStop s = (s.codes.map Code.text).any (fun t => t == "M09") := by
      simp only [coolStop, List.any_map]; congr 1; funext c; cases c <;> decide
    have a5 : needsIdle s = (s.codes.map Code.text).any (fun t => ["M06", "M00", "M01", "M02", "M30", "M60", "M109", "M190", "M191", "M400"].contains t) := by
      simp only [needsIdle, List.any_map]; congr 1; funext c; cases c <;> decide
    simp only [Flags.safeSeq, Flags.safe, Flags.exec, lineSafeSeq, List.map_cons, view, a1, a2, a3, a4, a5, ih]

open GscribModel.MotionTie in
/-- **C02 for the translated source**: for every history the program the translated source writes is safe statement by
    statement for a controller that reads the instruction texts. -/
theorem SourceTie_C02 (ops : List Op) (b : B) (hok : HistOk b ops) :
    lineSafeSeq b.flags ((srcRun (absB b) (b.ctx.map dmOf) ops).2.map conv) = true := by
  obtain ⟨_, h2⟩ := MotionTie_run ops b hok
  rw [← h2, ← safeSeq_view]
  exact (C02_run_safe ops b).1

open GscribModel.MotionTie in
/-- **C01 from a new builder**: construct a builder as the translated constructors do (`MotionTie_init`), run any history on the
    translated source, feed what it wrote to a machine just powered on (position unknown, absolute mode): the machine ends,
    on every axis it knows, where the builder says it is, in the mode the builder reports. -/
theorem SourceTie_C01_new (ops : List Op) (hok : HistOk {} ops) :
    let g := srcRun GCodeBuilder.init.1 [] ops
    GCodeBuilder.init.2 = none ∧ SAgree g.1 ((g.2.map conv).foldl lineExec {}) := by
  have hi := MotionTie_init
  refine ⟨by rw [hi], ?_⟩
  have hag : Agree ({} : B) ({} : Machine) := ⟨rfl, rfl, by intro a q h; cases a <;> cases h⟩
  have := SourceTie_C01 ops {} {} hok hag
  rw [hi]
  exact this

open GscribModel.MotionTie in
/-- **C02 from a new builder**: the program any history writes from a newly constructed builder is safe statement by statement
    for a controller whose tool and coolant are off at the start. -/
theorem SourceTie_C02_new (ops : List Op) (hok : HistOk {} ops) :
    lineSafeSeq ⟨false, false⟩ ((srcRun GCodeBuilder.init.1 [] ops).2.map conv) = true := by
  rw [MotionTie_init]
  exact SourceTie_C02 ops {} hok

open GscribModel.MotionTie in
/-- non-vacuity of the `_new` corollaries: a history from a new builder that meets `HistOk` (zero the axes, a relative-mode
    block with a move, coolant on, leave the block, emergency stop) -/
example : HistOk {} [.setAxis (VPt.ofPt ⟨some 0, some 0, some 0⟩) [], .enterCtx true, .move false (VPt.ofPt ⟨some 1, none, none⟩) [] 0,
    .coolOn .flood, .exitCtx, .ehalt false] := by
  refine ⟨⟨_, rfl⟩, trivial, ⟨⟨_, rfl⟩, ?_⟩, trivial, trivial, trivial, trivial⟩
  intro ws h
  cases h
  refine ⟨?_, ?_⟩
  · intro f hf; cases hf
  · intro s hs; cases hs

/-! ## C05 and C07 read off the translated source -/
namespace GscribModel.MotionTie
theorem runBMs_run (ops : List Op) : ∀ (b : B) (ms : ModalSt),
    runBMs (b, ms) ops = ((run b ops).1, ms.run (run b ops).2) := by
  induction ops with
  | nil => intro b ms; rfl
  | cons op ops ih =>
    intro b ms
    simp only [runBMs, run, ih, ModalSt.run, List.foldl_append]
end GscribModel.MotionTie

open GscribModel.MotionTie in
/-- **C07 for the translated source**: for every history, the state the *translated source* ends in is the abstraction of a
    builder state that mirrors a modal interpreter fed the statements written - and those are, as instruction texts, axis words and
    other words, exactly the statements the translated source wrote. -/
theorem SourceTie_C07 (ops : List Op) (b : B) (ms : ModalSt) (hok : HistOk b ops) (hm : Mirror b ms) :
    let g := srcRun (absB b) (b.ctx.map dmOf) ops
    ∃ b' : B, g.1 = absB b' ∧ Mirror b' (ms.run (run b ops).2) ∧ g.2.map conv = (run b ops).2.map view := by
  obtain ⟨h1, h2⟩ := MotionTie_run ops b hok
  have hk := C07_mirror_run ops b ms hm ops.length
  rw [List.take_length, runBMs_run] at hk
  exact ⟨(run b ops).1, h1.symm, hk, h2.symm⟩

namespace GscribModel.MotionTie
theorem histOk_erase (ops : List Op) : ∀ b : B, HistOk b ops → HistOk b (eraseRejected b ops) := by
  induction ops with
  | nil => intro b _; trivial
  | cons op ops ih =>
    intro b hok
    obtain ⟨h1, h2⟩ := hok
    cases hout : (step b op).out with
    | ok =>
      simp only [eraseRejected, hout]
      exact ⟨h1, ih _ h2⟩
    | error e =>
      simp only [eraseRejected, hout]
      have hb := C05_reject_state b op e hout
      rw [hb] at h2
      exact ih b h2
end GscribModel.MotionTie

open GscribModel.MotionTie in
/-- **C05 for the translated source**: run any history on the translated source, and run it again with every call the model
    rejects left out: the builder the translated source ends in is the same, and - away from the listed call site - so is
    everything it wrote. -/
theorem SourceTie_C05 (ops : List Op) (b : B) (hok : HistOk b ops) :
    let cx := b.ctx.map dmOf
    (srcRun (absB b) cx (eraseRejected b ops)).1 = (srcRun (absB b) cx ops).1 ∧
    (NoLeakSite b ops → (srcRun (absB b) cx (eraseRejected b ops)).2.map conv = (srcRun (absB b) cx ops).2.map conv) := by
  obtain ⟨a1, a2⟩ := MotionTie_run ops b hok
  obtain ⟨e1, e2⟩ := MotionTie_run (eraseRejected b ops) b (histOk_erase ops b hok)
  obtain ⟨c1, c2⟩ := C05_history_erasure ops b
  refine ⟨?_, fun hn => ?_⟩
  · rw [← e1, ← a1, c1]
  · rw [← e2, ← a2, c2 hn]

/-! ## C06 read off the translated source -/
open GscribModel.MotionTie in
/-- **C06 for the translated source**: from every builder state and under every bounds configuration (`b` is arbitrary) the
    translated `emergency_halt()` succeeds, writes `M05`, `M09`, the comment, then `M00` / `M30` in this order, and leaves a
    state object that reports tool and coolant inactive. -/
theorem SourceTie_C06 (b : B) (reset : Bool) (h : Rat) :
    let g := GCodeBuilder.emergency_halt (absB b) reset h
    g.2 = none ∧
    g.1.out.map conv = [(["M05"], {}, []), (["M09"], {}, []), ([], {}, []), ([if reset then "M30" else "M00"], {}, [])] ∧
    ∃ b' : B, g.1.state = absG b' ∧ b'.toolActive = false ∧ b'.coolActive = false := by
  have ag := MotionTie_emergency_halt b reset h
  obtain ⟨c1, c2, c3, c4⟩ := C06_emergency b reset
  obtain ⟨g1, _, g3⟩ := agrees_ok _ _ ag c1
  refine ⟨g1, ?_, (step b (.ehalt reset)).b, ?_, c3, c4⟩
  · rw [g3, c2]
    cases reset <;> rfl
  · have := congrArg BSt.state ag.2.1
    exact this.symm

/-! ## C03 (F and S words) read off the translated source -/
namespace GscribModel.MotionTie
def motionT (cs : List String) : Bool := cs.contains "G0" || cs.contains "G1"
def probeT (cs : List String) : Bool :=
  cs.contains "G38.2" || cs.contains "G38.3" || cs.contains "G38.4" || cs.contains "G38.5"
def toolStartT (cs : List String) : Bool := cs.any fun t => t == "M03" || t == "M04"

/-- the feed-rate and tool-power clauses of C03's `WordsOk`, for a statement as the ties compare statements (instruction texts,
    axis words, other words): an F word on a motion, probe or bare statement is inside the feed-rate range, an S word on a
    motion, probe, tool-start or bare statement inside the tool-power range -/
structure LineOk (b : B) (l : Line) : Prop where
  feed : ∀ f, lookupQ l.2.2 "F" = some f → (motionT l.1 || probeT l.1 || l.1.isEmpty) = true → b.okFeed f = true
  power : ∀ v, lookupQ l.2.2 "S" = some v → (motionT l.1 || probeT l.1 || toolStartT l.1 || l.1.isEmpty) = true → b.okPower v = true

theorem motionT_view (s : Stmt) : motionT (s.codes.map Code.text) = isMotion s := by
  simp only [motionT, isMotion, contains_text _ _ text_G0, contains_text _ _ text_G1, Code.text]
theorem probeT_view (s : Stmt) : probeT (s.codes.map Code.text) = isProbe s := by
  simp only [probeT, isProbe, contains_text _ _ text_G382, contains_text _ _ text_G383, contains_text _ _ text_G384,
    contains_text _ _ text_G385, Code.text]
theorem toolStartT_view (s : Stmt) : toolStartT (s.codes.map Code.text) = toolStart s := by
  simp only [toolStartT, toolStart, List.any_map]; congr 1; funext c; cases c <;> decide

theorem lineOk_view (b : B) (s : Stmt) (h : WordsOk b s) : LineOk b (view s) := by
  refine ⟨?_, ?_⟩
  · intro f hf hc
    apply h.feed f hf
    simpa only [view, motionT_view, probeT_view, List.isEmpty_map] using hc
  · intro v hv hc
    apply h.power v hv
    simpa only [view, motionT_view, probeT_view, toolStartT_view, List.isEmpty_map] using hc
end GscribModel.MotionTie

open GscribModel.MotionTie in
/-- **C03 (F and S words) for the translated source**: whatever the builder state and the bounds table, every statement a translated
    command writes carries an F word inside the feed-rate range and an S word inside the tool-power range wherever the controller
    reads them (motion, probe, tool-start and bare-word statements). -/
theorem SourceTie_C03 (b : B) (op : Op) (hok : OpOk b op) :
    ∀ l ∈ (srcStep (absB b) (b.ctx.map dmOf) op).1.1.out.map conv, LineOk b l := by
  intro l hl
  obtain ⟨⟨_, _, h3, _⟩, _⟩ := MotionTie_step b op hok
  have h3' : (step b op).stmts.map view = (srcStep (absB b) (b.ctx.map dmOf) op).1.1.out.map conv := h3
  rw [← h3'] at hl
  obtain ⟨s, hs, rfl⟩ := List.mem_map.mp hl
  exact lineOk_view b s (C03_words b op s hs)

/-! ## C20 (hook calls) read off the translated source -/
open GscribModel.MotionTie in
/-- **C20 (hook calls) for the translated source**: a translated `move()` whose target is inside the axes box hands every
    registered hook, once and in registration order, the true absolute origin (the tracked position, unknown axes as 0) and the
    true absolute target of that move - in either distance mode, whatever the hooks then return. -/
theorem SourceTie_C20 (b : B) (req : Pt) (ps : VParams) (h : Rat)
    (hd : DoubleFS (if b.hooks.isEmpty then ps else applyHooks b h ps)) (hb : b.bounds.okAxes (b.toAbsolute req) = true) :
    (GCodeCore.move (absB b) req ps h).1.calls = b.hooks.map (fun _ => ⟨b.axes.resolve, b.toAbsolute req⟩) := by
  obtain ⟨_, _, _, h4⟩ := MotionTie_move b req ps h hd
  rw [← h4]
  exact (C20_hook_calls_move b (VPt.ofPt req) ps h req (ofPt_fin req) hb).1

/-! ## C11 (plain moves) read off the translated source -/
namespace GscribModel.MotionTie
theorem vptOf_ofPt (t : Pt) : vptOf t = VPt.ofPt t := by
  obtain ⟨x, y, z⟩ := t
  cases x <;> cases y <;> cases z <;> rfl
end GscribModel.MotionTie

open GscribModel.MotionTie in
/-- **C11 (plain moves) for the translated source**: two builders at the same tracked position with the same bounds and no hooks,
    one in absolute and one in relative mode; the translated `move()` given the waypoint in the first and the offset to it in the
    second has the same outcome and leaves the same tracked position. -/
theorem SourceTie_C11 (bA bR : B) (t : Pt) (ps : VParams) (h : Rat)
    (hax : bA.axes = bR.axes) (hA : bA.rel = false) (hR : bR.rel = true)
    (hb : bA.bounds = bR.bounds) (hhA : bA.hooks = []) (hhR : bR.hooks = []) (hd : DoubleFS ps) :
    let gA := GCodeCore.move (absB bA) t ps h
    let gR := GCodeCore.move (absB bR) (offsetOf bR.axes.resolve t) ps h
    outOf gA.2 = outOf gR.2 ∧ (gA.2 = none → gA.1._current_axes = gR.1._current_axes) := by
  have hdA : DoubleFS (if bA.hooks.isEmpty then ps else applyHooks bA h ps) := by rw [hhA]; exact hd
  have hdR : DoubleFS (if bR.hooks.isEmpty then ps else applyHooks bR h ps) := by rw [hhR]; exact hd
  obtain ⟨a1, a2, _, _⟩ := MotionTie_move bA t ps h hdA
  obtain ⟨r1, r2, _, _⟩ := MotionTie_move bR (offsetOf bR.axes.resolve t) ps h hdR
  obtain ⟨c1, c2⟩ := C11_move_same bA bR t false ps h hax hA hR hb hhA hhR
  rw [vptOf_ofPt, vptOf_ofPt] at c1 c2
  refine ⟨by rw [← a1, ← r1, c1], fun _ => ?_⟩
  have ea := congrArg BSt._current_axes a2
  have er := congrArg BSt._current_axes r2
  have ea' : (GCodeCore.move (absB bA) t ps h).1._current_axes = (step bA (.move false (VPt.ofPt t) ps h)).b.axes := ea.symm
  have er' : (GCodeCore.move (absB bR) (offsetOf bR.axes.resolve t) ps h).1._current_axes =
      (step bR (.move false (VPt.ofPt (offsetOf bR.axes.resolve t)) ps h)).b.axes := er.symm
  rw [ea', er', c2]

/-! ## C04 (transformed moves) read off the translated source -/
open GscribModel.MotionTie GscribModel.PointTie in
/-- **C04 (absolute mode) for the translated source**: with `self.transform.apply_transform` the map of ANY transformer state, the
    translated `move()` / `rapid()` in G90 succeeds, writes one `G1` / `G0` in which every axis mentioned carries the image under
    the transform of the requested target (tracked position with the requested coordinates replaced), and tracks that target. -/
theorem SourceTie_C04_abs (c : GscribModel.Transform.Core) (b : B) (rapid : Bool) (req : GscribModel.Transform.Pt) (h : Rat)
    (hax : b.axes = ofT c.axes) (hrel : b.rel = c.rel) (hh : b.hooks = []) (hb : b.bounds.axes = none) (hr : c.rel = false) :
    let g := if rapid then GCodeCore.rapid_T (xfOf c.tr) (absB b) (ofT req) [] h else GCodeCore.move_T (xfOf c.tr) (absB b) (ofT req) [] h
    g.2 = none ∧
    g.1._current_axes = ofT (GscribModel.Transform.Pt.ofV3 (c.axes.resolve.replace req)) ∧
    g.1.out.map conv = [([if rapid then "G0" else "G1"], ofT (c.transformMove req).1, [])] ∧
    ∀ ax v, (c.transformMove req).1.get ax = some v → v = (c.A.apply (c.axes.resolve.replace req)).get ax := by
  obtain ⟨g1, g2, g3⟩ := MotionTie_go_xf c b rapid req h hax hrel hh hb
  obtain ⟨_, w2, w3⟩ := C04_abs_word c rapid req hr
  exact ⟨g1, by rw [g2, w2], g3, w3⟩

open GscribModel.MotionTie GscribModel.PointTie in
/-- **C04 (relative mode) for the translated source**: in G91 every axis mentioned carries the image of the requested displacement
    under the linear part of the transform; the tracked position advances by the untransformed displacement. -/
theorem SourceTie_C04_rel (c : GscribModel.Transform.Core) (b : B) (rapid : Bool) (req : GscribModel.Transform.Pt) (h : Rat)
    (hax : b.axes = ofT c.axes) (hrel : b.rel = c.rel) (hh : b.hooks = []) (hb : b.bounds.axes = none) (hr : c.rel = true) :
    let g := if rapid then GCodeCore.rapid_T (xfOf c.tr) (absB b) (ofT req) [] h else GCodeCore.move_T (xfOf c.tr) (absB b) (ofT req) [] h
    g.2 = none ∧
    g.1._current_axes = ofT (GscribModel.Transform.Pt.ofV3 (c.axes.resolve.add req.resolve)) ∧
    g.1.out.map conv = [([if rapid then "G0" else "G1"], ofT (c.transformMove req).1, [])] ∧
    ∀ ax v, (c.transformMove req).1.get ax = some v → v = (c.A.lin.apply req.resolve).get ax := by
  obtain ⟨g1, g2, g3⟩ := MotionTie_go_xf c b rapid req h hax hrel hh hb
  obtain ⟨_, w2, w3⟩ := C04_rel_word c rapid req hr
  exact ⟨g1, by rw [g2, w2], g3, w3⟩

open GscribModel.MotionTie GscribModel.PointTie in
/-- **C04 (which axes) for the translated source**: the one statement the translated `move()` / `rapid()` writes mentions exactly
    the requested axes and those whose machine coordinate has to change - in either distance mode, for any transformer state. -/
theorem SourceTie_C04_mentions (c : GscribModel.Transform.Core) (b : B) (rapid : Bool) (req : GscribModel.Transform.Pt) (h : Rat)
    (hax : b.axes = ofT c.axes) (hrel : b.rel = c.rel) (hh : b.hooks = []) (hb : b.bounds.axes = none) :
    ∃ w : GscribModel.Transform.Pt,
      (if rapid then GCodeCore.rapid_T (xfOf c.tr) (absB b) (ofT req) [] h else GCodeCore.move_T (xfOf c.tr) (absB b) (ofT req) [] h).1.out.map conv
        = [([if rapid then "G0" else "G1"], ofT w, [])] ∧
      ∀ ax, (w.get ax).isSome ↔ ((req.get ax).isSome ∨
        (c.A.apply c.axes.resolve).get ax ≠ (c.A.apply (c.go rapid req).1.axes.resolve).get ax) :=
  ⟨(c.transformMove req).1, (MotionTie_go_xf c b rapid req h hax hrel hh hb).2.2, fun ax => C04_mentions c rapid req ax⟩

namespace GscribModel.MotionTie
/-- a controller for the output of a transformed builder that reads nothing but instruction texts and X/Y/Z words - the position
    machine of `Model/Transform.lean` in the vocabulary the translated source writes -/
def xfLineExec (m : GscribModel.Transform.Machine) (l : Line) : GscribModel.Transform.Machine :=
  let cs := l.1
  let w := l.2.1
  if cs.contains "G90" then { m with rel := false }
  else if cs.contains "G91" then { m with rel := true }
  else if cs.contains "G0" || cs.contains "G1" then
    if m.rel then { m with pos := ⟨m.pos.x + w.x.getD 0, m.pos.y + w.y.getD 0, m.pos.z + w.z.getD 0⟩ }
    else { m with pos := ⟨w.x.getD m.pos.x, w.y.getD m.pos.y, w.z.getD m.pos.z⟩ }
  else if cs.contains "G92" then { m with pos := ⟨w.x.getD m.pos.x, w.y.getD m.pos.y, w.z.getD m.pos.z⟩ }
  else m

theorem xfLineExec_view (m : GscribModel.Transform.Machine) (s : GscribModel.Transform.Stmt) :
    xfLineExec m (stmtView s) = GscribModel.Transform.Machine.exec m s := by
  cases s with
  | mode r => cases r <;> simp [xfLineExec, stmtView, GscribModel.Transform.Machine.exec]
  | go r w => cases r <;> simp [xfLineExec, stmtView, GscribModel.Transform.Machine.exec, GscribModel.PointTie.ofT]
  | set w => simp [xfLineExec, stmtView, GscribModel.Transform.Machine.exec, GscribModel.PointTie.ofT]

theorem xfLineExec_run (ss : List GscribModel.Transform.Stmt) (m : GscribModel.Transform.Machine) :
    (ss.map stmtView).foldl xfLineExec m = ss.foldl GscribModel.Transform.Machine.exec m := by
  induction ss generalizing m with
  | nil => rfl
  | cons s ss ih => simp only [List.map_cons, List.foldl_cons, xfLineExec_view, ih]
end GscribModel.MotionTie

open GscribModel.MotionTie GscribModel.PointTie in
/-- **C04 (the machine stays on the image of the tracked position) for the translated source**: a controller that reads only texts
    and X/Y/Z words, at `A·tracked` and in the builder's distance mode, is at `A·(new tracked)` after executing what the translated
    `move()` / `rapid()` wrote - for any transformer state, any partial-axis request, both distance modes. -/
theorem SourceTie_C04_machine (c : GscribModel.Transform.Core) (b : B) (rapid : Bool) (req : GscribModel.Transform.Pt) (h : Rat)
    (hax : b.axes = ofT c.axes) (hrel : b.rel = c.rel) (hh : b.hooks = []) (hb : b.bounds.axes = none)
    (m : GscribModel.Transform.Machine) (hpos : m.pos = c.A.apply c.axes.resolve) (hm : m.rel = c.rel) :
    ((if rapid then GCodeCore.rapid_T (xfOf c.tr) (absB b) (ofT req) [] h else GCodeCore.move_T (xfOf c.tr) (absB b) (ofT req) [] h).1.out.map conv).foldl
        xfLineExec m
      = ⟨(c.go rapid req).1.A.apply (c.go rapid req).1.axes.resolve, (c.go rapid req).1.rel⟩ := by
  rw [MotionTie_go_stmt_xf c b rapid req h hax hrel hh hb, xfLineExec_run]
  exact (C04_invariant c m rapid req hpos hm).1

open GscribModel.MotionTie GscribModel.PointTie in
/-- **C04 (bypass moves) for the translated source**: the same controller reading what the translated `move_absolute()` /
    `rapid_absolute()` wrote ends on its old position with the requested coordinates replaced, back in the builder's distance mode -/
theorem SourceTie_C04_bypass (c : GscribModel.Transform.Core) (b : B) (rapid : Bool) (req : GscribModel.Transform.Pt) (h : Rat)
    (hax : b.axes = ofT c.axes) (hrel : b.rel = c.rel) (hsync : b.srel = b.rel) (hh : b.hooks = []) (hb : b.bounds.axes = none)
    (m : GscribModel.Transform.Machine) (hm : m.rel = c.rel) :
    ((if rapid then GCodeBuilder.rapid_absolute (absB b) (ofT req) [] h else GCodeBuilder.move_absolute (absB b) (ofT req) [] h).1.out.map conv).foldl
        xfLineExec m
      = ⟨m.pos.replace req, c.rel⟩ := by
  rw [(MotionTie_goabs_xf c b rapid req h hax hrel hsync hh hb).2.2, xfLineExec_run]
  exact C04_bypass_machine c m rapid req hm

/-! ## C04: `set_axis`, and non-vacuity of the premises -/
open GscribModel.MotionTie GscribModel.PointTie in
/-- **C04 (`set_axis`) for the translated source**: the text-reading controller that executes what the translated `set_axis()` wrote has
    its coordinates renamed to the raw request (no transform applied), distance mode untouched; the builder tracks the raw request. -/
theorem SourceTie_C04_setaxis (c : GscribModel.Transform.Core) (b : B) (req : GscribModel.Transform.Pt) (h : Rat)
    (hax : b.axes = ofT c.axes) (hb : b.bounds.axes = none) (m : GscribModel.Transform.Machine) :
    let g := GCodeBuilder.set_axis (absB b) (ofT req) [] h
    g.2 = none ∧ g.1._current_axes = ofT (GscribModel.Transform.Pt.replace c.axes req) ∧
    (g.1.out.map conv).foldl xfLineExec m = ⟨m.pos.replace req, m.rel⟩ := by
  obtain ⟨g1, g2, g3⟩ := MotionTie_setaxis_xf c b req h hax hb
  obtain ⟨w1, w2, _, _⟩ := C04_setaxis_machine c m req
  refine ⟨g1, by rw [g2, w2], ?_⟩
  rw [g3, xfLineExec_run]
  exact w1

open GscribModel.MotionTie GscribModel.PointTie in
/-- the premises of `SourceTie_C04_machine` / `_bypass` / `_setaxis` are met by a concrete rotated builder in relative mode -/
example : let c := C04_exC true
    let b : B := { axes := ofT c.axes, rel := c.rel, srel := c.rel }
    b.axes = ofT c.axes ∧ b.rel = c.rel ∧ b.srel = b.rel ∧ b.hooks = [] ∧ b.bounds.axes = none := ⟨rfl, rfl, rfl, rfl, rfl⟩

open GscribModel.MotionTie in
/-- and on it the text-reading controller really moves: the view of the model's statement for `move(x=2)` takes it off its position -/
example : let c := C04_exC true
    let m : GscribModel.Transform.Machine := ⟨c.A.apply c.axes.resolve, c.rel⟩
    (((c.go false ⟨some 2, none, none⟩).2.map stmtView).foldl xfLineExec m).pos ≠ m.pos := by decide +kernel

/-! ## C04: probes under a transform -/
open GscribModel.MotionTie GscribModel.PointTie in
/-- **C04 (probes) for the translated source**: with `self.transform.apply_transform` the map of any transformer state, the translated
    `probe()` succeeds and writes one probe statement in which every axis mentioned carries the image under the transform of the
    requested target (G90) or the linear image of the requested displacement (G91) - the same words a `move()` to that target carries. -/
theorem SourceTie_C04_probe (c : GscribModel.Transform.Core) (b : B) (m : ProbeArg) (hm : m ≠ .bogus) (req : GscribModel.Transform.Pt) (h : Rat)
    (hax : b.axes = ofT c.axes) (hrel : b.rel = c.rel) (hb : b.bounds.axes = none) :
    let g := GCodeBuilder.probe_T (xfOf c.tr) (absB b) (argProbe m) (ofT req) [] h
    g.2 = none ∧ g.1.out.map conv = [([m.code.text], ofT (c.transformMove req).1, [])] ∧
    ∀ ax v, (c.transformMove req).1.get ax = some v →
      v = if c.rel then (c.A.lin.apply req.resolve).get ax else (c.A.apply (c.axes.resolve.replace req)).get ax := by
  obtain ⟨g1, _, g3⟩ := MotionTie_probe_xf c b m hm req h hax hrel hb
  refine ⟨g1, g3, fun ax v hv => ?_⟩
  cases hr : c.rel
  · simpa using (C04_abs_word c false req hr).2.2 ax v hv
  · simpa using (C04_rel_word c false req hr).2.2 ax v hv

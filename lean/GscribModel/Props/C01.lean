import GscribModel.Lemmas.BuilderMachine
/-! # C01 — the emitted program reproduces the tracked position (no transform active)

`Machine` (`Model/Machine.lean`) is an independent interpreter of G0/G1/G90/G91/G92/G28/G38.x over
coordinates that may be unknown (power-on, after homing, after a probe).  `Agree b m`
(`Lemmas/BuilderMachine.lean`): same distance mode, and on every axis whose machine coordinate is
known, `g.position` and `g.state.position` both report exactly that coordinate. -/
open GscribModel.Builder

/-- at power-on nothing is known to the machine, so builder and machine agree -/
theorem C01_agree_init : Agree {} {} := by
  refine ⟨rfl, rfl, ?_⟩
  intro a q hq
  cases a <;> simp [Machine.pos, Pt.get, Pt.unknown] at hq

/-- **One call** — linear and rapid moves, absolute-bypass moves (with their `G90 … G91` bracket),
    axis resets, homing, probing, mode switches, entering and leaving mode contexts, and every
    other command of the API (which the machine ignores): accepted or rejected, agreement is kept. -/
theorem C01_agree_step (b : B) (m : Machine) (op : Op) (h : Agree b m) :
    Agree (step b op).b (Machine.run m (step b op).stmts) := by
  cases hm : motionOp op
  · obtain ⟨h1, h2, h3, h4, h5⟩ := nonmotion_step b op hm
    rw [run_mNeutral m _ h1]
    obtain ⟨hr, hs, hp⟩ := h
    exact ⟨by rw [h4]; exact hr, by rw [h5]; exact hs, fun a q hq => by rw [h2, h3]; exact hp a q hq⟩
  · cases op <;> simp only [motionOp] at hm <;> (try contradiction)
    case move r p ps hh => exact agree_move b m h r p ps hh
    case moveAbs r p ps hh => exact agree_moveAbs b m h r p ps hh
    case setAxis p ps => exact agree_setAxis b m h p ps
    case home p ps => exact agree_home b m h p ps
    case probe pm p ps => exact agree_probe b m h pm p ps
    case setDist r => simpa [step, accept] using agree_setDist b m h r
    case enterCtx r =>
      simp only [step, accept]
      split
      · exact agree_setDist { b with ctx := b.rel :: b.ctx } m h r
      · exact h
    case exitCtx =>
      simp only [step, accept]
      split
      · exact h
      · split
        · exact agree_setDist { b with ctx := _ } m h _
        · exact h

/-- the sequence of (builder, machine) pairs along a history, the machine being driven only by what the builder wrote -/
def runBM : B × Machine → List Op → B × Machine
  | s, [] => s
  | (b, m), op :: ops => runBM ((step b op).b, Machine.run m (step b op).stmts) ops

/-- **Every history, after every call**: for every prefix of every call sequence the machine is
    exactly where the builder reports, on every axis it knows, in the mode the builder reports. -/
theorem C01_agree_run (ops : List Op) : ∀ (b : B) (m : Machine), Agree b m →
    ∀ k, Agree (runBM (b, m) (ops.take k)).1 (runBM (b, m) (ops.take k)).2 := by
  induction ops with
  | nil => intro b m h k; simpa [runBM] using h
  | cons op ops ih =>
    intro b m h k
    cases k with
    | zero => simpa [runBM] using h
    | succ k => simpa [runBM] using ih _ _ (C01_agree_step b m op h) k

/-- **Interpolated paths**: `polyline`/`parametric` (hence every tracer shape) turn each absolute vertex
    `v` into `move(to_distance_mode(v))`; in either distance mode the machine ends exactly on `v`, and
    so does the tracked position — for every curve, since `v` is arbitrary. -/
theorem C01_trace_vertex (b : B) (m : Machine) (h : Agree b m) (v : P3) (hh : b.hooks = [])
    (hk : ∀ a, ∃ q, m.pos.get a = some q) (hb : b.bounds.okAxes ⟨some v.x, some v.y, some v.z⟩ = true) :
    (Machine.run m (step b (.move false (vptOf (tracedReq b v)) [] 0)).stmts).pos = ⟨some v.x, some v.y, some v.z⟩ ∧
    (step b (.move false (vptOf (tracedReq b v)) [] 0)).b.axes = ⟨some v.x, some v.y, some v.z⟩ := by
  have hta := toAbs_traced b v
  simp only at hta
  obtain ⟨hr, hs, hp⟩ := h
  simp only [step, stepMove, vptOf_fin, reject, accept, tracedReq] at hta ⊢
  rw [hta]
  simp only [hb, hh, VParams.fin?, B.okTrack, lookupQ, List.find?, Bool.not_true, Bool.false_eq_true, if_false,
    List.isEmpty_nil, Bool.and_false, Bool.and_self, Option.map_none, Machine.run, List.foldl, commitAxes_axes, and_true]
  rw [exec_motion _ _ (Or.inr rfl)]
  apply Pt.ext_get
  intro a
  obtain ⟨q, hq⟩ := hk a
  have hba := (hp a q hq).1
  cases hrel : b.rel <;> cases a <;>
    simp_all [Pt.get, Pt.resolve, Pt.mk', Pt.combine, Pt.sub] <;> grind

/-- **"Up to the rounding of the configured decimal places"**: let every axis word be replaced by a rounded value
    within ε of it (ε = half a unit of the last decimal place, C08_number_error).  The machine executing the *rounded*
    program knows exactly the same axes as the machine executing the exact one (hence as the builder, C01_agree_run),
    and on each of them its coordinate differs by at most the budget: an absolute word (G0/G1 in G90, G92) resets the
    axis error to ε, every relative word (G0/G1 in G91) adds ε, everything else leaves it unchanged. -/
theorem C01_rounding (r : Rat → Rat) (ε : Rat) (hr : ∀ x, -ε ≤ r x - x ∧ r x - x ≤ ε) (ops : List Op) (b : B) (m : Machine) :
    Near (budgetRun ε m (fun _ => 0) (run b ops).2) (Machine.run m (run b ops).2)
      (Machine.run m ((run b ops).2.map (roundStmt r))) := by
  apply rounding_run r ε hr
  refine ⟨rfl, fun a => ?_⟩
  cases m.pos.get a <;> simp <;> grind

/-- in absolute mode a single rounded word leaves the axis within ε -/
example : budget { rel := false } { codes := [.G1], ax := ⟨some 1, none, none⟩ } (1 / 200000) (fun _ => 7) .x = 1 / 200000 := by
  decide +kernel

/-! Non-vacuity: G92, relative moves, nested contexts, absolute bypass, probe, home. -/
example : (runBM ({}, {}) [.setAxis ⟨some (.fin 0), some (.fin 0), some (.fin 0)⟩ [], .setDist true,
      .move false { x := some (.fin (3 / 2)) } [] 0, .enterCtx false, .move true { x := some (.fin 10) } [] 0,
      .enterCtx true, .move false { x := some (.fin (-1)) } [] 0, .exitCtx, .exitCtx,
      .moveAbs false { x := some (.fin 4) } [] 0, .probe .towards { z := some (.fin 1) } [],
      .home { y := some (.fin 0) } [], .move false { x := some (.fin (1 / 4)) } [] 0]).2
    = ({ pos := ⟨some (17 / 4), none, none⟩, rel := true } : Machine) := by decide +kernel

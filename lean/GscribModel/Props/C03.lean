import GscribModel.Lemmas.BuilderBounds
/-! # C03 — configured bounds are never exceeded by an emitted command

Bounds in force for a call are `b.bounds` (only `set_bounds` changes them, and it writes nothing).
Reading recorded in DESIGN.md: F and S words are judged on the statements where they are modal
(motion, probe, tool start, bare `F…`/`S…`); `G28` words are endstop flags, not targets. -/
open GscribModel.Builder
set_option linter.unusedSimpArgs false

/-- **Axes**: after any accepted move, rapid, absolute-bypass move or axis reset, the position the
    command leads to — which is the position the builder then tracks — lies inside the axes box on
    every coordinate the builder knows; the box itself is unchanged by the call. -/
theorem C03_axes_after_motion (b : B) (op : Op) (hok : (step b op).out = .ok)
    (hm : match op with | .move .. | .moveAbs .. | .setAxis .. => True | _ => False) :
    (step b op).b.bounds = b.bounds ∧ b.bounds.okAxes (step b op).b.axes = true := by
  cases op <;> simp only at hm <;>
    simp only [step, stepMove, stepMoveAbs, stepSetAxis, reject, accept] at hok ⊢ <;>
    (repeat' split at hok) <;> simp_all <;> (repeat' split) <;> simp_all

/-- **Probe**: the point probed towards is inside the box (the axes involved are unknown afterwards). -/
theorem C03_probe_target (b : B) (m : ProbeArg) (p : VPt) (ps : VParams)
    (hok : (step b (.probe m p ps)).out = .ok) :
    ∃ req, p.fin? = some req ∧ b.bounds.okAxes (b.toAbsolute req) = true := by
  simp only [step, stepProbe, reject, accept] at hok
  (repeat' split at hok) <;> simp_all

/-- the tracked position is inside the box in force (on every known coordinate) -/
def AxOk (b : B) : Prop := b.bounds.okAxes b.axes = true

/-- **Every interpolated segment** is a `move`: whatever the vertex list, after every prefix of the
    path the tool is inside the box — a rejected segment changes nothing, an accepted one lands inside. -/
theorem C03_path_inside (moves : List (VPt × VParams)) : ∀ b : B, AxOk b →
    ∀ k, AxOk (run b ((moves.take k).map fun m => Op.move false m.1 m.2 0)).1 := by
  induction moves with
  | nil => intro b h k; simpa [run] using h
  | cons m ms ih =>
    intro b h k
    cases k with
    | zero => simpa [run] using h
    | succ k =>
      simp only [List.take_succ_cons, List.map_cons, run]
      apply ih
      cases hout : (step b (Op.move false m.1 m.2 0)).out with
      | ok =>
        have := C03_axes_after_motion b (Op.move false m.1 m.2 0) hout trivial
        unfold AxOk; rw [this.1]; exact this.2
      | error e =>
        have hb : (step b (Op.move false m.1 m.2 0)).b = b := by
          simp only [step, stepMove, reject, accept] at hout ⊢
          (repeat' split at hout) <;> simp_all
        rw [hb]; exact h

/-- **Words** (`WordsOk`, see `Lemmas/BuilderBounds.lean`): for every builder state and every call,
    every F word written on a motion, probe or bare-`F` statement is inside the feed-rate range (and
    non-negative); every S word on a motion, probe, tool-start or bare-`S` statement is inside the
    tool-power range; `T` on a tool change is inside the tool-number range and ≥ 1; every S and R on a
    set-temperature or wait-for-temperature statement is inside that heater's range (inclusive). -/
theorem C03_words (b : B) (op : Op) : ∀ s ∈ (step b op).stmts, WordsOk b s := by
  cases op
  case move rapid p ps h =>
    simp only [step, stepMove, reject, accept]
    (repeat' split) <;> (try simp_all) <;> (apply wordsOk_tracked <;> simp_all)
  case moveAbs rapid p ps h =>
    simp only [step, stepMoveAbs, reject, accept]
    (repeat' split) <;> (try simp_all [modeStmt]) <;>
      (repeat' (apply And.intro)) <;>
      first
        | (apply wordsOk_plain; simp; done)
        | (apply wordsOk_tracked <;> simp_all [B.okTrack, B.okFeed, B.okPower])
  case halt m ps =>
    simp only [step, stepHalt, reject, accept]
    (repeat' split) <;> (try simp_all) <;> (apply wordsOk_halt <;> simp_all)
  case probe m p ps =>
    simp only [step, stepProbe, reject, accept]
    (repeat' split) <;> (try simp_all) <;> (apply wordsOk_tracked <;> cases m <;> simp_all [ProbeArg.code])
  case feed v =>
    simp only [step, reject, accept]; (repeat' split) <;> (try simp_all) <;> (apply wordsOk_bareF; simp_all)
  case power v =>
    simp only [step, reject, accept]; (repeat' split) <;> (try simp_all) <;> (apply wordsOk_bareS; simp_all)
  case toolOn m v =>
    simp only [step, reject, accept]; (repeat' split) <;> (try simp_all) <;>
      (apply wordsOk_toolStart <;> cases m <;> simp_all [SpinArg.code])
  case powerOn m v =>
    simp only [step, reject, accept]; (repeat' split) <;> (try simp_all) <;>
      (apply wordsOk_toolStart <;> cases m <;> simp_all [PowerArg.code])
  case toolChange m n =>
    simp only [step, reject, accept]; (repeat' split) <;> (try simp_all) <;>
      (apply wordsOk_toolChange <;> simp_all <;> omega)
  case bed v =>
    simp only [step, reject, accept]; (repeat' split) <;> (try simp_all) <;>
      (apply wordsOk_setTemp _ .bed <;> simp_all)
  case hotend v =>
    simp only [step, reject, accept]; (repeat' split) <;> (try simp_all) <;>
      (apply wordsOk_setTemp _ .hotend <;> simp_all)
  case chamber v =>
    simp only [step, reject, accept]; (repeat' split) <;> (try simp_all) <;>
      (apply wordsOk_setTemp _ .chamber <;> simp_all)
  case coolOn m =>
    simp only [step, reject, accept]; (repeat' split) <;> (try simp_all) <;>
      (apply wordsOk_plain; cases m <;> simp_all [CoolArg.code])
  all_goals
    simp only [step, stepSetAxis, stepHome, stepSetDist, stepToolOff, stepPowerOff, stepCoolOff, reject, accept, modeStmt]
    (repeat' split) <;> (try simp_all) <;> (repeat' (apply And.intro)) <;>
      first
        | (apply wordsOk_plain; simp; done)
        | (apply wordsOk_plain; split <;> simp; done)
        | (apply wordsOk_plain; rename_i m; cases m <;> simp [CoolArg.code]; done)
        | exact wordsOk_nocode_nowords b _

/-- **NaN never passes**: with or without a configured range. -/
theorem C03_nan (b : B) :
    (step b (.feed .nan)).out = .error .valueError ∧ (step b (.power .nan)).out = .error .valueError ∧
    (step b (.bed .nan)).out = .error .valueError ∧ (step b (.hotend .nan)).out = .error .valueError ∧
    (step b (.chamber .nan)).out = .error .valueError ∧
    (∀ m, (step b (.toolOn m .nan)).out ≠ .ok) ∧ (∀ m, (step b (.powerOn m .nan)).out ≠ .ok) ∧
    (∀ r y z ps h, (step b (.move r { x := some .nan, y := y, z := z } ps h)).out = .error .valueError) ∧
    (∀ r p ps h k, (k, Val.nan) ∈ ps → (step b (.move r p ps h)).out ≠ .ok ∨ b.hooks ≠ []) := by
  refine ⟨by simp [step, reject, Val.fin?], by simp [step, reject, Val.fin?], by simp [step, reject, Val.fin?],
    by simp [step, reject, Val.fin?], by simp [step, reject, Val.fin?], ?_, ?_, ?_, ?_⟩
  · intro m; cases m <;> simp [step, reject, Val.fin?] <;> split <;> simp
  · intro m; cases m <;> simp [step, reject, Val.fin?] <;> split <;> simp
  · intro r y z ps h; simp [step, stepMove, reject, VPt.fin?, optFin, Val.fin?]
  · intro r p ps h k hk
    by_cases hh : b.hooks = []
    · left
      have hfin : VParams.fin? ps = none := by
        induction ps with
        | nil => simp at hk
        | cons e es ih =>
          rcases List.mem_cons.mp hk with rfl | hk'
          · simp [VParams.fin?, Val.fin?]
          · simp only [VParams.fin?]; rw [ih hk']; split <;> simp_all
      simp only [step, stepMove, reject, accept, hh]
      (repeat' split) <;> simp_all
    · right; exact hh

/-- **Inclusive**: a value exactly on a limit (or anywhere inside) is accepted. -/
theorem C03_accepts_inclusive (b : B) (q lo hi : Rat) (h0 : 0 ≤ q) (hlo : lo ≤ q) (hhi : q ≤ hi) :
    (b.bounds.feed = some (lo, hi) → (step b (.feed (.fin q))).out = .ok) ∧
    (b.bounds.toolPower = some (lo, hi) → (step b (.power (.fin q))).out = .ok) ∧
    (b.bounds.bed = some (lo, hi) → (step b (.bed (.fin q))).out = .ok) := by
  refine ⟨?_, ?_, ?_⟩ <;> intro hb <;>
    simp [step, accept, reject, Val.fin?, B.okFeed, B.okPower, Bounds.okNum, Bounds.get, hb, h0, hlo, hhi]

/-! Non-vacuity: boundary values on a configured box. -/
example : (step { bounds := { axes := some (⟨0, 0, 0⟩, ⟨10, 10, 10⟩) } } (.move false { x := some (.fin 10) } [] 0)).out = .ok := by decide
example : (step { bounds := { axes := some (⟨0, 0, 0⟩, ⟨10, 10, 10⟩) } }
    (.move false { x := some (.fin (321 / 32)) } [] 0)).out = .error .valueError := by decide +kernel
example : (step { bounds := { axes := some (⟨0, 0, 0⟩, ⟨20, 20, 20⟩) } } (.probe .towards { x := some (.fin 1000) } [])).out
    = .error .valueError := by decide

import GscribModel.Gen.RecvSrc
import GscribModel.Props.SenderTie
/-! Translator tie `recv`: the reception path of the bundled sender as translated from the source text on this run
    (`tools/gen_recv.py` -> `Gen/RecvSrc.lean`: `printcore._readline`, `Device.has_flow_control`, `Device.is_connected`)
    against a hand-written description of what it must do.

    * `RecvTie.readline` (below) is the reception step written by hand: end of stream, a read error and an undecodable
      line are logged and yield `None`; a decoded line of more than one character is appended to `log`, handed to every
      registered handler's `on_recv` in registration order (a handler that raises is logged and the next one is still
      called), then to `recvcb` once (if set; a raise is logged), then logged when `loud`; the line is returned.  It never
      looks at `online`.  `RecvTie_readline`: the translated `_readline` *is* that function, for every object and every
      read.  `RecvTie_delivers`, `RecvTie_not_delivered`, `RecvTie_online_independent` read C18's premise off it
      ("every line received reaches `recvcb`", before and after the handshake).
    * `RecvTie_flow_control` / `_flow_control_dtr`: the translated `has_flow_control` is `_type == 'socket'`, whatever
      `force_dtr` is; `RecvTie_sender_field`: for a serial device it is the value `SenderTie.pcOf` gives the field
      `printer.has_flow_control` that the translated `_send` / `_sendnext` read (C15: lines are numbered and checksummed).
    * `RecvTie_is_connected`: the translated `is_connected` with its `getattr` dispatch resolved.
    Only the theorems named `RecvTie_*` count; the rest lives in the namespace `GscribModel.RecvTie`. -/
open GscribModel.RecvPy GscribModel.Gen.RecvSrc
namespace GscribModel.RecvTie

/-! ### the reception step, by hand -/
/-- the calls made for the registered handlers: each `on_recv(line)`, in order; a raise is logged -/
def handlerEvs (line : Text) : List Handler → List Ev
  | [] => []
  | h :: hs => .on_recv h.id line :: ((if h.raises then [.logger_error] else []) ++ handlerEvs line hs)

def recvcbEvs (line : Text) : Option Callback → List Ev
  | none => []
  | some cb => .recvcb line :: (if cb.raises then [.logError] else [])

def loudEvs (loud : Bool) : List Ev := if loud then [.logger_info] else []

/-- every call made for one delivered line -/
def deliveries (self : Printcore) (line : Text) : List Ev :=
  handlerEvs line self.event_handler ++ recvcbEvs line self.recvcb ++ loudEvs self.loud

def readline (self : Printcore) : Read → Printcore × Except PyErr (Option Text)
  | .eof => ({ self with stop_read_thread := true, trace := self.trace ++ [.logError] }, .ok none)
  | .deviceError => ({ self with trace := self.trace ++ [.logError] }, .ok none)
  | .data b =>
    match Py.decodeUtf8 b with
    | none => ({ self with trace := self.trace ++ [.logError] }, .ok none)
    | some line =>
      if 1 < line.length then
        ({ self with log := Py.dequeAppend 10000 self.log line, trace := self.trace ++ deliveries self line }, .ok (some line))
      else (self, .ok (some line))

/-- the calls that hand a line to a client (`on_recv`, `recvcb`), logging left out -/
def clientCalls (t : List Ev) : List Ev :=
  t.filter fun e => match e with
    | .on_recv _ _ => true
    | .recvcb _ => true
    | _ => false

/-- the reads that deliver: a decodable line of more than one character -/
def Delivers (r : Read) (line : Text) : Prop := ∃ b, r = .data b ∧ Py.decodeUtf8 b = some line ∧ 1 < line.length

/-! ### lemmas -/
theorem forEach_handlers (line : Text) (f : Printcore → Handler → Printcore × Except PyErr Unit)
    (hf : ∀ s h, f s h = ({ s with trace := s.trace ++ (.on_recv h.id line :: (if h.raises then [.logger_error] else [])) }, .ok ())) :
    ∀ (hs : List Handler) (s : Printcore), Py.forEach hs s f = ({ s with trace := s.trace ++ handlerEvs line hs }, .ok ()) := by
  intro hs
  induction hs with
  | nil => intro s; simp [Py.forEach, handlerEvs]
  | cons h hs ih =>
    intro s
    simp only [Py.forEach, hf, ih, handlerEvs]
    simp [List.append_assoc]

theorem clientCalls_append (a b : List Ev) : clientCalls (a ++ b) = clientCalls a ++ clientCalls b := by
  simp [clientCalls]

theorem clientCalls_handlerEvs (line : Text) (hs : List Handler) :
    clientCalls (handlerEvs line hs) = hs.map fun h => Ev.on_recv h.id line := by
  induction hs with
  | nil => rfl
  | cons h hs ih =>
    have e : handlerEvs line (h :: hs) = [Ev.on_recv h.id line] ++ (if h.raises then [Ev.logger_error] else []) ++ handlerEvs line hs := by
      simp [handlerEvs]
    rw [e, clientCalls_append, clientCalls_append, ih]
    cases h.raises <;> simp [clientCalls]

theorem clientCalls_deliveries (self : Printcore) (line : Text) :
    clientCalls (deliveries self line)
      = (self.event_handler.map fun h => Ev.on_recv h.id line) ++ (if self.recvcb.isSome then [Ev.recvcb line] else []) := by
  simp only [deliveries, clientCalls_append, clientCalls_handlerEvs]
  cases hc : self.recvcb with
  | none => cases self.loud <;> simp [recvcbEvs, loudEvs, clientCalls]
  | some c => cases c.raises <;> cases self.loud <;> simp [recvcbEvs, loudEvs, clientCalls]

end GscribModel.RecvTie

open GscribModel.RecvTie

/-- The translated `printcore._readline` is the hand-written reception step: same object afterwards (fields and every
    call made, in order), same value returned / exception raised - for every object and every behaviour of the port. -/
theorem RecvTie_readline (self : Printcore) (r : Read) : _readline self r = readline self r := by
  obtain ⟨online, loud, srt, log, hs, cb, tr⟩ := self
  cases r with
  | eof => simp [_readline, readline, Py.printer_readline, Py.logError, Py.emit]
  | deviceError => simp [_readline, readline, Py.printer_readline, Py.logError, Py.emit, PyErr.isinstance, PyErr.isa]
  | data b =>
    simp only [_readline, readline, Py.printer_readline, Py.decode_utf8]
    cases hd : Py.decodeUtf8 b with
    | none => simp [Py.logError, Py.emit, PyErr.isinstance, PyErr.isa]
    | some line =>
      simp only [Option.isNone_some, Bool.false_eq_true, if_false]
      by_cases hl : 1 < line.length
      · have hl' : (Py.len line > (1 : Int)) := by simp [Py.len]; omega
        simp only [hl, hl', decide_true, if_true]
        rw [forEach_handlers line]
        · cases cb with
          | none => cases loud <;> simp [Py.truthyOpt, deliveries, recvcbEvs, loudEvs, Py.logger_info, Py.emit, log_maxlen]
          | some c =>
            obtain ⟨cr⟩ := c
            cases cr <;> cases loud <;>
              simp [Py.truthyOpt, Py.call_recvcb, deliveries, recvcbEvs, loudEvs, Py.logger_info, Py.logError, Py.emit, log_maxlen,
                PyErr.isinstance, PyErr.isa]
        · intro s h
          cases hr : h.raises <;> simp [Py.on_recv, hr, Py.emit, Py.logger_error, PyErr.isinstance, PyErr.isa]
      · have hl' : ¬ (Py.len line > (1 : Int)) := by simp [Py.len]; omega
        simp [hl, hl']

/-- Every line of more than one character is delivered, in every state (online or not, loud or not, whatever the
    handlers do): the translated `_readline` returns it, appends it to `log`, and the calls it adds to the trace hand it
    to every registered handler's `on_recv` in registration order and then to `recvcb` exactly once (when one is set) -
    also when an earlier handler raised.  Nothing else about the object changes. -/
theorem RecvTie_delivers (self : Printcore) (r : Read) (line : Text) (h : Delivers r line) :
    (_readline self r).2 = .ok (some line)
    ∧ (_readline self r).1 = { self with log := Py.dequeAppend 10000 self.log line, trace := self.trace ++ deliveries self line }
    ∧ clientCalls (deliveries self line)
        = (self.event_handler.map fun h => Ev.on_recv h.id line) ++ (if self.recvcb.isSome then [Ev.recvcb line] else []) := by
  obtain ⟨b, rfl, hd, hl⟩ := h
  rw [RecvTie_readline]
  simp [readline, hd, hl, clientCalls_deliveries]

/-- Nothing is delivered, and `log` is left alone, for every other read: end of stream, a read error, bytes that are
    not UTF-8, and a line of at most one character (an empty read, a lone line break). -/
theorem RecvTie_not_delivered (self : Printcore) (r : Read) (h : ¬ ∃ line, Delivers r line) :
    (_readline self r).1.log = self.log ∧ clientCalls (_readline self r).1.trace = clientCalls self.trace
    ∧ (∀ b line, r = .data b → Py.decodeUtf8 b = some line → _readline self r = (self, .ok (some line)))
    ∧ ((∀ b line, r = .data b → Py.decodeUtf8 b ≠ some line) → (_readline self r).2 = .ok none) := by
  rw [RecvTie_readline]
  cases r with
  | eof => simp [readline, clientCalls]
  | deviceError => simp [readline, clientCalls]
  | data b =>
    cases hd : Py.decodeUtf8 b with
    | none =>
      refine ⟨by simp [readline, hd], by simp [readline, hd, clientCalls], ?_, fun _ => by simp [readline, hd]⟩
      intro b' line' hb hd'
      cases hb
      rw [hd] at hd'
      cases hd'
    | some line =>
      have hl : ¬ 1 < line.length := fun hl => h ⟨line, b, rfl, hd, hl⟩
      refine ⟨by simp [readline, hd, hl], by simp [readline, hd, hl], ?_, ?_⟩
      · intro b' line' hb hd'
        cases hb
        rw [hd] at hd'
        cases hd'
        simp [readline, hd, hl]
      · intro hno
        exact absurd hd (hno b line rfl)

/-- The reception step does not depend on `online` (a line received during the handshake is handled like any other),
    and does not change it. -/
theorem RecvTie_online_independent (self : Printcore) (o : Bool) (r : Read) :
    _readline { self with online := o } r = ({ (_readline self r).1 with online := o }, (_readline self r).2) := by
  simp only [RecvTie_readline]
  cases r with
  | eof => rfl
  | deviceError => rfl
  | data b =>
    simp only [readline]
    cases Py.decodeUtf8 b with
    | none => rfl
    | some line => by_cases hl : 1 < line.length <;> simp [hl, deliveries]

/-- The translated `Device.has_flow_control` is `self._type == 'socket'`. -/
theorem RecvTie_flow_control (d : Device) : has_flow_control d = .ok (decide (d._type = some "socket")) := by
  unfold has_flow_control
  by_cases h : d._type = some "socket" <;> simp [h]

/-- … in particular it does not depend on `force_dtr` (nor on the port being open). -/
theorem RecvTie_flow_control_dtr (d : Device) (dtr : Option Bool) (dev : Option Port) (c : Bool) :
    has_flow_control { d with force_dtr := dtr, _device := dev, _is_connected := c } = has_flow_control d := by
  simp [RecvTie_flow_control]

/-- The sender tie reads `self.printer.has_flow_control` as a field of the modelled device and fixes it to `False` in the
    object a model state stands for ("connected over a serial port": `SenderTie.pcOf`).  That is the value of the translated
    property for every serial device, whatever `force_dtr`: `_send` numbers and checksums the lines of a job (C15). -/
theorem RecvTie_sender_field (d : Device) (hs : d._type = some "serial") (q : List GscribModel.Sender.Text) (s : GscribModel.Sender.St) :
    (GscribModel.SenderPy.has_flow_control (GscribModel.SenderTie.pcOf q s).printer).toOption = (has_flow_control d).toOption
    ∧ has_flow_control d = .ok false := by
  simp [RecvTie_flow_control, hs, GscribModel.SenderTie.pcOf, GscribModel.SenderPy.has_flow_control, Except.toOption]

/-- The translated `Device.is_connected`, its `getattr(self, "_is_connected_" + self._type)()` resolved among the methods
    of the class: `False` without a device object; `is_open` of a serial port; the flag `_is_connected` of a socket. -/
theorem RecvTie_is_connected (d : Device) :
    is_connected d =
      match d._device, d._type with
      | none, _ => .ok false
      | some _, none => .error .typeError
      | some p, some t =>
        if t = "serial" then .ok p.is_open else if t = "socket" then .ok d._is_connected else .error .attributeError := by
  unfold is_connected _is_connected_serial _is_connected_socket
  cases hd : d._device with
  | none => simp
  | some p =>
    cases ht : d._type with
    | none => simp
    | some t =>
      by_cases h1 : t = "serial"
      · simp [h1, Py.is_open]
      · by_cases h2 : t = "socket" <;> simp [h1, h2]

/-! ### concrete evaluations of the translated functions (kernel) -/
section Examples
/-- `ok T:20\n` -/
def reportBytes : Bytes := [111, 107, 32, 84, 58, 50, 48, 10]
def reportLine : Text := ['o', 'k', ' ', 'T', ':', '2', '0', '\n']
/-- not yet online, two handlers (the first raises), a `recvcb` -/
def handshake : Printcore :=
  { online := false, loud := false, stop_read_thread := false, log := [], event_handler := [⟨7, true⟩, ⟨8, false⟩],
    recvcb := some ⟨false⟩, trace := [] }

/-- a report that arrives during the handshake reaches both handlers (the first one raising) and `recvcb` -/
example : _readline handshake (.data reportBytes)
    = ({ handshake with log := [reportLine],
                        trace := [.on_recv 7 reportLine, .logger_error, .on_recv 8 reportLine, .recvcb reportLine] },
       .ok (some reportLine)) := by rfl
/-- a lone line break is returned but not delivered; `é` in UTF-8 counts as one character -/
example : _readline handshake (.data [10]) = (handshake, .ok (some ['\n'])) := by rfl
example : _readline handshake (.data [0xC3, 0xA9]) = (handshake, .ok (some ['é'])) := by rfl
/-- an overlong encoding is rubbish: logged, `None` -/
example : _readline handshake (.data [0xC0, 0x80]) = ({ handshake with trace := [.logError] }, .ok none) := by rfl
example : _readline handshake .eof = ({ handshake with stop_read_thread := true, trace := [.logError] }, .ok none) := by rfl
/-- a serial port opened with DTR forced on has no flow control; a socket has -/
example : has_flow_control ⟨some "serial", some ⟨true⟩, false, some true⟩ = .ok false := by rfl
example : has_flow_control ⟨some "socket", none, true, none⟩ = .ok true := by rfl
example : is_connected ⟨some "serial", some ⟨true⟩, false, none⟩ = .ok true := by rfl
example : is_connected ⟨some "socket", some ⟨false⟩, true, none⟩ = .ok true := by rfl
example : is_connected ⟨some "serial", none, true, none⟩ = .ok false := by rfl
end Examples

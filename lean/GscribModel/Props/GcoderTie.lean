import GscribModel.Gen.GcoderSrc
import GscribModel.Gen.SenderSrc
/-! # The k-th line of a job is the k-th line the caller handed over (index bookkeeping of `gcoder.GCode`)

`Gen/GcoderSrc.lean` is *generated* on every run from the source text of `gscrib/printrun/gcoder.py`
(`tools/gen_gcoder.py`): `GCode.has_index`, `__len__`, `idxs`, the statements of `_preprocess(build_layers=True)` that create
and extend `all_layers` / `layer_idxs` / `line_idxs` (the nested `append_lines` with its `for i, ln in enumerate(lines)` loop,
the creation of the lists, the final `append_layer` / `array('I', …)` block), `GCode.append` and the data-less branch of
`prepare`.  *When* a batch of lines starts a new layer (G-code parsing, z tracking) is not translated: it is an arbitrary
Boolean per call of `append_lines`, and a batch is an arbitrary list of lines.

`printcore._sendnext` reads the k-th line of the job as `(layer, line) = q.idxs(k); q.all_layers[layer][line]` (`lineAt`
below) and the sender tie (`Model/SenderPrelude.lean`) *assumes* that this is `lines[k]`.  The theorems prove it of the
translated bookkeeping, for every sequence of batches and every new-layer oracle, with no bound on sizes:

* `GcoderTie_preprocess_index`: after `_preprocess(build_layers=True)` `len` is the total number of lines, `has_index k ↔
  k < total`, every pair of indices is a pair of non-negative ints naming a cell of `all_layers` that holds the k-th line of
  the concatenation of the batches, and `all_layers[idxs(k)[0]][idxs(k)[1]]` *is* `job[k]` for every Python int `k`
  (negative `k` from the end, `IndexError` exactly out of range);
* `GcoderTie_preprocess_inv`: the object then satisfies the invariant `GInv` (index lists right for `self.lines`,
  `append_layer` is the layer at position `append_layer_id`);  `GcoderTie_prepare_empty`: so does `GCode([])`;
* `GcoderTie_append_index`: `append(line)` keeps `GInv`, the new line is the last index, all earlier indices still
  name the same lines;  `GcoderTie_appends`: every sequence of `append` calls keeps `GInv`;
* `GcoderTie_index`: under `GInv`, `lineAt g k = lines[k]` for every `k`;
* `GcoderTie_sender_view`: the sender prelude's view of a job (`SenderPy.GCode`: the list of the `raw` texts; `len`,
  the translated `has_index` of `Gen/SenderSrc.lean`, `line_at`) is the translated `len` / `has_index` / `lineAt` of
  the object, for every object satisfying `GInv`.

Helper lemmas live in `GscribModel.GcoderTie`.  Core Lean only. -/
open GscribModel GscribModel.GcoderPy GscribModel.Gen.GcoderSrc
set_option linter.unusedSimpArgs false

namespace GscribModel.GcoderTie
variable {α : Type}

def cell (ls : List (List α)) (l i : Nat) : Option α := (ls[l]?).bind (·[i]?)

theorem cell_keep (ls : List (List α)) (p : Nat) (x : α) (l i : Nat) (v : α) (h : cell ls l i = some v) :
    cell (Py.layerAppend ls p x) l i = some v := by
  simp only [cell, Py.layerAppend, List.getElem?_modify] at *
  by_cases hp : p = l
  · subst hp
    cases hl : ls[p]? with
    | none => simp [hl] at h
    | some L =>
      simp only [hl, Option.bind_some, if_true] at h ⊢
      have : i < L.length := by
        cases hi : L[i]? with
        | none => simp [hi] at h
        | some w => exact (List.getElem?_eq_some_iff.mp hi).1
      simp [List.getElem?_append_left this, h]
  · simp [hp, h]

theorem cell_new (ls : List (List α)) (p : Nat) (x : α) (hp : p < ls.length) :
    cell (Py.layerAppend ls p x) p (Py.layerAt ls p).length = some x := by
  simp [cell, Py.layerAppend, Py.layerAt, hp]

/-- `self.mainqueue.all_layers[layer][line]` after `(layer, line) = self.mainqueue.idxs(k)` (printcore.py, `_sendnext`) -/
def lineAt (g : GCode α) (k : Int) : Option α := do
  let r ← GCode_idxs g k
  let layer ← Py.getItem g.all_layers r.1
  Py.getItem layer r.2

structure PInv (g : GCode α) (job : List α) : Prop where
  len_layer : g.layer_idxs.length = job.length
  len_line : g.line_idxs.length = job.length
  cells : ∀ k, k < job.length → ∃ l i : Nat, g.layer_idxs[k]? = some (l : Int) ∧ g.line_idxs[k]? = some (i : Int)
            ∧ cell g.all_layers l i = job[k]?

def pushLine (g : GCode α) (p : Nat) (lid n : Int) (x : α) : GCode α :=
  { g with all_layers := Py.layerAppend g.all_layers p x, layer_idxs := g.layer_idxs ++ [lid], line_idxs := g.line_idxs ++ [n] }

theorem PInv.push {g : GCode α} {job : List α} (h : PInv g job) (p : Nat) (x : α) (hp : p < g.all_layers.length) :
    PInv (pushLine g p (p : Int) ((Py.layerAt g.all_layers p).length : Int) x) (job ++ [x]) := by
  obtain ⟨h1, h2, h3⟩ := h
  refine ⟨by simp [pushLine, h1], by simp [pushLine, h2], ?_⟩
  intro k hk
  simp only [List.length_append, List.length_singleton] at hk
  by_cases hk' : k < job.length
  · obtain ⟨l, i, a, b, c⟩ := h3 k hk'
    refine ⟨l, i, ?_, ?_, ?_⟩
    · simp only [pushLine]; rw [List.getElem?_append_left (by omega)]; exact a
    · simp only [pushLine]; rw [List.getElem?_append_left (by omega)]; exact b
    · rw [List.getElem?_append_left hk']
      rw [List.getElem?_eq_getElem hk'] at c ⊢
      exact cell_keep _ _ _ _ _ _ c
  · have hk2 : k = job.length := by omega
    subst hk2
    refine ⟨p, (Py.layerAt g.all_layers p).length, ?_, ?_, ?_⟩
    · simp only [pushLine]; rw [← h1]; simp
    · simp only [pushLine]; rw [← h2]; simp
    · simp only [pushLine]; rw [cell_new _ _ _ hp]; simp

theorem getItem_nat {β : Type} (xs : List β) (n : Nat) : Py.getItem xs (n : Int) = xs[n]? := by
  simp only [Py.getItem]
  have : ¬ ((n : Int) < 0) := by omega
  simp [this]

theorem lineAt_eq {g : GCode α} {job : List α} (h : PInv g job) (k : Int) : lineAt g k = Py.getItem job k := by
  obtain ⟨h1, h2, h3⟩ := h
  simp only [lineAt, GCode_idxs, Py.getItem, h1, h2]
  generalize (if k < 0 then k + (job.length : Int) else k) = j
  by_cases hj : j < 0
  · simp [hj]
  · simp only [hj, if_false]
    by_cases hn : j.toNat < job.length
    · obtain ⟨l, i, a, b, c⟩ := h3 _ hn
      have hl : ¬ ((l : Int) < 0) := by omega
      have hi : ¬ ((i : Int) < 0) := by omega
      simp [a, b, hl, hi, ← c, cell]
    · have : g.layer_idxs[j.toNat]? = none := by simp; omega
      simp only [this]
      have : job[j.toNat]? = none := by simp; omega
      simp [this]

/-- what one trip of the translated loops does -/
theorem pushLine_fields (g : GCode α) (p : Nat) (lid n : Int) (x : α) :
    (pushLine g p lid n x).all_layers.length = g.all_layers.length ∧ (pushLine g p lid n x).lines = g.lines
    ∧ (pushLine g p lid n x).append_layer = g.append_layer ∧ (pushLine g p lid n x).append_layer_id = g.append_layer_id := by
  simp [pushLine, Py.layerAppend]

theorem layerAt_push (g : GCode α) (p : Nat) (lid n : Int) (x : α) (hp : p < g.all_layers.length) :
    (Py.layerAt (pushLine g p lid n x).all_layers p).length = (Py.layerAt g.all_layers p).length + 1 := by
  simp [pushLine, Py.layerAppend, Py.layerAt, hp]

/-- the `for i, ln in enumerate(lines)` loop of `append_lines`, from any trip on (`f`: the translated loop body) -/
theorem loop_inv (p : Nat) (layer_line : Int) (lines : List α) (f : GCode α → Int → α → GCode α)
    (hf : ∀ s i ln, f s i ln = pushLine s p (p : Int) (layer_line + i) ln) :
    ∀ (g : GCode α) (i : Int) (job : List α), PInv g job → p < g.all_layers.length →
      layer_line + i = ((Py.layerAt g.all_layers p).length : Int) →
      let g' := Py.forEnumFrom f i lines g
      PInv g' (job ++ lines) ∧ g'.all_layers.length = g.all_layers.length ∧ g'.lines = g.lines
        ∧ g'.append_layer = g.append_layer ∧ g'.append_layer_id = g.append_layer_id := by
  induction lines with
  | nil => intro g i job h hp _; simpa [Py.forEnumFrom] using h
  | cons x xs ih =>
    intro g i job h hp hl
    simp only [Py.forEnumFrom]
    rw [hf]
    have hfl := pushLine_fields g p (p : Int) (layer_line + i) x
    have h' : PInv (pushLine g p (p : Int) (layer_line + i) x) (job ++ [x]) := by
      rw [hl]; exact h.push p x hp
    have := ih (pushLine g p (p : Int) (layer_line + i) x) (i + 1) (job ++ [x]) h' (by omega)
      (by rw [layerAt_push _ _ _ _ _ hp]; omega)
    simp only [List.append_assoc, List.singleton_append] at this
    refine ⟨this.1, ?_, ?_, ?_, ?_⟩
    · rw [this.2.1]; exact hfl.1
    · rw [this.2.2.1]; exact hfl.2.1
    · rw [this.2.2.2.1]; exact hfl.2.2.1
    · rw [this.2.2.2.2]; exact hfl.2.2.2

theorem PInv.congr {g g' : GCode α} {job : List α} (h : PInv g job) (a : g'.all_layers = g.all_layers)
    (b : g'.layer_idxs = g.layer_idxs) (c : g'.line_idxs = g.line_idxs) : PInv g' job := by
  obtain ⟨h1, h2, h3⟩ := h
  exact ⟨by rw [b]; exact h1, by rw [c]; exact h2, by rw [a, b, c]; exact h3⟩

/-- a new, empty layer at the end disturbs no cell -/
theorem PInv.newLayer {g : GCode α} {job : List α} (h : PInv g job) :
    PInv { g with all_layers := g.all_layers ++ [[]] } job := by
  obtain ⟨h1, h2, h3⟩ := h
  refine ⟨h1, h2, ?_⟩
  intro k hk
  obtain ⟨l, i, a, b, c⟩ := h3 k hk
  refine ⟨l, i, a, b, ?_⟩
  rw [← c]
  rw [List.getElem?_eq_getElem hk] at c
  simp only [cell] at c ⊢
  have hl : l < g.all_layers.length := by
    cases hx : g.all_layers[l]? with
    | none => simp [hx] at c
    | some w => exact (List.getElem?_eq_some_iff.mp hx).1
  rw [List.getElem?_append_left hl]

/-- one call of the translated `append_lines` keeps the index lists right for the job grown by `lines` -/
theorem append_lines_inv (g : GCode α) (job : List α) (newLayer : Bool) (lines : List α) (h : PInv g job) :
    PInv (append_lines g newLayer lines) (job ++ lines) ∧ (append_lines g newLayer lines).lines = g.lines := by
  simp only [append_lines, Py.forEnum]
  split
  · refine (fun this => ⟨this.1, this.2.2.1⟩)
      (loop_inv g.all_layers.length (Py.len (Py.layerAt (g.all_layers ++ [[]]) g.all_layers.length)) lines _ ?_
        { g with all_layers := g.all_layers ++ [[]] } 0 job h.newLayer (by simp) (by simp [Py.len]))
    intro s i ln
    simp only [pushLine, Py.len, GCode.mk.injEq, List.append_cancel_left_eq, List.cons.injEq, List.length_append,
      List.length_singleton, true_and, and_true]
    omega
  · rename_i hc
    have hne : 0 < g.all_layers.length := by
      cases hg : g.all_layers with
      | nil => simp [hg, Py.isEmpty] at hc
      | cons a b => simp
    refine (fun this => ⟨this.1, this.2.2.1⟩)
      (loop_inv (g.all_layers.length - 1) (Py.len (Py.layerAt g.all_layers (g.all_layers.length - 1))) lines _ ?_
        g 0 job h (by omega) (by simp [Py.len]))
    intro s i ln
    simp only [pushLine, Py.len, GCode.mk.injEq, List.append_cancel_left_eq, List.cons.injEq, true_and, and_true]
    omega

/-- the job a sequence of `append_lines` calls hands over -/
def jobOf (batches : List (Bool × List α)) : List α := (batches.map (·.2)).flatten

theorem batches_inv (batches : List (Bool × List α)) :
    ∀ (g : GCode α) (job : List α), PInv g job →
      PInv (batches.foldl (fun self b => append_lines self b.1 b.2) g) (job ++ jobOf batches)
      ∧ (batches.foldl (fun self b => append_lines self b.1 b.2) g).lines = g.lines := by
  induction batches with
  | nil => intro g job h; simpa [jobOf] using h
  | cons b bs ih =>
    intro g job h
    have h1 := append_lines_inv g job b.1 b.2 h
    have h2 := ih _ _ h1.1
    simp only [List.foldl_cons, jobOf, List.map_cons, List.flatten_cons] at h2 ⊢
    rw [← List.append_assoc]
    exact ⟨h2.1, h2.2.trans h1.2⟩

theorem init_inv (g : GCode α) : PInv (preprocess_init g) [] ∧ (preprocess_init g).lines = g.lines :=
  ⟨⟨rfl, rfl, fun k hk => absurd hk (by simp)⟩, rfl⟩

/-- the invariant of a `GCode` object between calls: the index lists are right for `self.lines`, `self.append_layer` is
    a layer of `all_layers`, and `append_layer_id` is its position -/
structure GInv (g : GCode α) : Prop where
  idx : PInv g g.lines
  valid : g.append_layer < g.all_layers.length
  ident : g.append_layer_id = (g.append_layer : Int)

theorem finish_inv (g : GCode α) (job : List α) (h : PInv g job) :
    PInv (preprocess_finish g) job ∧ (preprocess_finish g).lines = g.lines
    ∧ (preprocess_finish g).append_layer < (preprocess_finish g).all_layers.length
    ∧ (preprocess_finish g).append_layer_id = ((preprocess_finish g).append_layer : Int) := by
  refine ⟨h.newLayer.congr rfl rfl rfl, rfl, ?_, rfl⟩
  simp [preprocess_finish]

theorem has_index_iff (g : GCode α) (k : Int) : GCode_has_index g k = true ↔ k < (g.line_idxs.length : Int) := by
  unfold GCode_has_index GCode_len Py.len
  exact decide_eq_true_iff

theorem GInv.index {g : GCode α} (h : GInv g) (k : Int) : lineAt g k = Py.getItem g.lines k := lineAt_eq h.idx k

theorem preprocess_PInv (self : GCode α) (batches : List (Bool × List α)) :
    PInv (preprocess_layers self batches) (jobOf batches) ∧ (preprocess_layers self batches).lines = self.lines
    ∧ (preprocess_layers self batches).append_layer < (preprocess_layers self batches).all_layers.length
    ∧ (preprocess_layers self batches).append_layer_id = ((preprocess_layers self batches).append_layer : Int) := by
  have h0 := init_inv self
  have h1 := batches_inv batches _ _ h0.1
  rw [List.nil_append] at h1
  have h2 := finish_inv _ _ h1.1
  exact ⟨h2.1, h2.2.1.trans (h1.2.trans h0.2), h2.2.2.1, h2.2.2.2⟩

theorem append_inv (g : GCode α) (h : GInv g) (x : α) :
    GInv (GCode_append g false x true) ∧ (GCode_append g false x true).lines = g.lines ++ [x] := by
  obtain ⟨h1, h2, h3⟩ := h
  have hp := h1.push g.append_layer x h2
  have hl := layerAt_push g g.append_layer (g.append_layer : Int) ((Py.layerAt g.all_layers g.append_layer).length : Int) x h2
  have e : GCode_append g false x true
      = { pushLine g g.append_layer (g.append_layer : Int) ((Py.layerAt g.all_layers g.append_layer).length : Int) x
            with lines := g.lines ++ [x] } := by
    simp only [pushLine] at hl
    simp only [GCode_append, pushLine, h3, Py.len, Bool.false_eq_true, if_false, if_true, hl, GCode.mk.injEq, true_and,
      and_true, List.append_cancel_left_eq, List.cons.injEq]
    omega
  rw [e]
  refine ⟨⟨hp.congr rfl rfl rfl, ?_, h3⟩, rfl⟩
  simpa [pushLine, Py.layerAppend] using h2
end GscribModel.GcoderTie

open GscribModel.GcoderTie

/-- `_preprocess(build_layers=True)` indexes the job in the order given -/
theorem GcoderTie_preprocess_index {α : Type} (self : GCode α) (batches : List (Bool × List α)) :
    let g := preprocess_layers self batches
    let job := jobOf batches
    GCode_len g = (job.length : Int)
    ∧ (∀ k : Int, GCode_has_index g k = true ↔ k < (job.length : Int))
    ∧ (∀ k : Nat, k < job.length → ∃ l i : Nat, GCode_idxs g (k : Int) = some ((l : Int), (i : Int))
          ∧ (g.all_layers[l]?).bind (·[i]?) = job[k]?)
    ∧ (∀ k : Int, lineAt g k = Py.getItem job k) := by
  intro g job
  have h := (preprocess_PInv self batches).1
  refine ⟨?_, ?_, ?_, fun k => lineAt_eq h k⟩
  · simp only [GCode_len, Py.len]; rw [h.len_line]
  · intro k; rw [has_index_iff, h.len_line]
  · intro k hk
    obtain ⟨l, i, a, b, c⟩ := h.cells k hk
    refine ⟨l, i, ?_, c⟩
    simp only [GCode_idxs, getItem_nat]
    rw [a, b]; rfl

/-- … and leaves an object that satisfies the invariant, when the batches are `self.lines` cut into pieces -/
theorem GcoderTie_preprocess_inv {α : Type} (self : GCode α) (batches : List (Bool × List α))
    (hl : self.lines = jobOf batches) : GInv (preprocess_layers self batches) := by
  obtain ⟨h1, h2, h3, h4⟩ := preprocess_PInv self batches
  exact ⟨by rw [h2, hl]; exact h1, h3, h4⟩

/-- `GCode([])` / `GCode()`: the data-less branch of `prepare` -/
theorem GcoderTie_prepare_empty {α : Type} (self : GCode α) :
    GInv (prepare_empty self) ∧ (prepare_empty self).lines = [] :=
  ⟨⟨⟨rfl, rfl, fun k hk => absurd hk (by simp [prepare_empty])⟩, by simp [prepare_empty], rfl⟩, rfl⟩

/-- under the invariant the queue lookup of `_sendnext` is `lines[k]`, `len` the number of lines -/
theorem GcoderTie_index {α : Type} (g : GCode α) (h : GInv g) :
    GCode_len g = (g.lines.length : Int) ∧ (∀ k : Int, GCode_has_index g k = true ↔ k < (g.lines.length : Int))
    ∧ (∀ k : Int, lineAt g k = Py.getItem g.lines k) := by
  refine ⟨?_, ?_, h.index⟩
  · simp only [GCode_len, Py.len]; rw [h.idx.len_line]
  · intro k; rw [has_index_iff, h.idx.len_line]

/-- `append(line)` keeps the invariant; the new line is the last index and no earlier index moves -/
theorem GcoderTie_append_index {α : Type} (g : GCode α) (h : GInv g) (commandEmpty store : Bool) (x : α) :
    let g' := GCode_append g commandEmpty x store
    GInv g'
    ∧ (commandEmpty = true ∨ store = false → g' = g)
    ∧ (commandEmpty = false → store = true →
        g'.lines = g.lines ++ [x] ∧ GCode_len g' = GCode_len g + 1
        ∧ lineAt g' (GCode_len g) = some x ∧ lineAt g' (-1) = some x
        ∧ ∀ k : Int, 0 ≤ k → k < GCode_len g → lineAt g' k = lineAt g k) := by
  intro g'
  cases commandEmpty <;> cases store
  · exact ⟨h, fun _ => rfl, fun _ hs => absurd hs (by decide)⟩
  · obtain ⟨hi, hl⟩ := append_inv g h x
    have hlen := (GcoderTie_index g h).1
    have hlen' := (GcoderTie_index _ hi).1
    refine ⟨hi, fun hc => by cases hc <;> contradiction, fun _ _ => ⟨hl, ?_, ?_, ?_, ?_⟩⟩
    · show GCode_len (GCode_append g false x true) = _
      rw [hlen', hlen, hl]; simp
    · show lineAt (GCode_append g false x true) _ = _
      rw [hi.index, hl, hlen, getItem_nat]; simp
    · show lineAt (GCode_append g false x true) _ = _
      rw [hi.index, hl]
      have e : (-1 + ((g.lines.length : Int) + 1)).toNat = g.lines.length := by omega
      simp [Py.getItem, e]; omega
    · intro k hk0 hk
      show lineAt (GCode_append g false x true) _ = _
      rw [hi.index, h.index, hl]
      rw [hlen] at hk
      obtain ⟨n, rfl⟩ := Int.eq_ofNat_of_zero_le hk0
      rw [getItem_nat, getItem_nat, List.getElem?_append_left (by omega)]
  · exact ⟨h, fun _ => rfl, fun hc => absurd hc (by decide)⟩
  · exact ⟨h, fun _ => rfl, fun hc => absurd hc (by decide)⟩

/-- every sequence of `append` calls keeps the invariant -/
theorem GcoderTie_appends {α : Type} (cmds : List (Bool × α × Bool)) :
    ∀ g : GCode α, GInv g → GInv (cmds.foldl (fun g c => GCode_append g c.1 c.2.1 c.2.2) g) := by
  induction cmds with
  | nil => intro g h; exact h
  | cons c cs ih => intro g h; exact ih _ (GcoderTie_append_index g h c.1 c.2.2 c.2.1).1

/-- the job as the sender tie sees it (`SenderPy.GCode`: the `raw` texts of `lines`; `GCode.len`, the translated
    `has_index` of `Gen/SenderSrc.lean`, `GCode.line_at` = "the k-th line") is the layered object read through the translated
    `__len__` / `has_index` / `idxs` + `all_layers[layer][line]` -/
theorem GcoderTie_sender_view {α : Type} (raw : α → Sender.Text) (g : GCode α) (h : GInv g) (i : Int) :
    SenderPy.GCode.len ⟨g.lines.map raw⟩ = GCode_len g
    ∧ Gen.SenderSrc.GCode_has_index ⟨g.lines.map raw⟩ i = GCode_has_index g i
    ∧ SenderPy.GCode.line_at ⟨g.lines.map raw⟩ i
        = (match lineAt g i with | some x => .ok (raw x) | none => .error SenderPy.PyErr.indexError) := by
  have hlen := (GcoderTie_index g h).1
  refine ⟨?_, ?_, ?_⟩
  · rw [hlen]; simp [SenderPy.GCode.len]
  · simp only [Gen.SenderSrc.GCode_has_index, GCode_has_index, SenderPy.GCode.len, hlen, List.length_map]
  · rw [h.index]
    simp only [SenderPy.GCode.line_at, Py.getItem, List.length_map]
    generalize (if i < 0 then i + (g.lines.length : Int) else i) = j
    split
    · rfl
    · simp only [List.getElem?_map]
      cases hx : g.lines[j.toNat]? <;> simp [hx]

/-! ## a concrete run: three batches, the second continuing the first layer -/
example :
    let g := preprocess_layers (⟨[10, 11, 12, 13, 14, 15], [], [], [], 0, 0⟩ : GCode Nat)
      [(false, [10, 11]), (false, [12]), (true, [13, 14, 15])]
    g.all_layers = [[10, 11, 12], [13, 14, 15], []] ∧ g.layer_idxs = [0, 0, 0, 1, 1, 1] ∧ g.line_idxs = [0, 1, 2, 0, 1, 2]
    ∧ g.append_layer_id = 2 ∧ GCode_len g = 6 ∧ GCode_idxs g 2 = some (0, 2) ∧ GCode_idxs g 3 = some (1, 0)
    ∧ ([0, 1, 2, 3, 4, 5] : List Int).map (lineAt g) = [some 10, some 11, some 12, some 13, some 14, some 15]
    ∧ lineAt g 6 = none ∧ lineAt g (-1) = some 15 ∧ GCode_has_index g 5 = true ∧ GCode_has_index g 6 = false := by
  decide

/-- … and a line appended afterwards lands in the append layer -/
example :
    let g := GCode_append (preprocess_layers (⟨[10, 11, 12], [], [], [], 0, 0⟩ : GCode Nat) [(true, [10, 11]), (false, [12])]) false 99 true
    g.all_layers = [[10, 11, 12], [99]] ∧ GCode_idxs g 3 = some (1, 0) ∧ lineAt g 3 = some 99 ∧ g.lines = [10, 11, 12, 99] := by
  decide

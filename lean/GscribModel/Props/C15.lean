import GscribModel.Lemmas.Sender
/-! # C15 — streamed print jobs arrive complete, in order and checksummed

Property theorems only (helper lemmas and invariants: `Lemmas/Sender.lean`).  The model is
`Model/Sender.lean`: the stop-and-wait sender of `gscrib/printrun/printcore.py` (`_sendnext`,
`_listen`, `_send`, `_reset_line_numbers`, `startprint`), a Marlin-style firmware and two FIFO
channels as a transition system with actions `sendnext | listen | fw`; a *schedule* is a list of
enabled actions, a *fault pattern* a predicate on transmission indices (index 0 is the `M110 N-1`
written by `startprint`).  `e0` is the line number the firmware expects before the job (Marlin: 1).

**Full-strength claim (FALSE on the real code, kept as a comment):**

    ∀ job faulty e0 acts s, NoM110 job → run job faulty (init faulty e0) acts = some s →
        Quiescent job faulty s → s.accepted = cmdsOf job

Two genuine defects of the bundled sender refute it; both are recorded as findings (not repaired),
each with a `decide` counter-example below that the harness replays on the real `printcore`:

* `SplitTriple` (`C15_witness_tail_loss`): the `ok` the firmware emits right after `Resend: n` is
  taken as credit for one more line when the sender acts between the two replies; with the last line
  corrupted twice the sender ends the job and the second `Resend:` is never served.
* `ResetCorrupted` (`C15_witness_reset_corrupted`): the `M110 N-1` itself is corrupted and the
  firmware does not already expect N0; `M110` is never stored in `sentlines`, `Resend: 1` is discarded
  (1 ≮ lineno), N0 is rejected, N1 accepted: the first line is skipped.

Proved instead: safety for **all** schedules (`C15_accept_prefix_partial`, missing: the
reset-corrupted case with `e0 ≠ 0`), completeness for all schedules without faults
(`C15_complete_nofault`) and for all fault patterns under `¬SplitTriple` (`C15_complete_partial`). -/
open GscribModel.Sender

/-- **Wire format.** What `_send(cmd, k, True)` writes is `N<k> <cmd>*<c>` where `c` is the XOR of the
    bytes of `N<k> <cmd>`; Python's `reduce(xor, map(ord, ·))` is the fold the firmware recomputes; and the
    firmware's decoder (`^N(-?\d+) (.*)\*(\d+)$`) gets back exactly `k`, `cmd` and a matching checksum —
    for every line number and every command text (including commands that contain `*` or blanks). -/
theorem C15_frame (k : Int) (cmd : Text) :
    frame k cmd = "N".toList ++ renderInt k ++ " ".toList ++ cmd ++ "*".toList
                    ++ renderNat (xorFold ("N".toList ++ renderInt k ++ " ".toList ++ cmd))
    ∧ pyChecksum (framePrefix k cmd) = xorFold (framePrefix k cmd)
    ∧ decode (frame k cmd) = some ⟨k, cmd, xorFold (framePrefix k cmd), framePrefix k cmd⟩
    ∧ parseInt (renderInt k) = some k := by
  refine ⟨?_, pyChecksum_eq_xorFold _, decode_frame k cmd, parseInt_renderInt k⟩
  simp [frame, framePrefix, pyChecksum_eq_xorFold]

/-- **Numbering.** In every reachable state — any job, schedule, fault pattern and `e0` — the first thing
    written is the `M110 N-1` reset; `sentlines[k]` is the frame of the job's `k`-th command numbered `k`
    (so first transmissions are numbered consecutively from 0: while printing there are exactly `lineno`
    of them and the next new line gets number `lineno`); and everything ever written is the reset frame or
    one of these stored frames (a resend repeats the original bytes). -/
theorem C15_frame_run (job : List Item) (faulty : Nat → Bool) (e0 : Int) (acts : List Act) (s : St)
    (hr : run job faulty (init faulty e0) acts = some s) :
    s.tx.head? = some resetFrame
    ∧ (∀ (k : Nat) (t : Text), s.sent[k]? = some t → ∃ c, (cmdsOf job)[k]? = some c ∧ t = frame (k : Int) c)
    ∧ (∀ t ∈ s.tx, t = resetFrame ∨ t ∈ s.sent)
    ∧ (s.printing = true → s.sent.length = s.lineno ∧ s.lineno = (cmdsOf (job.take s.qi)).length) := by
  have h := finv_run job faulty acts _ s (finv_init job faulty e0) hr
  exact ⟨h.head, h.frames, h.txs, h.prog⟩

/-- **Safety** (`_partial`: the reset of `startprint` must arrive intact, or the firmware must already
    expect N0).  Whatever the schedule and whichever other transmissions are corrupted — including repeated
    corruption of a resent line — the firmware's accepted log is always a prefix of the job's commands:
    in order, each once, nothing foreign. -/
theorem C15_accept_prefix_partial (job : List Item) (hno : NoM110 job) (faulty : Nat → Bool) (e0 : Int)
    (h0 : faulty 0 = false ∨ e0 = 0) (acts : List Act) (s : St)
    (hr : run job faulty (init faulty e0) acts = some s) :
    ∃ k, s.accepted = (cmdsOf job).take k :=
  accepted_prefix_of_sinv
    (sinv_run job faulty hno acts _ s (finv_init job faulty e0) (sinv_init job faulty e0 h0) hr)

/-- **Resend.** In any reachable state of a running job, when the next reply is `Resend: n` for a line
    already sent, processing it and letting the sender move transmits exactly `sentlines[n]`, which is the
    frame `N<n> <n-th command>*…` as first sent; the sender then stands at `n + 1` without having consumed
    anything from the queue. -/
theorem C15_resend (job : List Item) (faulty : Nat → Bool) (e0 : Int) (acts : List Act) (s : St)
    (hr : run job faulty (init faulty e0) acts = some s)
    (n : Int) (rs : List Reply) (hp : s.printing = true) (hto : s.toS = .resend n :: rs)
    (hn : 0 ≤ n ∧ n < s.lineno) :
    ∃ s1 s2 c, step job faulty s .listen = some s1 ∧ step job faulty s1 .sendnext = some s2
      ∧ (cmdsOf job)[n.toNat]? = some c ∧ s.sent[n.toNat]? = some (frame n c)
      ∧ s2.tx = s.tx ++ [frame n c]
      ∧ s2.resendfrom = n + 1 ∧ s2.lineno = s.lineno ∧ s2.qi = s.qi := by
  have hf := finv_run job faulty acts _ s (finv_init job faulty e0) hr
  obtain ⟨hlen, _⟩ := hf.prog hp
  have hlt : n.toNat < s.sent.length := by omega
  obtain ⟨c, hk, ht⟩ := hf.frames n.toNat _ (List.getElem?_eq_getElem hlt)
  have hnn : ((n.toNat : Nat) : Int) = n := by omega
  rw [hnn] at ht
  have hget : s.sent[n.toNat]? = some (frame n c) := by rw [List.getElem?_eq_getElem hlt, ht]
  have hre : n < (s.lineno : Int) ∧ n > -1 := by omega
  refine ⟨{ s with toS := rs, resendfrom := n, clear := true, mid := true },
    { transmit faulty { s with toS := rs, resendfrom := n, clear := false, mid := true, split := s.split || true }
        (frame n c) with resendfrom := n + 1 },
    c, by simp [step, hto], ?_, hk, hget, ?_, ?_, ?_, ?_⟩
  · simp only [step, hp, Bool.and_self, if_true, hre, and_self, hget]
  · simp [transmit]
  · simp
  · simp [transmit]
  · simp [transmit]

/-- **Resend, continued.** While `resendfrom` points at a stored line the sender keeps retransmitting
    stored lines in order (`n`, `n+1`, …, `lineno-1`) before it takes a new line from the queue. -/
theorem C15_resend_continue (job : List Item) (faulty : Nat → Bool) (e0 : Int) (acts : List Act) (s : St)
    (hr : run job faulty (init faulty e0) acts = some s)
    (hp : s.printing = true) (hc : s.clear = true)
    (hn : s.resendfrom < s.lineno ∧ s.resendfrom > -1) :
    ∃ s2 c, step job faulty s .sendnext = some s2
      ∧ (cmdsOf job)[s.resendfrom.toNat]? = some c
      ∧ s2.tx = s.tx ++ [frame s.resendfrom c]
      ∧ s2.resendfrom = s.resendfrom + 1 ∧ s2.lineno = s.lineno ∧ s2.qi = s.qi := by
  have hf := finv_run job faulty acts _ s (finv_init job faulty e0) hr
  obtain ⟨hlen, _⟩ := hf.prog hp
  have hlt : s.resendfrom.toNat < s.sent.length := by omega
  obtain ⟨c, hk, ht⟩ := hf.frames s.resendfrom.toNat _ (List.getElem?_eq_getElem hlt)
  have hnn : ((s.resendfrom.toNat : Nat) : Int) = s.resendfrom := by omega
  rw [hnn] at ht
  have hget : s.sent[s.resendfrom.toNat]? = some (frame s.resendfrom c) := by
    rw [List.getElem?_eq_getElem hlt, ht]
  refine ⟨{ transmit faulty { s with clear := false, split := s.split || s.mid } (frame s.resendfrom c)
              with resendfrom := s.resendfrom + 1 }, c, ?_, hk, ?_, ?_, ?_, ?_⟩
  · simp only [step, hp, hc, Bool.and_self, if_true, hn, and_self, hget]
  · simp [transmit]
  · simp
  · simp [transmit]
  · simp [transmit]

/-- **Completeness without faults**: for every schedule (arbitrary firmware latency), once nothing more
    can happen the firmware has accepted exactly the job's commands, in order, each once — whatever line
    number it expected before the job. -/
theorem C15_complete_nofault (job : List Item) (hno : NoM110 job) (e0 : Int) (acts : List Act) (s : St)
    (hr : run job (fun _ => false) (init (fun _ => false) e0) acts = some s)
    (hq : Quiescent job (fun _ => false) s) : s.accepted = cmdsOf job := by
  obtain ⟨ht, hf⟩ := tok_clean_run job (fun _ => false) hno (fun _ => rfl) acts _ s
    (finv_init job _ e0) (tok_init job _ e0 (Or.inl rfl)) (clean_init _ e0 (fun _ => rfl)) hr
  exact tok_quiescent job _ hf ht hq

/-- **Completeness under faults** (`_partial`: `¬SplitTriple`, and the reset intact or `e0 = 0`).  For every
    fault pattern — any set of corrupted transmissions, a resent line corrupted again any number of times —
    and every schedule in which no sender step falls between a `Resend:` line and the `ok` the firmware
    emits right after it (`s.split = false`: the monitor never fired), once nothing more can happen the
    firmware has accepted exactly the job. -/
theorem C15_complete_partial (job : List Item) (hno : NoM110 job) (faulty : Nat → Bool) (e0 : Int)
    (h0 : faulty 0 = false ∨ e0 = 0) (acts : List Act) (s : St)
    (hr : run job faulty (init faulty e0) acts = some s)
    (hns : NoSplit s) (hq : Quiescent job faulty s) : s.accepted = cmdsOf job := by
  have hf := finv_run job faulty acts _ s (finv_init job faulty e0) hr
  have ht := tok_run_nosplit job faulty hno acts _ s (finv_init job faulty e0) (tok_init job faulty e0 h0) hr hns
  exact tok_quiescent job faulty hf ht hq

/-! ## Counter-examples to the full-strength claim (replayed on the real `printcore` every run) -/

def wJob : List Item := [.cmd "G1 X0".toList, .cmd "G1 X1".toList, .cmd "G1 X2".toList]

/-- harness schedule `FLSFLSFLSFLSLSLSFLSLSLSFLS` (policy "eager": the sender is faster than the replies) -/
def wTailSched : List Act :=
  [.fw, .listen, .sendnext, .fw, .listen, .sendnext, .fw, .listen, .sendnext,   -- reset, N0, N1 acknowledged; N2 sent
   .fw, .listen, .listen, .sendnext,                                            -- N2 corrupted: Error, Resend: 2 → N2 resent
   .listen, .sendnext,                                                          -- … its `ok` → queue empty: job ended, M110
   .fw, .listen, .listen, .listen,                                              -- resent N2 corrupted again: Resend: 2 never served
   .fw, .listen]

/-- **Finding `C15-tail-loss-split-triple`.**  Transmissions 3 and 4 (the last line and its resend)
    corrupted, reset intact: the run is quiescent, the sender has ended the job, `SplitTriple` occurred,
    and the last command was never accepted. -/
theorem C15_witness_tail_loss :
    (run wJob (fun i => i == 3 || i == 4) (init (fun i => i == 3 || i == 4) 1) wTailSched).map
        (fun s => (s.accepted, s.printing, s.split, quiescentB wJob (fun i => i == 3 || i == 4) s))
      = some (["G1 X0".toList, "G1 X1".toList], false, true, true) := by
  decide

/-- harness schedule `FLLLSFLLLSFLSFLSFLS` (policy "burst": whole replies, no triple is split) -/
def wResetSched : List Act :=
  [.fw, .listen, .listen, .listen, .sendnext,      -- reset corrupted: Resend: 1 discarded (1 ≮ lineno = 0); N0 sent
   .fw, .listen, .listen, .listen, .sendnext,      -- N0 rejected (expected 1): Resend: 1 discarded again (1 ≮ 1); N1 sent
   .fw, .listen, .sendnext, .fw, .listen, .sendnext, .fw, .listen]

/-- **Finding `C15-reset-corrupted`.**  Transmission 0 (the `M110 N-1`) corrupted, firmware expecting N1:
    no triple is split, the run is quiescent, and the first command is skipped. -/
theorem C15_witness_reset_corrupted :
    (run wJob (fun i => i == 0) (init (fun i => i == 0) 1) wResetSched).map
        (fun s => (s.accepted, s.printing, s.split, quiescentB wJob (fun i => i == 0) s))
      = some (["G1 X1".toList, "G1 X2".toList], false, false, true) := by
  decide

/-! ## Non-vacuity -/

/-- the hypotheses of `C15_complete_partial` are met by a faulty run: same job and faults as the tail-loss
    witness, but whole replies (`FLSFLSFLSFLLLSFLLLSFLSFLS`): complete, no split, quiescent -/
example :
    (run wJob (fun i => i == 3 || i == 4) (init (fun i => i == 3 || i == 4) 1)
      [.fw, .listen, .sendnext, .fw, .listen, .sendnext, .fw, .listen, .sendnext,
       .fw, .listen, .listen, .listen, .sendnext, .fw, .listen, .listen, .listen, .sendnext,
       .fw, .listen, .sendnext, .fw, .listen]).map
        (fun s => (s.accepted, s.split, quiescentB wJob (fun i => i == 3 || i == 4) s))
      = some (["G1 X0".toList, "G1 X1".toList, "G1 X2".toList], false, true) := by
  decide

/-- `NoM110` holds for the witness job; a job line `M110 N5` would violate it -/
example : NoM110 wJob ∧ m110Arg "M110 N5".toList = some 5 := by
  refine ⟨?_, by decide⟩
  intro c hc
  simp [wJob, cmdsOf] at hc
  rcases hc with rfl | rfl | rfl <;> decide

/-- a frame as it appears on the wire, and the job as `GCode.prepare` + `_sendnext` see it -/
example : String.ofList (frame 12 "G1 X1 Y2".toList) = "N12 G1 X1 Y2*" ++ toString (xorFold "N12 G1 X1 Y2".toList)
    ∧ prepare ["G1 X0 ; c".toList, "".toList, "(only)".toList, " ;@home".toList, "G1 (a) X1".toList]
        = [.cmd "G1 X0".toList, .skip, .skip, .cmd "G1  X1".toList] := by
  decide

import GscribModel.Gen.SenderSrc
import GscribModel.Lemmas.Sender
/-! # The sender model's actions are the translated `printcore` methods

`Gen/SenderSrc.lean` is *generated* on every run from the source text of `gscrib/printrun/printcore.py` and
`gscrib/printrun/gcoder.py` (`tools/gen_sender.py`): each atomic section of the two threads is a sequential function on
the record `Printcore`, and every `self.printer.write` is recorded as an event `⟨object at that moment, bytes⟩`.
The theorems below tie the hand-written LTS of `Model/Sender.lean` (C15) to it, for all states:

* `pcOf q s` is the `printcore` object a model state `s` stands for (`q` = the `raw` texts of the job's line objects; the
  model's job is `q.map itemOf`, and `SenderTie_prepare` says `prepare raws` is that for `q = GCode.prepare(raws)`);
* `SenderTie_sendnext`: the model's `sendnext` step is the translated `_sendnext` (all branches: retransmission,
  queue line, skipped line, end of job) - same object afterwards, the bytes written are the lines the model appends
  to `tx`, `KeyError` exactly where the model is stuck, and `clear` was lowered before every write;
* `SenderTie_listen`: the model's `listen` step is the translated loop body of `_listen` on the reply's text;
* `SenderTie_frame` / `SenderTie_checksum`: `frame` / `pyChecksum` are the framing of `_send` / `_checksum`;
* `SenderTie_startprint`: `init` is what `startprint` leaves;  `SenderTie_constants`: regex text and literals;
* `SenderTie_resend_cursor_at_write` pins the ORDER inside the retransmission branch (see there).

Assumptions of the model that appear as hypotheses: no `;@pause` line (`NoPause`), no `M110` inside a framed job
line, `sent.length = lineno` (the model's invariant `FInv.prog`, see `SenderTie_sendnext_reachable`).
Texts are ASCII `List Char` (prelude); helper lemmas live in `GscribModel.SenderTie`. -/
open GscribModel GscribModel.Sender GscribModel.SenderPy GscribModel.Gen.SenderSrc
set_option linter.unusedSimpArgs false

namespace GscribModel.SenderTie

/-- what `_sendnext` makes of one line object of the queue (the model's `classify` after `GCode.prepare`) -/
def itemOf (l : Text) : Item :=
  if (dropPrefix [';', '@'] (lstrip l)).isSome then .skip
  else if (strip (stripComments l)).isEmpty then .skip else .cmd (strip (stripComments l))

theorem classify_eq (raw : Text) :
    classify raw = if (strip raw).isEmpty then none else some (itemOf (strip raw)) := by
  unfold classify itemOf
  by_cases h : (strip raw).isEmpty = true
  · simp [h]
  · simp only [h]
    repeat' split
    all_goals first | rfl | simp_all

/-! ### `_checksum`, `_send` -/
theorem renderInt_natCast (k : Nat) : renderInt (k : Int) = renderNat k := by
  have : ¬ ((k : Int) < 0) := by omega
  simp [renderInt, this]

theorem checksum_cons (c : Char) (cs : Text) : _checksum (c :: cs) = .ok (pyChecksum (c :: cs)) := by
  simp only [_checksum, Py.mapOrd, List.map_cons, Py.reduce, pyChecksum, List.foldl_map]

theorem gen_prefix (n : Int) (cmd : Text) :
    (((['N'] : Text) ++ Py.str n) ++ ([' '] : Text)) ++ cmd = framePrefix n cmd := by
  simp [framePrefix, Py.str]

theorem send_plain (pc : Printcore) (tx : List Ev) (t : Text) (n : Int) (d : Device) (hp : pc.printer = some d) :
    _send pc tx t n false = .ok ({ pc with sent := pc.sent ++ [t], writefailures := 0 },
       tx ++ [⟨{ pc with sent := pc.sent ++ [t] }, t ++ ['\n']⟩]) := by
  simp [_send, hp, Py.truthyOpt, Py.encode_ascii, bind, Except.bind, pure, Except.pure]

theorem send_framed (pc : Printcore) (tx : List Ev) (cmd : Text) (n : Int)
    (hp : pc.printer = some ⟨false⟩) (hl : pc._send_line_numbers = true) :
    _send pc tx cmd n true =
      .ok ({ (if Py.contains ['M', '1', '1', '0'] (frame n cmd) then pc
              else { pc with sentlines := Dict.set pc.sentlines n (frame n cmd) }) with
                sent := pc.sent ++ [frame n cmd], writefailures := 0 },
           tx ++ [⟨{ (if Py.contains ['M', '1', '1', '0'] (frame n cmd) then pc
              else { pc with sentlines := Dict.set pc.sentlines n (frame n cmd) }) with
                sent := pc.sent ++ [frame n cmd] }, frame n cmd ++ ['\n']⟩]) := by
  have hf : (framePrefix n cmd ++ ['*']) ++ Py.str ((pyChecksum (framePrefix n cmd) : Nat) : Int) = frame n cmd := by
    simp [frame, Py.str, renderInt_natCast]
  have hc : _checksum (framePrefix n cmd) = .ok (pyChecksum (framePrefix n cmd)) := checksum_cons _ _
  simp only [_send, hp, hl, SenderPy.has_flow_control, gen_prefix, hc, hf, Py.truthyOpt, Py.encode_ascii, bind, Except.bind, pure, Except.pure,
    Bool.not_false, if_true, Option.isSome_some]
  by_cases hm : Py.contains ['M', '1', '1', '0'] (frame n cmd) = true
  · simp [hm, hp, hl]
  · simp [hm]

/-! ### `sentlines`: the dictionary `{0: sent[0], 1: sent[1], …}` -/
def dictFrom : Nat → List Text → Dict
  | _, [] => []
  | i, t :: ts => ((i : Int), t) :: dictFrom (i + 1) ts

theorem dict_lookup_lt (i : Nat) (l : List Text) (j : Int) (h : j < (i : Int)) : (dictFrom i l).lookup j = none := by
  induction l generalizing i with
  | nil => rfl
  | cons t ts ih =>
    have h1 : (j == (i : Int)) = false := by rw [beq_eq_false_iff_ne]; omega
    have h2 : j < ((i + 1 : Nat) : Int) := by omega
    simp [dictFrom, List.lookup, h1, ih (i + 1) h2]

theorem dict_lookup_from (i : Nat) (l : List Text) (k : Nat) : (dictFrom i l).lookup ((i + k : Nat) : Int) = l[k]? := by
  induction l generalizing i k with
  | nil => rfl
  | cons t ts ih =>
    cases k with
    | zero => simp [dictFrom, List.lookup]
    | succ k =>
      have h1 : ((((i + (k + 1) : Nat) : Int)) == (i : Int)) = false := by rw [beq_eq_false_iff_ne]; omega
      have h2 : i + (k + 1) = (i + 1) + k := by omega
      simp only [dictFrom, List.lookup_cons, h1, List.getElem?_cons_succ]
      rw [h2]; exact ih (i + 1) k

theorem dict_get (l : List Text) (k : Nat) :
    Dict.get (dictFrom 0 l) (k : Int) = match l[k]? with | some t => .ok t | none => .error .keyError := by
  have := dict_lookup_from 0 l k
  simp only [Nat.zero_add] at this
  simp only [Dict.get, this]
  cases l[k]? <;> rfl

theorem dict_set_from (i : Nat) (l : List Text) (t : Text) :
    Dict.set (dictFrom i l) ((i + l.length : Nat) : Int) t = dictFrom i (l ++ [t]) := by
  induction l generalizing i with
  | nil => simp [dictFrom, Dict.set]
  | cons x xs ih =>
    have h1 : ¬ ((i : Int) = ((i + (xs.length + 1) : Nat) : Int)) := by omega
    have h2 : i + (xs.length + 1) = (i + 1) + xs.length := by omega
    simp only [dictFrom, Dict.set, List.length_cons, h1, if_false, List.cons_append]
    rw [h2, ih (i + 1)]

/-! ### `int()` of a rendered number -/
theorem natLitAux_digits (ds : Text) (h : ∀ c ∈ ds, charDigit c ≠ none) (hne : ds ≠ []) (p : Bool) (acc : Nat) :
    Py.natLitAux p acc ds = parseNatAux acc ds := by
  induction ds generalizing p acc with
  | nil => exact absurd rfl hne
  | cons c cs ih =>
    have hc := h c (by simp)
    have hu : c ≠ '_' := by intro e; subst e; exact hc (by decide)
    cases hd : charDigit c with
    | none => exact absurd hd hc
    | some d =>
      simp only [Py.natLitAux, hu, if_false, hd, parseNatAux]
      cases cs with
      | nil => simp [Py.natLitAux, parseNatAux]
      | cons c' cs' => exact ih (fun x hx => h x (by simp [hx])) (by simp) true _

theorem digits_renderNat (n : Nat) : ∀ c ∈ renderNat n, charDigit c ≠ none := by
  intro c hc hn
  exact not_mem_renderNat n c hn hc

theorem natLit_renderNat (n : Nat) : Py.natLit (renderNat n) = some n := by
  have := parseNat_renderNat n
  have hne := renderNat_ne_nil n
  simp only [parseNat, List.isEmpty_iff, hne, if_false] at this
  rw [Py.natLit, natLitAux_digits _ (digits_renderNat n) hne, this]

theorem int_renderInt (i : Int) : Py.int (renderInt i) = some i := by
  unfold renderInt
  by_cases h : i < 0
  · simp only [h, if_true, Py.int, natLit_renderNat]
    simp; omega
  · simp only [h, if_false]
    have hne := renderNat_ne_nil i.toNat
    cases hr : renderNat i.toNat with
    | nil => exact absurd hr hne
    | cons c cs =>
      have hm : c ≠ '-' := renderNat_head_ne_minus _ c cs hr
      have hp : c ≠ '+' := by
        intro e; subst e
        have := digits_renderNat i.toNat '+' (by simp [hr])
        exact this (by decide)
      have : Py.int (c :: cs) = (Py.natLit (c :: cs)).map fun n => Int.ofNat n := by
        unfold Py.int; split <;> simp_all
      rw [this, ← hr, natLit_renderNat]
      simp; omega

/-! ### `str.replace`, `str.split` on a `Resend: <n>` line -/
theorem replaceFuel_not_mem (a : Char) (o new : Text) (f : Nat) (s : Text) (h : a ∉ s) :
    Py.replaceFuel (a :: o) new f s = s := by
  induction f generalizing s with
  | zero => rfl
  | succ f ih =>
    cases s with
    | nil => rfl
    | cons c cs =>
      have hc : ¬ (a = c) := fun e => h (by simp [e])
      have ht : a ∉ cs := fun e => h (by simp [e])
      simp [Py.replaceFuel, List.isPrefixOf, hc, ih cs ht]

theorem replace_not_mem (a : Char) (o new s : Text) (h : a ∉ s) : Py.replace s (a :: o) new = s :=
  replaceFuel_not_mem a o new _ s h

theorem replaceFuel_single (c d : Char) (f : Nat) (s : Text) (hf : s.length ≤ f) :
    Py.replaceFuel [c] [d] f s = s.map (fun x => if x = c then d else x) := by
  induction f generalizing s with
  | zero => cases s with
    | nil => rfl
    | cons _ _ => simp at hf
  | succ f ih =>
    cases s with
    | nil => rfl
    | cons x xs =>
      have hl : xs.length ≤ f := by simp at hf; omega
      by_cases hx : c = x
      · subst hx; simp [Py.replaceFuel, List.isPrefixOf, ih xs hl]
      · have hx' : ¬ (x = c) := fun e => hx e.symm
        simp [Py.replaceFuel, List.isPrefixOf, hx, hx', ih xs hl]

theorem replace_single (c d : Char) (s : Text) : Py.replace s [c] [d] = s.map (fun x => if x = c then d else x) :=
  replaceFuel_single c d _ s (by simp)

theorem splitAux_nows (cur r : Text) (h : ∀ c ∈ r, isWs c = false) :
    Py.splitAux cur r = if (cur.reverse ++ r).isEmpty then [] else [cur.reverse ++ r] := by
  induction r generalizing cur with
  | nil => simp [Py.splitAux]
  | cons c cs ih =>
    have hc := h c (by simp)
    simp only [Py.splitAux, hc, Bool.false_eq_true, if_false]
    rw [ih (c :: cur) (fun x hx => h x (by simp [hx]))]
    simp

theorem isWs_not_digit (c : Char) (h : isWs c = true) : charDigit c = none ∧ c ≠ '-' := by
  refine ⟨?_, ?_⟩
  · unfold charDigit
    repeat' split
    all_goals first | rfl | (subst_vars; exact absurd h (by decide))
  · intro e; subst e; exact absurd h (by decide)

theorem nows_renderInt (n : Int) : ∀ c ∈ renderInt n, isWs c = false := by
  intro c hc
  cases hw : isWs c with
  | false => rfl
  | true =>
    obtain ⟨h1, h2⟩ := isWs_not_digit c hw
    exact absurd hc (not_mem_renderInt n c h1 h2)

theorem renderInt_ne_nil (n : Int) : renderInt n ≠ [] := by
  unfold renderInt
  split
  · simp
  · exact renderNat_ne_nil _

/-! ### `_sendnext` -/
theorem dropPrefix_isSome (p t : Text) : (dropPrefix p t).isSome = p.isPrefixOf t := by
  induction p generalizing t with
  | nil => cases t <;> rfl
  | cons a p ih =>
    cases t with
    | nil => rfl
    | cons b t =>
      by_cases h : a = b
      · subst h; simp [dropPrefix, ih]
      · simp [dropPrefix, h, List.isPrefixOf]

theorem sub_strip (t : Text) : Re.sub_empty gcode_strip_comment_exp t = stripComments t := by
  simp [Re.sub_empty, gcode_strip_comment_exp, stripPattern]

/-- the job line carries no `;@pause` host command (assumption of the model) -/
def NoPause (l : Text) : Prop := List.isPrefixOf [';', '@', 'p', 'a', 'u', 's', 'e'] (lstrip l) = false

/-- the `printcore` object that a model state stands for: connected over a serial port (no flow control of its own),
    online, line numbers on, not paused, nothing in the priority queue, no write failure; `sentlines` holds
    `sent[k]` under key `k`; `self.sent` (the log of everything written) is the model's `tx` -/
def pcOf (q : List Text) (s : St) : Printcore :=
  { printer := some ⟨false⟩, clear := s.clear, online := true, printing := s.printing, paused := false,
    mainqueue := some ⟨q⟩, priqueue := [], queueindex := s.qi, lineno := s.lineno, resendfrom := s.resendfrom,
    sentlines := dictFrom 0 s.sent, sent := s.tx, writefailures := 0, tcp_streaming_mode := false,
    _send_line_numbers := true, greetings := Printcore.init.greetings }

def nl (t : Text) : Text := t ++ ['\n']

/-- model outcome `o` of an action from `s` and translated outcome `r` agree: same final object, the bytes written are the
    lines the model appended to `tx`, and at every write `clear` was already lowered -/
def Agree (q : List Text) (s : St) (o : Option St) (r : Except PyErr (Printcore × List Ev)) : Prop :=
  match o with
  | some s' => ∃ evs, r = .ok (pcOf q s', evs) ∧ s'.tx.map nl = s.tx.map nl ++ evs.map (·.data)
      ∧ ∀ e ∈ evs, e.at_write.clear = false
  | none => r = .error .keyError

theorem reset_eq (pc : Printcore) (tx : List Ev) (hp : pc.printer = some ⟨false⟩) (hl : pc._send_line_numbers = true) :
    _reset_line_numbers pc tx = .ok ({ pc with lineno := 0, sent := pc.sent ++ [resetFrame], writefailures := 0 },
       tx ++ [⟨{ pc with lineno := 0, sent := pc.sent ++ [resetFrame] }, resetFrame ++ ['\n']⟩]) := by
  have hm : Py.contains ['M', '1', '1', '0'] (frame (-1) ['M', '1', '1', '0', ' ', 'N', '-', '1']) = true := by decide
  have h := send_framed { pc with lineno := 0 } tx ['M', '1', '1', '0', ' ', 'N', '-', '1'] (-1) hp hl
  simp only [hm, if_true, hl] at h
  simp only [_reset_line_numbers, hl, if_true, bind, Except.bind, pure, Except.pure, h]
  rfl

theorem host_nopause (pc : Printcore) (tx : List Ev) (l : Text) (h : NoPause l) : process_host_command pc tx l = .ok (pc, tx) := by
  unfold NoPause at h
  simp [process_host_command, Py.startswith, Py.lstrip, h, bind, Except.bind, pure, Except.pure]

theorem sendnext_resend (q : List Text) (faulty : Nat → Bool) (s : St) (hp : s.printing = true) (hc : s.clear = true)
    (hr : s.resendfrom < (s.lineno : Int) ∧ s.resendfrom > -1) :
    Agree q s (step (q.map itemOf) faulty s .sendnext) (_sendnext (pcOf q s) []) := by
  obtain ⟨k, hk⟩ : ∃ k : Nat, s.resendfrom = (k : Int) := ⟨s.resendfrom.toNat, by omega⟩
  have hr' : (k : Int) < (s.lineno : Int) ∧ (k : Int) > -1 := hk ▸ hr
  simp only [step, hp, hc, Bool.and_self, if_true, hk, hr', and_self, Int.toNat_natCast]
  simp only [_sendnext, pcOf, Py.truthyOpt, SenderPy.has_flow_control, bind, Except.bind, pure, Except.pure, hp, hk, hr',
    Option.isSome_some, Bool.not_true, Bool.not_false, Bool.or_true, Bool.true_or, if_true, if_false, Bool.and_self, decide_true,
    Bool.false_eq_true, dict_get]
  cases hs : s.sent[k]? with
  | none => simp [Agree]
  | some t =>
    simp only [Agree]
    rw [send_plain _ _ _ _ ⟨false⟩ rfl]
    refine ⟨_, rfl, ?_, ?_⟩
    · simp [transmit, nl]
    · simp

theorem sendnext_queue (q : List Text) (faulty : Nat → Bool) (s : St) (hp : s.printing = true) (hc : s.clear = true)
    (hr : ¬ (s.resendfrom < (s.lineno : Int) ∧ s.resendfrom > -1)) (hlen : s.sent.length = s.lineno)
    (hq : ∀ l, q[s.qi]? = some l → NoPause l ∧ ∀ c, itemOf l = .cmd c → Py.contains ['M', '1', '1', '0'] (frame s.lineno c) = false) :
    Agree q s (step (q.map itemOf) faulty s .sendnext) (_sendnext (pcOf q s) []) := by
  simp only [step, hp, hc, Bool.and_self, if_true, hr, if_false, List.getElem?_map]
  simp only [_sendnext, pcOf, Py.truthyOpt, SenderPy.has_flow_control, bind, Except.bind, pure, Except.pure, hp, hr,
    Option.isSome_some, Bool.not_true, Bool.not_false, Bool.or_true, if_true, if_false, Bool.and_self, decide_true,
    Bool.false_eq_true, PyQ.empty, List.isEmpty_nil, SenderPy.deref, GCode_has_index, SenderPy.GCode.len]
  have hr2 : (decide (s.resendfrom < ↑s.lineno) && decide (s.resendfrom > -1)) = false := by
    rw [Bool.eq_false_iff]; intro h; apply hr; simpa using h
  simp only [hr2, Bool.false_eq_true, if_false]
  cases hl : q[s.qi]? with
  | none =>
    have h1 : ¬ ((s.qi : Int) < (q.length : Int)) := by
      have := List.getElem?_eq_none_iff.mp hl; omega
    simp only [h1, decide_false, Bool.false_eq_true, if_false, Option.map_none, Bool.and_true, Bool.not_true]
    rw [reset_eq _ _ rfl rfl]
    simp only [Agree]
    refine ⟨_, rfl, ?_, ?_⟩
    · simp [transmit, nl]
    · simp
  | some l =>
    obtain ⟨hnp, hm⟩ := hq l hl
    have h1 : ((s.qi : Int) < (q.length : Int)) := by
      have := (List.getElem?_eq_some_iff.mp hl).1; omega
    have h2 : SenderPy.GCode.line_at ⟨q⟩ (s.qi : Int) = .ok l := by
      have : ¬ ((s.qi : Int) < 0) := by omega
      simp [SenderPy.GCode.line_at, this, hl]
    simp only [h1, decide_true, if_true, h2, Option.map_some, Py.startswith, Py.lstrip, Py.strip, sub_strip, Py.truthy]
    by_cases ha : List.isPrefixOf [';', '@'] (lstrip l) = true
    · have hi : itemOf l = .skip := by simp [itemOf, dropPrefix_isSome, ha]
      simp only [ha, if_true, hi, host_nopause _ _ _ hnp, Agree]
      refine ⟨_, rfl, ?_, ?_⟩ <;> simp
    · by_cases he : (strip (stripComments l)).isEmpty = true
      · have hi : itemOf l = .skip := by simp [itemOf, dropPrefix_isSome, ha, he]
        simp only [ha, he, Bool.false_eq_true, if_false, hi, Bool.not_true, Agree]
        refine ⟨_, rfl, ?_, ?_⟩ <;> simp
      · have hi : itemOf l = .cmd (strip (stripComments l)) := by simp [itemOf, dropPrefix_isSome, ha, he]
        have hm' := hm _ hi
        simp only [ha, he, Bool.false_eq_true, if_false, hi, Bool.not_false, if_true, Agree]
        rw [send_framed _ _ _ _ rfl rfl]
        simp only [hm', Bool.false_eq_true, if_false]
        have hd := dict_set_from 0 s.sent (frame (↑s.lineno) (strip (stripComments l)))
        simp only [Nat.zero_add, hlen] at hd
        simp only [hd]
        refine ⟨_, rfl, ?_, ?_⟩
        · simp [transmit, nl]
        · simp

/-! ### `_listen` -/
/-- the text of a reply: `ok…`, `Resend: <n>`, `Error…` (what follows `ok` / `Error` is arbitrary) -/
def lineOf : Reply → Text → Text
  | .ok, rest => 'o' :: 'k' :: rest
  | .resend n, _ => ['R', 'e', 's', 'e', 'n', 'd', ':', ' '] ++ renderInt n
  | .err, rest => 'E' :: 'r' :: 'r' :: 'o' :: 'r' :: rest

theorem resend_words (n : Int) :
    Py.firstInt (Py.split (Py.replace (Py.replace (Py.replace (['R', 'e', 's', 'e', 'n', 'd', ':', ' '] ++ renderInt n)
      ['N', ':'] [' ']) ['N'] [' ']) [':'] [' '])) = some n := by
  have hN : 'N' ∉ (['R', 'e', 's', 'e', 'n', 'd', ':', ' '] ++ renderInt n) := by
    have := not_mem_renderInt n 'N' (by decide) (by decide)
    simp [this]
  have hc : ':' ∉ renderInt n := not_mem_renderInt n ':' (by decide) (by decide)
  rw [replace_not_mem 'N' [':'] [' '] _ hN, replace_not_mem 'N' [] [' '] _ hN, replace_single]
  have hm : (renderInt n).map (fun x => if x = ':' then ' ' else x) = renderInt n := by
    conv => rhs; rw [← List.map_id (renderInt n)]
    apply List.map_congr_left
    intro x hx
    have : x ≠ ':' := fun e => hc (e ▸ hx)
    simp [this]
  simp only [List.map_append, hm, List.map_cons, List.map_nil]
  have hs : Py.split (['R', 'e', 's', 'e', 'n', 'd', ' ', ' '] ++ renderInt n) = [['R', 'e', 's', 'e', 'n', 'd'], renderInt n] := by
    have h0 : ∀ c ∈ ['R', 'e', 's', 'e', 'n', 'd'], isWs c = false := by decide
    have hsp : isWs ' ' = true := by decide
    simp only [Py.split, List.cons_append, List.nil_append, Py.splitAux, h0, hsp, List.mem_cons, true_or, or_true,
      Bool.false_eq_true, if_false, if_true, List.isEmpty_cons, List.isEmpty_nil, List.reverse_cons, List.reverse_nil]
    rw [splitAux_nows [] _ (nows_renderInt n)]
    simp [renderInt_ne_nil n]
  have hl : ([if 'R' = ':' then ' ' else 'R', if 'e' = ':' then ' ' else 'e', if 's' = ':' then ' ' else 's',
            if 'e' = ':' then ' ' else 'e', if 'n' = ':' then ' ' else 'n', if 'd' = ':' then ' ' else 'd',
            if True then ' ' else ':', if ' ' = ':' then ' ' else ' '] : Text) = ['R', 'e', 's', 'e', 'n', 'd', ' ', ' '] := by decide
  rw [hl, hs]
  have hi : Py.int ['R', 'e', 's', 'e', 'n', 'd'] = none := by decide
  simp only [Py.firstInt, hi, int_renderInt]

theorem listen_tie (q : List Text) (job : List Item) (faulty : Nat → Bool) (s : St) (r : Reply) (rs : List Reply) (rest : Text)
    (h : s.toS = r :: rs) :
    ∃ s', step job faulty s .listen = some s' ∧ _listen_line (pcOf q s) [] (lineOf r rest) = .ok (pcOf q s', []) := by
  cases r with
  | ok =>
    refine ⟨_, by simp only [step, h]; rfl, ?_⟩
    simp [_listen_line, lineOf, pcOf, Py.startswith, Py.startswithAny, Py.lower, Printcore.init, List.isPrefixOf, bind, Except.bind, pure, Except.pure]
  | err =>
    refine ⟨_, by simp only [step, h]; rfl, ?_⟩
    simp [_listen_line, lineOf, pcOf, Py.startswith, Py.startswithAny, Py.lower, Printcore.init, List.isPrefixOf, bind, Except.bind, pure, Except.pure]
  | resend n =>
    refine ⟨_, by simp only [step, h]; rfl, ?_⟩
    have hw := resend_words n
    simp only [List.cons_append, List.nil_append] at hw
    simp [_listen_line, lineOf, pcOf, Py.startswith, Py.startswithAny, Py.lower, Printcore.init, List.isPrefixOf, bind, Except.bind, pure, Except.pure, hw]

end GscribModel.SenderTie
open GscribModel.SenderTie

/-! ## constants -/

/-- the regex text is the one `Sender.stripComments` stands for; the greetings, the literal prefixes and markers of the
    translated code (`ok`, `resend`/`rs`, `Error`, `start`, `Grbl `, `M110`, `M110 N-1`, `;@`, …) are the expected ones -/
theorem SenderTie_constants :
    gcode_strip_comment_exp.pattern = stripPattern ∧
    Printcore.init.greetings = ["start".toList, "Grbl ".toList] ∧
    literals = ["start", "Grbl ", "N", " ", "*", "M110", "\n", "M110 N-1", ";@pause", ";@", "DEBUG_", "ok", "T:", "Error",
                "resend", "rs", "N:", ":", "Grbl"].map String.toList ∧
    resetCmd = ['M', '1', '1', '0', ' ', 'N', '-', '1'] ∧
    callbacks = ["tempcb", "recvcb", "sendcb", "preprintsendcb", "printsendcb", "layerchangecb", "errorcb", "startcb", "endcb", "onlinecb"] := by
  refine ⟨by decide, by decide, by decide, by decide, by decide⟩

/-! ## the job: `GCode.prepare`, `has_index` -/

/-- the model's job is what `_sendnext` makes of the line objects that `GCode.prepare` builds from the raw lines -/
theorem SenderTie_prepare (raws : List Text) : prepare raws = (GCode_prepare_lines raws).map itemOf := by
  unfold prepare GCode_prepare_lines
  induction raws with
  | nil => rfl
  | cons r rs ih =>
    simp only [List.filterMap_cons, List.map_cons, List.filter_cons, classify_eq, Py.strip, Py.truthy]
    by_cases h : (strip r).isEmpty = true
    · simp [h]; exact ih
    · simp [h]; exact ih

/-- `mainqueue.has_index(i)`: the queue has a line `i` -/
theorem SenderTie_has_index (q : List Text) (i : Nat) : GCode_has_index ⟨q⟩ (i : Int) = (q[i]?).isSome := by
  simp only [GCode_has_index, SenderPy.GCode.len]
  by_cases h : i < q.length
  · have : ((i : Int) < (q.length : Int)) := by omega
    simp [h, this]
  · have : ¬ ((i : Int) < (q.length : Int)) := by omega
    simp [this]; omega

/-! ## framing -/

/-- `_checksum` is the model's `pyChecksum` (`TypeError` on the empty string, which `_send` never passes: a prefix
    starts with `N`) -/
theorem SenderTie_checksum (t : Text) :
    _checksum t = if t = [] then .error .typeError else .ok (pyChecksum t) := by
  cases t with
  | nil => rfl
  | cons c cs => simp [checksum_cons]

/-- `_send(cmd, n, True)` over a serial port with line numbers on: the line written is the model's `frame n cmd` plus the
    line feed; it is stored in `sentlines[n]` unless it contains `M110`; it is appended to `self.sent`; the write
    happens after both; `writefailures` is cleared after it -/
theorem SenderTie_frame (pc : Printcore) (tx : List Ev) (cmd : Text) (n : Int)
    (hp : pc.printer = some ⟨false⟩) (hl : pc._send_line_numbers = true) :
    _send pc tx cmd n true =
      .ok ({ (if Py.contains ['M', '1', '1', '0'] (frame n cmd) then pc
              else { pc with sentlines := Dict.set pc.sentlines n (frame n cmd) }) with
                sent := pc.sent ++ [frame n cmd], writefailures := 0 },
           tx ++ [⟨{ (if Py.contains ['M', '1', '1', '0'] (frame n cmd) then pc
              else { pc with sentlines := Dict.set pc.sentlines n (frame n cmd) }) with
                sent := pc.sent ++ [frame n cmd] }, frame n cmd ++ ['\n']⟩]) :=
  send_framed pc tx cmd n hp hl

/-- `_send(t, n, False)` (a retransmission, a priority command): the text goes out as it is -/
theorem SenderTie_send_plain (pc : Printcore) (tx : List Ev) (t : Text) (n : Int) (d : Device) (hp : pc.printer = some d) :
    _send pc tx t n false = .ok ({ pc with sent := pc.sent ++ [t], writefailures := 0 },
       tx ++ [⟨{ pc with sent := pc.sent ++ [t] }, t ++ ['\n']⟩]) :=
  send_plain pc tx t n d hp

/-- `_reset_line_numbers` writes the model's `resetFrame` (`N-1 M110 N-1*125`) with `lineno` already 0, and does not
    store it -/
theorem SenderTie_reset (pc : Printcore) (tx : List Ev) (hp : pc.printer = some ⟨false⟩) (hl : pc._send_line_numbers = true) :
    _reset_line_numbers pc tx = .ok ({ pc with lineno := 0, sent := pc.sent ++ [resetFrame], writefailures := 0 },
       tx ++ [⟨{ pc with lineno := 0, sent := pc.sent ++ [resetFrame] }, resetFrame ++ ['\n']⟩]) :=
  reset_eq pc tx hp hl

/-! ## the job's first state -/

/-- `startprint(job)` on a freshly connected, online object (`__init__` values, whatever `clear` is) returns `True`, leaves
    the object of the model's `init` state and has written the reset - with `clear` lowered and `printing` raised before
    the write -/
theorem SenderTie_startprint (q : List Text) (faulty : Nat → Bool) (e0 : Int) (c : Bool) :
    ∃ at_, startprint { Printcore.init with printer := some ⟨false⟩, online := true, clear := c } [] ⟨q⟩ 0
        = .ok (true, pcOf q (init faulty e0), [⟨at_, resetFrame ++ ['\n']⟩])
      ∧ at_.clear = false ∧ at_.printing = true ∧ at_.resendfrom = -1 ∧ at_.lineno = 0 := by
  simp only [startprint, Printcore.init, Py.truthyOpt, Option.isSome_some, Bool.not_true, Bool.or_false, Bool.false_eq_true, if_false,
    bind, Except.bind, pure, Except.pure]
  rw [reset_eq _ _ rfl rfl]
  exact ⟨_, rfl, rfl, rfl, rfl, rfl⟩

/-! ## the print thread: `_sendnext` -/

/-- the model's `sendnext` is enabled exactly when `_print` would call `_sendnext` and its poll lets it through -/
theorem SenderTie_sendnext_enabled (q : List Text) (s : St) :
    (_print_continue (pcOf q s) && !_sendnext_blocked (pcOf q s)) = (s.printing && s.clear) := by
  cases hp : s.printing <;> cases hc : s.clear <;> simp [_print_continue, _sendnext_blocked, pcOf, Py.truthyOpt, hp, hc]

theorem SenderTie_sendnext_disabled (job : List Item) (faulty : Nat → Bool) (s : St) (h : (s.printing && s.clear) = false) :
    step job faulty s .sendnext = none := by
  simp [step, h]

/-- **the model's `sendnext` step is the translated `_sendnext`**, run from the poll to its return on the object `pcOf q s`:
    it ends in the object of the model's next state, the bytes handed to `printer.write` are the lines the model appended to
    `tx` (each with its line feed), `clear` was `False` at every write, and it dies with `KeyError` exactly where the model
    is stuck (a retransmission of a line that was never stored). -/
theorem SenderTie_sendnext (q : List Text) (faulty : Nat → Bool) (s : St) (hp : s.printing = true) (hc : s.clear = true)
    (hlen : s.sent.length = s.lineno)
    (hq : ∀ l, q[s.qi]? = some l → NoPause l ∧ ∀ c, itemOf l = .cmd c → Py.contains ['M', '1', '1', '0'] (frame s.lineno c) = false) :
    Agree q s (step (q.map itemOf) faulty s .sendnext) (_sendnext (pcOf q s) []) := by
  by_cases hr : s.resendfrom < (s.lineno : Int) ∧ s.resendfrom > -1
  · exact sendnext_resend q faulty s hp hc hr
  · exact sendnext_queue q faulty s hp hc hr hlen hq

/-- … in particular in every state the model reaches from `init` (`sent.length = lineno` is its invariant `FInv.prog`) -/
theorem SenderTie_sendnext_reachable (q : List Text) (faulty : Nat → Bool) (e0 : Int) (acts : List Act) (s : St)
    (hrun : run (q.map itemOf) faulty (init faulty e0) acts = some s) (hp : s.printing = true) (hc : s.clear = true)
    (hq : ∀ l, q[s.qi]? = some l → NoPause l ∧ ∀ c, itemOf l = .cmd c → Py.contains ['M', '1', '1', '0'] (frame s.lineno c) = false) :
    Agree q s (step (q.map itemOf) faulty s .sendnext) (_sendnext (pcOf q s) []) :=
  SenderTie_sendnext q faulty s hp hc
    ((finv_run (q.map itemOf) faulty acts _ s (finv_init (q.map itemOf) faulty e0) hrun).prog hp).1 hq

/-- **order inside the retransmission branch**: when `_sendnext` retransmits, the cursor `resendfrom` has ALREADY been
    advanced at the moment of the write (`resend = self.resendfrom; self.resendfrom = resend + 1; self._send(…)`), so a
    `Resend:` handled by the read thread during the write is not overwritten by the increment.  With the statements in the
    other order (`self._send(…)` before `self.resendfrom += 1`) the final object and the bytes are the same -
    `SenderTie_sendnext` still holds - but the object at the write has `resendfrom = s.resendfrom` and this theorem fails. -/
theorem SenderTie_resend_cursor_at_write (q : List Text) (s : St) (hp : s.printing = true)
    (hr : s.resendfrom < (s.lineno : Int) ∧ s.resendfrom > -1) (r : Printcore × List Ev)
    (h : _sendnext (pcOf q s) [] = .ok r) :
    r.2.length = 1 ∧ ∀ e ∈ r.2, e.at_write.resendfrom = s.resendfrom + 1 ∧ e.at_write.clear = false := by
  obtain ⟨k, hk⟩ : ∃ k : Nat, s.resendfrom = (k : Int) := ⟨s.resendfrom.toNat, by omega⟩
  have hr' : (k : Int) < (s.lineno : Int) ∧ (k : Int) > -1 := hk ▸ hr
  simp only [_sendnext, pcOf, Py.truthyOpt, SenderPy.has_flow_control, bind, Except.bind, pure, Except.pure, hp, hk, hr',
    Option.isSome_some, Bool.not_true, Bool.not_false, Bool.or_true, if_true, if_false, Bool.and_self, decide_true,
    Bool.false_eq_true, dict_get] at h
  cases hs : s.sent[k]? with
  | none => simp [hs] at h
  | some t =>
    simp only [hs] at h
    rw [send_plain _ _ _ _ ⟨false⟩ rfl] at h
    simp only [Except.ok.injEq] at h
    subst h
    simp [hk]

/-! ## the read thread: `_listen`, `_listen_until_online` -/

/-- **the model's `listen` step is the translated loop body of `_listen`** on the text of the reply (`ok…` raises `clear`;
    `Resend: <n>` sets `resendfrom = n` and raises `clear`; `Error…` changes nothing), and writes nothing -/
theorem SenderTie_listen (q : List Text) (job : List Item) (faulty : Nat → Bool) (s : St) (r : Reply) (rs : List Reply) (rest : Text)
    (h : s.toS = r :: rs) :
    ∃ s', step job faulty s .listen = some s' ∧ _listen_line (pcOf q s) [] (lineOf r rest) = .ok (pcOf q s', []) :=
  listen_tie q job faulty s r rs rest h

/-- while connecting (`_listen_until_online`): `ok…`, `start…`, `Grbl …` put the object online; a line starting with `Grbl`
    also switches line numbers (and with them checksums) off - the model assumes `_send_line_numbers = True` -/
theorem SenderTie_online (pc : Printcore) (tx : List Ev) (rest : Text) (hg : pc.greetings = Printcore.init.greetings) :
    _listen_until_online_line pc tx ('o' :: 'k' :: rest) = .ok ({ pc with online := true }, tx) ∧
    _listen_until_online_line pc tx ('s' :: 't' :: 'a' :: 'r' :: 't' :: rest) = .ok ({ pc with online := true }, tx) ∧
    _listen_until_online_line pc tx ('G' :: 'r' :: 'b' :: 'l' :: ' ' :: rest)
      = .ok ({ pc with online := true, _send_line_numbers := false }, tx) := by
  refine ⟨?_, ?_, ?_⟩ <;>
    simp [_listen_until_online_line, hg, Printcore.init, Py.startswith, Py.startswithAny, List.isPrefixOf, bind, Except.bind, pure, Except.pure]

/-! ## concrete evaluations of the translated functions -/
namespace GscribModel.SenderTie
def idle : Printcore := { Printcore.init with printer := some ⟨false⟩, online := true, clear := true }
def datas (r : Except PyErr (Printcore × List Ev)) : List String := match r with
  | .ok (_, evs) => evs.map fun e => String.ofList e.data
  | .error _ => ["error"]
def stateOf (r : Except PyErr (Printcore × List Ev)) : Printcore := match r with
  | .ok (p, _) => p
  | .error _ => Printcore.init
/-- the objects at the moments of the writes -/
def atWrites (r : Except PyErr (Printcore × List Ev)) : List Printcore := match r with
  | .ok (_, evs) => evs.map fun e => e.at_write
  | .error _ => []
/-- the object after `startprint(["G1 X0 ; go", "(note)", ";@beep", "G1 X1"])` and an `ok` for the reset -/
def started : Printcore :=
  match startprint idle [] ⟨GCode_prepare_lines ["G1 X0 ; go".toList, "  ".toList, "(note)".toList, ";@beep".toList, " G1 X1".toList]⟩ 0 with
  | .ok (_, p, _) => { p with clear := true }
  | .error _ => Printcore.init
end GscribModel.SenderTie

example : started.sent = ["N-1 M110 N-1*125".toList] ∧ started.printing = true ∧
    started.mainqueue = some ⟨["G1 X0 ; go".toList, "(note)".toList, ";@beep".toList, "G1 X1".toList]⟩ := by decide
/-- the first job line goes out framed, comment stripped, with `clear` lowered and `lineno` still 0 at the write -/
example : datas (_sendnext started []) = ["N0 G1 X0*96\n"] ∧ (stateOf (_sendnext started [])).lineno = 1 ∧
    (atWrites (_sendnext started [])).map (fun p => (p.clear, p.lineno)) = [(false, 0)] := by decide
/-- a comment-only line and a host command are skipped: nothing written, `clear` raised, `queueindex` advanced -/
example : datas (_sendnext { started with queueindex := 1 } []) = [] ∧
    (stateOf (_sendnext { started with queueindex := 1 } [])).clear = true ∧
    (stateOf (_sendnext { started with queueindex := 2 } [])).queueindex = 3 := by decide
/-- Teacup's resend request `rs N2 Expected checksum 67` asks for line 2 -/
example : (stateOf (_listen_line started [] "rs N2 Expected checksum 67".toList)).resendfrom = 2 := by decide
/-- a retransmission: the stored line 0 goes out again unchanged, and the cursor is ALREADY 1 at the write
    (this example, like `SenderTie_resend_cursor_at_write`, pins the statement order of the retransmission branch) -/
example :
    let r := _sendnext { stateOf (_sendnext started []) with clear := true, resendfrom := 0 } []
    datas r = ["N0 G1 X0*96\n"] ∧ (atWrites r).map (fun p => (p.resendfrom, p.clear)) = [(1, false)] ∧
      (stateOf r).resendfrom = 1 ∧ (stateOf r).lineno = 1 := by decide
/-- the end of the job: the reset goes out with `printing` already lowered, `clear` kept low and `lineno` back to 0 -/
example :
    let r := _sendnext { started with queueindex := 4, lineno := 2 } []
    datas r = ["N-1 M110 N-1*125\n"] ∧ (atWrites r).map (fun p => (p.printing, p.clear, p.lineno, p.queueindex)) = [(false, false, 0, 0)] := by decide

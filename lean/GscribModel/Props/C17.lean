import GscribModel.Lemmas.Socket
/-! # C17 — socket input is split into lines independently of packet boundaries

Property theorems only (helper lemmas live in `Lemmas/Socket.lean`).  The model is
`Model/Socket.lean`, a transcription of `Device._readline_socket` / `_readline_buf`. -/
open GscribModel.Socket

/-- **One `readline()` call**: nothing is lost, duplicated or reordered
    (result ++ buffer ++ unread = buffer ++ script); the buffer invariant is kept for the next
    call; a line returned while the peer has not closed is exactly one newline-terminated line. -/
theorem C17_readline_call (buf : List Bytes) (evs : List Ev) (hok : BufOk buf) :
    let r := readlineSocket buf evs
    r.1.bytes ++ r.2.1.flatten ++ evBytes r.2.2 = buf.flatten ++ evBytes evs
    ∧ BufOk r.2.1
    ∧ (∀ l, r.1 = .line l → r.2.2.head? ≠ some .eof → l.getLast? = some NL ∧ NL ∉ l.dropLast) := by
  simp only [readlineSocket]
  split
  · rename_i he
    have he' : (readlineBuf buf).1 = [] := by simpa using he
    obtain ⟨hno, _⟩ := readlineBuf_empty_noNL hok he'
    exact go_spec evs buf hno
  · rename_i hne
    have hne' : (readlineBuf buf).1 ≠ [] := by simpa using hne
    obtain ⟨l1, l2, l3⟩ := readlineBuf_line hok hne'
    refine ⟨?_, l3, ?_⟩
    · simp only [Res.bytes]; rw [readlineBuf_conserve]
    · intro l hl _; simp at hl; subst hl; exact ⟨l1, l2⟩

/-- bytes of a sequence of results -/
def resBytes (rs : List Res) : Bytes := (rs.map Res.bytes).flatten

/-- **Any number of calls, any script**: the concatenation of everything returned, plus what is
    still buffered, plus what is still unread, is exactly the byte stream — for every
    fragmentation and every placement of time-outs. -/
theorem C17_calls_conserve (n : Nat) : ∀ (buf : List Bytes) (evs : List Ev), BufOk buf →
    resBytes (calls n buf evs).1 ++ (calls n buf evs).2.1.flatten ++ evBytes (calls n buf evs).2.2
      = buf.flatten ++ evBytes evs
    ∧ BufOk (calls n buf evs).2.1 := by
  induction n with
  | zero => intro buf evs h; simp [calls, resBytes, h]
  | succ n ih =>
    intro buf evs h
    obtain ⟨c1, c2, _⟩ := C17_readline_call buf evs h
    obtain ⟨i1, i2⟩ := ih _ _ c2
    refine ⟨?_, by simpa [calls] using i2⟩
    simp only [calls, resBytes, List.map_cons, List.flatten_cons] at *
    rw [← c1]
    simp only [List.append_assoc] at *
    rw [i1]

/-- **Every line returned before the peer closes is exactly one line**, whatever the fragmentation. -/
theorem C17_calls_lines (n : Nat) : ∀ (buf : List Bytes) (evs : List Ev), BufOk buf → Ev.eof ∉ evs →
    ∀ l, Res.line l ∈ (calls n buf evs).1 → l.getLast? = some NL ∧ NL ∉ l.dropLast := by
  induction n with
  | zero => intro buf evs _ _ l hl; simp [calls] at hl
  | succ n ih =>
    intro buf evs h hne l hl
    obtain ⟨_, c2, c3⟩ := C17_readline_call buf evs h
    have hsuf := readlineSocket_suffix buf evs
    have hne' : Ev.eof ∉ (readlineSocket buf evs).2.2 := fun hm => hne (hsuf.subset hm)
    simp only [calls, List.mem_cons] at hl
    rcases hl with hl | hl
    · refine c3 l hl.symm ?_
      intro hh
      cases hr : (readlineSocket buf evs).2.2 with
      | nil => simp [hr] at hh
      | cons e es => simp [hr] at hh; subst hh; exact hne' (by simp [hr])
    · exact ih _ _ c2 hne' l hl

/-- **Peer closes**: with no complete line buffered, the unterminated tail is delivered once, whole,
    and the buffer is emptied; with nothing buffered the call reports end-of-stream. -/
theorem C17_eof_tail (buf : List Bytes) (evs : List Ev) (h : NoNL buf) :
    readlineSocket buf (.eof :: evs) =
      if buf.flatten.isEmpty then (.eofR, [], .eof :: evs) else (.line buf.flatten, [], .eof :: evs) := by
  have : (readlineBuf buf).1 = [] := readlineBuf_noNL_empty h
  simp [readlineSocket, this, go]

/-- **Time-out**: a "no data yet" result returns `READ_EMPTY` and keeps the buffer. -/
theorem C17_again_keeps (buf : List Bytes) (evs : List Ev) (h : NoNL buf) :
    readlineSocket buf (.again :: evs) = (.empty, buf, evs) := by
  have : (readlineBuf buf).1 = [] := readlineBuf_noNL_empty h
  simp [readlineSocket, this, go]

/-- **Refinement to the specification**: take any stream of socket events that ends with the peer closing — any
    fragmentation into chunks, time-outs anywhere — and call `readline()` until it reports end-of-stream (any number
    of calls that gets there).  The lines returned, in order, are *exactly* the received byte stream cut after each
    newline (`splitNL`), the unterminated tail, if any, last: nothing lost, duplicated, reordered or cut elsewhere. -/
theorem C17_refines_split (n : Nat) (evs : List Ev) (hne : Ev.eof ∉ evs)
    (hdone : Res.eofR ∈ (calls n [] (evs ++ [.eof])).1) :
    lineBytes (calls n [] (evs ++ [.eof])).1 = splitNL (evBytes evs) := by
  have hok : BufOk ([] : List Bytes) := by simp [BufOk]
  obtain ⟨ls, tail, h1, h2, h3, _⟩ := calls_shape n [] (evs ++ [.eof]) hok
  obtain ⟨c1, _⟩ := C17_calls_conserve n [] (evs ++ [.eof]) hok
  obtain ⟨f1, f2⟩ := calls_eofR_final n [] (evs ++ [.eof]) hok hdone
  -- what is left unread is just the end-of-stream marker
  have hrem : evBytes (calls n [] (evs ++ [.eof])).2.2 = [] := by
    obtain ⟨pre, hpre⟩ := calls_suffix n [] (evs ++ [.eof])
    cases hr : (calls n [] (evs ++ [.eof])).2.2 with
    | nil => simp [hr] at f2
    | cons e es =>
      have he : e = .eof := by simpa [hr] using f2
      subst he
      rw [hr] at hpre
      have := suffix_eof_last evs pre es hne hpre
      subst this; simp [evBytes]
  have hbytes : ls.flatten ++ tail = evBytes evs := by
    have hl := lineBytes_flatten (calls n [] (evs ++ [.eof])).1
    rw [h1] at hl
    have hc := c1
    simp only [f1, hrem, List.flatten_nil, List.append_nil, List.nil_append, resBytes, evBytes_append_eof] at hc
    rw [← hc, ← hl]
    by_cases ht : tail.isEmpty = true
    · have : tail = [] := by simpa using ht
      simp [this]
    · simp [ht]
  rw [h1, ← hbytes]
  exact (split_unique ls tail h2 h3).symm

/-! Non-vacuity: a concrete fragmented stream `ab\nc` `d\n` `e` + EOF. -/
example : (calls 5 [] [.chunk 97 [98, 10, 99], .again, .chunk 100 [10], .chunk 101 [], .eof]).1
    = [.line [97, 98, 10], .empty, .line [99, 100, 10], .line [101], .eofR] := by decide
example : BufOk [] ∧ NoNL [[99]] := by simp [BufOk, NoNL, NL]
example : lineBytes (calls 5 [] [.chunk 97 [98, 10, 99], .again, .chunk 100 [10], .chunk 101 [], .eof]).1
    = splitNL [97, 98, 10, 99, 100, 10, 101] ∧ splitNL [97, 98, 10, 99, 100, 10, 101] = [[97, 98, 10], [99, 100, 10], [101]] := by
  decide

import GscribModel.Gen.PointSrc
import GscribModel.Model.Transform
/-! # The models' point operations are the translated `Point` methods

`Gen/PointSrc.lean` is *generated* on every run from the source text of `gscrib/geometry/point.py`
(`tools/gen_point.py`).  The builder model (`Model/Builder.lean`: C01, C03, C05, C11, C20) and the transform
model (`Model/Transform.lean`: C04, C13) each carry their own small point algebra; the theorems below prove
them equal to the translation, for all points:

* `resolve`, `replace`, `mask` — what the tracked position becomes (C01, C11);
* `combine` — which axes a statement mentions (the crux of C04's "mentions every axis whose machine
  coordinate has to change");
* `within_bounds` — the axes-box test behind every motion (C03). -/
open GscribModel.Builder GscribModel.GenPrelude

theorem PointTie_resolve (p : Pt) : GscribModel.Gen.PointSrc.resolve p = p.resolve := by
  obtain ⟨x, y, z⟩ := p
  cases x <;> cases y <;> cases z <;> rfl

theorem PointTie_replace (p q : Pt) : GscribModel.Gen.PointSrc.replace p q.x q.y q.z = p.replace q := by
  obtain ⟨x, y, z⟩ := q
  cases x <;> cases y <;> cases z <;> rfl

theorem PointTie_mask (p m : Pt) : GscribModel.Gen.PointSrc.mask p m.x m.y m.z = p.mask m := by
  obtain ⟨x, y, z⟩ := m
  cases x <;> cases y <;> cases z <;> rfl

theorem PointTie_combine (req o t m : Pt) : GscribModel.Gen.PointSrc.combine req o t m = Pt.combine req o t m := by
  simp only [GscribModel.Gen.PointSrc.combine, Pt.combine, Pt.mk', Pt.get, Pt.mk.injEq]
  refine ⟨?_, ?_, ?_⟩ <;> (split <;> simp_all)

/-- the axes box test: `Point.within_bounds(min, max)` with a fully known box is the model's `okAxes` -/
theorem PointTie_within_bounds (b : Bounds) (lo hi : P3) (p : Pt) (h : b.axes = some (lo, hi)) :
    GscribModel.Gen.PointSrc.within_bounds p ⟨some lo.x, some lo.y, some lo.z⟩ ⟨some hi.x, some hi.y, some hi.z⟩ = b.okAxes p := by
  obtain ⟨x, y, z⟩ := p
  simp only [GscribModel.Gen.PointSrc.within_bounds, Bounds.okAxes, h, List.all_cons, List.all_nil, Pt.get, P3.get, Bool.and_true]
  cases x <;> cases y <;> cases z <;> simp [OQ.le, Bool.and_assoc] <;> first | rfl | (simp only [Bool.decide_eq_true, decide_eq_decide]) 

/-- … and the ordering against `None` that the translation had to give a value to is never consulted: the result is
    the same whatever that value is -/
theorem PointTie_within_bounds_unknown (p lo hi : Pt) (hx : p.x = none) (hy : p.y = none) (hz : p.z = none) :
    GscribModel.Gen.PointSrc.within_bounds p lo hi = true := by
  simp [GscribModel.Gen.PointSrc.within_bounds, hx, hy, hz]

/-! ## the transform model's points (`Option Rat` triples and resolved vectors) -/
namespace GscribModel.PointTie
def ofT (p : GscribModel.Transform.Pt) : Pt := ⟨p.x, p.y, p.z⟩
def ofV (v : GscribModel.Transform.V3) : Pt := ⟨some v.x, some v.y, some v.z⟩
end GscribModel.PointTie
open GscribModel.PointTie

theorem PointTie_transform_combine (s : GscribModel.Transform.Pt) (o t m : GscribModel.Transform.V3) :
    GscribModel.Gen.PointSrc.combine (ofT s) (ofV o) (ofV t) (ofV m) = ofT (GscribModel.Transform.Pt.combine s o t m) := by
  simp only [GscribModel.Gen.PointSrc.combine, GscribModel.Transform.Pt.combine, ofT, ofV, Pt.mk.injEq]
  refine ⟨?_, ?_, ?_⟩
  · by_cases h1 : s.x.isSome <;> by_cases h2 : o.x = t.x <;> simp [h1, h2]
  · by_cases h1 : s.y.isSome <;> by_cases h2 : o.y = t.y <;> simp [h1, h2]
  · by_cases h1 : s.z.isSome <;> by_cases h2 : o.z = t.z <;> simp [h1, h2]

theorem PointTie_transform_resolve (p : GscribModel.Transform.Pt) :
    GscribModel.Gen.PointSrc.resolve (ofT p) = ofV p.resolve := by
  obtain ⟨x, y, z⟩ := p
  cases x <;> cases y <;> cases z <;> rfl

theorem PointTie_transform_replace (o : GscribModel.Transform.V3) (q : GscribModel.Transform.Pt) :
    GscribModel.Gen.PointSrc.replace (ofV o) q.x q.y q.z = ofV (o.replace q) := by
  obtain ⟨x, y, z⟩ := q
  cases x <;> cases y <;> cases z <;> rfl

theorem PointTie_transform_replace_pt (o q : GscribModel.Transform.Pt) :
    GscribModel.Gen.PointSrc.replace (ofT o) q.x q.y q.z = ofT (GscribModel.Transform.Pt.replace o q) := by
  obtain ⟨x, y, z⟩ := q
  cases x <;> cases y <;> cases z <;> rfl

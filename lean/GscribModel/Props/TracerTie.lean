import GscribModel.Gen.TracerSrc
/-! # The tracer model is the translated `PathTracer` (+ `Direction`, `GCodeCore.to_absolute…`)

`Gen/TracerSrc.lean` is *generated* on every run from the source text of `gscrib/geometry/tracer.py`,
`gscrib/enums/types/direction.py`, `gscrib/gcode_core.py` and `gscrib/geometry/point.py` (`tools/gen_tracer.py`).
The theorems of C10 / C11 / C12 are about the hand-written `Model/Tracer.lean`; the theorems below prove, **for every
scalar type `K` with the operations the model requires (no algebraic law is used unless stated) and every `Trig K`**,
that the model's functions are the translated ones:

* `Direction.enforce`, `full_turn` (the sign of the sweep: C10);
* `to_absolute`, `to_absolute_list`, `to_distance_mode` (C11: same toolpath in both distance modes);
* `_filter_segments`, `estimate_length`, `parametric` (C12: the resolution; the last sample is always kept);
* the set-up arithmetic of `arc`, `circle`, `helix`, `thread`, `spiral` (radius, start angle, sweep, centre, height,
  the path function, its length) and the whole path from the call to the vertices handed to `move` (C10);
* section (f): `arc_radius` (validation / snap of the radius = `radiusResolve`, the centre = `radiusCentreRel`, then `arc`),
  `polyline` (= `emitPolyline`), `spline` (control points = `splineControls`, the `np.linspace` parameterisation and the
  three coordinate lists handed to scipy's `CubicSpline`, which stays a parameter; then `estimate_length` and
  `parametric`), and the final loop of `parametric` (`to_distance_mode` against the position reached so far, then
  `move`) = `emitMoves` / `emitParametric`, for every shape (`TracerTie_*_moves`).  `move` itself is the builder's
  (`MotionTie_move`); what the tracer needs of it is the explicit hypothesis `MoveAdvances`.

The only place where the source and the model differ in *form* is `height = t.z - o.z if len(target) > 2 else 0`:
the model always takes `t.z - o.z`.  For a target of fewer than three components (`target.z = none`) the two agree
in every `K` with `a - a = 0` and `a + 0 = a` (`FlatLaws`; every ring, and `Float` on finite values) — that hypothesis
is explicit in `TracerTie_arc`, `_helix`, `_thread`, `_spiral` (and absent from `TracerTie_circle`: a circle's target is a
full `Point`). -/
open GscribModel.Tracer GscribModel.TracerPrelude
open GscribModel.Gen.TracerSrc

set_option linter.unusedSectionVars false
set_option linter.unusedSimpArgs false

namespace GscribModel.TracerTie
section
variable {K : Type} [Add K] [Sub K] [Mul K] [Div K] [Neg K] [LE K] [LT K] [DecidableLE K] [DecidableLT K]
  [OfNat K 0] [OfNat K 1] [OfNat K 2] [OfNat K 10]

/-! ### what the model says the source computes (compositions of model functions only) -/

/-- `parametric(function, length)`: the vertices handed to `move` -/
def parametricM (T : Trig K) (res : K) (f : K → V3 K) (len : K) : Option (List (V3 K)) :=
  if len ≤ (0 : K) then none
  else some (filterSegments T.sqrt res ((thetas T (numSegments T len res)).map f))

/-- `arc` after `traceArc`: the radius check, then the path function and its length -/
def arcArgsM [OfScientific K] (T : Trig K) (r : Arc K × V3 K × V3 K) : Option ((K → V3 K) × K) :=
  if isClose (1e-10 : K) (1e-8 : K) r.1.r (arcTargetRadius T r.2.1 r.2.2) then some (arcPoint T r.1, arcLength T r.1)
  else none

/-- `helix` after `traceHelix` -/
def helixArgsM (T : Trig K) (r : Helix K × V3 K × V3 K) : (K → V3 K) × K :=
  (helixPoint T r.1, estimateLength T 500 (helixPoint T r.1))

/-- `self.parametric(function, length)` after a set-up that may have raised -/
def thenParametric (T : Trig K) (res : K) (a : Option ((K → V3 K) × K)) : Option (List (V3 K)) :=
  a.bind fun fl => parametricM T res fl.1 fl.2

/-- a target that is shorter than three components has no `z` (`len(target) > 2` is false), and the scalar type
    satisfies the two laws that make the model's `t.z - o.z` vanish there -/
def Flat (target : PL K) (len : Nat) : Prop :=
  2 < len ∨ (target.z = none ∧ (∀ a : K, a - a = 0) ∧ (∀ a : K, a + 0 = a))

theorem Flat.of_laws {target : PL K} {len : Nat} (hlen : len ≤ 2 → target.z = none)
    (h1 : ∀ a : K, a - a = 0) (h2 : ∀ a : K, a + 0 = a) : Flat target len := by
  by_cases h : 2 < len
  · exact Or.inl h
  · exact Or.inr ⟨hlen (by omega), h1, h2⟩

/-! ### helper lemmas -/

theorem point_add (a b : V3 K) : Point.add a b = V3.add a b := rfl
theorem point_sub (a b : V3 K) : Point.sub a b = V3.sub a b := rfl

theorem normRows_diff (sqrt : K → K) : ∀ pts : List (V3 K), npNormRows sqrt (npDiff pts) = distances sqrt pts
  | [] => rfl
  | [_] => rfl
  | p :: q :: rest => by
    have ih := normRows_diff sqrt (q :: rest)
    simp only [npNormRows] at ih
    simp only [npDiff, npNormRows, List.map_cons, distances, dist3, V3.sub, ih]

theorem npMask_eq {α : Type} : ∀ (ps : List α) (bs : List Bool), npMask ps bs = applyMask ps bs
  | [], _ => by simp [npMask, applyMask]
  | _ :: _, [] => by simp [npMask, applyMask]
  | p :: ps, b :: bs => by simp [npMask, applyMask, npMask_eq ps bs]

/-- the loop of `to_absolute_list`, relative branch -/
theorem abs_list_rel (ps : List (PL K)) : ∀ (cur : V3 K) (acc : List (V3 K)),
    (List.foldl (fun (s : V3 K × List (V3 K)) (x : PL K) =>
        (V3.add s.1 (PL.resolve x), s.2 ++ [V3.add s.1 (PL.resolve x)])) (cur, acc) ps).2
      = acc ++ toAbsoluteList true cur ps := by
  induction ps with
  | nil => intro cur acc; simp [toAbsoluteList]
  | cons p ps ih => intro cur acc; simp [toAbsoluteList, ih]

/-- the loop of `to_absolute_list`, absolute branch -/
theorem abs_list_abs (ps : List (PL K)) : ∀ (cur : V3 K) (acc : List (V3 K)),
    (List.foldl (fun (s : V3 K × List (V3 K)) (x : PL K) =>
        (PL.replaceIn s.1 x, s.2 ++ [PL.replaceIn s.1 x])) (cur, acc) ps).2
      = acc ++ toAbsoluteList false cur ps := by
  induction ps with
  | nil => intro cur acc; simp [toAbsoluteList]
  | cons p ps ih => intro cur acc; simp [toAbsoluteList, ih]

/-- the loop of `_filter_segments`: after the distances already visited (`pre`, one decision each) the mask still holds
    `true` for the others; the loop over `enumerate(distances[:-1])` writes exactly `filterGo` -/
theorem filter_loop (res tol : K) : ∀ (ds : List K) (rem : K) (pre : List Bool),
    (List.foldl (fun (s : K × List Bool) (x : Nat × K) =>
        if s.1 - x.2 < tol then (res, s.2) else (s.1 - x.2, List.set s.2 x.1 false))
      (rem, pre ++ List.replicate ds.length true) (pyEnumFrom pre.length ds.dropLast)).2
      = pre ++ filterGo res tol rem ds
  | [], rem, pre => by simp [pyEnumFrom, filterGo]
  | [_], rem, pre => by simp [pyEnumFrom, filterGo]
  | d :: d' :: ds, rem, pre => by
    have e1 : pre ++ List.replicate (d :: d' :: ds).length true
        = (pre ++ [true]) ++ List.replicate (d' :: ds).length true := by
      simp [List.replicate_succ]
    have e2 : List.set (pre ++ List.replicate (d :: d' :: ds).length true) pre.length false
        = (pre ++ [false]) ++ List.replicate (d' :: ds).length true := by
      simp [List.replicate_succ]
    have l1 : pre.length + 1 = (pre ++ [true]).length := by simp
    have l2 : pre.length + 1 = (pre ++ [false]).length := by simp
    simp only [List.dropLast_cons_cons, pyEnumFrom, List.foldl_cons, filterGo]
    split
    · rw [e1, l1, filter_loop res tol (d' :: ds) res (pre ++ [true])]; simp
    · rw [e2, l2, filter_loop res tol (d' :: ds) (rem - d) (pre ++ [false])]; simp

theorem linspace_tail (T : Trig K) (n : Nat) : List.drop 1 (npLinspace01 T (n + 1)) = thetas T n := by
  simp [npLinspace01, thetas, theta, List.range_succ_eq_map]

theorem linspace_theta (T : Trig K) (n : Nat) (f : K → V3 K) :
    List.map f (npLinspace01 T n) = (List.range n).map fun i => f (theta T (n - 1) i) := by
  simp [npLinspace01, theta]

end
end GscribModel.TracerTie
open GscribModel.TracerTie

section
variable {K : Type} [Add K] [Sub K] [Mul K] [Div K] [Neg K] [LE K] [LT K] [DecidableLE K] [DecidableLT K]
  [OfNat K 0] [OfNat K 1] [OfNat K 2] [OfNat K 10]

/-! ## (a) `Direction` -/

theorem TracerTie_enforce (T : Trig K) (cw : Bool) (a : K) : Direction.enforce T cw a = enforce T cw a := by
  cases cw <;> rfl

theorem TracerTie_full_turn (T : Trig K) (cw : Bool) : Direction.full_turn T cw = fullTurn T cw := rfl

/-! ## `Point.__add__`, `Point.__sub__` on resolved points -/

theorem TracerTie_point_add (a b : V3 K) : Point.add a b = V3.add a b := rfl
theorem TracerTie_point_sub (a b : V3 K) : Point.sub a b = V3.sub a b := rfl

/-! ## (b) `GCodeCore.to_absolute`, `to_absolute_list`, `to_distance_mode` — `axes` is `self._current_axes`, whose
       `resolve()` is the model's start point -/

theorem TracerTie_to_absolute (rel : Bool) (axes p : PL K) :
    GCodeCore.to_absolute rel axes p = toAbsolute rel axes.resolve p := rfl

theorem TracerTie_to_absolute_list (rel : Bool) (axes : PL K) (ps : List (PL K)) :
    GCodeCore.to_absolute_list rel axes ps = toAbsoluteList rel axes.resolve ps := by
  cases rel
  · have h := abs_list_abs ps axes.resolve []
    simpa [GCodeCore.to_absolute_list] using h
  · have h := abs_list_rel ps axes.resolve []
    simpa [GCodeCore.to_absolute_list, point_add] using h

theorem TracerTie_to_distance_mode (rel : Bool) (axes p : PL K) :
    GCodeCore.to_distance_mode rel axes p = toDistanceMode rel axes.resolve p.resolve := rfl

/-! ## (c) `_filter_segments` -/

theorem TracerTie_filter_segments (T : Trig K) (d r : Bool) (pos : PL K) (res : K) (pts : List (V3 K)) :
    PathTracer._filter_segments T d r pos res pts = filterSegments T.sqrt res pts := by
  cases pts with
  | nil => simp [PathTracer._filter_segments, filterSegments, keepPoints, npSize]
  | cons p ps =>
    have hsz : ¬ npSize (p :: ps) < 3 := by simp only [npSize, List.length_cons]; omega
    have h := filter_loop res (res / (10 : K)) (distances T.sqrt (p :: ps)) res []
    simp only [List.nil_append, List.length_nil] at h
    simp only [PathTracer._filter_segments, hsz, if_false, filterSegments, keepPoints, filterMask, normRows_diff,
      pyEnumerate, npRow, List.getD_cons_zero, List.drop_succ_cons, List.drop_zero, npMask_eq]
    rw [← h]

/-! ## (e) `estimate_length`, `parametric` (`_num_segments`, the `thetas` grid, the filter) -/

theorem TracerTie_estimate_length (T : Trig K) (d r : Bool) (pos : PL K) (res : K) (samples : Nat) (f : K → V3 K) :
    PathTracer.estimate_length T d r pos res (samples : Int) f = estimateLength T samples f := by
  simp only [PathTracer.estimate_length, estimateLength, Int.toNat_natCast, normRows_diff, linspace_theta, npSum]

theorem TracerTie_parametric (T : Trig K) (d r : Bool) (pos : PL K) (res : K) (f : K → V3 K) (len : K) :
    PathTracer.parametric T d r pos res f len = parametricM T res f len := by
  simp only [PathTracer.parametric, parametricM, TracerTie_filter_segments, linspace_tail, numSegments, List.map_id']

end

/-! ## (d) the set-up arithmetic of `arc`, `circle`, `helix`, `thread`, `spiral` -/

namespace GscribModel.TracerTie
section
variable {K : Type} [Add K] [Sub K] [Mul K] [Div K] [Neg K] [LE K] [LT K] [DecidableLE K] [DecidableLT K]
  [OfNat K 0] [OfNat K 1] [OfNat K 2] [OfNat K 10]

/-- a target without `z` ends at the height it started from -/
theorem flat_height (rel : Bool) (o : V3 K) (target : PL K) (hz : target.z = none)
    (h1 : ∀ a : K, a - a = 0) (h2 : ∀ a : K, a + 0 = a) : (toAbsolute rel o target).z - o.z = 0 := by
  cases rel <;> simp [toAbsolute, PL.replaceIn, PL.resolve, V3.add, hz, h1, h2]

/-- `height = t.z - o.z if len(target) > 2 else 0` is the model's `t.z - o.z` -/
theorem height_eq (rel : Bool) (o : V3 K) (target : PL K) (len : Nat) (h : Flat target len) :
    (if 2 < len then (toAbsolute rel o target).z - o.z else (0 : K)) = (toAbsolute rel o target).z - o.z := by
  by_cases hl : 2 < len
  · simp [hl]
  · rcases h with h | ⟨hz, h1, h2⟩
    · exact absurd h hl
    · simp [hl, flat_height rel o target hz h1 h2]

end
end GscribModel.TracerTie

section
variable {K : Type} [Add K] [Sub K] [Mul K] [Div K] [Neg K] [LE K] [LT K] [DecidableLE K] [DecidableLT K]
  [OfNat K 0] [OfNat K 1] [OfNat K 2] [OfNat K 10]

theorem TracerTie_arc [OfScientific K] (T : Trig K) (cw rel : Bool) (pos : PL K) (res : K) (target : PL K) (len : Nat)
    (center : PL K) (h : Flat target len) :
    PathTracer.arc_args T cw rel pos res target len center = arcArgsM T (traceArc T cw rel pos.resolve target center) := by
  have hh := height_eq rel pos.resolve target len h
  simp only [PathTracer.arc_args, arcArgsM, traceArc, arcOf, arcTargetRadius, arcPoint, arcLength, npIsClose, point_add, point_sub,
    TracerTie_to_absolute, TracerTie_enforce, V3.sub, V3.add, hh]
  split <;> rename_i hc <;> simp only [Bool.not_eq_true', Bool.not_eq_false, Bool.not_eq_eq_eq_not, Bool.not_true, Bool.not_false] at hc <;> simp only [hc] <;> rfl

theorem TracerTie_circle [OfScientific K] (T : Trig K) (cw rel : Bool) (pos : PL K) (res : K) (center : PL K) :
    PathTracer.circle_args T cw rel pos res center = arcArgsM T (traceCircle T cw rel pos.resolve center) :=
  TracerTie_arc T cw rel pos res _ 3 center (Or.inl (by decide))

theorem TracerTie_helix (T : Trig K) (cw rel : Bool) (pos : PL K) (res : K) (target : PL K) (len : Nat)
    (center : PL K) (turns : Int) (h : Flat target len) :
    PathTracer.helix_args T cw rel pos res target len center turns
      = if turns ≤ 0 then none else some (helixArgsM T (traceHelix T cw rel pos.resolve target center turns.toNat)) := by
  have hh := height_eq rel pos.resolve target len h
  have ht : (turns - 1).toNat = turns.toNat - 1 := by omega
  have he : ∀ f, PathTracer.estimate_length T cw rel pos res (500 : Int) f = estimateLength T 500 f :=
    fun f => TracerTie_estimate_length T cw rel pos res 500 f
  simp only [PathTracer.helix_args, helixArgsM, traceHelix, helixOf, helixPoint, point_add, point_sub, TracerTie_to_absolute,
    TracerTie_enforce, TracerTie_full_turn, V3.sub, V3.add, hh, ofInt, ht, he]
  rfl

/-- `thread` hands the model's centre (`threadCentre`, relative to the current position) and the model's number of
    turns (`threadTurns`) to `helix` — for every target, no law needed -/
theorem TracerTie_thread_centre (T : Trig K) (cw rel : Bool) (pos : PL K) (res : K) (target : PL K) (len : Nat) (pitch : K) :
    PathTracer.thread_args T cw rel pos res target len pitch
      = if pitch ≤ 0 then none
        else PathTracer.helix_args T cw rel pos res target len
          (threadCentre pos.resolve (toAbsolute rel pos.resolve target))
          (Int.ofNat (threadTurns T pos.resolve (toAbsolute rel pos.resolve target) pitch)) := rfl

theorem TracerTie_thread (T : Trig K) (cw rel : Bool) (pos : PL K) (res : K) (target : PL K) (len : Nat) (pitch : K)
    (h : Flat target len) :
    PathTracer.thread_args T cw rel pos res target len pitch
      = if pitch ≤ 0 then none else some (helixArgsM T (traceThread T cw rel pos.resolve target pitch)) := by
  have hn : ∀ n : Nat, ¬ (Int.ofNat (max 1 n) ≤ 0) := by intro n; simp only [Int.ofNat_eq_natCast]; omega
  have hm : ∀ n : Nat, (Int.ofNat n).toNat = n := fun n => Int.toNat_natCast n
  simp only [PathTracer.thread_args, TracerTie_helix T cw rel pos res target len _ _ h, hn, hm, if_false,
    traceThread, threadCentre, threadTurns, pyAbs, TracerTie_to_absolute]

theorem TracerTie_spiral (T : Trig K) (cw rel : Bool) (pos : PL K) (res : K) (target : PL K) (len : Nat) (turns : Int)
    (h : Flat target len) :
    PathTracer.spiral_args T cw rel pos res target len turns
      = if turns ≤ 0 then none else some (helixArgsM T (traceSpiral T cw rel pos.resolve target turns.toNat)) := by
  simp only [PathTracer.spiral_args, TracerTie_helix T cw rel pos res target len _ _ h, traceSpiral]

/-! ## the whole path: from the call to the vertices handed to `move` (`none` = `ValueError`) -/

theorem TracerTie_arc_path [OfScientific K] (T : Trig K) (cw rel : Bool) (pos : PL K) (res : K) (target : PL K) (len : Nat)
    (center : PL K) (h : Flat target len) :
    PathTracer.arc T cw rel pos res target len center
      = thenParametric T res (arcArgsM T (traceArc T cw rel pos.resolve target center)) := by
  rw [← TracerTie_arc T cw rel pos res target len center h]
  simp only [PathTracer.arc, PathTracer.arc_args, thenParametric, TracerTie_parametric]
  split <;> rfl

theorem TracerTie_circle_path [OfScientific K] (T : Trig K) (cw rel : Bool) (pos : PL K) (res : K) (center : PL K) :
    PathTracer.circle T cw rel pos res center
      = thenParametric T res (arcArgsM T (traceCircle T cw rel pos.resolve center)) :=
  TracerTie_arc_path T cw rel pos res _ 3 center (Or.inl (by decide))

theorem TracerTie_helix_path (T : Trig K) (cw rel : Bool) (pos : PL K) (res : K) (target : PL K) (len : Nat)
    (center : PL K) (turns : Int) (h : Flat target len) :
    PathTracer.helix T cw rel pos res target len center turns
      = if turns ≤ 0 then none
        else thenParametric T res (some (helixArgsM T (traceHelix T cw rel pos.resolve target center turns.toNat))) := by
  have e : PathTracer.helix T cw rel pos res target len center turns
      = thenParametric T res (PathTracer.helix_args T cw rel pos res target len center turns) := by
    simp only [PathTracer.helix, PathTracer.helix_args, thenParametric, TracerTie_parametric]
    split <;> simp only [Option.bind_none, Option.bind_some]
  rw [e, TracerTie_helix T cw rel pos res target len center turns h]
  split <;> rfl

theorem TracerTie_thread_path (T : Trig K) (cw rel : Bool) (pos : PL K) (res : K) (target : PL K) (len : Nat) (pitch : K)
    (h : Flat target len) :
    PathTracer.thread T cw rel pos res target len pitch
      = if pitch ≤ 0 then none
        else thenParametric T res (some (helixArgsM T (traceThread T cw rel pos.resolve target pitch))) := by
  have hn : ∀ n : Nat, ¬ (Int.ofNat (max 1 n) ≤ 0) := by intro n; simp only [Int.ofNat_eq_natCast]; omega
  have hm : ∀ n : Nat, (Int.ofNat n).toNat = n := fun n => Int.toNat_natCast n
  simp only [PathTracer.thread, TracerTie_helix_path T cw rel pos res target len _ _ h, hn, hm, if_false,
    traceThread, threadCentre, threadTurns, pyAbs, TracerTie_to_absolute]

theorem TracerTie_spiral_path (T : Trig K) (cw rel : Bool) (pos : PL K) (res : K) (target : PL K) (len : Nat) (turns : Int)
    (h : Flat target len) :
    PathTracer.spiral T cw rel pos res target len turns
      = if turns ≤ 0 then none
        else thenParametric T res (some (helixArgsM T (traceSpiral T cw rel pos.resolve target turns.toNat))) := by
  simp only [PathTracer.spiral, TracerTie_helix_path T cw rel pos res target len _ _ h, traceSpiral]
end


/-! ## (f) the move loop of `parametric` and `polyline`; `arc_radius`; `spline`

`self._g.move(p, **kwargs)` is not translated here (it is the builder's: `Props/MotionTie.lean`, `MotionTie_move`).  What the
tracer needs of it is a parameter of the translated functions, `moveEffect pos p` = `self._g.position` after the call, and
the theorems assume about it exactly what the builder tie establishes for a point with three numbers under the identity
transform - **the position becomes `to_absolute(p)`** (`MoveAdvances`) - plus, in relative mode only, the law
`a + (b - a) = b` of the scalar type (every ring; `Float` only up to rounding), which is what makes the model's
"the position follows the vertex just emitted" true.  `np.copysign` and scipy's `CubicSpline` are parameters too. -/

namespace GscribModel.TracerTie
section
variable {K : Type} [Add K] [Sub K] [Mul K] [Div K] [Neg K] [LE K] [LT K] [DecidableLE K] [DecidableLT K]
  [OfNat K 0] [OfNat K 1] [OfNat K 2] [OfNat K 10]

/-- what `GCodeCore.move` does to the position (`_transform_move`: `target_axes = self.to_absolute(point)`,
    `_update_axes`: `self._current_axes = axes`), as far as `resolve()` can see -/
def MoveAdvances (rel : Bool) (moveEffect : PL K → V3 K → PL K) : Prop :=
  ∀ (pos : PL K) (w : V3 K), (moveEffect pos w).resolve = toAbsolute rel pos.resolve w.toPL

/-- the law that lets a relative move land on the vertex it was computed for -/
def RelLaw (K : Type) [Add K] [Sub K] (rel : Bool) : Prop := rel = true → ∀ a b : K, a + (b - a) = b

/-- a move by the words computed for the vertex `v` reaches `v` -/
def Reaches (rel : Bool) (moveEffect : PL K → V3 K → PL K) : Prop :=
  ∀ (pos : PL K) (v : V3 K), (moveEffect pos (toDistanceMode rel pos.resolve v)).resolve = v

theorem Reaches.of_advances {rel : Bool} {me : PL K → V3 K → PL K} (h : MoveAdvances rel me) (hlaw : RelLaw K rel) :
    Reaches rel me := by
  intro pos v
  rw [h]
  cases rel
  · rfl
  · have l := hlaw rfl
    simp only [toAbsolute, toDistanceMode, V3.add, V3.sub, PL.resolve, V3.toPL, if_true, Option.getD_some, l]

/-- the loop `for point in vs: point = to_distance_mode(point); move(point)` writes the model's `emitMoves` -/
theorem move_loop (rel : Bool) (me : PL K → V3 K → PL K) (h : Reaches rel me) :
    ∀ (vs : List (V3 K)) (pos : PL K) (acc : List (V3 K)),
    (List.foldl (fun (s : PL K × List (V3 K)) (x : V3 K) =>
        (me s.1 (GCodeCore.to_distance_mode rel s.1 (V3.toPL x)), s.2 ++ [GCodeCore.to_distance_mode rel s.1 (V3.toPL x)]))
      (pos, acc) vs).2 = acc ++ emitMoves rel pos.resolve vs
  | [], pos, acc => by simp [emitMoves]
  | v :: vs, pos, acc => by
    have e : GCodeCore.to_distance_mode rel pos (V3.toPL v) = toDistanceMode rel pos.resolve v := rfl
    simp only [List.foldl_cons, e]
    rw [move_loop rel me h vs, h pos v]
    simp [emitMoves]

/-- `parametric(function, length)`, the whole method: the words of the emitted moves -/
def parametricMovesM (T : Trig K) (rel : Bool) (res : K) (o : V3 K) (f : K → V3 K) (len : K) : Option (List (V3 K)) :=
  if len ≤ (0 : K) then none
  else some (emitParametric T.sqrt rel res o ((thetas T (numSegments T len res)).map f))

theorem parametricMovesM_eq (T : Trig K) (rel : Bool) (res : K) (o : V3 K) (f : K → V3 K) (len : K) :
    parametricMovesM T rel res o f len = (parametricM T res f len).map (emitMoves rel o) := by
  simp only [parametricMovesM, parametricM, emitParametric]
  split <;> rfl

/-- `self.parametric(function, length)` (the whole method) after a set-up that may have raised -/
def thenMoves (T : Trig K) (rel : Bool) (res : K) (o : V3 K) (a : Option ((K → V3 K) × K)) : Option (List (V3 K)) :=
  a.bind fun fl => parametricMovesM T rel res o fl.1 fl.2

/-! ### `arc_radius` -/

/-- `arc_radius` in the model's words: the radius is validated / snapped (`radiusResolve`, tolerance `0.01`), the centre
    is `radiusCentreRel`, then `arc` -/
def arcRadiusArgsM [OfScientific K] (T : Trig K) (copysign : K → K → K) (cw rel : Bool) (o : V3 K) (target : PL K)
    (radius : K) : Option ((K → V3 K) × K) :=
  (radiusResolve T (0.01 : K) copysign o (toAbsolute rel o target) radius).bind fun r =>
    arcArgsM T (traceArc T cw rel o target (radiusCentreRel T cw o (toAbsolute rel o target) r))

/-- the shape of the radius validation of `arc_radius`: `if c1: (if c2: radius = a else: raise)`, then the rest `g` -/
theorem resolve_cases {α : Type} (c1 : Bool) (c2 : Prop) [Decidable c2] (a r : K) (g : K → Option α) :
    (if c1 = true then (if c2 then g a else none) else g r)
      = (if c1 = true then (if c2 then some a else none) else some r).bind g := by
  cases c1
  · rfl
  · by_cases h : c2 <;> simp [h]

/-- the same with the test inverted: `if c1: (if not c2: raise); radius = a` -/
theorem resolve_cases' {α : Type} (c1 : Bool) (c2 : Prop) [Decidable c2] (a r : K) (g : K → Option α) :
    (if c1 = true then (if (!decide c2) = true then none else g a) else g r)
      = (if c1 = true then (if c2 then some a else none) else some r).bind g := by
  cases c1
  · rfl
  · by_cases h : c2 <;> simp [h]

/-! ### `spline` -/

/-- float `==` written with the order (`pyEq`) is equality: holds in every linear order (`ℚ`, `ℝ`), and for doubles
    that are not NaN up to the identification of `-0.0` with `0.0` -/
def EqLaw (K : Type) [LT K] [DecidableLT K] : Prop := ∀ a b : K, pyEq a b = true ↔ a = b

theorem pyEqV3_iff (h : EqLaw K) (p q : V3 K) : pyEqV3 p q = true ↔ p = q := by
  cases p; cases q
  simp only [pyEqV3, Bool.and_eq_true, h _ _, V3.mk.injEq, and_assoc]

/-- `np.linspace(0, 1, n)` as the model's `theta` grid -/
def splineGrid (T : Trig K) (n : Nat) : List K := (List.range n).map fun i => theta T (n - 1) i

/-- `spline_function` for given control points; `cs x y` is scipy's `CubicSpline(x, y)` as a function of `θ` -/
def splineFnM (T : Trig K) (cs : List K → List K → K → K) (controls : List (V3 K)) : K → V3 K :=
  fun θ => ⟨cs (splineGrid T controls.length) (controls.map (·.x)) θ,
            cs (splineGrid T controls.length) (controls.map (·.y)) θ,
            cs (splineGrid T controls.length) (controls.map (·.z)) θ⟩

/-- `spline` up to its final call, in the model's words -/
def splineArgsM [DecidableEq K] (T : Trig K) (cs : List K → List K → K → K) (rel : Bool) (o : V3 K) (targets : List (PL K)) :
    Option ((K → V3 K) × K) :=
  if (splineControls rel o targets).length < 2 then none
  else some (splineFnM T cs (splineControls rel o targets),
             estimateLength T 500 (splineFnM T cs (splineControls rel o targets)))

/-- one round of the duplicate-removal loop of `spline` -/
def controlStep (cs : List (V3 K)) (p : V3 K) : List (V3 K) := if pyEqV3 p (pyLast cs) = true then cs else cs ++ [p]

/-- `if point != controls[-1]: controls.append(point)` -/
theorem controlStep_ne (cs : List (V3 K)) (p : V3 K) :
    (if (!pyEqV3 p (pyLast cs)) = true then cs ++ [p] else cs) = controlStep cs p := by
  unfold controlStep; cases pyEqV3 p (pyLast cs) <;> rfl

/-- `if point == controls[-1]: continue` … `controls.append(point)` -/
theorem controlStep_eq (cs : List (V3 K)) (p : V3 K) :
    (if pyEqV3 p (pyLast cs) = true then cs else cs ++ [p]) = controlStep cs p := rfl

/-- the duplicate-removal loop of `spline` -/
theorem controls_loop [DecidableEq K] (h : EqLaw K) : ∀ (pts pre : List (V3 K)) (last : V3 K),
    List.foldl controlStep (pre ++ [last]) pts = pre ++ last :: splineControls.go last pts
  | [], pre, last => by simp [splineControls.go]
  | p :: pts, pre, last => by
    have hl : pyLast (pre ++ [last]) = last := by simp [pyLast]
    simp only [List.foldl_cons, controlStep, hl]
    by_cases e : p = last
    · have hp : pyEqV3 p last = true := (pyEqV3_iff h p last).2 e
      simp only [hp, if_true]
      rw [controls_loop h pts pre last]
      simp [splineControls.go, e]
    · have hp : pyEqV3 p last = false := by
        cases hh : pyEqV3 p last
        · rfl
        · exact absurd ((pyEqV3_iff h p last).1 hh) e
      simp only [hp, Bool.false_eq_true, if_false]
      rw [controls_loop h pts (pre ++ [last]) p]
      simp [splineControls.go, e]

end
end GscribModel.TracerTie

open GscribModel.TracerTie

section
variable {K : Type} [Add K] [Sub K] [Mul K] [Div K] [Neg K] [LE K] [LT K] [DecidableLE K] [DecidableLT K]
  [OfNat K 0] [OfNat K 1] [OfNat K 2] [OfNat K 10]

/-! ### the move loop (`parametric`, `polyline`) -/

theorem TracerTie_emit_moves (T : Trig K) (me : PL K → V3 K → PL K) (d rel : Bool) (pos : PL K) (res : K) (f : K → V3 K) (len : K)
    (hmove : MoveAdvances rel me) (hlaw : RelLaw K rel) :
    PathTracer.parametric_moves me T d rel pos res f len = parametricMovesM T rel res pos.resolve f len := by
  have h := move_loop rel me (Reaches.of_advances hmove hlaw)
  simp only [PathTracer.parametric_moves, parametricMovesM, emitParametric, TracerTie_filter_segments, linspace_tail, numSegments, List.map_id']
  split
  · rfl
  · exact congrArg some (by simpa using h _ pos [])

theorem TracerTie_polyline (T : Trig K) (me : PL K → V3 K → PL K) (d rel : Bool) (pos : PL K) (res : K) (targets : List (PL K))
    (hmove : MoveAdvances rel me) (hlaw : RelLaw K rel) :
    PathTracer.polyline_moves me T d rel pos res targets = emitPolyline rel pos.resolve targets := by
  have h := move_loop rel me (Reaches.of_advances hmove hlaw) (toAbsoluteList rel pos.resolve targets) pos []
  simp only [PathTracer.polyline_moves, emitPolyline, TracerTie_to_absolute_list]
  simpa using h

theorem TracerTie_polyline_vertices (T : Trig K) (d rel : Bool) (pos : PL K) (res : K) (targets : List (PL K)) :
    PathTracer.polyline T d rel pos res targets = toAbsoluteList rel pos.resolve targets :=
  TracerTie_to_absolute_list rel pos targets


/-! ### `arc_radius` -/

theorem TracerTie_arc_radius_centre [OfScientific K] (T : Trig K) (cs : K → K → K) (cw rel : Bool) (pos : PL K) (res : K)
    (target : PL K) (len : Nat) (radius : K) :
    PathTracer.arc_radius_args cs T cw rel pos res target len radius
      = (radiusResolve T (0.01 : K) cs pos.resolve (toAbsolute rel pos.resolve target) radius).bind fun r =>
          PathTracer.arc_args T cw rel pos res target len (radiusCentreRel T cw pos.resolve (toAbsolute rel pos.resolve target) r) :=
  let o := pos.resolve
  let t := toAbsolute rel o target
  let dist := T.hypot (t.x - o.x) (t.y - o.y)
  by first
    | exact resolve_cases ((!decide (radius < 0) && !decide (0 < radius)) || decide (absK radius < dist / 2))
          (absK (absK radius - dist / 2) ≤ (0.01 : K)) (cs (dist / 2) radius) radius
          (fun r => PathTracer.arc_args T cw rel pos res target len (radiusCentreRel T cw o t r))
    | exact resolve_cases' ((!decide (radius < 0) && !decide (0 < radius)) || decide (absK radius < dist / 2))
          (absK (absK radius - dist / 2) ≤ (0.01 : K)) (cs (dist / 2) radius) radius
          (fun r => PathTracer.arc_args T cw rel pos res target len (radiusCentreRel T cw o t r))

theorem TracerTie_arc_radius [OfScientific K] (T : Trig K) (cs : K → K → K) (cw rel : Bool) (pos : PL K) (res : K)
    (target : PL K) (len : Nat) (radius : K) (h : Flat target len) :
    PathTracer.arc_radius_args cs T cw rel pos res target len radius
      = arcRadiusArgsM T cs cw rel pos.resolve target radius := by
  simp only [TracerTie_arc_radius_centre, arcRadiusArgsM, TracerTie_arc T cw rel pos res target len _ h]

theorem TracerTie_arc_radius_path [OfScientific K] (T : Trig K) (cs : K → K → K) (cw rel : Bool) (pos : PL K) (res : K)
    (target : PL K) (len : Nat) (radius : K) (h : Flat target len) :
    PathTracer.arc_radius cs T cw rel pos res target len radius
      = thenParametric T res (arcRadiusArgsM T cs cw rel pos.resolve target radius) := by
  have e : PathTracer.arc_radius cs T cw rel pos res target len radius
      = (radiusResolve T (0.01 : K) cs pos.resolve (toAbsolute rel pos.resolve target) radius).bind fun r =>
          PathTracer.arc T cw rel pos res target len (radiusCentreRel T cw pos.resolve (toAbsolute rel pos.resolve target) r) :=
    let o := pos.resolve
    let t := toAbsolute rel o target
    let dist := T.hypot (t.x - o.x) (t.y - o.y)
    by first
      | exact resolve_cases ((!decide (radius < 0) && !decide (0 < radius)) || decide (absK radius < dist / 2))
            (absK (absK radius - dist / 2) ≤ (0.01 : K)) (cs (dist / 2) radius) radius
            (fun r => PathTracer.arc T cw rel pos res target len (radiusCentreRel T cw o t r))
      | exact resolve_cases' ((!decide (radius < 0) && !decide (0 < radius)) || decide (absK radius < dist / 2))
            (absK (absK radius - dist / 2) ≤ (0.01 : K)) (cs (dist / 2) radius) radius
            (fun r => PathTracer.arc T cw rel pos res target len (radiusCentreRel T cw o t r))
  rw [e]
  simp only [arcRadiusArgsM, thenParametric, TracerTie_arc_path T cw rel pos res target len _ h]
  cases radiusResolve T (0.01 : K) cs pos.resolve (toAbsolute rel pos.resolve target) radius <;> rfl


/-! ### `spline`: the control points and the function handed to `parametric`; the whole path -/

theorem TracerTie_spline_controls [DecidableEq K] (T : Trig K) (cs : List K → List K → K → K) (d rel : Bool) (pos : PL K) (res : K)
    (targets : List (PL K)) (heq : EqLaw K) :
    PathTracer.spline_args cs T d rel pos res targets = splineArgsM T cs rel pos.resolve targets := by
  have hc := controls_loop heq (toAbsoluteList rel pos.resolve targets) [] pos.resolve
  have he : ∀ f, PathTracer.estimate_length T d rel pos res (500 : Int) f = estimateLength T 500 f :=
    fun f => TracerTie_estimate_length T d rel pos res 500 f
  have hg : ∀ n, npLinspace01 T n = splineGrid T n := fun n => rfl
  have hc' : List.foldl controlStep [pos.resolve] (toAbsoluteList rel pos.resolve targets)
      = splineControls rel pos.resolve targets := hc
  have hf : (fun (cs : List (V3 K)) (p : V3 K) => controlStep cs p) = controlStep := rfl
  simp only [PathTracer.spline_args, splineArgsM, TracerTie_to_absolute_list, controlStep_ne, controlStep_eq, hf, hc', he, hg]
  split <;> rfl

theorem TracerTie_spline_vertices [DecidableEq K] (T : Trig K) (cs : List K → List K → K → K) (d rel : Bool) (pos : PL K) (res : K)
    (targets : List (PL K)) (heq : EqLaw K) :
    PathTracer.spline cs T d rel pos res targets = thenParametric T res (splineArgsM T cs rel pos.resolve targets) := by
  have e : PathTracer.spline cs T d rel pos res targets
      = thenParametric T res (PathTracer.spline_args cs T d rel pos res targets) := by
    simp only [PathTracer.spline, PathTracer.spline_args, thenParametric, TracerTie_parametric]
    split <;> simp only [Option.bind_none, Option.bind_some]
  rw [e, TracerTie_spline_controls T cs d rel pos res targets heq]

theorem TracerTie_spline_path [DecidableEq K] (T : Trig K) (cs : List K → List K → K → K) (me : PL K → V3 K → PL K) (d rel : Bool)
    (pos : PL K) (res : K) (targets : List (PL K)) (heq : EqLaw K) (hmove : MoveAdvances rel me) (hlaw : RelLaw K rel) :
    PathTracer.spline_moves cs me T d rel pos res targets
      = thenMoves T rel res pos.resolve (splineArgsM T cs rel pos.resolve targets) := by
  have e : PathTracer.spline_moves cs me T d rel pos res targets
      = thenMoves T rel res pos.resolve (PathTracer.spline_args cs T d rel pos res targets) := by
    simp only [PathTracer.spline_moves, PathTracer.spline_args, thenMoves, TracerTie_emit_moves T me d rel pos res _ _ hmove hlaw]
    split <;> simp only [Option.bind_none, Option.bind_some]
  rw [e, TracerTie_spline_controls T cs d rel pos res targets heq]

/-! ### the other shapes, all the way to the moves -/

theorem TracerTie_arc_moves [OfScientific K] (T : Trig K) (me : PL K → V3 K → PL K) (cw rel : Bool) (pos : PL K) (res : K)
    (target : PL K) (len : Nat) (center : PL K) (h : Flat target len) (hmove : MoveAdvances rel me) (hlaw : RelLaw K rel) :
    PathTracer.arc_moves me T cw rel pos res target len center
      = thenMoves T rel res pos.resolve (arcArgsM T (traceArc T cw rel pos.resolve target center)) := by
  rw [← TracerTie_arc T cw rel pos res target len center h]
  simp only [PathTracer.arc_moves, PathTracer.arc_args, thenMoves, TracerTie_emit_moves T me cw rel pos res _ _ hmove hlaw]
  split <;> rfl

theorem TracerTie_circle_moves [OfScientific K] (T : Trig K) (me : PL K → V3 K → PL K) (cw rel : Bool) (pos : PL K) (res : K)
    (center : PL K) (hmove : MoveAdvances rel me) (hlaw : RelLaw K rel) :
    PathTracer.circle_moves me T cw rel pos res center
      = thenMoves T rel res pos.resolve (arcArgsM T (traceCircle T cw rel pos.resolve center)) :=
  TracerTie_arc_moves T me cw rel pos res _ 3 center (Or.inl (by decide)) hmove hlaw

theorem TracerTie_arc_radius_moves [OfScientific K] (T : Trig K) (cs : K → K → K) (me : PL K → V3 K → PL K) (cw rel : Bool)
    (pos : PL K) (res : K) (target : PL K) (len : Nat) (radius : K) (h : Flat target len)
    (hmove : MoveAdvances rel me) (hlaw : RelLaw K rel) :
    PathTracer.arc_radius_moves cs me T cw rel pos res target len radius
      = thenMoves T rel res pos.resolve (arcRadiusArgsM T cs cw rel pos.resolve target radius) := by
  have e : PathTracer.arc_radius_moves cs me T cw rel pos res target len radius
      = (radiusResolve T (0.01 : K) cs pos.resolve (toAbsolute rel pos.resolve target) radius).bind fun r =>
          PathTracer.arc_moves me T cw rel pos res target len (radiusCentreRel T cw pos.resolve (toAbsolute rel pos.resolve target) r) :=
    let o := pos.resolve
    let t := toAbsolute rel o target
    let dist := T.hypot (t.x - o.x) (t.y - o.y)
    by first
      | exact resolve_cases ((!decide (radius < 0) && !decide (0 < radius)) || decide (absK radius < dist / 2))
            (absK (absK radius - dist / 2) ≤ (0.01 : K)) (cs (dist / 2) radius) radius
            (fun r => PathTracer.arc_moves me T cw rel pos res target len (radiusCentreRel T cw o t r))
      | exact resolve_cases' ((!decide (radius < 0) && !decide (0 < radius)) || decide (absK radius < dist / 2))
            (absK (absK radius - dist / 2) ≤ (0.01 : K)) (cs (dist / 2) radius) radius
            (fun r => PathTracer.arc_moves me T cw rel pos res target len (radiusCentreRel T cw o t r))
  rw [e]
  simp only [arcRadiusArgsM, thenMoves, TracerTie_arc_moves T me cw rel pos res target len _ h hmove hlaw]
  cases radiusResolve T (0.01 : K) cs pos.resolve (toAbsolute rel pos.resolve target) radius <;> rfl

theorem TracerTie_helix_moves (T : Trig K) (me : PL K → V3 K → PL K) (cw rel : Bool) (pos : PL K) (res : K) (target : PL K)
    (len : Nat) (center : PL K) (turns : Int) (h : Flat target len) (hmove : MoveAdvances rel me) (hlaw : RelLaw K rel) :
    PathTracer.helix_moves me T cw rel pos res target len center turns
      = if turns ≤ 0 then none
        else thenMoves T rel res pos.resolve (some (helixArgsM T (traceHelix T cw rel pos.resolve target center turns.toNat))) := by
  have e : PathTracer.helix_moves me T cw rel pos res target len center turns
      = thenMoves T rel res pos.resolve (PathTracer.helix_args T cw rel pos res target len center turns) := by
    simp only [PathTracer.helix_moves, PathTracer.helix_args, thenMoves, TracerTie_emit_moves T me cw rel pos res _ _ hmove hlaw]
    split <;> simp only [Option.bind_none, Option.bind_some]
  rw [e, TracerTie_helix T cw rel pos res target len center turns h]
  split <;> rfl

theorem TracerTie_thread_moves (T : Trig K) (me : PL K → V3 K → PL K) (cw rel : Bool) (pos : PL K) (res : K) (target : PL K)
    (len : Nat) (pitch : K) (h : Flat target len) (hmove : MoveAdvances rel me) (hlaw : RelLaw K rel) :
    PathTracer.thread_moves me T cw rel pos res target len pitch
      = if pitch ≤ 0 then none
        else thenMoves T rel res pos.resolve (some (helixArgsM T (traceThread T cw rel pos.resolve target pitch))) := by
  have hn : ∀ n : Nat, ¬ (Int.ofNat (max 1 n) ≤ 0) := by intro n; simp only [Int.ofNat_eq_natCast]; omega
  have hm : ∀ n : Nat, (Int.ofNat n).toNat = n := fun n => Int.toNat_natCast n
  simp only [PathTracer.thread_moves, TracerTie_helix_moves T me cw rel pos res target len _ _ h hmove hlaw, hn, hm, if_false,
    traceThread, threadCentre, threadTurns, pyAbs, TracerTie_to_absolute]

theorem TracerTie_spiral_moves (T : Trig K) (me : PL K → V3 K → PL K) (cw rel : Bool) (pos : PL K) (res : K) (target : PL K)
    (len : Nat) (turns : Int) (h : Flat target len) (hmove : MoveAdvances rel me) (hlaw : RelLaw K rel) :
    PathTracer.spiral_moves me T cw rel pos res target len turns
      = if turns ≤ 0 then none
        else thenMoves T rel res pos.resolve (some (helixArgsM T (traceSpiral T cw rel pos.resolve target turns.toNat))) := by
  simp only [PathTracer.spiral_moves, TracerTie_helix_moves T me cw rel pos res target len _ _ h hmove hlaw, traceSpiral]

end

/-! ## non-vacuity and concrete evaluations of the translated functions (at `K = Rat`)

`Flat` holds for every target over the rationals (as over any ring); `ratTrig` is a stand-in record with an exact
square root on perfect squares and `twoPi := 6` (only used to *run* the translated text in the kernel). -/
namespace GscribModel.TracerTie

theorem flat_rat (target : PL Rat) (len : Nat) (hlen : len ≤ 2 → target.z = none) : Flat target len :=
  Flat.of_laws hlen (fun _ => Rat.sub_self) (fun a => Rat.add_zero a)

def ratTrig : Trig Rat :=
  { cos := fun _ => 1, sin := fun _ => 0, sqrt := fun q => mkRat (Int.ofNat q.num.toNat.sqrt) q.den.sqrt,
    atan2 := fun _ _ => 0, hypot := fun x y => if x < 0 then -x else x + y, twoPi := 6,
    ofNat := fun n => (n : Rat), truncNat := fun q => q.floor.toNat }

def P (x y z : Rat) : V3 Rat := ⟨x, y, z⟩

/-- six samples 1/4 apart, resolution 1/2: every second sample is kept, and the last one always -/
example : PathTracer._filter_segments ratTrig false false ⟨none, none, none⟩ (1 / 2)
      [P 0 0 0, P (1/4) 0 0, P (1/2) 0 0, P (3/4) 0 0, P 1 0 0, P (5/4) 0 0, P (3/2) 0 0, P (13/8) 0 0]
    = [P 0 0 0, P (1/2) 0 0, P 1 0 0, P (3/2) 0 0, P (13/8) 0 0] := by decide +kernel

/-- relative mode: offsets accumulate from the resolved position; absolute mode: `None` keeps the coordinate -/
example : GCodeCore.to_absolute_list true ⟨some 1, none, some 2⟩ [⟨some 1, some 1, none⟩, ⟨none, some 2, some 3⟩]
    = [P 2 1 2, P 2 3 5] := by decide +kernel
example : GCodeCore.to_absolute_list false ⟨some 1, none, some 2⟩ [⟨some 1, some 1, none⟩, ⟨none, some 2, some 3⟩]
    = [P 1 1 2, P 1 2 3] := by decide +kernel
example : GCodeCore.to_distance_mode true ⟨some 1, none, some 2⟩ ⟨some 5, some 5, none⟩ = P 4 5 (-2) := by decide +kernel

/-- a clockwise sweep is made negative, a counter-clockwise one positive -/
example : Direction.enforce ratTrig true 1 = -5 ∧ Direction.enforce ratTrig false (-1) = 5
    ∧ Direction.enforce ratTrig true (-1) = -1 ∧ Direction.full_turn ratTrig true = -6 := by decide +kernel

/-- `parametric` on the straight line `θ ↦ (4θ, 0, 0)` of length 4 at resolution 1: 40 samples 1/10 apart, a vertex
    every 10 samples -/
example : PathTracer.parametric ratTrig false false ⟨none, none, none⟩ 1 (fun θ => P (4 * θ) 0 0) 4
    = some [P (1/10) 0 0, P (11/10) 0 0, P (21/10) 0 0, P (31/10) 0 0, P 4 0 0] := by decide +kernel

/-- non-positive length / turns / pitch raise -/
example : PathTracer.parametric ratTrig false false ⟨none, none, none⟩ 1 (fun θ => P θ 0 0) 0 = none := by decide +kernel
example : (PathTracer.helix ratTrig false false ⟨none, none, none⟩ 1 ⟨some 1, some 0, none⟩ 2 ⟨some 1, some 0, none⟩ 0).isNone
    ∧ (PathTracer.thread ratTrig false false ⟨none, none, none⟩ 1 ⟨some 1, some 0, some 3⟩ 3 0).isNone := by decide +kernel

/-! ### the hypotheses of section (f) hold over the rationals; the new functions evaluated -/

theorem eqLaw_rat : EqLaw Rat := by
  intro a b
  simp only [pyEq, Bool.and_eq_true, Bool.not_eq_true', decide_eq_false_iff_not]
  constructor
  · intro h; exact Rat.le_antisymm (Rat.not_lt.1 h.2) (Rat.not_lt.1 h.1)
  · intro h; subst h; exact ⟨Rat.lt_irrefl, Rat.lt_irrefl⟩

theorem relLaw_rat (rel : Bool) : RelLaw Rat rel := by
  intro _ a b; grind

/-- `move` as the builder performs it on a full point under the identity transform: the position becomes `to_absolute(p)` -/
def ratMove (rel : Bool) (pos : PL Rat) (w : V3 Rat) : PL Rat := (toAbsolute rel pos.resolve w.toPL).toPL

theorem ratMove_advances (rel : Bool) : MoveAdvances rel (ratMove rel) := fun _ _ => rfl

/-- a `Trig` whose `hypot` is exact on Pythagorean triples -/
def ratTrig2 : Trig Rat := { ratTrig with hypot := fun x y => ratTrig.sqrt (x * x + y * y) }

def ratCopysign (m s : Rat) : Rat := if s < 0 then -m else m

/-- `polyline` in relative mode from `(1, -, 2)`: the vertices are `(2,1,2)`, `(2,3,5)`, the moves the offsets between them -/
example : PathTracer.polyline_moves (ratMove true) ratTrig false true ⟨some 1, none, some 2⟩ 1
      [⟨some 1, some 1, none⟩, ⟨none, some 2, some 3⟩] = [P 1 1 0, P 0 2 3]
    ∧ PathTracer.polyline_moves (ratMove false) ratTrig false false ⟨some 1, none, some 2⟩ 1
      [⟨some 1, some 1, none⟩, ⟨none, some 2, some 3⟩] = [P 1 1 2, P 1 2 3] := by decide +kernel

/-- the whole `parametric` in relative mode: the vertices `1/10, 11/10, …, 4` become the steps between them -/
example : PathTracer.parametric_moves (ratMove true) ratTrig false true ⟨none, none, none⟩ 1 (fun θ => P (4 * θ) 0 0) 4
    = some [P (1/10) 0 0, P 1 0 0, P 1 0 0, P 1 0 0, P (9/10) 0 0] := by decide +kernel

/-- `arc_radius` from the origin to `(6, 0)` with radius `5`: the centre is `(3, 4)` counter-clockwise and `(3, -4)`
    clockwise (`cos = 1`, `sin = 0` in `ratTrig`: the path function returns `centre + (5, 0)`); the signs swap for the
    long arc (`radius = -5`); a radius within `0.01` of half the chord is snapped to it (centre `(3, 0)`), a smaller one
    raises -/
example : (PathTracer.arc_radius_args ratCopysign ratTrig2 false false ⟨none, none, none⟩ 1 ⟨some 6, some 0, none⟩ 2 5).map (·.1 0)
      = some (P 8 4 0)
    ∧ (PathTracer.arc_radius_args ratCopysign ratTrig2 true false ⟨none, none, none⟩ 1 ⟨some 6, some 0, none⟩ 2 5).map (·.1 0)
      = some (P 8 (-4) 0)
    ∧ (PathTracer.arc_radius_args ratCopysign ratTrig2 false false ⟨none, none, none⟩ 1 ⟨some 6, some 0, none⟩ 2 (-5)).map (·.1 0)
      = some (P 8 (-4) 0)
    ∧ (PathTracer.arc_radius_args ratCopysign ratTrig2 false false ⟨none, none, none⟩ 1 ⟨some 6, some 0, none⟩ 2 (599/200)).map (·.1 0)
      = some (P 6 0 0)
    ∧ (PathTracer.arc_radius_args ratCopysign ratTrig2 false false ⟨none, none, none⟩ 1 ⟨some 6, some 0, none⟩ 2 (-599/200)).map (·.1 0)
      = some (P 6 0 0)
    ∧ (PathTracer.arc_radius_args ratCopysign ratTrig2 false false ⟨none, none, none⟩ 1 ⟨some 6, some 0, none⟩ 2 (149/50)).isNone
    ∧ (PathTracer.arc_radius_args ratCopysign ratTrig2 false false ⟨none, none, none⟩ 1 ⟨some 6, some 0, none⟩ 2 0).isNone := by
  decide +kernel

/-- `spline`: consecutive duplicates (of the start point too) are dropped before the control points reach `CubicSpline`
    (here a stand-in that returns `sum(y) + θ · sum(x)`: three controls `0, 1, 2` on the grid `0, 1/2, 1`); fewer than
    two distinct points raise -/
example : (PathTracer.spline_args (fun xs ys θ => ys.foldl (· + ·) 0 + θ * xs.foldl (· + ·) 0) ratTrig false false
        ⟨none, none, none⟩ 1 [⟨some 0, some 0, some 0⟩, ⟨some 1, none, none⟩, ⟨some 1, some 0, none⟩, ⟨some 2, none, none⟩]).map (·.1 2)
      = some (P 6 3 3)
    ∧ (PathTracer.spline_args (fun _ _ _ => 0) ratTrig false true ⟨some 1, none, none⟩ 1
        [⟨some 0, some 0, none⟩, ⟨none, none, some 0⟩]).isNone := by decide +kernel

end GscribModel.TracerTie

import Mathlib.Analysis.SpecialFunctions.Trigonometric.Bounds
import GscribModel.Lemmas.Tracer
/-! # C12 — interpolation honours the configured resolution

Property theorems only (helpers: `Lemmas/Tracer.lean`).  The model is `filterGo`/`filterMask`/`segs` of
`Model/Tracer.lean` — the loop of `PathTracer._filter_segments` on the list of sample distances — read over `ℚ`.
All statements hold for **any** list of sample distances (any curve, any sampling); `res` is
`state.resolution`, `res / 10` the tolerance of the code, so `res − res/10 = 0.9·res`.

`segs 0 ds (filterMask res ds)` lists, for every segment between kept samples, its length *measured along the
samples* and its final sample step.  The emitted path has one more move in front (current position → first
sample); that move and the last segment are the two segments the property exempts from the lower bound.

What is not proved here and why (see `C12_halving_partial`): how the sample spacing of a real curve behaves when
the resolution is halved depends on the curve; the chord between two kept vertices is shorter than the length
along the samples by the curvature term bounded in `C12_chord_error`. -/
open GscribModel.Tracer

/-- **Segment bounds**, for any distance list: every segment except the last is longer than `0.9·res`;
    every segment (also the last) without its final sample step is at most `0.9·res` — so with sample
    spacing `δ` no segment exceeds `0.9·res + δ` (`δ ≈ res/10` for the code's 10× oversampling). -/
theorem C12_seg_bounds (res : Rat) (hres : 0 ≤ res) (ds : List Rat) :
    (∀ s ∈ (segs 0 ds (filterMask res ds)).dropLast, res - res / 10 < s.1)
    ∧ (∀ s ∈ segs 0 ds (filterMask res ds), s.1 - s.2 ≤ res - res / 10 ∧ s.2 ∈ ds) := by
  have h0 : 0 ≤ res - res / 10 := by linarith
  have lo := seg_lower res (res / 10) h0 ds 0 h0
  have up := seg_upper res (res / 10) h0 ds 0 h0
  rw [sub_zero] at lo up
  exact ⟨lo, fun s hs => ⟨up s hs, segs_step_mem ds _ 0 s hs⟩⟩

/-- **Segment count is proportional to path length / resolution**: with `P` the length of the sampled path,
    `count` the number of vertices kept after the first sample and `δ` a bound on the sample spacing,
    `(count − 1)·0.9·res ≤ P ≤ count·(0.9·res + δ)`, i.e. `P/(0.9·res + δ) ≤ count ≤ P/(0.9·res) + 1`. -/
theorem C12_count_bounds (res : Rat) (hres : 0 ≤ res) (ds : List Rat) (hne : ds ≠ [])
    (hpos : ∀ d ∈ ds, 0 ≤ d) :
    1 ≤ countKept (filterMask res ds)
    ∧ ((countKept (filterMask res ds) : Rat) - 1) * (res - res / 10) ≤ ds.sum
    ∧ ∀ δ : Rat, (∀ d ∈ ds, d ≤ δ) →
        ds.sum ≤ (countKept (filterMask res ds) : Rat) * (res - res / 10 + δ) := by
  have h0 : 0 ≤ res - res / 10 := by linarith
  obtain ⟨lo, up⟩ := C12_seg_bounds res hres ds
  have hlen : (filterMask res ds).length = ds.length := filterGo_length _ _ _ _
  have hlast : (filterMask res ds).getLast? = some true := filterGo_last _ _ _ _ hne
  have hsum := segs_sum ds (filterMask res ds) 0 hlen hlast
  have hcnt := segs_length ds (filterMask res ds) 0 hlen
  rw [zero_add] at hsum
  set l := segs 0 ds (filterMask res ds) with hl
  have hlne : l ≠ [] := by
    intro e
    rw [e] at hsum
    have hmask : filterMask res ds ≠ [] := filterGo_ne_nil _ _ _ _ hne
    -- the mask ends in `true`, so at least one segment is emitted
    have : 1 ≤ countKept (filterMask res ds) := by
      obtain ⟨init, hinit⟩ : ∃ init, filterMask res ds = init ++ [true] := by
        rcases List.getLast?_eq_some_iff.mp hlast with ⟨ys, hys⟩
        exact ⟨ys, hys⟩
      rw [hinit]; simp [countKept, List.filter_append]
    rw [← hcnt, e] at this; simp at this
  have hc1 : 1 ≤ countKept (filterMask res ds) := by
    rw [← hcnt]; exact Nat.one_le_iff_ne_zero.mpr (by simpa using hlne)
  refine ⟨hc1, ?_, ?_⟩
  · -- lower: all but the last segment are longer than 0.9 res, the last is non-negative
    have hsplit : l = l.dropLast ++ [l.getLast hlne] := (List.dropLast_concat_getLast hlne).symm
    have hnn := segs_nonneg ds (filterMask res ds) 0 (le_refl _) hpos
    have hlastnn : 0 ≤ (l.getLast hlne).1 := hnn _ (List.getLast_mem hlne)
    have h1 : ((l.dropLast.map Prod.fst).length : Rat) * (res - res / 10) ≤ (l.dropLast.map Prod.fst).sum := by
      apply length_mul_le_sum
      intro x hx
      obtain ⟨s, hs, rfl⟩ := List.mem_map.mp hx
      exact le_of_lt (lo s hs)
    have h2 : (l.map Prod.fst).sum = (l.dropLast.map Prod.fst).sum + (l.getLast hlne).1 := by
      conv_lhs => rw [hsplit]
      simp
    have h3 : ((l.dropLast.map Prod.fst).length : Rat) = (countKept (filterMask res ds) : Rat) - 1 := by
      rw [List.length_map, List.length_dropLast, hcnt]
      rw [Nat.cast_sub hc1]; simp
    rw [h3] at h1
    linarith
  · -- upper: every segment is at most 0.9 res + δ
    intro δ hδ
    have h1 : (l.map Prod.fst).sum ≤ ((l.map Prod.fst).length : Rat) * (res - res / 10 + δ) := by
      apply sum_le_length_mul
      intro x hx
      obtain ⟨s, hs, rfl⟩ := List.mem_map.mp hx
      have := up s hs
      have := hδ s.2 this.2
      linarith [(up s hs).1]
    rw [List.length_map, hcnt] at h1
    linarith

/-- **Halving the resolution never yields fewer segments** — partial: proved from two explicit hypotheses about
    the two sample lists (`ds` sampled for `res`, `ds'` for `res/2`), which hold for smooth constant-speed
    curves but are not derived here for an arbitrary parametric function:
    (H1) the finer sampling has spacing at most `res/18` (the code aims at `(res/2)/10 = res/20`; chords are
         shorter than arcs; `res/18` leaves the slack of `int()` in `num_segments`),
    (H2) the finer sampled path is not shorter than the coarser one.
    No lower bound on the path length is needed (short paths are covered: both counts are then 1 or 2). -/
theorem C12_halving_partial (res : Rat) (hres : 0 < res) (ds ds' : List Rat) (hne : ds ≠ []) (hne' : ds' ≠ [])
    (hpos : ∀ d ∈ ds, 0 ≤ d) (hpos' : ∀ d ∈ ds', 0 ≤ d)
    (H1 : ∀ d ∈ ds', d ≤ res / 18) (H2 : ds.sum ≤ ds'.sum) :
    countKept (filterMask res ds) ≤ countKept (filterMask (res / 2) ds') := by
  obtain ⟨_, hlo, _⟩ := C12_count_bounds res (le_of_lt hres) ds hne hpos
  obtain ⟨hc1, _, hup⟩ := C12_count_bounds (res / 2) (by linarith) ds' hne' hpos'
  have hup' := hup (res / 18) H1
  by_contra hlt
  rw [not_le] at hlt
  have h1 : ((countKept (filterMask (res / 2) ds') : Nat) : Rat) + 1 ≤ (countKept (filterMask res ds) : Rat) := by
    exact_mod_cast hlt
  have h2 : (1 : Rat) ≤ (countKept (filterMask (res / 2) ds') : Rat) := by exact_mod_cast hc1
  nlinarith [mul_nonneg (sub_nonneg.mpr h1) (le_of_lt hres), mul_le_mul_of_nonneg_right h2 (le_of_lt hres)]

/-- **Unit switch**: `set_length_units` converts the resolution to pixels and back with the *same* (new) unit's
    factor, so the number stored in `state.resolution` is unchanged; every bound above is relative to that number
    and therefore holds verbatim in both unit systems. -/
theorem C12_units (sf res : Rat) (hsf : sf ≠ 0) (ds : List Rat) :
    convertResolution sf res = res
    ∧ filterMask (convertResolution sf res) ds = filterMask res ds := by
  have : convertResolution sf res = res := by
    simp only [convertResolution]; exact div_mul_cancel₀ res hsf
  exact ⟨this, by rw [this]⟩

/-- **Chord error** (over ℝ): a chord subtending arc length `s` on a circle of radius `r` deviates from the
    arc by the sagitta `r·(1 − cos(s / 2r)) ≤ s² / (8r)`; with `s ≤ 0.9·res + δ` from `C12_seg_bounds`
    this is the chord-error bound implied by the segment length. -/
theorem C12_chord_error (r s : ℝ) (hr : 0 < r) :
    r * (1 - Real.cos (s / (2 * r))) ≤ s ^ 2 / (8 * r) := by
  have h := @Real.one_sub_sq_div_two_le_cos (s / (2 * r))
  have e : s ^ 2 / (8 * r) = r * ((s / (2 * r)) ^ 2 / 2) := by
    field_simp; ring
  rw [e]
  apply mul_le_mul_of_nonneg_left _ (le_of_lt hr)
  linarith

/-! ## non-vacuity -/

/-- 25 samples spaced 1/10 at resolution 1: two segments are cut after 10 samples each (the decision is taken
    when `remaining` drops *below* the tolerance), the (always kept) last sample closes a third one -/
example : segs 0 (List.replicate 25 (1/10 : Rat)) (filterMask (1 : Rat) (List.replicate 25 (1/10 : Rat)))
    = [(1, 1/10), (1, 1/10), (1/2, 1/10)] := by decide +kernel

example : countKept (filterMask (1 : Rat) (List.replicate 25 (1/10 : Rat))) = 3
    ∧ countKept (filterMask (1/2 : Rat) (List.replicate 50 (1/20 : Rat))) = 5 := by decide +kernel

/-- the hypotheses of `C12_halving_partial` are satisfiable: the two samplings above -/
example : countKept (filterMask (1 : Rat) (List.replicate 25 (1/10 : Rat)))
    ≤ countKept (filterMask ((1 : Rat) / 2) (List.replicate 50 (1/20 : Rat))) :=
  C12_halving_partial 1 (by norm_num) _ _ (by simp) (by simp)
    (by intro d hd; rw [List.eq_of_mem_replicate hd]; norm_num)
    (by intro d hd; rw [List.eq_of_mem_replicate hd]; norm_num)
    (by intro d hd; rw [List.eq_of_mem_replicate hd]; norm_num)
    (by simp; norm_num)

example : convertResolution (254/960 : Rat) (1/10) = 1/10 := (C12_units _ _ (by norm_num) []).1

import GscribModel.Lemmas.BuilderModal
/-! # C07 — the reported machine state mirrors the emitted program

`ModalSt` (`Model/Machine.lean`) is a modal G-code interpreter reading only the statements written:
tool running and its last start code, last S, coolant code, last T of a tool change, last F,
G90/G91, M82/M83, G93–G95, G20/G21, G17–G19, the three target temperatures, and the last value of
every word seen on a motion-family statement.  `Mirror b ms` (`Lemmas/BuilderModal.lean`) compares
the state object with it field by field; the tool clause is the strongest the two separate mode
fields of the state can express (start code = code of the spin mode or of the power mode), the
power clause is stated while the tool runs (the builder zeroes its figure on `M05`), and X/Y/Z are
excluded from "move parameters" (the builder stores the request; positions are C01). -/
open GscribModel.Builder

theorem C07_mirror_init : Mirror {} {} := by
  constructor <;> simp [Params.get]

/-- **One call**, any command, accepted or rejected -/
theorem C07_mirror_step (b : B) (ms : ModalSt) (op : Op) (h : Mirror b ms) :
    Mirror (step b op).b (ms.run (step b op).stmts) := by
  cases hm : motionOp op
  · exact mirror_other b ms h op hm
  · cases op <;> simp only [motionOp] at hm <;> (try contradiction)
    case move r p ps hh => exact mirror_move b ms h r p ps hh
    case moveAbs r p ps hh => exact mirror_moveAbs b ms h r p ps hh
    case setAxis p ps => exact mirror_setAxis b ms h p ps
    case home p ps => exact mirror_home b ms h p ps
    case probe pm p ps => exact mirror_probe b ms h pm p ps
    case setDist r => simpa [step, accept, stepSetDist, ModalSt.run] using mirror_mode b ms h r
    case enterCtx r =>
      simp only [step, accept, stepSetDist]
      split
      · simpa [ModalSt.run] using mirror_mode _ _ (mirror_ctx b ms h (b.rel :: b.ctx)) r
      · exact mirror_ctx b ms h _
    case exitCtx =>
      simp only [step, accept, stepSetDist]
      split
      · exact h
      · split
        · simpa [ModalSt.run] using mirror_mode _ _ (mirror_ctx b ms h _) _
        · exact mirror_ctx b ms h _

/-- builder and interpreter along a history, the interpreter being fed only what the builder wrote -/
def runBMs : B × ModalSt → List Op → B × ModalSt
  | s, [] => s
  | (b, ms), op :: ops => runBMs ((step b op).b, ms.run (step b op).stmts) ops

/-- **Every history over the full API, after every call** -/
theorem C07_mirror_run (ops : List Op) : ∀ (b : B) (ms : ModalSt), Mirror b ms →
    ∀ k, Mirror (runBMs (b, ms) (ops.take k)).1 (runBMs (b, ms) (ops.take k)).2 := by
  induction ops with
  | nil => intro b ms h k; simpa [runBMs] using h
  | cons op ops ih =>
    intro b ms h k
    cases k with
    | zero => simpa [runBMs] using h
    | succ k => simpa [runBMs] using ih _ _ (C07_mirror_step b ms op h) k

/-! Non-vacuity: mixed tool APIs, temperatures through S and R, parameters on G92, a mode bracket. -/
example : (runBMs ({}, {}) [.toolOn .cw (.fin 1000), .powerOff, .powerOn .dynamic (.fin 40), .move false { x := some (.fin 1) }
      [("F", .fin 300), ("S", .fin 50), ("E", .fin 2)] 0, .halt .pause [], .toolOff, .halt .waitBed [("R", .fin 60)],
      .setDist true, .moveAbs true { y := some (.fin 2) } [("F", .fin 900)] 0, .setAxis {} [("E", .fin 0)],
      .toolChange .manual 7, .coolOn .flood]).2
    = { tool := false, startCode := some .M04, power := 50, coolCode := some .M08, toolNumber := 7, feed := 900, rel := true,
        bed := some 60, params := [("F", some 900), ("S", some 50), ("E", some 0)] } := by
  decide +kernel

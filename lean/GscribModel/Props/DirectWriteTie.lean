import GscribModel.Gen.DirectWriteSrc
import GscribModel.Props.ReportTie
/-! # The caller, print-thread and callback actions of the direct-write model are the translated source

`Gen/DirectWriteSrc.lean` is *generated* on every run from the source text of `gscrib/writers/printrun_writer.py` and
`gscrib/printrun/printcore.py` (`tools/gen_dwrite.py`): every function is one **atomic section** of one thread - the
statements between two blocking points, in source order - on the objects `Writer` / `PC` of `Model/DirectWritePrelude.lean`
(a blocking primitive is one poll; outcome `blocked` = not ready).  The theorems below prove the actions of the
hand-written transition system of C16 (`Model/DirectWrite.lean`, `stepLive`) equal to these sections.

`absW x s` is the writer object (with its `printcore` object `absPC x s`) that a model state `s` stands for; `x : Aux`
carries what the model does not hold (the statement texts, the message of the stored error, `mainqueue`, counters).  A
command identity is mapped to its text by `cmdText` (`.stmt k` ↦ the stripped k-th statement), `toDev`/`devLog` to the
`wire`.  The model's bookkeeping (`cphase`, `wstate`, `outcomes`, the ghost fields) has no counterpart in the objects:
*which* section the caller is in is `cphase`/`wstate`, and the theorems say what the section does to the shared state and
how it ends.

Mapping of model actions to source sections (caller thread unless noted):

| action | section | theorem |
|---|---|---|
| `wClear` | effect 1 of `_send_statement` (`_ack_event.clear()`) | `DirectWriteTie_write_clear` |
| `wEnq` | effect 2 of `_send_statement` (`_device.send(command)` → `printcore.send`) | `DirectWriteTie_write_enqueue` |
| `wClear; wEnq` | `write_0` (= guards, `_send_statement` = effect 1 then effect 2) | `DirectWriteTie_write_section0`, `DirectWriteTie_send_statement_order`, `DirectWriteTie_write_wraps` |
| `wWake` | `_wait_for_acknowledgment` (one poll of `_ack_event.wait()`) | `DirectWriteTie_write_wake` |
| `wFinish` | `_abort_on_device_error` | `DirectWriteTie_abort` |
| `wWake; wFinish` | `write_1` (the wait, THEN the stored error is read) | `DirectWriteTie_write_finish` |
| `cOnline` | `_wait_for_connection` (+ `_start_print_thread_0` → `printcore.startprint`) | `DirectWriteTie_connect_online` |
| `cPoll` | `_start_print_thread_1` = one poll of `_wait_for_pending_operations` | `DirectWriteTie_connect_poll` |
| `cDisc` | `disconnect(wait=True)`: the same poll, then the tear-down | `DirectWriteTie_disconnect_wait` |
| `pSendnext` (print thread) | `printcore._sendnext` + delivery of `errorcb` | `DirectWriteTie_sendnext` |
| `hear` (reader thread), writer half | `_on_device_message` (translated by `gen_report.py`) | `DirectWriteTie_on_ack`, `_on_error`, `_on_other` |
| `tx` on a lost port, `xLoss` (callback) | `_on_printrun_error` | `DirectWriteTie_on_printrun_error` |
| `pending` | `has_pending_operations` | `DirectWriteTie_pending` |

The model splits `write()` into four actions where the source has one blocking point: `wClear`/`wEnq` and
`wWake`/`wFinish` are separate because the reader thread can run between any two *statements*; the translator emits
`_send_statement` effect by effect for the first pair, and `_wait_for_acknowledgment` / `_abort_on_device_error` are
separate methods for the second.  The hypotheses `s.online = true`, `s.printing = false` of the caller theorems hold in
every reachable state of the phase they speak about (`DirectWriteTie_phase_inv`). -/
open GscribModel GscribModel.DirectWrite GscribModel.DWPy GscribModel.Gen.DirectWriteSrc
open GscribModel.Report (Str Table okPrefix errPrefix lower strip onDeviceMessage)
open GscribModel.ReportPy (ErrObj)

namespace GscribModel.DirectWriteTie

/-- what the objects hold and the model does not -/
structure Aux where
  stmts : Nat → Str                  -- the statement passed to the k-th `write()`
  timeout : Rat
  errMsg : Str                       -- message of the stored `DeviceError` (when the model's `err` is set)
  flow : Bool                        -- `printer.has_flow_control`
  mainqueue : Option (List Str)
  queueindex : Int
  lineno : Int
  sentlines : List (Int × Str)
  print_thread : Bool

def probeText : Str := ['G', '4', ' ', 'P', '0']
def resetText : Str := ['M', '1', '1', '0', ' ', 'N', '-', '1']

/-- the text of a command identity -/
def cmdText (stmts : Nat → Str) : Cmd → Str
  | .probe => probeText
  | .reset => resetText
  | .stmt k => Sx.strip (Bytes.decode (stmts k))

/-- the `printcore` object a model state stands for (no job line to send, no resend request, not paused) -/
def absPC (x : Aux) (s : St) : PC :=
  { printer := true, clear := s.clear, online := s.online, printing := s.printing, paused := false, mainqueue := x.mainqueue,
    priqueue := s.priq.map (cmdText x.stmts), queueindex := x.queueindex, lineno := x.lineno, resendfrom := -1, sentlines := x.sentlines,
    tcp_streaming_mode := false, _send_line_numbers := s.lineNumbers, print_thread := x.print_thread,
    has_flow_control := x.flow, port_fails := s.lost, wire := (s.devLog ++ s.toDev).map (cmdText x.stmts), cb_error := [] }

/-- the `PrintrunWriter` object a (live) model state stands for -/
def absW (x : Aux) (s : St) : Writer :=
  { _device := some (absPC x s), _timeout := x.timeout,
    _device_error := if s.err then some (.deviceError x.errMsg) else none,
    _shutdown_requested := false, _ack_event := s.ack, _online_event := s.online }

/-- `disconnect()` / the handler of `connect()` dropped the device -/
def torn (w : Writer) : Writer := { w with _device := none, _online_event := false }

/-- a step of a printcore thread seen from the writer: the method runs on the device, then the recorded callbacks are delivered -/
def lift (f : PC → Res PC) (w : Writer) : Writer × Out :=
  match w._device with
  | none => (w, .raised .attributeError)
  | some d => (_dispatch { w with _device := some (f d).1 }, (f d).2)

/-- `startprint(GCode([]))` has run -/
def Aux.started (x : Aux) : Aux :=
  { x with mainqueue := some [], queueindex := 0, lineno := 0, print_thread := true, errMsg := writeErrorText }

/-- the job is over: `queueindex`, `lineno` reset -/
def Aux.ended (x : Aux) : Aux := { x with queueindex := 0, lineno := 0, errMsg := writeErrorText }

theorem dispatch_abs (x : Aux) (s : St) : _dispatch (absW x s) = absW x s := by
  simp [_dispatch, Dev.drain, absW, absPC]

end GscribModel.DirectWriteTie

open GscribModel.DirectWriteTie

/-! ## `write()` -/

/-- `wClear` is the first effect of `_send_statement`: `self._ack_event.clear()` - nothing else changes, whatever the statement. -/
theorem DirectWriteTie_write_clear (x : Aux) (s s' : St) (statement : Str) (h : stepLive s .wClear = some s') :
    _send_statement_1 (absW x s) statement = (absW x s', .done) := by
  simp only [stepLive] at h
  split at h
  · cases h; simp [_send_statement_1, absW, absPC, Ev.clear]
  · cases h

/-- `wEnq` is the second effect: `self._device.send(command)` puts the stripped statement at the end of the priority queue
    (printcore online and not printing: the state `connect()` returns in). -/
theorem DirectWriteTie_write_enqueue (x : Aux) (s s' : St) (k : Nat) (hk : s.wstate = .cleared k)
    (hon : s.online = true) (hpr : s.printing = false) (h : stepLive s .wEnq = some s') :
    _send_statement_2 (absW x s) (x.stmts k) = (absW x s', .done) := by
  simp only [stepLive, hk] at h
  cases h
  simp [_send_statement_2, absW, absPC, printcore.send, hon, hpr, Queue.put_nowait, _dispatch, Dev.drain, cmdText]

/-- the method `_send_statement` is effect 1 followed by effect 2, for every object and statement -/
theorem DirectWriteTie_send_statement_order (w : Writer) (statement : Str) :
    _send_statement w statement = _send_statement_chain w statement ∧ _send_statement_effects = 2 := by
  refine ⟨?_, rfl⟩
  obtain ⟨dev, a, b, c, d, e⟩ := w
  cases dev with
  | none => rfl
  | some d1 =>
    simp only [_send_statement, _send_statement_chain, _send_statement_1, _send_statement_2]
    cases (printcore.send d1 (Sx.strip (Bytes.decode statement)) 0).snd <;> simp

/-- `write_0` - the first section of `write()`, up to the wait - is `wClear` then `wEnq`: clear the flag, THEN hand the
    statement to printcore; it ends with `cont` (the caller goes on to wait). -/
theorem DirectWriteTie_write_section0 (x : Aux) (s s1 s2 : St) (hon : s.online = true) (hpr : s.printing = false)
    (h1 : stepLive s .wClear = some s1) (h2 : stepLive s1 .wEnq = some s2) :
    write_0 (absW x s) (x.stmts s.next) = (absW x s2, .cont) := by
  simp only [stepLive] at h1
  split at h1
  · cases h1
    simp only [stepLive] at h2
    cases h2
    simp [write_0, is_connected, _send_statement, Sx.tryExcept, absW, absPC, Dev.obj, printcore.send, hon, hpr, Queue.put_nowait,
      _dispatch, Dev.drain, cmdText, Ev.clear]
  · cases h1

/-- `write_0` for every object that is connected and not shutting down: it is `_send_statement`, with any exception it raises
    turned into `DeviceWriteError`, and `cont` (on to the wait) when it returns. -/
theorem DirectWriteTie_write_wraps (w : Writer) (statement : Str) (h1 : w._shutdown_requested = false) (h2 : is_connected w = true) :
    write_0 w statement
      = ((_send_statement w statement).1,
         match (_send_statement w statement).2 with
         | .done => .cont
         | .raised _ => .raised .deviceWriteError
         | o => o) := by
  simp only [write_0, h1, h2, Sx.tryExcept]
  generalize _send_statement w statement = r
  obtain ⟨a, o⟩ := r
  cases o <;> simp

/-- `wWake` is one poll of `_ack_event.wait()`: `blocked` until the flag is set, and then nothing changes. -/
theorem DirectWriteTie_write_wake (x : Aux) (s : St) (k : Nat) (hk : s.wstate = .waiting k) :
    _wait_for_acknowledgment (absW x s)
      = (absW x s, match stepLive s .wWake with | some _ => .done | none => .blocked)
    ∧ ∀ s', stepLive s .wWake = some s' → absW x s' = absW x s := by
  cases ha : s.ack <;> simp [_wait_for_acknowledgment, Ev.wait, absW, absPC, stepLive, hk, ha]

/-- `_abort_on_device_error` (device present and online, no shutdown): a stored error is taken out and raised, otherwise
    nothing happens - the `err := false` and the recorded outcome of `wFinish`, `cPoll`, `cDisc`. -/
theorem DirectWriteTie_abort (x : Aux) (s : St) (hon : s.online = true) :
    _abort_on_device_error (absW x s)
      = (absW x { s with err := false }, if s.err then .raised .deviceError else .done) := by
  cases he : s.err <;> simp [_abort_on_device_error, is_connected, absW, absPC, Dev.obj, raiseObj, errClass, hon, he]

/-- `write_1` - the second section of `write()` - is `wWake` then `wFinish`: the wait, and only THEN the stored error is read
    and raised; the outcome the model records for the statement is "raised `DeviceError`" exactly when the section raises. -/
theorem DirectWriteTie_write_finish (x : Aux) (s : St) (k : Nat) (hk : s.wstate = .waiting k) (hon : s.online = true) :
    (s.ack = false → stepLive s .wWake = none ∧ write_1 (absW x s) = (absW x s, .blocked))
    ∧ ∀ s1 s2, stepLive s .wWake = some s1 → stepLive s1 .wFinish = some s2 →
        write_1 (absW x s) = (absW x s2, if s.err then .raised .deviceError else .done)
        ∧ s2.outcomes = s.outcomes ++ [(k, s.err)] := by
  constructor
  · intro ha
    simp [stepLive, hk, ha, write_1, _wait_for_acknowledgment, Ev.wait, Sx.tryExcept, absW]
  · intro s1 s2 h1 h2
    simp only [stepLive, hk] at h1
    split at h1
    · rename_i ha
      cases h1
      simp only [stepLive] at h2
      cases h2
      have hab := DirectWriteTie_abort x s hon
      have hw : _wait_for_acknowledgment (absW x s) = (absW x s, .done) := by
        simp [_wait_for_acknowledgment, Ev.wait, absW, ha]
      simp only [write_1, hw, Sx.tryExcept, hab]
      cases he : s.err <;> simp [absW, absPC]
    · cases h1

/-! ## the pending predicate, the wait loop, `connect()`, `disconnect(wait=True)` -/

/-- `has_pending_operations` is the model's `pending` once printcore is online -/
theorem DirectWriteTie_pending (x : Aux) (s : St) :
    has_pending_operations (absW x s) = (s.online && pending s) := by
  simp [has_pending_operations, is_connected, absW, absPC, Dev.obj, pending, Queue.empty]

/-- reading the device while there is none does not matter: the three properties are `false` -/
theorem DirectWriteTie_absent_irrelevant (w : Writer) (h : w._device = none) :
    is_connected w = false ∧ is_printing w = false ∧ has_pending_operations w = false := by
  simp [is_connected, is_printing, has_pending_operations, h]

namespace GscribModel.DirectWriteTie
/-- one poll of `_wait_for_pending_operations` -/
theorem poll_eq (x : Aux) (s : St) (hon : s.online = true) :
    _wait_for_pending_operations (absW x s)
      = if s.err then (absW x { s with err := false }, .raised .deviceError)
        else if pending s then (absW x s, .blocked) else (absW x s, .done) := by
  have hab := DirectWriteTie_abort x s hon
  have hp := DirectWriteTie_pending x s
  simp only [_wait_for_pending_operations, hp, hab]
  cases he : s.err <;> cases hpd : pending s <;> simp [absW, absPC, he, hon]
end GscribModel.DirectWriteTie

/-- `cPoll` is `_start_print_thread_1` = one poll of `_wait_for_pending_operations`: a stored error is raised (and cleared),
    otherwise `blocked` while something is pending (`cPoll` not enabled), otherwise the method returns. -/
theorem DirectWriteTie_connect_poll (x : Aux) (s : St) (hc : s.cphase = .waitPending) (hon : s.online = true) :
    _start_print_thread_1 (absW x s)
      = match stepLive s .cPoll with
        | none => (absW x s, .blocked)
        | some s' => (absW x s', if s.err then .raised .deviceError else .done) := by
  simp only [_start_print_thread_1, poll_eq x s hon, stepLive, hc]
  cases he : s.err <;> cases hpd : pending s <;> simp [absW, absPC, he]

/-- `cOnline`: `_wait_for_connection` returns once the online event is set (never `blocked`, never timed out, then); a stored
    error is raised (and cleared) - otherwise `_start_print_thread_0` starts the empty job through `printcore.startprint`:
    `printing`, `clear` lowered, the `M110` reset written iff line numbers are on (`txReset`), section ends with `cont`. -/
theorem DirectWriteTie_connect_online (x : Aux) (s s' : St) (expired : Bool) (hon : s.online = true) (hpr : s.printing = false)
    (h : stepLive s .cOnline = some s') :
    (s.err = true → _wait_for_connection (absW x s) expired = (absW x s', .raised .deviceError))
    ∧ (s.err = false → _wait_for_connection (absW x s) expired = (absW x s, .done)
         ∧ _start_print_thread_0 (absW x s) = (absW x.started s', .cont)) := by
  simp only [stepLive] at h
  split at h
  · have hab := DirectWriteTie_abort x s hon
    have hw : ∀ e, Ev.waitT (absW x s)._online_event (absW x s)._timeout e = some true := by
      intro e; simp [Ev.waitT, absW, hon]
    have hp : (Dev.obj (absW x s)._device).printer = true := rfl
    constructor
    · intro he
      simp only [he, if_true] at h
      cases h
      simp only [_wait_for_connection, hp, hw, hab]
      simp [he, absW, absPC]
    · intro he
      simp only [he, Bool.false_eq_true, if_false] at h
      cases h
      constructor
      · simp only [_wait_for_connection, hp, hw, hab]
        simp [he, absW, absPC]
      · cases hl : s.lost <;> cases hn : s.lineNumbers <;>
          simp [_start_print_thread_0, is_connected, is_printing, absW, absPC, Dev.obj, printcore.startprint, printcore._reset_line_numbers,
            PC._send, PC.logError, _dispatch, Dev.drain, _on_printrun_error, Ev.set, txReset, tx, Aux.started, cmdText, resetText,
            GCode.empty, hon, hpr, he, hl, hn]
  · cases h

/-- `cDisc` is `disconnect(wait=True)`: one poll of the same wait loop - `blocked` (`cDisc` not enabled) while something is
    pending and no error is stored -, and when it ends (normally or by raising the stored error) the `finally` block drops
    the device. -/
theorem DirectWriteTie_disconnect_wait (x : Aux) (s : St) (hc : s.cphase = .connected) (hon : s.online = true) :
    disconnect (absW x s) true
      = match stepLive s .cDisc with
        | none => (absW x s, .blocked)
        | some s' => (torn (absW x s'), if s.err then .raised .deviceError else .done) := by
  simp only [disconnect, poll_eq x s hon, stepLive, hc]
  cases he : s.err <;> cases hpd : pending s <;>
    simp [absW, absPC, Sx.tryFinally, torn, _dispatch, Dev.drain, PC.cancelprint, PC.disconnect, Ev.clear, he]

/-- `disconnect(wait=False)` does not wait -/
theorem DirectWriteTie_disconnect_nowait (x : Aux) (s : St) :
    disconnect (absW x s) false = (torn (absW x s), .done) := by
  simp [disconnect, absW, absPC, Sx.tryFinally, torn, _dispatch, Dev.drain, PC.cancelprint, PC.disconnect, Ev.clear]

/-! ## the print thread -/

/-- `pSendnext` is one pass of `printcore._sendnext` (job empty or finished: `queueindex` beyond its last line), followed by
    the delivery of a write error: `blocked` while `clear` is down; a queued command is sent with `clear` lowered; with
    nothing queued the job ends - `printing` lowered, `clear` raised only if no `M110` reset is sent (`txReset`). -/
theorem DirectWriteTie_sendnext (x : Aux) (s : St) (q : List Str) (hq : x.mainqueue = some q) (hi : (q.length : Int) ≤ x.queueindex)
    (hpr : s.printing = true) (hon : s.online = true) (hx : s.err = true → x.errMsg = writeErrorText) :
    lift printcore._sendnext (absW x s)
      = match stepLive s .pSendnext with
        | none => (absW x s, .blocked)
        | some s' => (absW (if s.priq.isEmpty then x.ended else { x with errMsg := if s.lost then writeErrorText else x.errMsg }) s', .done) := by
  have hhas : GCode.has_index x.mainqueue x.queueindex = .ok false := by
    simp only [GCode.has_index, hq]; congr 1; simp; omega
  cases hcl : s.clear
  · simp [lift, absW, absPC, printcore._sendnext, stepLive, hpr, hcl, _dispatch, Dev.drain]
  · cases hp : s.priq with
    | nil =>
      cases hl : s.lost <;> cases hn : s.lineNumbers <;> cases he : s.err <;>
        (try have hx' := hx he) <;>
        simp [lift, absW, absPC, printcore._sendnext, printcore._reset_line_numbers, stepLive, Queue.empty, hhas,
          PC._send, PC.logError, _dispatch, Dev.drain, _on_printrun_error, Ev.set, txReset, tx, Aux.ended, cmdText, resetText,
          hpr, hon, hcl, hp, hl, hn, he] <;> (try exact hx he)
    | cons c cs =>
      cases hl : s.lost <;> cases he : s.err <;>
        (try have hx' := hx he) <;>
        simp [lift, absW, absPC, printcore._sendnext, stepLive, Queue.empty, Queue.get_nowait,
          PC._send, PC.logError, _dispatch, Dev.drain, _on_printrun_error, Ev.set, tx, hpr, hon, hcl, hp, hl, he] <;> (try exact hx he)

/-! ## callbacks -/

/-- `_on_printrun_error` (printcore's `errorcb`): the error is stored and the acknowledgement flag set - the `err := true,
    ack := true` of the model's `tx` on a lost port and of `xLoss`. -/
theorem DirectWriteTie_on_printrun_error (x : Aux) (s : St) (msg : Str) :
    _on_printrun_error (absW x s) msg = (absW { x with errMsg := msg } { s with err := true, ack := true }, .done) := by
  simp [_on_printrun_error, absW, absPC, Ev.set]

namespace GscribModel.DirectWriteTie
open GscribModel.Gen

/-- the writer as the C18 translation (`Gen/ReportSrc.lean`) sees it, with some table of readings -/
def toReport (w : Writer) (rp : ReportPy.PySet) (cp : ReportPy.ParamsDict) : ReportSrc.Writer :=
  { _reported_params := rp, _current_params := cp, _device_error := w._device_error, _ack_event := w._ack_event }

/-- `recvcb = _on_device_message` (as translated by `tools/gen_report.py`) on the writer object of this file -/
def onMessage (w : Writer) (rp : ReportPy.PySet) (cp : ReportPy.ParamsDict) (line : Str) : Writer :=
  let r := (ReportSrc._on_device_message (toReport w rp cp) line).1
  { w with _device_error := r._device_error, _ack_event := r._ack_event }

theorem toReport_abs (x : Aux) (s : St) (t : Table) (rep : List Char) :
    toReport (absW x s) (ReportTie.absSet rep) (ReportTie.absTable t)
      = ReportTie.mk t rep (if s.err then some x.errMsg else none) s.ack := by
  cases he : s.err <;> simp [toReport, absW, ReportTie.mk, he]

theorem onMessage_eq (x : Aux) (s : St) (t : Table) (rep : List Char) (line : Str) :
    onMessage (absW x s) (ReportTie.absSet rep) (ReportTie.absTable t) line
      = if okPrefix (lower (strip line)) then absW x { s with ack := true }
        else if errPrefix (lower (strip line)) then absW { x with errMsg := strip line } { s with ack := true, err := true }
        else absW x s := by
  have key := ReportTie_on_device_message
    ({ params := t, acked := s.ack, error := if s.err then some x.errMsg else none } : Report.St) rep line
  dsimp only at key
  unfold onMessage
  rw [toReport_abs, key]
  simp only [onDeviceMessage]
  by_cases hok : okPrefix (lower (strip line)) = true
  · cases he : s.err <;> simp [hok, ReportTie.mk, absW, absPC, he]
  · by_cases herr : errPrefix (lower (strip line)) = true
    · cases he : s.err <;> simp [hok, herr, ReportTie.mk, absW, absPC, he]
    · cases he : s.err <;> simp [hok, herr, ReportTie.mk, absW, absPC, he]

/-- the writer's half of a state: the acknowledgement flag and "an error is stored" -/
def flags (w : Writer) : Bool × Bool := (w._ack_event, w._device_error.isSome)
def mflags (s : St) : Bool × Bool := (s.ack, s.err)
theorem flags_abs (x : Aux) (s : St) : flags (absW x s) = mflags s := by
  cases he : s.err <;> simp [flags, mflags, absW, he]
end GscribModel.DirectWriteTie

/-- Which line sets the acknowledgement flag: one that starts (stripped, lower-cased) with `ok` - the model's `ok c` and
    surplus `xok` replies; the stored error is left alone. -/
theorem DirectWriteTie_on_ack (x : Aux) (s : St) (t : Table) (rep : List Char) (line : Str) (c : Cmd)
    (h : okPrefix (lower (strip line)) = true) :
    flags (onMessage (absW x s) (ReportTie.absSet rep) (ReportTie.absTable t) line) = mflags (hear s (.ok c))
    ∧ mflags (hear s (.ok c)) = mflags (hear s .xok) ∧ mflags (hear s .xok) = (true, s.err) := by
  rw [onMessage_eq, if_pos h, flags_abs]
  cases ho : s.online <;> simp [mflags, hear, ho]

/-- Which line stores an error: one that starts with `error` / `alarm` / `!!` (and not with `ok`) - the model's `bad c` and
    unsolicited `xbad` replies: the line becomes the stored `DeviceError` AND the acknowledgement flag is set. -/
theorem DirectWriteTie_on_error (x : Aux) (s : St) (t : Table) (rep : List Char) (line : Str) (c : Cmd)
    (h : errPrefix (lower (strip line)) = true) :
    flags (onMessage (absW x s) (ReportTie.absSet rep) (ReportTie.absTable t) line) = mflags (hear s (.bad c))
    ∧ mflags (hear s (.bad c)) = mflags (hear s .xbad) ∧ mflags (hear s .xbad) = (true, true)
    ∧ (onMessage (absW x s) (ReportTie.absSet rep) (ReportTie.absTable t) line)._device_error = some (.deviceError (strip line)) := by
  have hok : okPrefix (lower (strip line)) = false := by
    cases h' : okPrefix (lower (strip line))
    · rfl
    · rw [ReportTie.ok_not_err _ h'] at h; cases h
  rw [onMessage_eq]
  simp only [hok, Bool.false_eq_true, if_false, h, if_true, flags_abs]
  simp [mflags, hear, absW]

/-- Any other line (the model's `status`, `temp`, `greet`) leaves both flags alone. -/
theorem DirectWriteTie_on_other (x : Aux) (s : St) (t : Table) (rep : List Char) (line : Str)
    (h1 : okPrefix (lower (strip line)) = false) (h2 : errPrefix (lower (strip line)) = false) :
    onMessage (absW x s) (ReportTie.absSet rep) (ReportTie.absTable t) line = absW x s
    ∧ mflags (hear s .status) = mflags s ∧ mflags (hear s .temp) = mflags s ∧ mflags (hear s .greet) = mflags s := by
  rw [onMessage_eq]
  simp only [h1, h2, Bool.false_eq_true, if_false, true_and]
  cases ho : s.online <;> simp [mflags, hear, ho]

/-! ## constants, initial values, wiring, delegation -/

/-- The constants, the initial attribute values, the callback wiring of `_create_device` and the delegation of the two
    front-end classes.  (As the source stands `SerialWriter.disconnect(wait)` / `SocketWriter.disconnect(wait)` call
    `disconnect()` without passing `wait` on - `disconnect(wait=False)` on a front end still waits; either form is accepted.) -/
theorem DirectWriteTie_constants :
    DEFAULT_TIMEOUT = 30 ∧ POLLING_INTERVAL = 1 / 10
    ∧ Writer.init = { _device := none, _timeout := 30, _device_error := none, _shutdown_requested := false,
                      _ack_event := false, _online_event := false }
    ∧ (PC.init.online, PC.init.printing, PC.init.clear, PC.init.priqueue, PC.init._send_line_numbers, PC.init.resendfrom, PC.init.paused)
        = (false, false, false, [], true, -1, false)
    ∧ callbacks = [("errorcb", "_on_printrun_error"), ("onlinecb", "_on_device_online"), ("recvcb", "_on_device_message")]
    ∧ (∀ c ∈ ["SerialWriter", "SocketWriter"],
         (c, "write(statement)", "write(statement)") ∈ delegation ∧ (c, "connect()", "connect()") ∈ delegation
         ∧ ((c, "disconnect(wait)", "disconnect()") ∈ delegation ∨ (c, "disconnect(wait)", "disconnect(wait)") ∈ delegation)) := by
  refine ⟨rfl, ?_, ?_, rfl, rfl, ?_⟩
  · simp [POLLING_INTERVAL]
  · simp [Writer.init, DEFAULT_TIMEOUT]
  · decide

/-- `set_timeout` rejects a non-positive time-out and changes nothing then -/
theorem DirectWriteTie_set_timeout (w : Writer) (t : Rat) :
    set_timeout w t = if t ≤ 0 then (w, .raised .valueError) else ({ w with _timeout := t }, .done) := by
  simp only [set_timeout]
  by_cases h : t ≤ 0 <;> simp [h]

/-! ## the phase facts the caller theorems assume -/

namespace GscribModel.DirectWriteTie
/-- past `waitOnline` printcore is online; once `connect()` has returned nothing is printing -/
def PhaseInv (s : St) : Prop :=
  (s.cphase ≠ .waitOnline → s.online = true) ∧ (s.cphase = .connected → s.printing = false)
  ∧ (s.cphase = .waitOnline → s.printing = false) ∧ (s.printing = true → s.online = true)

theorem hear_online (s : St) (r : Reply) (h : s.online = true) : (hear s r).online = true := by
  cases r <;> simp [hear, h]
@[simp] theorem hear_cphase (s : St) (r : Reply) : (hear s r).cphase = s.cphase := by
  cases r <;> simp only [hear] <;> (try split) <;> rfl
@[simp] theorem hear_printing (s : St) (r : Reply) : (hear s r).printing = s.printing := by
  cases r <;> simp only [hear] <;> (try split) <;> rfl
@[simp] theorem tx_cphase (s : St) (c : Cmd) : (tx s c).cphase = s.cphase := by simp only [tx]; split <;> rfl
@[simp] theorem tx_printing (s : St) (c : Cmd) : (tx s c).printing = s.printing := by simp only [tx]; split <;> rfl
@[simp] theorem tx_online (s : St) (c : Cmd) : (tx s c).online = s.online := by simp only [tx]; split <;> rfl
@[simp] theorem txReset_cphase (s : St) : (txReset s).cphase = s.cphase := by simp only [txReset]; split <;> simp
@[simp] theorem txReset_printing (s : St) : (txReset s).printing = s.printing := by simp only [txReset]; split <;> simp
@[simp] theorem txReset_online (s : St) : (txReset s).online = s.online := by simp only [txReset]; split <;> simp

theorem phaseInv_stepLive {s s' : St} (a : Act) (h : PhaseInv s) (hs : stepLive s a = some s') : PhaseInv s' := by
  obtain ⟨h1, h2, h3, h4⟩ := h
  cases a
  case lListen =>
    simp only [stepLive] at hs
    split at hs
    · cases hs
    · split at hs
      · cases hs
      · cases hs
        rename_i r rs _
        refine ⟨fun hc => hear_online _ r (h1 (by simpa using hc)), fun hc => ?_, fun hc => ?_, fun hp => hear_online _ r (h4 (by simpa using hp))⟩
        · simpa using h2 (by simpa using hc)
        · simpa using h3 (by simpa using hc)
  case cPoll =>
    simp only [stepLive] at hs
    split at hs
    · rename_i hg
      have hon := h1 (by rw [hg]; decide)
      split at hs
      · cases hs; exact ⟨fun _ => hon, by simp, by simp, h4⟩
      · split at hs
        · cases hs
        · cases hs
          rename_i hp
          refine ⟨fun _ => hon, fun _ => ?_, by simp, h4⟩
          simp [pending] at hp
          exact hp.1.1
    · cases hs
  all_goals
    simp only [stepLive] at hs
    repeat' split at hs
    all_goals first
      | (cases hs; done)
      | (cases hs
         refine ⟨fun hc => ?_, fun hc => ?_, fun hc => ?_, fun hp => ?_⟩ <;> simp_all)
end GscribModel.DirectWriteTie

/-- In every reachable state: past `waitOnline` printcore is online, and while `connect()` has not started the job or after it
    has returned nothing is printing - the hypotheses `online = true`, `printing = false` of the caller theorems above. -/
theorem DirectWriteTie_phase_inv (acts : List Act) (s : St) (hr : run {} acts = some s) : PhaseInv s := by
  have gen : ∀ (acts : List Act) (s0 s : St), PhaseInv s0 → run s0 acts = some s → PhaseInv s := by
    intro acts
    induction acts with
    | nil => intro s0 s h hr; simp only [run] at hr; cases hr; exact h
    | cons a as ih =>
      intro s0 s h hr
      simp only [run] at hr
      cases hst : step s0 a with
      | none => simp [hst] at hr
      | some s1 =>
        simp only [hst, Option.bind_some] at hr
        have h1 : stepLive s0 a = some s1 := by
          simp only [step] at hst; split at hst
          · cases hst
          · exact hst
        exact ih s1 s (phaseInv_stepLive a h h1) hr
  exact gen acts {} s (by simp [PhaseInv]) hr

/-! ## concrete evaluations of the translated functions (non-vacuity) -/
section examples
/-- a writer whose device is online and idle -/
def exW : Writer :=
  { Writer.init with _device := some { PC.init with printer := true, online := true, clear := true, mainqueue := some [] }, _online_event := true,
                     _ack_event := true }

-- `write(b" G1 X1\n")`, first section: the stale flag is cleared, the stripped statement queued, the caller goes on to wait
example : (write_0 exW " G1 X1\n".toList).2 = .cont
    ∧ ((write_0 exW " G1 X1\n".toList).1._ack_event, (Dev.obj (write_0 exW " G1 X1\n".toList).1._device).priqueue) = (false, ["G1 X1".toList]) := by
  decide +kernel
-- second section: blocked until a line sets the flag; an `error` line stored meanwhile is raised, and taken out
example : (write_1 (write_0 exW "G1".toList).1).2 = .blocked := by decide +kernel
example :
    let w := onMessage (write_0 exW "G1".toList).1 [] [] "Error: cold extrusion".toList
    (w._ack_event, w._device_error.isSome, (write_1 w).2, (write_1 w).1._device_error) = (true, true, .raised .deviceError, none) := by
  decide +kernel
-- printcore offline: `send` only logs an error; the callback stores it and sets the flag, `write()` raises at once
example :
    let w := (write_0 { exW with _device := some { PC.init with printer := true, online := true } } "G1".toList).1
    let w' := (_send_statement { w with _device := some { PC.init with printer := true } } "G1".toList).1
    (w'._ack_event, w'._device_error) = (true, some (.deviceError "Not connected to printer.".toList)) := by decide +kernel
-- the end of the empty start-up job: `M110 N-1` goes on the wire and `clear` stays down until it is acknowledged
example :
    let d : PC := { PC.init with printer := true, online := true, printing := true, clear := true, mainqueue := some [] }
    ((printcore._sendnext d).1.wire, (printcore._sendnext d).1.clear, (printcore._sendnext d).1.printing, (printcore._sendnext d).2)
      = (["M110 N-1".toList], false, false, .done) := by decide +kernel
-- `disconnect()` waits while a command is queued, and tears the device down once nothing is pending
example : (disconnect (write_0 exW "G1".toList).1 true).2 = .blocked ∧ (disconnect exW true) = (torn exW, .done) := by decide +kernel
end examples

import GscribModel.Lemmas.Writers
/-! # C14 — every writer receives every line, once, in order, byte for byte

Property theorems only (helper lemmas: `Lemmas/Writers.lean`; model: `Model/Writers.lean`, a
transcription of `GCodeCore.add_writer/remove_writer/write/flush/teardown`, `FileWriter`,
`ConsoleWriter` and a recording `BaseWriter`).  A *history* is any list of operations
`add i | remove i | write line | flush | teardown | disc i` (`disc` = the owner calls
`w_i.disconnect()` itself, as the repository's `test_write_after_disconnect` does), started from a
builder without writers and unused writer objects of arbitrary kinds (`St.init cfg`).

UTF-8 is modelled explicitly (`utf8`, `utf8Decode`), not taken as a parameter.
Not modelled: OS / `io.Buffered*` buffering below the `dirty` flag (what a reader of the file sees
is claimed only when `dirty = false`); text streams whose own encoding is not UTF-8. -/
open GscribModel.Writers

/-- **Registration list**: for every history the list of writers holds no writer twice. -/
theorem C14_no_duplicates (s : St) (ops : List Op) (h : s.reg.Nodup) : (run s ops).reg.Nodup :=
  run_nodup ops s h

/-- **Who is registered**: after any history, writer `w` is in the list iff the last of
    `add w` / `remove w` / `teardown` in the history is an `add w`. -/
theorem C14_registered (cfg : Nat → Kind × Bool) (ops : List Op) (w : Nat) :
    w ∈ (run (St.init cfg) ops).reg ↔ regAfter w false ops = true := by
  have h := (run_ws ops (St.init cfg) w (by simp [St.init])).2
  have h0 : decide (w ∈ (St.init cfg).reg) = false := by simp [St.init]
  rw [h0] at h
  rw [← h]; exact decide_eq_true_iff.symm

/-- **One `write`**: every writer registered at that moment receives one more byte string, the
    same for all of them, namely the UTF-8 encoding of the line; no other writer object changes;
    a line that cannot be encoded reaches nobody. -/
theorem C14_same_bytes (s : St) (l : Line) :
    (validLine l = true →
      (∀ w ∈ s.reg, ((step s (.write l)).ws w).recv = (s.ws w).recv ++ [utf8 l])
      ∧ (∀ w, w ∉ s.reg → (step s (.write l)).ws w = s.ws w)
      ∧ (step s (.write l)).reg = s.reg)
    ∧ (validLine l = false → (step s (.write l)).reg = s.reg ∧ ∀ w, (step s (.write l)).ws w = s.ws w) := by
  constructor
  · intro hv
    refine ⟨fun w hw => ?_, fun w hw => ?_, by simp [step, hv]⟩
    · rw [step_ws]; simp [wStep, hw, hv, write_recv]
    · rw [step_ws]; simp [wStep, hw]
  · intro hv
    simp [step, hv]

/-- **Delivery, all histories**: what a writer has received is exactly the UTF-8 encodings of the
    lines written while it was registered, in call order, each exactly once (`written` lists one
    entry per `write` operation that happened while `w` was registered). -/
theorem C14_delivery (cfg : Nat → Kind × Bool) (ops : List Op) (w : Nat) :
    ((run (St.init cfg) ops).ws w).recv = (written w false ops).map utf8 := by
  rw [(run_ws ops (St.init cfg) w (by simp [St.init])).1, wRun_recv]
  simp [St.init, fresh]

/-- the same from an arbitrary (duplicate-free) starting state: only appended, never rewritten -/
theorem C14_delivery_from (s : St) (h : s.reg.Nodup) (ops : List Op) (w : Nat) :
    ((run s ops).ws w).recv = (s.ws w).recv ++ (written w (decide (w ∈ s.reg)) ops).map utf8 := by
  rw [(run_ws ops s w h).1, wRun_recv]

/-- **Sessions of a path-based file**: a write to a closed `FileWriter(path)` re-opens the file
    with `"wb+"` and therefore starts a new session that holds only that statement; a write to an
    open one, or to a user-supplied stream (never truncated), extends the current session. -/
theorem C14_session (x : W) (b : Bytes) :
    (x.kind = .path → x.isOpen = false → (x.write b).sess = [b] ∧ (x.write b).data = b)
    ∧ ((x.kind ≠ .path ∨ x.isOpen = true) → (x.write b).sess = x.sess ++ [b])
    ∧ (x.kind ≠ .text → (x.kind ≠ .path ∨ x.isOpen = true) → (x.write b).data = x.data ++ b) := by
  obtain ⟨kind, tty, isOpen, data, text, dirty, closed, discs, recv, sess⟩ := x
  cases kind <;> cases isOpen <;> simp [W.write, W.connect]

/-- **File content, all histories**: at every moment a file / binary stream / recorder has been
    given exactly the concatenation of its session's statements, a text stream exactly their
    decoded text; the session is a suffix of everything received, and all of it for a
    user-supplied stream or a recorder; a writer that is not connected has left nothing unflushed; a stream behind a
    terminal (or a `ConsoleWriter`) never has; a stream the writer did not open is never closed. -/
theorem C14_content_invariant (cfg : Nat → Kind × Bool) (ops : List Op) (w : Nat) :
    let x := (run (St.init cfg) ops).ws w
    (x.kind ≠ .text → x.data = x.sess.flatten)
    ∧ (x.kind = .text → x.text = x.sess.flatMap decoded)
    ∧ (∃ pre, x.recv = pre ++ x.sess)
    ∧ (x.kind ≠ .path → x.sess = x.recv)
    ∧ (x.isOpen = false → x.dirty = false)
    ∧ (x.tty = true → x.kind ≠ .path → x.dirty = false)
    ∧ (x.kind ≠ .path → x.closed = false) := by
  obtain ⟨h1, h2, h3, h4, h5, h6, _, h8⟩ := (run_init cfg ops w).1
  exact ⟨h1, h2, h3, h4, h5, h8, h6⟩

/-- **After `flush()` or `teardown()`**, for a file writer *registered at that moment*:
    a path-based file has nothing unflushed and holds exactly its session's statements (after
    `teardown` it is closed as well); a user-supplied stream holds everything written while the
    writer was registered — as bytes for a binary stream, as the original text for a text stream —
    and has nothing unflushed either: `flush()` flushes whatever object the writer is connected to,
    `teardown()` flushes a caller's object before detaching it (and leaves it open for its owner). -/
theorem C14_file_content (cfg : Nat → Kind × Bool) (ops : List Op) (w : Nat) (op : Op)
    (hop : op = .flush ∨ op = .teardown) (hreg : w ∈ (run (St.init cfg) ops).reg) :
    let x := (run (St.init cfg) (ops ++ [op])).ws w
    (x.kind = .path → x.dirty = false ∧ x.data = x.sess.flatten ∧ (op = .teardown → x.isOpen = false))
    ∧ (x.kind = .binary → x.data = ((written w false ops).map utf8).flatten)
    ∧ (x.kind = .text → x.text = (written w false ops).flatten)
    ∧ (x.dirty = false)
    ∧ (op = .teardown → x.isOpen = false) := by
  intro x
  have hinv : SInv x := (run_init cfg (ops ++ [op]) w).1
  have hrecv : x.recv = (written w false ops).map utf8 := by
    have h1 := C14_delivery cfg (ops ++ [op]) w
    have h2 : ((run (St.init cfg) (ops ++ [op])).ws w).recv = ((run (St.init cfg) ops).ws w).recv := by
      rw [run_append, step_ws, wStep_recv]
      rcases hop with rfl | rfl <;> simp [emitted]
    show ((run (St.init cfg) (ops ++ [op])).ws w).recv = _
    rw [h2, C14_delivery]
  have hx : x = wStep w true op ((run (St.init cfg) ops).ws w) := by
    show (run (St.init cfg) (ops ++ [op])).ws w = _
    rw [run_append, step_ws]; simp [hreg]
  have hprev := (run_init cfg ops w).1
  generalize (run (St.init cfg) ops).ws w = y at hx hprev
  clear_value x
  refine ⟨fun hk => ⟨?_, hinv.data_eq (by rw [hk]; simp), ?_⟩, fun hk => ?_, fun hk => ?_, ?_, fun hf => ?_⟩
  · -- path: clean after flush / teardown
    obtain ⟨kind, tty, isOpen, data, text, dirty, closed, discs, recv, sess⟩ := y
    have hc := hprev.closedClean
    rcases hop with rfl | rfl <;> subst hx <;> cases kind <;> cases isOpen <;>
      simp_all [wStep, W.flush, W.disconnect]
  · intro ht; subst ht
    obtain ⟨kind, tty, isOpen, data, text, dirty, closed, discs, recv, sess⟩ := y
    subst hx; cases kind <;> cases isOpen <;> simp_all [wStep, W.disconnect]
  · rw [hinv.data_eq (by rw [hk]; simp), hinv.stream (by rw [hk]; simp), hrecv]
  · rw [hinv.text_eq hk, hinv.stream (by rw [hk]; simp), hrecv]
    exact flatMap_decoded_utf8 _ (written_valid w ops false)
  · obtain ⟨kind, tty, isOpen, data, text, dirty, closed, discs, recv, sess⟩ := y
    have hc := hprev.closedClean
    have hcu := hprev.custom
    rcases hop with rfl | rfl <;> subst hx <;> cases kind <;> cases isOpen <;>
      simp_all [wStep, W.flush, W.disconnect]
  · subst hf
    obtain ⟨kind, tty, isOpen, data, text, dirty, closed, discs, recv, sess⟩ := y
    subst hx; cases kind <;> cases isOpen <;> simp_all [wStep, W.disconnect]

/-- **`bytes(line, "utf-8").decode("utf-8") == line`** for every line that can be encoded — what
    makes the text-stream clause above meaningful. -/
theorem C14_utf8_roundtrip (l : Line) (h : validLine l = true) : utf8Decode (utf8 l) = some l :=
  utf8Decode_utf8 l h

/-- **Teardown**: the list is empty afterwards; every writer that was registered has been asked to
    disconnect exactly once more and is no longer open; a path-based file it had opened is closed
    and flushed; a file object provided by the caller is flushed and not closed; writers that were
    not registered are not touched. -/
theorem C14_teardown (s : St) :
    (step s .teardown).reg = []
    ∧ (∀ w ∈ s.reg,
        let x := (step s .teardown).ws w
        x.isOpen = false ∧ x.discs = (s.ws w).discs + 1
        ∧ (x.kind = .path → (s.ws w).isOpen = true → x.closed = true ∧ x.dirty = false)
        ∧ (x.kind ≠ .path → x.closed = (s.ws w).closed)
        ∧ (x.kind ≠ .custom → (s.ws w).isOpen = true → x.dirty = false)
        ∧ x.data = (s.ws w).data ∧ x.text = (s.ws w).text)
    ∧ (∀ w, w ∉ s.reg → (step s .teardown).ws w = s.ws w) := by
  refine ⟨rfl, fun w hw => ?_, fun w hw => ?_⟩
  · simp only [step, hw, if_true]
    generalize s.ws w = y
    obtain ⟨kind, tty, isOpen, data, text, dirty, closed, discs, recv, sess⟩ := y
    cases kind <;> cases isOpen <;> simp [W.disconnect]
  · simp [step, hw]

/-- teardown at the end of any history: nobody is registered any more -/
theorem C14_teardown_run (s : St) (ops : List Op) : (run s (ops ++ [.teardown])).reg = [] := by
  rw [run_append]; rfl

/-! Non-vacuity: a concrete history over a path file (0), a text stream (1) and a recorder (2) with a
    non-ASCII line (`é` = U+00E9), a removal, a teardown and a re-open of the path file. -/
def demoCfg : Nat → Kind × Bool := fun i => if i = 0 then (.path, false) else if i = 1 then (.text, false) else (.custom, false)
def demoOps : List Op :=
  [.add 0, .add 1, .add 1, .add 2, .write [71, 233, 10], .remove 1, .write [77, 10], .flush,
   .teardown, .add 0, .write [0x20AC, 10]]

example : (run (St.init demoCfg) demoOps).reg = [0] := by decide
example : ((run (St.init demoCfg) demoOps).ws 0).data = [0xE2, 0x82, 0xAC, 10] := by decide
example : ((run (St.init demoCfg) demoOps).ws 1).text = [71, 233, 10] := by decide
example : ((run (St.init demoCfg) demoOps).ws 2).recv = [[71, 0xC3, 0xA9, 10], [77, 10]] := by decide
example : written 1 false demoOps = [[71, 233, 10]] := by decide
example : utf8Decode (utf8 [71, 233, 0x20AC, 0x1F600, 10]) = some [71, 233, 0x20AC, 0x1F600, 10] := by decide

import GscribModel.Lemmas.Report
/-! # C18 — device reports are parsed into the readings the caller asks for

Property theorems only (helper lemmas: `Lemmas/Report.lean`; model: `Model/Report.lean`, a
transcription of `VALUE_PATTERN`, `_parse_message`, `_update_param`, `_on_device_message`,
`get_parameter` of `gscrib/writers/printrun_writer.py` as repaired: a message that starts with `ok`
is parsed before it is acknowledged).

An abstract `Report` is a list of tokens in any order — single-letter readings `X:1.00`, position
groups `MPos:/WPos:/PRB:x,y,z[:1]`, `FS:f,s`, ignored multi-letter fields (`WCO:…`, `T0:…`, `Bf:…`) and
*arbitrary* noise text in which the pattern finds nothing (`Count`, `/210.0`, `@:127`, `Idle`) —
separated by one separator character, optionally wrapped in `<…>` / `[…]`, optionally preceded by
`ok`, padded with blanks.  The Marlin position and temperature reports and the Grbl status and
probe reports are instances.  `Report.wf` is the executable well-formedness check (the harness
asserts it for every generated report): decimals have a digit, single-letter keys are not
lower-case, the line starts with `<` exactly when it is a status report, with `ok` exactly when
flagged, and not with `error`/`alarm`/`!!`.

Trusted, not proved: that the automaton `scan` equals Python's `VALUE_PATTERN.findall` (validated on
>= 10^5 adversarial strings per run by the harness) and that `float()` of a decimal text is the
double nearest to the rational `Dec.value`. -/
open GscribModel.Report

/-- **Scanner on a report**: in a rendered report the pattern finds exactly the fields of the
    report, in order — nothing inside noise, nothing spanning two tokens. -/
theorem C18_scan_report (r : Report) (h : r.wf = true) :
    scan r.body = r.toks.flatMap Tok.matches := by
  simp only [Report.wf, Bool.and_eq_true, List.all_eq_true] at h
  obtain ⟨⟨⟨⟨⟨⟨⟨⟨⟨⟨htoks, hsep⟩, hop⟩, hcl⟩, _⟩, _⟩, _⟩, _⟩, _⟩, _⟩, _⟩ := h
  have hj := run_joinToks r.sep hsep r.toks htoks r.closer.toList (opt_sepStart r.closer hcl)
  have hc : run .idle r.closer.toList = [] := by
    have := run_idle_optsep r.closer hcl []
    simpa [run, finish] using this
  unfold scan Report.body
  cases hok : r.ok with
  | false =>
    simp only [Bool.false_eq_true, if_false, List.nil_append, List.append_assoc]
    rw [run_idle_optsep r.opener hop, hj, hc]; simp
  | true =>
    simp only [if_true, List.append_assoc, List.cons_append, List.nil_append]
    have hpre : ∀ rest, run .idle ('o' :: 'k' :: ' ' :: rest) = run .idle rest := by
      intro rest; simp [run, feed, feedIdle, isAlnum]
    rw [hpre, run_idle_optsep r.opener hop, hj, hc]; simp

/-- what `_on_device_message` does with a rendered report: the line is stripped to its body, parsed
    (whether or not it starts with `ok`) and the readings announced by the tokens are applied in
    order through `_update_param`; it is acknowledged exactly when it starts with `ok`; no error is
    raised -/
theorem C18_deliver_report (r : Report) (h : r.wf = true) (s : St) :
    onDeviceMessage s r.render =
      { s with params := (applyPairs { params := s.params, reported := [] } r.mentions).params,
               acked := s.acked || r.ok } := by
  have hscan := C18_scan_report r h
  simp only [Report.wf, Bool.and_eq_true, List.all_eq_true, beq_iff_eq, Bool.not_eq_true'] at h
  obtain ⟨⟨⟨⟨⟨⟨⟨⟨⟨⟨htoks, _⟩, _⟩, _⟩, hlead⟩, htrail⟩, hhead⟩, hlast⟩, hstat⟩, hokp⟩, herr⟩ := h
  have hstrip : strip r.render = r.body := by
    unfold Report.render
    apply strip_padding _ _ _ hlead htrail
    · cases hb : r.body.head? with
      | none => simp [hb] at hhead
      | some c => exact ⟨c, rfl, by simpa [hb] using hhead⟩
    · cases hb : r.body.getLast? with
      | none => simp [hb] at hlast
      | some c => exact ⟨c, rfl, by simpa [hb] using hlast⟩
  have hparse : (parseMessage r.body s.params) = applyPairs { params := s.params, reported := [] } r.mentions := by
    unfold parseMessage Report.mentions
    rw [hscan, hstat]
    exact toks_apply r.toks htoks r.status _
  unfold onDeviceMessage
  simp only [hstrip, hokp, herr, hparse]
  cases hok : r.ok <;> simp

/-- **First occurrence wins**: for every well-formed report `r` of the families, every prior reading
    table (`s`) and every letter `L` (either case — `get_parameter` is case-insensitive),
    `get_parameter(L)` after delivering the rendered report is the first value `r` gives for `L`
    (`MPos`/`WPos`/`PRB` give X, Y, Z, A, B, C in that order; `FS` gives F, S only in a `<…>` status
    report), and the earlier reading when `r` does not mention `L` — with or without a leading `ok`. -/
theorem C18_first_wins (r : Report) (h : r.wf = true) (s : St) (L : Char) :
    (onDeviceMessage s r.render).params.get L =
      match r.firstValue L.toUpper with
      | some v => some v
      | none => s.params.get L := by
  rw [C18_deliver_report r h s]
  simp only [Table.get, Report.firstValue]
  have hup : ∀ p ∈ r.mentions, p.1.toUpper = p.1 := by
    intro p hp
    simp only [Report.wf, Bool.and_eq_true, List.all_eq_true] at h
    obtain ⟨t, ht, hpt⟩ := List.mem_flatMap.mp hp
    exact mentions_upper t (h.1.1.1.1.1.1.1.1.1.1 t ht) _ p hpt
  have := applyPairs_lookup r.mentions hup { params := s.params, reported := [] } L.toUpper
  simp only [List.not_mem_nil, if_false] at this
  exact this

/-- a well-formed report never raises a device error and is acknowledged iff it starts with `ok` -/
theorem C18_report_ack (r : Report) (h : r.wf = true) (s : St) :
    (onDeviceMessage s r.render).acked = (s.acked || r.ok) ∧ (onDeviceMessage s r.render).error = s.error := by
  rw [C18_deliver_report r h s]; exact ⟨rfl, rfl⟩

/-- the reading of `L` after a sequence of reports, given the reading before: the first value of the
    last report that mentions `L` -/
def readAfter (old : Option Rat) (rs : List Report) (L : Char) : Option Rat :=
  rs.foldl (fun acc r => match r.firstValue L with | some v => some v | none => acc) old

/-- **Sequences of reports**: after any sequence of well-formed reports, `get_parameter(L)` is the
    first value of `L` in the last report that mentions it, else the reading held before. -/
theorem C18_sequence (rs : List Report) (h : ∀ r ∈ rs, r.wf = true) : ∀ (s : St) (L : Char),
    (deliver s (rs.map Report.render)).params.get L = readAfter (s.params.get L) rs L.toUpper := by
  induction rs with
  | nil => intro s L; simp [deliver, readAfter]
  | cons r rs ih =>
    intro s L
    have h1 := C18_first_wins r (h r (by simp)) s L
    have h2 := ih (fun x hx => h x (by simp [hx])) (onDeviceMessage s r.render) L
    simp only [deliver, List.map_cons, List.foldl_cons, readAfter] at h2 ⊢
    rw [h2, h1]

/-- **Dispatch**: an `error…` / `alarm…` / `!!…` line (any case, after stripping) that does not start
    with `ok` changes no reading; it records the error and releases the waiting writer. -/
theorem C18_error_keeps (s : St) (raw : Str) (hok : okPrefix (lower (strip raw)) = false)
    (he : errPrefix (lower (strip raw)) = true) :
    onDeviceMessage s raw = { s with error := some (strip raw), acked := true } := by
  simp [onDeviceMessage, hok, he]

/-- **Dispatch**: every other line is parsed; only a line starting with `ok` acknowledges. -/
theorem C18_dispatch_parse (s : St) (raw : Str) (he : okPrefix (lower (strip raw)) = true ∨ errPrefix (lower (strip raw)) = false) :
    (onDeviceMessage s raw).params = (parseMessage (strip raw) s.params).params
    ∧ (onDeviceMessage s raw).acked = (s.acked || okPrefix (lower (strip raw)))
    ∧ (onDeviceMessage s raw).error = s.error := by
  unfold onDeviceMessage
  cases hok : okPrefix (lower (strip raw)) with
  | true => simp [hok]
  | false =>
    have : errPrefix (lower (strip raw)) = false := by simpa [hok] using he
    simp [hok, this]

/-! ### Non-vacuity: the four families, concretely -/

private def dec (neg : Bool) (ip : List (Fin 10)) (fp : List (Fin 10)) : Dec := ⟨neg, ip, some fp⟩
private def int (ip : List (Fin 10)) : Dec := ⟨false, ip, none⟩

/-- Marlin `M114`: `X:1.00 Y:-2.50 Z:3.00 E:0.00 Count X:80 Y:-200 Z:1200` + newline -/
def marlinPos : Report :=
  { toks := [.letter 'X' (dec false [1] [0, 0]), .letter 'Y' (dec true [2] [5, 0]), .letter 'Z' (dec false [3] [0, 0]),
             .letter 'E' (dec false [0] [0, 0]), .noise "Count".toList, .letter 'X' (int [8, 0]),
             .letter 'Y' ⟨true, [2, 0, 0], none⟩, .letter 'Z' (int [1, 2, 0, 0])],
    trail := ['\n'] }

/-- Marlin `M105` answer with the acknowledgement on the same line: `ok T:210.5 /210.0 B:60.1 /60.0 @:127 B@:0` -/
def marlinTemp : Report :=
  { ok := true,
    toks := [.letter 'T' (dec false [2, 1, 0] [5]), .noise "/210.0".toList, .letter 'B' (dec false [6, 0] [1]),
             .noise "/60.0".toList, .noise "@:127".toList, .noise "B@:0".toList] }

/-- Grbl status: `<Idle|MPos:1.000,2.000,-3.000|FS:500,8000|WCO:0,0,0>` -/
def grblStatus : Report :=
  { opener := some '<', sep := '|', closer := some '>',
    toks := [.noise "Idle".toList, .pos .mpos [dec false [1] [0, 0, 0], dec false [2] [0, 0, 0], dec true [3] [0, 0, 0]] none,
             .fs (int [5, 0, 0]) (int [8, 0, 0, 0]), .other "WCO".toList [int [0], int [0], int [0]]] }

/-- Grbl probe: `[PRB:1.5,2.5,-3.5:1]` -/
def grblProbe : Report :=
  { opener := some '[', sep := '|', closer := some ']',
    toks := [.pos .prb [dec false [1] [5], dec false [2] [5], dec true [3] [5]] (some true)] }

example : marlinPos.wf = true ∧ marlinTemp.wf = true ∧ grblStatus.wf = true ∧ grblProbe.wf = true := by decide
example : String.ofList marlinPos.render = "X:1.00 Y:-2.50 Z:3.00 E:0.00 Count X:80 Y:-200 Z:1200\n" := by decide
example : String.ofList marlinTemp.render = "ok T:210.5 /210.0 B:60.1 /60.0 @:127 B@:0" := by decide
example : String.ofList grblStatus.render = "<Idle|MPos:1.000,2.000,-3.000|FS:500,8000|WCO:0,0,0>" := by decide
example : String.ofList grblProbe.render = "[PRB:1.5,2.5,-3.5:1]" := by decide
example : marlinPos.firstValue 'X' = some 1 ∧ marlinPos.firstValue 'Y' = some (-5/2) ∧ marlinPos.firstValue 'T' = none := by decide +kernel
example : marlinTemp.firstValue 'T' = some (421/2) ∧ grblStatus.firstValue 'S' = some 8000
    ∧ grblProbe.firstValue 'Z' = some (-7/2) := by decide +kernel
example : ((deliver {} [marlinTemp.render, marlinPos.render, grblProbe.render]).params.get 'x') = some (3/2) := by decide +kernel

/-! ### Non-vacuity: error words that are not at the start of the line

The dispatch looks for `error` / `alarm` / `!!` only at the START of the stripped line.  A Grbl status
report in the Alarm state, a `[MSG:…]` line or a Marlin `echo:` line that merely contains such a word
is a well-formed report (the word is noise for the pattern): the theorems above apply to it.  The same
tokens behind an error prefix are an error line (`C18_error_keeps`). -/

/-- Grbl status in the Alarm state: `<Alarm|MPos:1.000,2.000,-3.000|FS:0,0|error>` -/
def grblAlarm : Report :=
  { opener := some '<', sep := '|', closer := some '>',
    toks := [.noise "Alarm".toList, .pos .mpos [dec false [1] [0, 0, 0], dec false [2] [0, 0, 0], dec true [3] [0, 0, 0]] none,
             .fs (int [0]) (int [0]), .noise "error".toList] }

/-- Grbl status in a state with a sub-state: `<Door:1|WPos:1.5,2.5,-3.5|FS:500,8000>` -/
def grblDoor : Report :=
  { opener := some '<', sep := '|', closer := some '>',
    toks := [.other "Door".toList [int [1]], .pos .wpos [dec false [1] [5], dec false [2] [5], dec true [3] [5]] none,
             .fs (int [5, 0, 0]) (int [8, 0, 0, 0])] }

/-- `[MSG:Reset to continue after ALARM]` followed by nothing: a report without readings -/
def grblMsg : Report :=
  { opener := some '[', closer := some ']', toks := [.noise "MSG:Reset to continue after ALARM".toList] }

/-- Marlin: `echo:Error checking disabled !! T:20.5` -/
def marlinEcho : Report :=
  { toks := [.noise "echo:Error checking disabled !!".toList, .letter 'T' (dec false [2, 0] [5])] }

example : grblAlarm.wf = true ∧ grblDoor.wf = true ∧ grblMsg.wf = true ∧ marlinEcho.wf = true := by decide
example : String.ofList grblAlarm.render = "<Alarm|MPos:1.000,2.000,-3.000|FS:0,0|error>" := by decide
example : grblAlarm.firstValue 'Z' = some (-3) ∧ grblAlarm.firstValue 'S' = some 0 ∧ grblDoor.firstValue 'F' = some 500
    ∧ grblMsg.mentions = [] ∧ marlinEcho.firstValue 'T' = some (41/2) := by decide +kernel
example : ((deliver {} [grblStatus.render, grblAlarm.render]).params.get 'f') = some 0
    ∧ (deliver {} [grblStatus.render, grblAlarm.render]).error = none := by decide +kernel
/-- the same fields behind the word at the start of the line are an error line: nothing is read -/
example : (onDeviceMessage {} "Alarm|MPos:1.000,2.000,-3.000|FS:0,0>".toList).params.get 'X' = none
    ∧ (onDeviceMessage {} " ALARM:1 <Idle|MPos:1,2,3>\n".toList).error = some "ALARM:1 <Idle|MPos:1,2,3>".toList := by decide +kernel

/-- Boundary of the families (documented, not a theorem about reports): the first-occurrence
    bookkeeping of the code is case-sensitive while the table is not, so a line that names the same
    letter in both cases (`x:1 X:2`, not produced by Marlin or Grbl) reads the *last* of them. -/
example : ((onDeviceMessage {} "x:1 X:2".toList).params.get 'X') = some 2 := by decide +kernel

import GscribModel.Lemmas.Format
/-! # C08 — every emitted line is one well-formed block with faithful numbers

Property theorems only (helper lemmas: `Lemmas/Format.lean`; model: `Model/Format.lean`, a
transcription of `DefaultFormatter.number/parameters/command/comment/line` and of the ways
`GCodeCore`/`GCodeBuilder` assemble a statement).

Readers used in the statements are written independently of the printers:
`parseDecimal` (digit parser), `isPlainDecimal` (the grammar `-?[0-9]+(\.[0-9]+)?`),
`lexLine` (block grammar: `word* comment? eol`).

Trusted parameter (not verified here): numpy's digit generation.  `fmtNumber` is its specification
inside the range `ulp(x) ≤ 10^-dp` (exact round-half-even at `dp` digits); outside that range numpy
may print the shortest digits identifying the double — that branch is only checked by the
correspondence run (relaxed relation, see `harness/c08.py`). -/
open GscribModel.Format

/-- **Numbers are faithful**: the *printed string*, read back by an independent digit parser, is
    within half a unit of the last configured decimal place of the requested value — for every
    rational `q` (hence every finite double, int, numpy scalar) and every `dp`. -/
theorem C08_number_error (dp : Nat) (q : ℚ) :
    ∃ v, parseDecimal (fmtNumber dp q) = some v ∧ |v - q| ≤ (1/2) / 10 ^ dp := by
  obtain ⟨neg, ip, fr, hne, hi, hf, hshape, hval⟩ := fmtNumber_shape dp q
  refine ⟨printedValue dp q, ?_, printedValue_err dp q⟩
  rw [hshape, parseDecimal_decStr neg ip fr hne hi hf, hval]

/-- **Numbers are plain signed decimals**: the output matches `-?[0-9]+(\.[0-9]+)?`
    (no exponent, no `nan`, no `inf`, no bare point). -/
theorem C08_number_grammar (dp : Nat) (q : ℚ) : isPlainDecimal (fmtNumber dp q) = true := by
  obtain ⟨neg, ip, fr, hne, hi, hf, hshape, _⟩ := fmtNumber_shape dp q
  rw [hshape]; exact isPlainDecimal_decStr neg ip fr hne hi hf

/-- **Large-magnitude branch (partial).**  With numpy's shortest-digit text as a trusted parameter
    (`fmtNumberU`), the output is still a plain signed decimal, and it is either the exact
    half-even rounding (for which `C08_number_error` holds) or the supplied shortest-digit text
    with at most `dp` fraction digits.
    *Missing for the full statement*: that this text reads back (IEEE round-to-nearest) to the very
    binary value requested, and that both branches coincide when `ulp(x) ≤ 10^-dp` — numpy's /
    CPython's digit generation is trusted, not verified; both facts are checked on every sample of the
    correspondence run. -/
theorem C08_number_partial (dp : Nat) (q : ℚ) (short : Option Str) :
    isPlainDecimal (fmtNumberU dp q short) = true
    ∧ (fmtNumberU dp q short = fmtNumber dp q
       ∨ ∃ s, short = some s ∧ fmtNumberU dp q short = s ∧ fracLen s ≤ dp) := by
  unfold fmtNumberU
  by_cases h0 : q = 0
  · simp only [h0, if_true]
    exact ⟨by decide, Or.inl (by simp [fmtNumber])⟩
  · simp only [h0, if_false]
    cases short with
    | none => exact ⟨C08_number_grammar dp q, Or.inl rfl⟩
    | some s =>
      simp only
      split
      · rename_i hc
        simp only [Bool.and_eq_true, decide_eq_true_eq] at hc
        exact ⟨hc.1, Or.inr ⟨s, rfl, rfl, hc.2⟩⟩
      · exact ⟨C08_number_grammar dp q, Or.inl rfl⟩

/-- **Non-finite values are rejected**: `nan`, `+inf`, `-inf` give `ValueError`; nothing is rendered. -/
theorem C08_nonfinite (dp : Nat) (v : Val) (h : (∀ q, v ≠ .fin q)) (short : Option Str) :
    fmtVal dp v = .error .valueError ∧ fmtValU dp v short = .error .valueError := by
  cases v with
  | fin q => exact absurd rfl (h q)
  | nan => exact ⟨rfl, rfl⟩
  | pinf => exact ⟨rfl, rfl⟩
  | ninf => exact ⟨rfl, rfl⟩

/-- … and a statement carrying such a value is not written at all: `parameters` fails, hence every
    statement form that formats these parameters fails (no partial line). -/
theorem C08_nonfinite_stmt (cfg : Cfg) (ps : Params) (l : Str) (v : Val) (hv : ∀ q, v ≠ .fin q)
    (hm : (l, PVal.num v) ∈ orderedParams cfg ps) (code desc : Str) (cm : Option Str) :
    parameters cfg ps = .error .valueError
    ∧ renderLine cfg (.bare ps) = .error .valueError
    ∧ renderLine cfg (.pre ps code desc) = .error .valueError
    ∧ renderLine cfg (.cmd code (some ps) cm) = .error .valueError
    ∧ renderLine cfg (.table code (some ps) cm desc) = .error .valueError := by
  have hp : parameters cfg ps = .error .valueError := by
    cases hpar : parameters cfg ps with
    | error e => cases e; rfl
    | ok s =>
      exfalso
      obtain ⟨ws, hws, _⟩ := parameters_ok hpar
      unfold paramWordsOf at hws
      have : ∀ (xs : List (Str × PVal)) (ws : List Word), mapO (pword cfg.dp) xs = some ws →
          (l, PVal.num v) ∈ xs → False := by
        intro xs
        induction xs with
        | nil => intro _ _ hmem; simp at hmem
        | cons x xs ih =>
          intro ws h hmem
          simp only [mapO] at h
          split at h
          · rename_i b bs hb hbs
            simp only [List.mem_cons] at hmem
            rcases hmem with rfl | hmem
            · cases v with
              | fin q => exact hv q rfl
              | nan => simp [pword] at hb
              | pinf => simp [pword] at hb
              | ninf => simp [pword] at hb
            · exact ih bs hbs hmem
          · simp at h
      exact this _ ws hws hm
  have hne : ∃ p ps', ps = p :: ps' := by
    cases ps with
    | nil => simp [orderedParams, upperParams, axisEntry] at hm
    | cons p ps' => exact ⟨p, ps', rfl⟩
  obtain ⟨p, ps', rfl⟩ := hne
  refine ⟨hp, ?_, ?_, ?_, ?_⟩
  · simp [renderLine, renderStmt, hp]
  · simp [renderLine, renderStmt, hp]
  · simp [renderLine, renderStmt, command, hp]
  · simp [renderLine, renderStmt, getStatement, command, hp]

/-- **One statement = one well-formed block.**  For every formatter configuration with a supported
    comment style (`StyleOK`) and a line ending made of CR/LF (`EolOK`), and every statement form the
    builder uses (`Stmt`: `format.command`, `_get_statement`, `S… M03`, `T01 M06`, bare `F…`, comment
    line) whose words are `label + plain decimal` (`stmtWords`/`WordOK`: numeric parameters are
    formatted by `fmtNumber`, hence rounded as in `C08_number_error`):
    the line is written, the independent block-grammar lexer reads back exactly these words followed
    by at most one comment — the sanitised, stripped text — and the bytes end with the configured
    line ending exactly once and contain no other line break. -/
theorem C08_line_roundtrip (cfg : Cfg) (s : Stmt) (hs : StyleOK cfg.style)
    (ws : List Word) (hws : stmtWords cfg s = some ws) (hok : ∀ w ∈ ws, WordOK cfg.style w) :
    ∃ out, renderLine cfg s = .ok out
      ∧ lexLine cfg out = some (ws.map Word.pair,
          (stmtCommentText s).map fun t => strip (sanitize cfg.style t))
      ∧ ∃ b, out = b ++ cfg.eol ∧ ∀ c ∈ b, isBreak c = false := by
  obtain ⟨W, hlead, hwords, hW⟩ := lead_of_words hs hws hok
  obtain ⟨hnb, _, hsplit⟩ := line_body hs s hW
  refine ⟨rstrip (W ++ stmtTail cfg s) ++ cfg.eol, ?_, ?_, ⟨_, rfl, hnb⟩⟩
  · simp [renderLine, render_eq_lead, hlead, line]
  · unfold lexLine
    rw [stripEol_line _ _ hnb]
    simp only [hsplit]
    cases ht : stmtCommentText s with
    | none =>
      simp only [Option.map_none]
      rw [words_rstrip W hW.space_blank, hwords, mapO_lexTok ws hok]
    | some t =>
      obtain ⟨_, hw'⟩ := sep_code hs s hW
      simp only [Option.map_some]
      rw [hw', hwords, mapO_lexTok ws hok]

/-- **The numeric words of a statement are the requested values, rounded**: the words `parameters`
    emits are, in its order (axes first, relabelled), `label ++ fmtNumber dp q`, so each reads back
    within half a unit of the last place (`C08_number_error`); string-valued parameters are passed
    through verbatim. -/
theorem C08_word_values (cfg : Cfg) (ps : Params) (ws : List Word) (h : paramWordsOf cfg ps = some ws) :
    List.Forall₂ (fun (x : Str × PVal) (w : Word) => w.label = x.1 ∧
        match x.2 with
        | .num (.fin q) => ∃ v, parseDecimal w.num = some v ∧ |v - q| ≤ (1/2) / 10 ^ cfg.dp
        | .raw t => w.num = t
        | _ => True)
      (orderedParams cfg ps) ws := by
  unfold paramWordsOf at h
  generalize orderedParams cfg ps = xs at h
  induction xs generalizing ws with
  | nil => simp [mapO] at h; subst h; exact .nil
  | cons x xs ih =>
    simp only [mapO] at h
    split at h
    · rename_i b bs hb hbs
      simp only [Option.some.injEq] at h; subst h
      refine .cons ?_ (ih bs hbs)
      obtain ⟨l, v⟩ := x
      cases v with
      | num v =>
        cases v with
        | fin q => simp [pword] at hb; subst hb; exact ⟨rfl, C08_number_error cfg.dp q⟩
        | nan => simp [pword] at hb
        | pinf => simp [pword] at hb
        | ninf => simp [pword] at hb
      | raw t => simp [pword] at hb; subst hb; exact ⟨rfl, rfl⟩
      | none => simp [pword] at hb; subst hb; exact ⟨rfl, trivial⟩
    · simp at h

/-! ## Non-vacuity -/

/-- every style of `COMMENT_OPENINGS/ENDINGS` (multi-character `/* */` and the `{ }` style included)
    and the default `;` style satisfy the hypotheses -/
theorem C08_styles_supported :
    (∀ p ∈ commentPairs, StyleOK (styleOf p.1) ∧ (styleOf p.1).closing = p.2)
    ∧ StyleOK (styleOf [';']) ∧ StyleOK (styleOf ['/', '/']) ∧ StyleOK (styleOf [' ', '#', ' ']) := by
  have mk : ∀ st : Style, st.opening ≠ [] → (∀ c ∈ st.opening, pyIsSpace c = false) →
      (∀ c ∈ st.opening.head?, isLabelChar c = true) → (∀ c ∈ st.closing, pyIsSpace c = false) →
      StyleOK st := fun st a b c d => ⟨a, b, fun x hx => c x (by simp [hx]), d⟩
  refine ⟨?_, ?_, ?_, ?_⟩
  · intro p hp
    simp only [commentPairs, List.mem_cons, List.mem_nil_iff, or_false] at hp
    rcases hp with rfl | rfl | rfl | rfl | rfl | rfl | rfl <;>
      exact ⟨mk _ (by decide) (by decide) (by decide) (by decide), by decide⟩
  all_goals exact mk _ (by decide) (by decide) (by decide) (by decide)

example : EolOK ['\n'] ∧ EolOK ['\r', '\n'] ∧ EolOK ['\r'] := by
  refine ⟨⟨by decide, by decide⟩, ⟨by decide, by decide⟩, ⟨by decide, by decide⟩⟩

/-- a concrete statement meeting the hypotheses of `C08_line_roundtrip`:
    `move(x=1/3, F=-5/2, comment="a )\n b")` under `( … )` comments, CRLF, 3 decimals, X relabelled `A` -/
example :
    stmtWords ⟨3, styleOf ['('], ['\r', '\n'], ['A'], ['Y'], ['Z']⟩
      (.cmd ['G', '1'] (some [(['f'], .num (.fin (-5/2))), (['x'], .num (.fin (1/3)))])
        (some ['a', ' ', ')', '\n', ' ', 'b']))
      = some [⟨['G'], ['1']⟩, ⟨['A'], ['0', '.', '3', '3', '3']⟩, ⟨['F'], ['-', '2', '.', '5']⟩]
    ∧ renderLine ⟨3, styleOf ['('], ['\r', '\n'], ['A'], ['Y'], ['Z']⟩
      (.cmd ['G', '1'] (some [(['f'], .num (.fin (-5/2))), (['x'], .num (.fin (1/3)))])
        (some ['a', ' ', ')', '\n', ' ', 'b']))
      = .ok ['G', '1', ' ', 'A', '0', '.', '3', '3', '3', ' ', 'F', '-', '2', '.', '5', ' ',
             '(', ' ', 'a', ' ', ' ', ' ', ' ', 'b', ' ', ')', '\r', '\n'] := by
  decide +kernel

example : fmtNumber 5 (-1/1000000) = ['-', '0'] ∧ fmtNumber 0 (5/2) = ['2'] ∧ fmtNumber 0 (7/2) = ['4']
    ∧ parseDecimal ['-', '1', '2', '.', '2', '5'] = some (-49/4) ∧ isPlainDecimal ['1', 'e', '5'] = false := by
  decide +kernel

/-- … and its words satisfy `WordOK` under that style -/
example : ∀ w ∈ ([⟨['G'], ['1']⟩, ⟨['A'], ['0', '.', '3', '3', '3']⟩, ⟨['F'], ['-', '2', '.', '5']⟩] : List Word),
    WordOK (styleOf ['(']) w := by
  intro w hw
  simp only [List.mem_cons, List.mem_nil_iff, or_false] at hw
  rcases hw with rfl | rfl | rfl <;> exact ⟨⟨by decide, by decide⟩, by decide⟩

import GscribModel.Model.Builder
/-! # C05 — a rejected command has no effect

`step` returns the builder *as the code leaves it when the exception propagates* and the statements
already written.  Model: `Model/Builder.lean` (tied to /repo by the correspondence run, which compares
the complete observable state after every call, rejected ones included). -/
open GscribModel.Builder

/-- the one call site where the repaired code still writes something before rejecting: an
    absolute-bypass linear move issued in relative mode with hooks registered (the hooks run inside the
    `absolute_mode()` context, after `G90` was written) — known finding C05-absolute-bypass-hook-params -/
def BypassWithHooks (b : B) : Op → Prop
  | .moveAbs rapid _ _ _ => rapid = false ∧ b.rel = true ∧ b.hooks ≠ []
  | _ => False

/-- **Tracked state**: whatever the call, whatever makes it fail (first, middle or last validation
    step, interlock, bad enum, NaN/±inf), the builder is exactly what it was before. -/
theorem C05_reject_state (b : B) (op : Op) (e : Err) (h : (step b op).out = .error e) :
    (step b op).b = b := by
  cases op <;> simp only [step, stepMove, stepMoveAbs, stepSetAxis, stepHome, stepProbe, stepHalt,
    stepSetDist, stepToolOff, stepPowerOff, stepCoolOff, reject, accept] at h ⊢ <;>
    (repeat' split at h) <;> simp_all <;> (repeat' split) <;> simp_all

/-- **Nothing is written** by a rejected call — everywhere except the call site `BypassWithHooks`. -/
theorem C05_reject_silent_partial (b : B) (op : Op) (e : Err) (h : (step b op).out = .error e)
    (hsite : ¬ BypassWithHooks b op) : (step b op).stmts = [] := by
  cases op <;> simp only [step, stepMove, stepMoveAbs, stepSetAxis, stepHome, stepProbe, stepHalt,
    stepSetDist, stepToolOff, stepPowerOff, stepCoolOff, reject, accept, BypassWithHooks] at h hsite ⊢ <;>
    (repeat' split at h) <;> (try simp_all) <;> (repeat' split) <;> (try simp_all [B.okTrack, B.okFeed, B.okPower])

/-- **Later calls behave as if the rejected call had never been made**: any continuation produces the
    same builder and the same output from the state left by the rejected call as from the state before. -/
theorem C05_future (b : B) (op : Op) (e : Err) (h : (step b op).out = .error e) (ops : List Op) :
    run (step b op).b ops = run b ops := by
  rw [C05_reject_state b op e h]

/-- with no hook registered the full property holds for every command -/
theorem C05_reject_noop (b : B) (op : Op) (e : Err) (hh : b.hooks = [])
    (h : (step b op).out = .error e) : (step b op).b = b ∧ (step b op).stmts = [] := by
  refine ⟨C05_reject_state b op e h, C05_reject_silent_partial b op e h ?_⟩
  cases op <;> simp [BypassWithHooks, hh]

/-! The statement "nothing is emitted" at full strength is **false** at the excluded call site; the
    counter-example is replayed on the implementation by every run of the check (known finding). -/
def c05LeakState : B := { rel := true, srel := true, hooks := [.limitF 100], bounds := { feed := some (200, 1000) } }
def c05LeakOp : Op := .moveAbs false { x := some (.fin 1) } [("F", .fin 500)] 0

theorem C05_bypass_hook_leak_witness :
    (step c05LeakState c05LeakOp).out = .error .valueError ∧
    (step c05LeakState c05LeakOp).stmts = [modeStmt false, modeStmt true] := by decide

/-! Non-vacuity: concrete rejected calls at a first, middle and last validation step. -/
example : (step { toolActive := true } (.toolOn .cw (.fin 100))).out = .error .toolState := by decide
example : (step { bounds := { axes := some (⟨0, 0, 0⟩, ⟨10, 10, 10⟩) } } (.move false { x := some (.fin 11) } [] 0)).out
    = .error .valueError := by decide
example : (step {} (.move false { x := some (.fin 1) } [("F", .fin 100), ("S", .fin (-1))] 0)).out
    = .error .valueError := by decide
example : (step {} (.halt .waitBed [("S", .fin 100), ("P", .nan)])).out = .error .valueError := by decide

/-- the history with every rejected call deleted -/
def eraseRejected : B → List Op → List Op
  | _, [] => []
  | b, op :: ops =>
    match (step b op).out with
    | .ok => op :: eraseRejected (step b op).b ops
    | .error _ => eraseRejected b ops

/-- no rejected call of the history sits at the excluded call site -/
def NoLeakSite : B → List Op → Prop
  | _, [] => True
  | b, op :: ops => ((step b op).out ≠ .ok → ¬ BypassWithHooks b op) ∧ NoLeakSite (step b op).b ops

/-- **As if the rejected calls had never been made**: deleting every rejected call from any history
    leaves the final builder unchanged — and, away from the excluded call site, the whole output too. -/
theorem C05_history_erasure (ops : List Op) : ∀ b : B,
    (run b (eraseRejected b ops)).1 = (run b ops).1 ∧
    (NoLeakSite b ops → (run b (eraseRejected b ops)).2 = (run b ops).2) := by
  induction ops with
  | nil => intro b; simp [eraseRejected, run]
  | cons op ops ih =>
    intro b
    cases hout : (step b op).out with
    | ok =>
      obtain ⟨i1, i2⟩ := ih (step b op).b
      simp only [eraseRejected, hout, run]
      exact ⟨i1, fun hn => by rw [i2 hn.2]⟩
    | error e =>
      have hb := C05_reject_state b op e hout
      obtain ⟨i1, i2⟩ := ih b
      simp only [eraseRejected, hout, run, hb]
      refine ⟨i1, fun hn => ?_⟩
      have hs := C05_reject_silent_partial b op e hout (hn.1 (by simp [hout]))
      have hn2 : NoLeakSite b ops := by have := hn.2; rwa [hb] at this
      rw [hs, i2 hn2]; simp

import GscribModel.Gen.WritersSrc
import GscribModel.Lemmas.Writers
/-! # The writers model is the translated `GCodeCore` writer list and `FileWriter` class

`Gen/WritersSrc.lean` is *generated* on every run from the source text of `gscrib/gcode_core.py` (class `GCodeCore`:
`add_writer`, `remove_writer`, `write`, `teardown`, `flush`, `__exit__`), `gscrib/writers/file_writer.py` (class
`FileWriter`: `__init__`, `connect`, `disconnect`, `write`, `flush`) and `gscrib/writers/base_writer.py` by
`tools/gen_writers.py`: one Lean function per method, same order of tests, calls and assignments, Python file objects
behind the small primitives of `Model/WritersPrelude.lean`.  This file ties the hand-written model of property C14
(`Model/Writers.lean`: `W`, `W.connect/.write/.flush/.disconnect`, `St`, `step`) to it.

**Abstraction.**  `absW stale w` is the `FileWriter` object (its three slots and the two file objects they can refer to)
that a model writer `w` of kind `path`/`binary`/`text` stands for; the model's history variables `recv`, `sess`, `discs`
have no counterpart in the object and are forgotten.  One piece of the object is *not* determined by the model:
`_is_terminal` keeps its last value while the writer is disconnected (the source does not reset it in `disconnect`; it is
re-assigned by `connect` before it is read again) - that is the parameter `stale`.  `Agrees w fw := ∃ stale, fw = absW
stale w`; the initial states agree (`WritersTie_file_init`) and every method maps agreeing states to agreeing states
(`WritersTie_file_*`), for **every** model state, byte string and flag.  `absS` does the same for the builder:
`_writers` is `St.reg`, object `i` is `absW _ (St.ws i)` - or the model value itself for a `custom` writer, a
`BaseWriter` subclass that is not in the source (only its inherited `flush` is: `WritersTie_base_flush`).

**Exceptions.**  The model's writer operations are total.  In the translation a file method called on `None`, a
`write` of the wrong type and a `list.remove` of an absent element set a sticky `fault` flag (prelude); `absW` / `absS`
have the flag down, so each theorem also says that no such call happens on the paths it covers (this is what makes the
flush guard, the lazy connect and the membership test of `remove_writer` visible).  `GCodeCore.write` returns the class of
the exception that leaves: `GscribError` exactly when the formatted line cannot be encoded, before any writer is called.

**Hypotheses** (both are invariants of the model, proved as such: `C14_no_duplicates`, `SInv.closedClean`; and
`WritersTie_run`, about whole histories from the initial state, needs neither):
* `s.reg.Nodup` for the three loops - the source *iterates over the list* where the model tests membership; with a
  duplicate in the list the source would call a writer twice (that there is none is exactly the duplicate test of
  `add_writer`, tied by `WritersTie_add_writer`);
* `Clean w`: a path writer that is not open has nothing unflushed - the file object `open("wb+")` returns is new and
  clean, the model keeps the `dirty` flag of the previous session across a reconnect (it is `false` in every
  reachable state).

A change to the source that drops the duplicate / membership test, iterates differently, connects eagerly or not at
all, closes a file it does not own or does not close one it owns, swaps the text and the binary branch, drops a flush
guard or the terminal flush, or opens the path without truncating changes the generated definitions and one of the
theorems below stops checking. -/
set_option linter.unusedSimpArgs false
open GscribModel.Writers GscribModel.WritersPrelude GscribModel.Gen.WritersSrc
namespace GscribModel.WritersTie

/-! ## one `FileWriter` -/

/-- `_output`: a path, or the caller's file object -/
def outOf : Kind → PyVal
  | .path => .str
  | _ => .ref .user

/-- `_file` while connected: the file the writer opened, or the caller's file object (an alias of `_output`) -/
def fileOf : Kind → PyVal
  | .path => .ref .own
  | _ => .ref .user

/-- the file objects: for a path the file of the current / last session; otherwise the caller's stream, which the
    model takes to be open (`closed = False`) and to have `isatty` -/
def heapOf (w : W) : Heap :=
  match w.kind with
  | .path => { own := { data := w.data, dirty := w.dirty, closed := w.closed } }
  | k => { user := { isText := decide (k = .text), tty := w.tty, data := w.data, text := w.text, dirty := w.dirty } }

/-- `_is_terminal` while connected -/
def termOf (w : W) : Bool :=
  match w.kind with
  | .path => false
  | _ => w.tty

/-- the `FileWriter` object a model writer stands for (`stale`: `_is_terminal` while disconnected) -/
def absW (stale : Bool) (w : W) : FileWriter where
  _file := if w.isOpen then fileOf w.kind else .none
  _is_terminal := if w.isOpen then termOf w else stale
  _output := outOf w.kind
  heap := heapOf w

def Agrees (w : W) (fw : FileWriter) : Prop := ∃ stale, fw = absW stale w

/-- a path writer that is not open has nothing unflushed (invariant: `clean_of_SInv`, `clean_*`) -/
def Clean (w : W) : Prop := w.kind = .path → w.isOpen = false → w.dirty = false

theorem clean_of_SInv (w : W) (h : SInv w) : Clean w := fun _ ho => h.closedClean ho

theorem clean_fresh (k : Kind) (t : Bool) : Clean (fresh k t) := by simp [Clean, fresh]

theorem clean_write (w : W) (b : Bytes) : Clean (w.write b) := by
  obtain ⟨kind, tty, isOpen, data, text, dirty, closed, discs, recv, sess⟩ := w
  cases kind <;> cases isOpen <;> simp [Clean, W.write, W.connect]

theorem clean_flush (w : W) (h : Clean w) : Clean w.flush := by
  obtain ⟨kind, tty, isOpen, data, text, dirty, closed, discs, recv, sess⟩ := w
  cases kind <;> cases isOpen <;> simp_all [Clean, W.flush]

theorem clean_disconnect (w : W) (h : Clean w) : Clean w.disconnect := by
  obtain ⟨kind, tty, isOpen, data, text, dirty, closed, discs, recv, sess⟩ := w
  cases kind <;> cases isOpen <;> simp_all [Clean, W.disconnect]

theorem connect_eq (w : W) (stale : Bool) (hk : w.kind ≠ .custom) (hc : Clean w) :
    FileWriter.connect (absW stale w) = absW stale w.connect := by
  obtain ⟨kind, tty, isOpen, data, text, dirty, closed, discs, recv, sess⟩ := w
  cases kind <;> cases isOpen <;> simp_all [Clean, FileWriter.connect, absW, W.connect, outOf, fileOf, heapOf, termOf,
    pyIsStr, pyHasattr, pyIsatty, pyOpen, pyPath, Heap.get]

theorem write_eq (w : W) (stale : Bool) (b : Bytes) (hk : w.kind ≠ .custom) (hc : Clean w) :
    FileWriter.write (absW stale w) b = absW stale (w.write b) := by
  obtain ⟨kind, tty, isOpen, data, text, dirty, closed, discs, recv, sess⟩ := w
  cases kind <;> cases isOpen <;> cases tty <;>
    simp_all [Clean, FileWriter.write, FileWriter.connect, absW, W.write, W.connect, outOf, fileOf, heapOf, termOf,
      pyIsStr, pyHasattr, pyIsatty, pyOpen, pyPath, Heap.get, Heap.set, pyWrite, pyFlush, pyDecode, FileObj.write, FileObj.flush, FileObj.accepts]

theorem flush_eq (w : W) (stale : Bool) (hk : w.kind ≠ .custom) :
    FileWriter.flush (absW stale w) = absW stale w.flush := by
  obtain ⟨kind, tty, isOpen, data, text, dirty, closed, discs, recv, sess⟩ := w
  cases kind <;> cases isOpen <;> simp_all [FileWriter.flush, absW, W.flush, outOf, fileOf, heapOf, termOf,
    Heap.get, Heap.set, pyFlush, FileObj.flush]

/-- `_is_terminal` after `disconnect()`: what it was -/
def staleAfter (stale : Bool) (w : W) : Bool := if w.isOpen then termOf w else stale

theorem disconnect_eq (w : W) (stale wait : Bool) (hk : w.kind ≠ .custom) :
    FileWriter.disconnect (absW stale w) wait = absW (staleAfter stale w) w.disconnect := by
  obtain ⟨kind, tty, isOpen, data, text, dirty, closed, discs, recv, sess⟩ := w
  cases kind <;> cases isOpen <;>
    simp_all [staleAfter, FileWriter.disconnect, absW, W.disconnect, outOf, fileOf, heapOf, termOf,
      Heap.get, Heap.set, pyFlush, pyClose, pyIsStr, pyGetattr, FileObj.flush, FileObj.close]

/-! ## any registered writer object -/

/-- the object a model writer stands for: a `FileWriter`, or (kind `custom`) the model value itself -/
def absObj (stale : Bool) (w : W) : Writer :=
  match w.kind with
  | .custom => .other w
  | _ => .file (absW stale w)

theorem absObj_file (stale : Bool) (w : W) (hk : w.kind ≠ .custom) : absObj stale w = .file (absW stale w) := by
  unfold absObj; split <;> simp_all

theorem obj_write (w : W) (stale : Bool) (b : Bytes) (hc : Clean w) :
    Writer.write (absObj stale w) b = absObj stale (w.write b) := by
  by_cases hk : w.kind = .custom
  · simp [absObj, hk, Writer.write, OtherWriter.write, (write_kind w b).1]
  · have h2 : (w.write b).kind ≠ .custom := by rw [(write_kind w b).1]; exact hk
    rw [absObj_file _ _ hk, absObj_file _ _ h2, Writer.write, write_eq w stale b hk hc]

theorem obj_flush (w : W) (stale : Bool) : Writer.flush (absObj stale w) = absObj stale w.flush := by
  by_cases hk : w.kind = .custom
  · have : w.flush = w := by simp [W.flush, hk]
    simp [this, absObj, hk, Writer.flush, BaseWriter.flush]
  · have h2 : w.flush.kind ≠ .custom := by rw [(flush_kind w).1]; exact hk
    rw [absObj_file _ _ hk, absObj_file _ _ h2, Writer.flush, flush_eq w stale hk]

theorem obj_disconnect (w : W) (stale wait : Bool) :
    Writer.disconnect (absObj stale w) wait = absObj (staleAfter stale w) w.disconnect := by
  by_cases hk : w.kind = .custom
  · simp [absObj, hk, Writer.disconnect, OtherWriter.disconnect, (disconnect_kind w).1]
  · have h2 : w.disconnect.kind ≠ .custom := by rw [(disconnect_kind w).1]; exact hk
    rw [absObj_file _ _ hk, absObj_file _ _ h2, Writer.disconnect, disconnect_eq w stale wait hk]

/-! ## the builder: list and loops -/

/-- `for writer in self._writers: writer.<m>(...)` over a list without duplicates: every listed object, once -/
theorem foldl_call (f : Writer → Writer) (l : List Nat) (hn : l.Nodup) (g : GCodeCore) :
    l.foldl (fun self writer => self.call writer f) g =
      { g with objs := fun j => if j ∈ l then f (g.objs j) else g.objs j } := by
  induction l generalizing g with
  | nil => simp
  | cons a l ih =>
    have hna : a ∉ l := (List.nodup_cons.mp hn).1
    rw [List.foldl_cons, ih (List.nodup_cons.mp hn).2]
    simp only [GCodeCore.call]
    congr 1
    funext j
    by_cases hj : j = a
    · subst hj; simp [hna]
    · by_cases hl : j ∈ l <;> simp [hj, hl]

/-- the `GCodeCore` (writer list and writer objects) a model state stands for -/
def absS (fmt : Str → Str) (stale : Nat → Bool) (s : St) : GCodeCore where
  _writers := s.reg
  objs := fun i => absObj (stale i) (s.ws i)
  format_line := fmt

def AgreesS (s : St) (g : GCodeCore) : Prop := ∃ stale, g = absS g.format_line stale s

theorem agreesS_of_eq {s : St} {g : GCodeCore} {fmt : Str → Str} {stale : Nat → Bool} (h : g = absS fmt stale s) :
    AgreesS s g := ⟨stale, by rw [h]; rfl⟩

theorem add_eq (fmt : Str → Str) (stale : Nat → Bool) (s : St) (i : Nat) :
    GCodeCore.add_writer (absS fmt stale s) i = absS fmt stale (step s (.add i)) := by
  by_cases h : i ∈ s.reg <;> simp [GCodeCore.add_writer, absS, step, h, pyIn, pyAppend]

theorem remove_eq (fmt : Str → Str) (stale : Nat → Bool) (s : St) (i : Nat) :
    GCodeCore.remove_writer (absS fmt stale s) i = absS fmt stale (step s (.remove i)) := by
  by_cases h : i ∈ s.reg <;> simp [GCodeCore.remove_writer, absS, step, h, pyIn, pyRemove, pyRemoveFaults]

theorem write_eq_S (fmt : Str → Str) (stale : Nat → Bool) (s : St) (stmt : Str) (hn : s.reg.Nodup)
    (hc : ∀ i ∈ s.reg, Clean (s.ws i)) :
    GCodeCore.write (absS fmt stale s) stmt =
      (absS fmt stale (step s (.write (fmt stmt))), if validLine (fmt stmt) then none else some .GscribError) := by
  by_cases hv : validLine (fmt stmt) = true
  · simp only [GCodeCore.write, absS, pyBytes, hv, if_true, step]
    rw [foldl_call _ _ hn]
    simp only [Prod.mk.injEq, and_true, GCodeCore.mk.injEq, true_and]
    funext j
    by_cases hj : j ∈ s.reg
    · simp only [hj, if_true]; exact obj_write _ _ _ (hc j hj)
    · simp only [hj, if_false]
  · simp [GCodeCore.write, absS, pyBytes, hv, step, GCodeCore.write_handler, Exc.isA, Exc.ofName]

theorem flush_eq_S (fmt : Str → Str) (stale : Nat → Bool) (s : St) (hn : s.reg.Nodup) :
    GCodeCore.flush (absS fmt stale s) = absS fmt stale (step s .flush) := by
  simp only [GCodeCore.flush, absS, step]
  rw [foldl_call _ _ hn]
  simp only [GCodeCore.mk.injEq, true_and, and_true]
  funext j
  by_cases hj : j ∈ s.reg
  · simp only [hj, if_true]; exact obj_flush _ _
  · simp only [hj, if_false]

def staleAfterS (stale : Nat → Bool) (s : St) : Nat → Bool :=
  fun i => if i ∈ s.reg then staleAfter (stale i) (s.ws i) else stale i

theorem teardown_eq_S (fmt : Str → Str) (stale : Nat → Bool) (s : St) (wait : Bool) (hn : s.reg.Nodup) :
    GCodeCore.teardown (absS fmt stale s) wait = absS fmt (staleAfterS stale s) (step s .teardown) := by
  simp only [GCodeCore.teardown, absS, step, pyClear]
  rw [foldl_call _ _ hn]
  simp only [GCodeCore.mk.injEq, true_and, and_true]
  funext j
  by_cases hj : j ∈ s.reg
  · simp only [hj, if_true, staleAfterS]; exact obj_disconnect _ _ _
  · simp only [hj, if_false, staleAfterS]

/-- the owner calls `w_i.disconnect()` directly (model `Op.disc`) -/
theorem disc_eq_S (fmt : Str → Str) (stale : Nat → Bool) (s : St) (i : Nat) (wait : Bool) :
    (absS fmt stale s).call i (fun o => Writer.disconnect o wait) =
      absS fmt (fun j => if j = i then staleAfter (stale j) (s.ws j) else stale j) (step s (.disc i)) := by
  simp only [GCodeCore.call, absS, step, GCodeCore.mk.injEq, true_and, and_true]
  funext j
  by_cases hj : j = i
  · simp only [hj, if_true]; exact obj_disconnect _ _ _
  · simp only [hj, if_false]

/-! ## whole histories -/

/-- a model operation carried out by the translated methods (`format.line` = identity: `Op.write` carries the
    formatted line; `teardown()`/`disconnect()` with their default `wait=True`) -/
def srcStep (g : GCodeCore) : Op → GCodeCore
  | .add i => g.add_writer i
  | .remove i => g.remove_writer i
  | .write l => (g.write l).1
  | .flush => g.flush
  | .teardown => g.teardown true
  | .disc i => g.call i (fun o => Writer.disconnect o true)

theorem clean_step (s : St) (op : Op) (h : ∀ i, Clean (s.ws i)) : ∀ i, Clean ((step s op).ws i) := by
  intro i
  cases op with
  | add j => simp only [step]; split <;> exact h i
  | remove j => simp only [step]; split <;> exact h i
  | write l =>
    simp only [step]; split
    · simp only; split
      · exact clean_write _ _
      · exact h i
    · exact h i
  | flush => simp only [step]; split; exact clean_flush _ (h i); exact h i
  | teardown => simp only [step]; split; exact clean_disconnect _ (h i); exact h i
  | disc j => simp only [step]; split; exact clean_disconnect _ (h i); exact h i

theorem srcStep_eq (stale : Nat → Bool) (s : St) (op : Op) (hn : s.reg.Nodup) (hc : ∀ i, Clean (s.ws i)) :
    ∃ stale', srcStep (absS id stale s) op = absS id stale' (step s op) := by
  cases op with
  | add i => exact ⟨stale, add_eq _ _ _ _⟩
  | remove i => exact ⟨stale, remove_eq _ _ _ _⟩
  | write l => exact ⟨stale, by simp only [srcStep, write_eq_S id stale s l hn (fun i _ => hc i), id]⟩
  | flush => exact ⟨stale, flush_eq_S _ _ _ hn⟩
  | teardown => exact ⟨_, teardown_eq_S _ _ _ _ hn⟩
  | disc i => exact ⟨_, disc_eq_S _ _ _ _ _⟩

theorem run_eq (ops : List Op) : ∀ (stale : Nat → Bool) (s : St), s.reg.Nodup → (∀ i, Clean (s.ws i)) →
    ∃ stale', ops.foldl srcStep (absS id stale s) = absS id stale' (run s ops) := by
  induction ops with
  | nil => intro stale s _ _; exact ⟨stale, rfl⟩
  | cons op ops ih =>
    intro stale s hn hc
    obtain ⟨st1, h1⟩ := srcStep_eq stale s op hn hc
    obtain ⟨st2, h2⟩ := ih st1 (step s op) (step_nodup s op hn) (clean_step s op hc)
    exact ⟨st2, by simp only [List.foldl_cons, h1, h2, run]⟩

end GscribModel.WritersTie
open GscribModel.WritersTie

/-! ## `FileWriter` -/

/-- `FileWriter.__init__`: the object built over a path / a file object is the model's unused writer -/
theorem WritersTie_file_init (k : Kind) (t : Bool) (hk : k ≠ .custom) :
    FileWriter.init (heapOf (fresh k t)) (outOf k) = absW false (fresh k t) := by
  cases k <;> simp_all [FileWriter.init, absW, fresh, outOf, heapOf]

/-- `FileWriter.connect`: nothing when already connected; a path is opened *truncating*, a file object is aliased and
    asked whether it is a terminal -/
theorem WritersTie_file_connect (w : W) (fw : FileWriter) (hk : w.kind ≠ .custom) (hc : Clean w) (h : Agrees w fw) :
    Agrees w.connect (FileWriter.connect fw) := by
  obtain ⟨stale, rfl⟩ := h
  exact ⟨stale, connect_eq w stale hk hc⟩

/-- `FileWriter.write`: lazy connect, bytes to a binary file / decoded text to a text stream, flushed at once only on a
    terminal -/
theorem WritersTie_file_write (w : W) (fw : FileWriter) (b : Bytes) (hk : w.kind ≠ .custom) (hc : Clean w)
    (h : Agrees w fw) : Agrees (w.write b) (FileWriter.write fw b) := by
  obtain ⟨stale, rfl⟩ := h
  exact ⟨stale, write_eq w stale b hk hc⟩

/-- `FileWriter.flush`: only a connected writer flushes -/
theorem WritersTie_file_flush (w : W) (fw : FileWriter) (hk : w.kind ≠ .custom) (h : Agrees w fw) :
    Agrees w.flush (FileWriter.flush fw) := by
  obtain ⟨stale, rfl⟩ := h
  exact ⟨stale, flush_eq w stale hk⟩

/-- `FileWriter.disconnect`: a file the writer opened is closed, a file object of the caller is flushed and left open;
    `wait` is ignored -/
theorem WritersTie_file_disconnect (w : W) (fw : FileWriter) (wait : Bool) (hk : w.kind ≠ .custom) (h : Agrees w fw) :
    Agrees w.disconnect (FileWriter.disconnect fw wait) := by
  obtain ⟨stale, rfl⟩ := h
  exact ⟨_, disconnect_eq w stale wait hk⟩

/-- in every state that stands for a model writer `_file` is `None` exactly when the model writer is not open and a file
    object otherwise (never the path str that `connect` parks there for a moment), and no fault has been recorded -/
theorem WritersTie_file_handle (w : W) (fw : FileWriter) (h : Agrees w fw) :
    fw._file ≠ .str ∧ (fw._file = .none ↔ w.isOpen = false) ∧ fw.heap.fault = false := by
  obtain ⟨stale, rfl⟩ := h
  obtain ⟨kind, tty, isOpen, data, text, dirty, closed, discs, recv, sess⟩ := w
  cases kind <;> cases isOpen <;> simp [absW, fileOf, heapOf]

/-- `BaseWriter.flush` (inherited by a writer class that does not override it) does nothing -/
theorem WritersTie_base_flush (w : W) (hk : w.kind = .custom) :
    Writer.flush (.other w) = .other w.flush := by
  simp [Writer.flush, BaseWriter.flush, W.flush, hk]

/-! ## `GCodeCore` -/

/-- `self._writers = []` in `GCodeCore.__init__`: the model's initial state -/
theorem WritersTie_init (cfg : Nat → Kind × Bool) (fmt : Str → Str) :
    GCodeCore.init (fun i => absObj false (fresh (cfg i).1 (cfg i).2)) fmt = absS fmt (fun _ => false) (St.init cfg) := rfl

/-- `add_writer`: appended unless already in the list -/
theorem WritersTie_add_writer (s : St) (g : GCodeCore) (i : Nat) (h : AgreesS s g) :
    AgreesS (step s (.add i)) (GCodeCore.add_writer g i) := by
  obtain ⟨stale, h⟩ := h
  rw [h]; exact agreesS_of_eq (add_eq _ stale _ _)

/-- `remove_writer`: removed if in the list, nothing otherwise (no `ValueError`) -/
theorem WritersTie_remove_writer (s : St) (g : GCodeCore) (i : Nat) (h : AgreesS s g) :
    AgreesS (step s (.remove i)) (GCodeCore.remove_writer g i) := by
  obtain ⟨stale, h⟩ := h
  rw [h]; exact agreesS_of_eq (remove_eq _ stale _ _)

/-- `write`: the line is encoded once, before the loop (a line that cannot be encoded reaches no writer and leaves as
    `GscribError`); then every registered writer, in list order, gets the same bytes -/
theorem WritersTie_write (s : St) (g : GCodeCore) (stmt : Str) (hn : s.reg.Nodup) (hc : ∀ i ∈ s.reg, Clean (s.ws i))
    (h : AgreesS s g) :
    AgreesS (step s (.write (g.format_line stmt))) (GCodeCore.write g stmt).1 ∧
    (GCodeCore.write g stmt).2 = if validLine (g.format_line stmt) then none else some .GscribError := by
  obtain ⟨stale, h⟩ := h
  have hf : g.format_line = (absS g.format_line stale s).format_line := rfl
  rw [h, ← hf, write_eq_S _ stale s stmt hn hc]
  exact ⟨agreesS_of_eq rfl, rfl⟩

/-- `flush`: every registered writer is flushed -/
theorem WritersTie_flush (s : St) (g : GCodeCore) (hn : s.reg.Nodup) (h : AgreesS s g) :
    AgreesS (step s .flush) (GCodeCore.flush g) := by
  obtain ⟨stale, h⟩ := h
  rw [h]; exact agreesS_of_eq (flush_eq_S _ stale _ hn)

/-- `teardown`: every registered writer is disconnected, then the list is emptied -/
theorem WritersTie_teardown (s : St) (g : GCodeCore) (wait : Bool) (hn : s.reg.Nodup) (h : AgreesS s g) :
    AgreesS (step s .teardown) (GCodeCore.teardown g wait) := by
  obtain ⟨stale, h⟩ := h
  rw [h]; exact agreesS_of_eq (teardown_eq_S _ stale _ _ hn)

/-- `__exit__` is `teardown()` -/
theorem WritersTie_exit (s : St) (g : GCodeCore) (hn : s.reg.Nodup) (h : AgreesS s g) :
    AgreesS (step s .teardown) (GCodeCore.exit g) :=
  WritersTie_teardown s g true hn h

/-- whole histories, without hypotheses: from the initial state the translated methods and the model stay in
    agreement whatever is called (the list never holds a duplicate and a closed path writer is never dirty) -/
theorem WritersTie_run (cfg : Nat → Kind × Bool) (ops : List Op) :
    AgreesS (run (St.init cfg) ops)
      (ops.foldl srcStep (GCodeCore.init (fun i => absObj false (fresh (cfg i).1 (cfg i).2)) id)) := by
  obtain ⟨stale, h⟩ := run_eq ops (fun _ => false) (St.init cfg) (by simp [St.init])
    (fun i => clean_fresh _ _)
  rw [WritersTie_init, h]
  exact agreesS_of_eq rfl

/-! ## concrete evaluations of the translated functions -/
namespace GscribModel.WritersTie

/-- the `FileWriter` at identity `i`, if it is one -/
def fileAt (g : GCodeCore) (i : Nat) : Option FileWriter :=
  match g.objs i with
  | .file w => some w
  | .other _ => none

/-- writer 0 over a path, writer 1 over a text stream that is a terminal -/
def demo : GCodeCore :=
  GCodeCore.init (fun i => .file (FileWriter.init (if i = 1 then { user := { isText := true, tty := true } } else {})
    (if i = 0 then .str else .ref .user))) id

def demoRun (ops : List Op) : GCodeCore := ops.foldl srcStep demo

end GscribModel.WritersTie

-- "é\n" reaches the path file as 3 bytes, unflushed; the terminal as 2 code points, flushed; a second add is ignored
example : (demoRun [.add 0, .add 1, .add 0, .write [0xE9, 10]])._writers = [0, 1] := by decide
example : fileAt (demoRun [.add 0, .add 1, .add 0, .write [0xE9, 10]]) 0 =
    some { _file := .ref .own, _is_terminal := false, _output := .str,
           heap := { own := { data := [0xC3, 0xA9, 10], dirty := true } } } := by decide
example : fileAt (demoRun [.add 0, .add 1, .add 0, .write [0xE9, 10]]) 1 =
    some { _file := .ref .user, _is_terminal := true, _output := .ref .user,
           heap := { user := { isText := true, tty := true, text := [0xE9, 10], dirty := false } } } := by decide
-- teardown closes the file the writer opened, flushes the caller's stream, leaves `_is_terminal` as it was
example : fileAt (demoRun [.add 0, .add 1, .write [71, 10], .teardown]) 0 =
    some { _file := .none, _is_terminal := false, _output := .str,
           heap := { own := { data := [71, 10], closed := true } } } := by decide
example : fileAt (demoRun [.add 0, .add 1, .write [71, 10], .teardown]) 1 =
    some { _file := .none, _is_terminal := true, _output := .ref .user,
           heap := { user := { isText := true, tty := true, text := [71, 10] } } } := by decide
-- writing after a disconnect reopens the path, truncating it
example : (fileAt (demoRun [.add 0, .write [71, 10], .disc 0, .write [77, 10]]) 0).map (·.heap.own.data) = some [77, 10] := by
  decide
-- a lone surrogate: nobody is written to, `GscribError` leaves
example : ((demoRun [.add 0]).write [0xD800]).2 = some .GscribError ∧
    fileAt ((demoRun [.add 0]).write [0xD800]).1 0 = fileAt demo 0 := by decide

import GscribModel.Gen.XformSrc
import GscribModel.Model.Transform
/-! # The transform model is the translated `Transform` / `CoordinateTransformer` source

`Gen/XformSrc.lean` is *generated* on every run from the source text of `gscrib/geometry/transform.py`,
`gscrib/geometry/transformer.py` and the two transform context managers of `gscrib/gcode_core.py` (`tools/gen_xform.py`): one
Lean function per method (an enter / exit pair per context manager), statement by statement, over
structures with one field per `__slots__` entry.  The theorems below prove that the hand-written model of C13 / C04
(`Model/Transform.lean`: `Xf` = `Transform`, `Tr` = `CoordinateTransformer`) *is* that translation, for every state and
every argument:

* `absX : Xf → Transform`, `absT : Tr → CoordinateTransformer` read the translated objects off a model value (the
  Python list is the model's stack reversed: `append` / `pop()` work at the end, the model at the head);
* a method that cannot raise: `C.m (abs t) args = (abs (t.m args), none)`;
* a method that can: `C.m (absT t) args = lift t (t.m args)` — the model rejects exactly when the translated method
  raises, with the same class, **and then the translated object is unchanged**; otherwise it is `absT` of the model's
  new state.

What this pins to the source: the pivot conjugation `to_pivot @ m @ from_pivot`, the left multiplication onto the
current matrix, the inverse recomputed from the new matrix, the 4×4 shape test before anything is assigned, the
name test / strip of `save_state` / `restore_state`, `delete_state` not stripping, the error classes and their order,
what `_copy_state` / `_revert_state` carry, the argument checks of `scale` / `rotate` / `reflect` / `mirror` (count and zero
test, `Axis(axis)`, zero normal, `Plane(plane)` and the `NORMALS` table) happening before anything is chained; for
`with g.current_transform()` / `with g.named_transform(name)`: the frame is `_copy_state()` taken *before* the named state is
installed, it is what `_revert_state` gets in the `finally` block, and the unnamed save stack is not used as scratch space
(`XformTie_current_transform`, `XformTie_named_transform`, `XformTie_context_restores`, tied to `Core.step`).  The
numerics of `reflect` (Householder matrix) and `rotate` (scipy's block, a parameter) are named primitives.  (That a saved state is a *copy* is enforced by the translator, which
refuses a store of a non-fresh object; see its header.) -/
open GscribModel.Transform GscribModel.XformPrelude GscribModel.Gen.XformSrc

namespace GscribModel.XformTie

/-- the `Transform` object of a model transform -/
def absX (t : Xf) : Transform := ⟨t.matrix, t.inverse, Pt.ofV3 t.pivot, t.fromPivot, t.toPivot⟩
/-- the `dict` of a model name map -/
def absD (d : Dict) : PyDict Transform := d.map fun kv => (kv.1, absX kv.2)
/-- the `list` of a model stack (head of the model = end of the list) -/
def absL (s : List Xf) : List Transform := (s.map absX).reverse
/-- the `CoordinateTransformer` object of a model transformer -/
def absT (t : Tr) : CoordinateTransformer := ⟨absD t.named, absL t.stack, absX t.cur⟩
/-- outcome of a model call that can be rejected, as the translated methods report it -/
def lift (t : Tr) (r : Except Err Tr) : CoordinateTransformer × Option Err :=
  match r with
  | .ok t' => (absT t', none)
  | .error e => (absT t, some e)

theorem absX_inj {a b : Xf} (h : absX a = absX b) : a = b := by
  obtain ⟨m, i, ⟨px, py, pz⟩, f, t⟩ := a
  obtain ⟨m', i', ⟨px', py', pz'⟩, f', t'⟩ := b
  simp only [absX, Pt.ofV3, Transform.mk.injEq, Pt.mk.injEq, Option.some.injEq] at h
  obtain ⟨rfl, rfl, ⟨rfl, rfl, rfl⟩, rfl, rfl⟩ := h
  rfl

theorem translation_eq (p : V3) : Transform._tranlation_matrix x (Pt.ofV3 p) = M4.translation p := rfl

theorem dictGet_abs (d : Dict) (k : String) : dictGet (absD d) k = (Dict.get d k).map absX := by
  induction d with
  | nil => rfl
  | cons kv d ih =>
    simp only [absD, dictGet, Dict.get, List.map_cons, List.find?_cons] at ih ⊢
    by_cases h : kv.1 = k
    · simp [h]
    · simp only [h, decide_false]
      exact ih

theorem dictSet_abs (d : Dict) (k : String) (v : Xf) : dictSet (absD d) k (absX v) = absD (Dict.set d k v) := by
  induction d with
  | nil => rfl
  | cons kv d ih =>
    obtain ⟨k', v'⟩ := kv
    simp only [absD, List.map_cons, dictSet, Dict.set] at ih ⊢
    by_cases h : k' = k
    · simp [h]
    · simp only [h, if_false, List.map_cons, List.cons.injEq, true_and]
      exact ih

theorem filter_abs (d : Dict) (k : String) : (absD d).filter (·.1 ≠ k) = absD (Dict.erase d k) := by
  simp only [absD, Dict.erase, List.filter_map]
  rfl

theorem dictPop_abs (d : Dict) (k : String) :
    dictPop (absD d) k = (Dict.get d k).map fun v => (absD (Dict.erase d k), absX v) := by
  simp only [dictPop, dictGet_abs, filter_abs]
  cases Dict.get d k <;> rfl

theorem listPop_abs (s : List Xf) :
    listPop (absL s) = match s with
      | [] => none
      | x :: rest => some (absL rest, absX x) := by
  cases s with
  | nil => rfl
  | cons x rest => simp [listPop, absL]

theorem length_abs (s : List Xf) : (absL s).length = s.length := by simp [absL]

theorem strip_empty : pyStrip "" = "" := by decide

theorem strip_len (n : String) : (decide (((pyStrip n).length : Int) > (0 : Int))) = !decide (pyStrip n = "") := by
  have h : (pyStrip n).length = 0 ↔ pyStrip n = "" := by
    rw [← String.length_toList, List.length_eq_zero_iff]
    constructor
    · intro h
      exact String.toList_inj.mp (by simpa using h)
    · intro h
      simp [h]
  by_cases h0 : pyStrip n = ""
  · simp [h0]
  · have : (pyStrip n).length ≠ 0 := fun e => h0 (h.mp e)
    simp only [h0, decide_false, Bool.not_false, decide_eq_true_eq, gt_iff_lt]
    omega

end GscribModel.XformTie
open GscribModel.XformTie

/-! ## class `Transform` -/

/-- `_set_pivot`: the stored pivot and the two translation matrices `T(−p)`, `T(p)` -/
theorem XformTie_set_pivot_transform (t : Xf) (p : V3) :
    Transform._set_pivot (absX t) (Pt.ofV3 p) = (absX (t.setPivot p), none) := rfl

/-- `_set_matrix`: a 4×4 matrix is stored and its inverse recomputed … -/
theorem XformTie_set_matrix (t : Xf) (m : M4) :
    Transform._set_matrix (absX t) (.m4 m) = (absX (t.setMatrix m), none) := rfl

/-- … anything else is a `ValueError` that leaves the object (any object) as it was -/
theorem XformTie_set_matrix_shape (x : Transform) :
    Transform._set_matrix x .other = (x, some .valueError) := rfl

/-- `_chain_matrix`: `(to_pivot @ m @ from_pivot) @ matrix`, then `_set_matrix` (inverse recomputed) -/
theorem XformTie_chain_matrix (t : Xf) (m : M4) :
    Transform._chain_matrix (absX t) (.m4 m) = (absX (t.chain m), none) := rfl

theorem XformTie_chain_matrix_shape (x : Transform) :
    Transform._chain_matrix x .other = (x, some .valueError) := rfl

/-- `Transform(np.eye(4), Point.zero())`: every slot is assigned (the result does not depend on the raw object) -/
theorem XformTie_init (raw : Transform) :
    Transform.__init__ raw (.m4 M4.eye) ptZero = (absX Xf.init, none) := rfl

/-- `apply`: the first three components of `matrix @ (x, y, z, 1)`, unknown coordinates read as 0 -/
theorem XformTie_apply (t : Xf) (p : Pt) : Transform.apply (absX t) p = Pt.ofV3 (t.apply p) := rfl

/-- `reverse`: the same with the stored inverse -/
theorem XformTie_reverse (t : Xf) (p : Pt) : Transform.reverse (absX t) p = Pt.ofV3 (t.reverse p) := rfl

/-! ## class `CoordinateTransformer` -/

/-- `CoordinateTransformer()`: empty dict, empty stack, the identity about the origin -/
theorem XformTie_transformer_init (raw : CoordinateTransformer) :
    CoordinateTransformer.__init__ raw = (absT Tr.init, none) := rfl

/-- `set_pivot` changes the current transform object in place, nothing else -/
theorem XformTie_set_pivot (t : Tr) (p : V3) :
    CoordinateTransformer.set_pivot (absT t) (Pt.ofV3 p) = (absT (t.setPivot p), none) := rfl

/-- `chain_transform(m)` of a 4×4 matrix … -/
theorem XformTie_chain_transform (t : Tr) (m : M4) :
    CoordinateTransformer.chain_transform (absT t) (.m4 m) = (absT (t.chainTransform m), none) := rfl

/-- … and of anything else: `ValueError`, transformer unchanged -/
theorem XformTie_chain_transform_shape (t : Tr) :
    CoordinateTransformer.chain_transform (absT t) .other = (absT t, some .valueError) := rfl

/-- `translate(x, y, z)` chains `np.eye(4)` with last column `x, y, z` -/
theorem XformTie_translate (t : Tr) (v : V3) :
    CoordinateTransformer.translate (absT t) v.x v.y v.z = (absT (t.translate v), none) := rfl

/-- `scale(*factors)`: count test, then zero test, then the diagonal `(s,s,s,1)` / `(a,b,1,1)` / `(a,b,c,1)` -/
theorem XformTie_scale (t : Tr) (fs : List Rat) :
    CoordinateTransformer.scale (absT t) fs = lift t (t.scale fs) := by
  match fs with
  | [] => rfl
  | [a] =>
    simp only [CoordinateTransformer.scale, Tr.scale, Tr.scaleVector, lift, List.any_cons, List.any_nil, Bool.or_false]
    by_cases h : a = 0 <;> simp [h] <;> rfl
  | [a, b] =>
    simp only [CoordinateTransformer.scale, Tr.scale, Tr.scaleVector, lift, List.any_cons, List.any_nil, Bool.or_false]
    by_cases h : (decide (a = 0) || decide (b = 0)) = true <;> simp [h] <;> rfl
  | [a, b, c] =>
    simp only [CoordinateTransformer.scale, Tr.scale, Tr.scaleVector, lift, List.any_cons, List.any_nil, Bool.or_false]
    by_cases h : (decide (a = 0) || (decide (b = 0) || decide (c = 0))) = true <;> simp [h] <;> rfl
  | a :: b :: c :: d :: rest =>
    simp only [CoordinateTransformer.scale, Tr.scale, Tr.scaleVector, lift, List.length_cons]
    simp only [decide_eq_true_eq, Bool.not_and, Bool.not_eq_true, ite_eq_left_iff]
    intro h
    exfalso
    simp at h
    omega

/-- `rotate(angle, axis)`: `Axis(axis)` (a `ValueError` for anything but `"x"`, `"y"`, `"z"`) *before* the matrix is
    built; then the 4×4 matrix with scipy's block `R` is chained like any other -/
theorem XformTie_rotate (t : Tr) (angle : Rat) (axis : String) (R : Aff) :
    CoordinateTransformer.rotate (absT t) angle axis R = lift t (t.rotate axis R) := by
  simp only [CoordinateTransformer.rotate, Axis.ofValue?, Tr.rotate, Tr.validAxis, lift]
  by_cases hx : axis = "x"
  · subst hx; rfl
  · by_cases hy : axis = "y"
    · subst hy; rfl
    · by_cases hz : axis = "z"
      · subst hz; rfl
      · simp [hx, hy, hz]

/-- `reflect(normal)`: the zero vector is a `ValueError` before anything is built; otherwise the Householder matrix of
    the normal is chained -/
theorem XformTie_reflect (t : Tr) (n : V3) :
    CoordinateTransformer.reflect (absT t) [n.x, n.y, n.z] = lift t (t.reflect n) := by
  simp only [CoordinateTransformer.reflect, Tr.reflect, lift, List.all_cons, List.all_nil, Bool.and_true]
  by_cases h : n.x = 0 ∧ n.y = 0 ∧ n.z = 0
  · simp [h]
  · have h' : (decide (n.x = 0) && (decide (n.y = 0) && decide (n.z = 0))) = false := by
      simp only [Bool.and_eq_false_imp, decide_eq_true_eq, decide_eq_false_iff_not]
      intro a b c
      exact h ⟨a, b, c⟩
    simp only [h', h, if_false]
    rfl

/-- `mirror(plane)`: `Plane(plane)` (`ValueError` for anything but `"xy"`, `"zx"`, `"yz"`), then `reflect` of that
    plane's entry of the source's `NORMALS` table -/
theorem XformTie_mirror (t : Tr) (plane : String) :
    CoordinateTransformer.mirror (absT t) plane = lift t (t.mirror plane) := by
  simp only [CoordinateTransformer.mirror, Plane.ofValue?, Tr.mirror, Tr.planeNormal]
  by_cases hxy : plane = "xy"
  · subst hxy; exact XformTie_reflect t ⟨0, 0, 1⟩
  · by_cases hzx : plane = "zx"
    · subst hzx; exact XformTie_reflect t ⟨0, 1, 0⟩
    · by_cases hyz : plane = "yz"
      · subst hyz; exact XformTie_reflect t ⟨1, 0, 0⟩
      · simp [hxy, hzx, hyz, lift]

/-- `save_state(name)`: a usable name (not `None`, not blank) stores under the stripped name, anything else pushes -/
theorem XformTie_save_state (t : Tr) (name : Option String) :
    CoordinateTransformer.save_state (absT t) name = (absT (t.saveState name), none) := by
  cases name with
  | none => simp [CoordinateTransformer.save_state, Tr.saveState, Tr.nameKey, absT, absL]
  | some n =>
    simp only [CoordinateTransformer.save_state, Tr.saveState, Tr.nameKey, strip_len]
    by_cases h : pyStrip n = ""
    · simp [h, absT, absL]
    · simp [h, absT, dictSet_abs]

/-- `restore_state(name)`: the `IndexError` guard for a falsy name on an empty stack, then by (stripped) name — `KeyError`
    if absent — or from the stack — `IndexError` if empty; a rejected call leaves the transformer as it was -/
theorem XformTie_restore_state (t : Tr) (name : Option String) :
    CoordinateTransformer.restore_state (absT t) name = lift t (t.restoreState name) := by
  have hlen : (decide (((absT t)._transforms_stack.length : Int) < (1 : Int))) = decide (t.stack = []) := by
    simp only [absT, length_abs]
    cases t.stack <;> simp <;> omega
  obtain ⟨named, stack, cur⟩ := t
  cases name with
  | none =>
    simp only [CoordinateTransformer.restore_state, hlen, Tr.restoreState, Tr.falsy, Tr.nameKey, lift]
    cases stack with
    | nil => simp
    | cons x rest => simp [absT, listPop_abs]
  | some n =>
    simp only [CoordinateTransformer.restore_state, hlen, Tr.restoreState, Tr.falsy, Tr.nameKey, lift, strip_len]
    have hne : ¬ pyStrip n = "" → ¬ n = "" := fun h e => h (e ▸ strip_empty)
    by_cases h : pyStrip n = ""
    · by_cases hn : n = ""
      · subst hn
        cases stack <;> simp [strip_empty, absT, listPop_abs]
      · cases stack <;> simp [hn, h, absT, listPop_abs]
    · cases stack <;> simp [hne h, h, absT, dictGet_abs] <;> cases Dict.get named (pyStrip n) <;> simp

/-- `delete_state(name)`: `dict.pop(name)` — the name is not stripped; `KeyError` leaves the dict as it was -/
theorem XformTie_delete_state (t : Tr) (name : String) :
    CoordinateTransformer.delete_state (absT t) name = lift t (t.deleteState name) := by
  simp only [CoordinateTransformer.delete_state, Tr.deleteState, absT, dictPop_abs, lift]
  cases Dict.get t.named name <;> rfl

/-- `_copy_state()` is (current transform, stack) … -/
theorem XformTie_copy_state (t : Tr) :
    CoordinateTransformer._copy_state (absT t) = (absX t.cur, absL t.stack) := rfl

/-- … and `_revert_state(state)` installs both, leaving the named states alone: what `Core.step` does at
    `enterCurrent` / `enterNamed` / `exit` with a `Frame` -/
theorem XformTie_copy_revert (t t' : Tr) :
    CoordinateTransformer._revert_state (absT t') (CoordinateTransformer._copy_state (absT t))
      = (absT { t' with cur := t.cur, stack := t.stack }, none) := rfl

theorem XformTie_revert_frame (t : Tr) (f : Frame) :
    CoordinateTransformer._revert_state (absT t) (absX f.cur, absL f.stack)
      = (absT { t with cur := f.cur, stack := f.stack }, none) := rfl

/-- `apply_transform` / `reverse_transform` delegate to the current transform object -/
theorem XformTie_apply_transform (t : Tr) (p : Pt) :
    CoordinateTransformer.apply_transform (absT t) p = Pt.ofV3 (t.applyTransform p) := rfl

theorem XformTie_reverse_transform (t : Tr) (p : Pt) :
    CoordinateTransformer.reverse_transform (absT t) p = Pt.ofV3 (t.reverseTransform p) := rfl

/-! ## class `GCodeCore`: the transform context managers

`with g.current_transform():` / `with g.named_transform(name):` are `@contextmanager` generators of `gcode_core.py`,
translated as an enter / exit pair over the translated `CoordinateTransformer` (`…_enter`: the statements before the
`yield`, returning the transformer and the generator's local `state`; `…_exit`: the `finally` block).  The model has them
as the steps `enterCurrent` / `enterNamed name` / `exit raised` of `Core.step`, with the locals of the generators that
are suspended at their `yield` on `Core.ctx` (innermost first). -/
namespace GscribModel.XformTie

/-- the tuple `_copy_state()` returns, for a model frame -/
def absF (f : Frame) : Transform × List Transform := (absX f.cur, absL f.stack)

/-- `r` — what a translated `…_enter` returned for the transformer of `c` — is the model's step `s` out of `c`:
    * no exception: the model pushed one frame `f` on its open blocks and nothing else of them changed; the generator's
      local `state` is that frame and the transformer handed to the body is the one of the model's new state;
    * exception `e`: the translated code raises the same class, **the model state is unchanged** (no block entered) and so is
      the translated transformer. -/
def EnterAgrees (c : Core) (s : Core × List Stmt × Option Err)
    (r : CoordinateTransformer × Except Err (Transform × List Transform)) : Prop :=
  match s.2.2 with
  | none => ∃ f, s.1.ctx = f :: c.ctx ∧ r = (absT s.1.tr, .ok (absF f))
  | some e => s.1 = c ∧ r = (absT c.tr, .error e)

/-- `leave` — a translated `…_exit` on the transformer of `c`, as a function of the generator's local `state` — is the
    model's step `s = c.step (.exit raised)`: with the innermost open block's frame it cannot raise, its result is the
    transformer of the model's new state, and the model has dropped exactly that frame. -/
def ExitAgrees (c : Core) (s : Core × List Stmt × Option Err)
    (leave : Transform × List Transform → CoordinateTransformer × Option Err) : Prop :=
  ∀ f rest, c.ctx = f :: rest → leave (absF f) = (absT s.1.tr, none) ∧ s.1.ctx = rest ∧ s.2.2 = none

theorem exit_agrees (c : Core) (raised : Bool) :
    ExitAgrees c (c.step (.exit raised)) (fun st => (CoordinateTransformer._revert_state (absT c.tr) st)) := by
  intro f rest h
  refine ⟨?_, ?_, ?_⟩ <;> simp only [Core.step, h] <;> rfl

end GscribModel.XformTie

/-- `with g.current_transform():` — entering is the model's `enterCurrent` (the frame `_copy_state()` returns is pushed,
    the transformer is untouched, nothing can raise); leaving — normally or by an exception, whatever the body did to the
    transformer — is the model's `exit` on the innermost frame. -/
theorem XformTie_current_transform (c : Core) :
    EnterAgrees c (c.step .enterCurrent) (GCodeCore.current_transform_enter (absT c.tr))
    ∧ ∀ raised, ExitAgrees c (c.step (.exit raised)) (GCodeCore.current_transform_exit (absT c.tr)) :=
  ⟨⟨⟨c.tr.cur, c.tr.stack⟩, rfl, rfl⟩, fun raised => exit_agrees c raised⟩

/-- `with g.named_transform(name):` — entering is the model's `enterNamed name`: the frame is copied **before**
    `restore_state(name)` installs (a copy of) the named state; an unknown name (`KeyError`) — or a blank one on an empty
    stack (`IndexError`) — raises out of `__enter__` with transformer and open blocks as they were.  Leaving is the model's
    `exit` on the innermost frame, as for `current_transform`. -/
theorem XformTie_named_transform (c : Core) (name : String) :
    EnterAgrees c (c.step (.enterNamed name)) (GCodeCore.named_transform_enter (absT c.tr) name)
    ∧ ∀ raised, ExitAgrees c (c.step (.exit raised)) (GCodeCore.named_transform_exit (absT c.tr) name) := by
  refine ⟨?_, fun raised => exit_agrees c raised⟩
  have h := XformTie_restore_state c.tr (some name)
  simp only [EnterAgrees, GCodeCore.named_transform_enter, Core.step, h]
  cases c.tr.restoreState (some name) with
  | error e => exact ⟨rfl, rfl⟩
  | ok t => exact ⟨⟨c.tr.cur, c.tr.stack⟩, rfl, rfl⟩

/-- **What a `with` block puts back** (`_revert_state` restores whatever `_copy_state` copied): enter either context on a
    transformer `t`; let the body do anything at all to the transformer (`body` is *any* transformer state: transforms,
    pivots, saves, restores that pop the stack empty, named states saved or deleted …); leave, normally or not.  The current
    transform and the whole unnamed stack are those of `t` on entry (for `named_transform` too: of `t` *before* the named
    state was installed); the **named states are the body's** — `_copy_state` does not copy the dict, so a name saved,
    overwritten or deleted inside the block stays so after it.  Leaving cannot raise. -/
theorem XformTie_context_restores (t body : Tr) (name : String) (st : Transform × List Transform) :
    ((GCodeCore.current_transform_enter (absT t)).2 = .ok st →
      GCodeCore.current_transform_exit (absT body) st = (absT { body with cur := t.cur, stack := t.stack }, none))
    ∧ ((GCodeCore.named_transform_enter (absT t) name).2 = .ok st →
      GCodeCore.named_transform_exit (absT body) name st = (absT { body with cur := t.cur, stack := t.stack }, none)) := by
  refine ⟨?_, ?_⟩
  · intro h
    cases h
    rfl
  · intro h
    simp only [GCodeCore.named_transform_enter, XformTie_restore_state t (some name)] at h
    cases hr : t.restoreState (some name) with
    | error e => simp [hr, lift] at h
    | ok t' =>
      simp only [hr, lift, Except.ok.injEq] at h
      subst h
      rfl

/-! ## the translated functions evaluated (kernel evaluation of the generated definitions) -/
namespace GscribModel.XformTie
/-- `CoordinateTransformer()` -/
def ct0 : CoordinateTransformer := (CoordinateTransformer.__init__ default).1
/-- `translate(1, 2, 3); set_pivot((1, 0, 0)); save_state(" k "); scale(2)` -/
def ct1 : CoordinateTransformer :=
  let a := (CoordinateTransformer.translate ct0 1 2 3).1
  let b := (CoordinateTransformer.set_pivot a ⟨some 1, some 0, some 0⟩).1
  let c := (CoordinateTransformer.save_state b (some " k ")).1
  (CoordinateTransformer.scale c [2]).1
end GscribModel.XformTie

/-- `(1, None, 1)` ↦ translate ↦ `(2, 2, 4)` ↦ scale by 2 about `(1, 0, 0)` ↦ `(3, 4, 8)` -/
example : CoordinateTransformer.apply_transform ct1 ⟨some 1, none, some 1⟩ = ⟨some 3, some 4, some 8⟩ := by decide +kernel
/-- the stored inverse undoes it -/
example : CoordinateTransformer.reverse_transform ct1 ⟨some 3, some 4, some 8⟩ = ⟨some 1, some 0, some 1⟩ := by decide +kernel
/-- the state saved as `" k "` is found as `"k "` (both strip to `"k"`) and is the one before the scaling -/
example : CoordinateTransformer.apply_transform (CoordinateTransformer.restore_state ct1 (some "k ")).1 ⟨some 1, none, some 1⟩
    = ⟨some 2, some 2, some 4⟩ := by decide +kernel
/-- … `delete_state` does not strip -/
example : (CoordinateTransformer.delete_state ct1 "k ").2 = some .keyError ∧ (CoordinateTransformer.delete_state ct1 "k").2 = none := by decide +kernel
/-- nothing on the stack: `IndexError` for `None`, `""` and a blank name alike; an unknown name is a `KeyError` -/
example : (CoordinateTransformer.restore_state ct1 none) = (ct1, some .indexError)
    ∧ (CoordinateTransformer.restore_state ct1 (some "")) = (ct1, some .indexError)
    ∧ (CoordinateTransformer.restore_state ct1 (some "  ")) = (ct1, some .indexError)
    ∧ (CoordinateTransformer.restore_state ct1 (some "zz")) = (ct1, some .keyError) := by decide +kernel
/-- `scale()` / `scale(1, 2, 3, 4)` / `scale(2, 0)` are `ValueError`s and change nothing; `scale(2, 4)` is `diag(2, 4, 1, 1)` -/
example : CoordinateTransformer.scale ct0 [] = (ct0, some .valueError)
    ∧ CoordinateTransformer.scale ct0 [1, 2, 3, 4] = (ct0, some .valueError)
    ∧ CoordinateTransformer.scale ct0 [2, 0] = (ct0, some .valueError)
    ∧ (CoordinateTransformer.scale ct0 [2, 4]).1._current_transform._matrix = M4.diag 2 4 1 1
    ∧ (CoordinateTransformer.scale ct0 [2, 4]).1._current_transform._inverse = M4.diag (1/2) (1/4) 1 1 := by decide +kernel
/-- `mirror("zx")` about the pivot `(1, 0, 0)` of `ct1` leaves x and z alone and negates y; `"XY"` is not a plane, `"w"` not
    an axis, the zero vector not a normal — and a rotation block is chained about the pivot like any other matrix -/
example : CoordinateTransformer.apply_transform (CoordinateTransformer.mirror ct1 "zx").1 ⟨some 1, none, some 1⟩ = ⟨some 3, some (-4), some 8⟩
    ∧ CoordinateTransformer.mirror ct1 "XY" = (ct1, some .valueError)
    ∧ CoordinateTransformer.rotate ct1 90 "w" Aff.id = (ct1, some .valueError)
    ∧ CoordinateTransformer.reflect ct1 [0, 0, 0] = (ct1, some .valueError)
    ∧ CoordinateTransformer.apply_transform (CoordinateTransformer.rotate ct1 90 "z" ⟨0, -1, 0, 1, 0, 0, 0, 0, 1, 0, 0, 0⟩).1 ⟨some 1, none, some 1⟩
        = ⟨some (-3), some 2, some 8⟩ := by decide +kernel
namespace GscribModel.XformTie
/-- what `__enter__` returned / raised, as comparable values -/
def okOf {α : Type} : Except Err α → Option α | .ok a => some a | .error _ => none
def errOf {α : Type} : Except Err α → Option Err | .ok _ => none | .error e => some e
/-- `with g.named_transform("k "):` on `ct1`, then in the body `translate(5, 5, 5); save_state(); restore_state()` -/
def nEnter := GCodeCore.named_transform_enter ct1 "k "
def nBody : CoordinateTransformer :=
  let b1 := (CoordinateTransformer.translate nEnter.1 5 5 5).1
  let b2 := (CoordinateTransformer.save_state b1 none).1
  (CoordinateTransformer.restore_state b2 none).1
/-- `with g.current_transform():` on `ct1`, body `scale(3); save_state()`, then a second `with g.current_transform():` with
    body `restore_state(); save_state("in")` -/
def cOuter := GCodeCore.current_transform_enter ct1
def cBody1 : CoordinateTransformer := (CoordinateTransformer.save_state (CoordinateTransformer.scale cOuter.1 [3]).1 none).1
def cInner := GCodeCore.current_transform_enter cBody1
def cBody2 : CoordinateTransformer := (CoordinateTransformer.save_state (CoordinateTransformer.restore_state cInner.1 none).1 (some "in")).1
def cLeft1 : CoordinateTransformer := (GCodeCore.current_transform_exit cBody2 (CoordinateTransformer._copy_state cBody1)).1
def cLeft0 : CoordinateTransformer := (GCodeCore.current_transform_exit cLeft1 (CoordinateTransformer._copy_state ct1)).1
end GscribModel.XformTie

/-- `with g.named_transform("k "):` on `ct1` — inside the block the state saved as `" k "` (before the scaling) is in effect;
    the body translates, pushes a state, pops it, and a second `restore_state()` finds the stack empty: `IndexError`, the block
    is left by that exception — afterwards the transformer *is* `ct1`.  An unknown name raises `KeyError` out of `__enter__`
    and leaves `ct1` as it is; a blank name on the empty stack raises `IndexError`. -/
example :
    okOf nEnter.2 = some (CoordinateTransformer._copy_state ct1)
    ∧ CoordinateTransformer.apply_transform nEnter.1 ⟨some 1, none, some 1⟩ = ⟨some 2, some 2, some 4⟩
    ∧ CoordinateTransformer.apply_transform nBody ⟨some 1, none, some 1⟩ = ⟨some 7, some 7, some 9⟩
    ∧ CoordinateTransformer.restore_state nBody none = (nBody, some .indexError)
    ∧ GCodeCore.named_transform_exit nBody "k " (CoordinateTransformer._copy_state ct1) = (ct1, none)
    ∧ (GCodeCore.named_transform_enter ct1 "zz").1 = ct1 ∧ errOf (GCodeCore.named_transform_enter ct1 "zz").2 = some .keyError
    ∧ (GCodeCore.named_transform_enter ct1 "  ").1 = ct1 ∧ errOf (GCodeCore.named_transform_enter ct1 "  ").2 = some .indexError := by
  decide +kernel
/-- `with g.current_transform():` nested in itself: each block puts back its own frame (the inner one the scaled transform
    and the one pushed state, the outer one `ct1` with its empty stack); the name saved in the inner block is still there. -/
example :
    cOuter.1 = ct1 ∧ okOf cOuter.2 = some (CoordinateTransformer._copy_state ct1)
    ∧ cInner.1 = cBody1 ∧ okOf cInner.2 = some (CoordinateTransformer._copy_state cBody1)
    ∧ cBody2._transforms_stack = [] ∧ cLeft1._transforms_stack = cBody1._transforms_stack
    ∧ cLeft1._current_transform = cBody1._current_transform
    ∧ cLeft0._current_transform = ct1._current_transform ∧ cLeft0._transforms_stack = []
    ∧ cLeft0._named_transforms.map (·.1) = ["k", "in"] ∧ cLeft0 ≠ ct1 := by decide +kernel

import GscribModel.Lemmas.Transform
/-! # C13 — transform states are saved, restored and inverted exactly

Property theorems only (helper lemmas live in `Lemmas/Transform.lean`).  The code model is
`Model/Transform.lean`: `Xf` = class `Transform` (five slots, 4×4 matrices, `_chain_matrix` =
`to_pivot @ m @ from_pivot @ matrix`), `Tr` = `CoordinateTransformer` (current object, stack, `dict` of
named objects), `Core.step` adds the `current_transform()` / `named_transform()` context managers of
`GCodeCore` (entry, normal exit, exit by an exception).  The specification (`Spec`) is what the
property text describes: immutable pairs (affine map, pivot), a stack of them, a finite map from names
to them, one saved (pair, stack) per open `with` block; a scaling/rotation/reflection composes the
current map with "`L` about the pivot" `x ↦ p + L (x − p)`.

`Core.abs` reads a code state as a specification state (mapping = first three rows of the matrix). -/
open GscribModel.Transform

/-- **Every call history refines the specification.**  From any state satisfying the representation
    invariant, running any list of `translate / scale / rotate / reflect / mirror / chain_transform(block) /
    set_pivot / save_state / restore_state / delete_state` calls and (nested) `with current_transform()` /
    `with named_transform(name)` entries and exits — exits by an exception included — yields exactly the
    specification's current mapping and pivot, stack, named states and open-block frames, and raises the
    same exception class at every call. -/
theorem C13_refines_spec (c : Core) (ops : List Op) (h : c.SInv) :
    (c.run ops).1.abs = (c.abs.run ops).1 ∧ c.errs ops = (c.abs.run ops).2 :=
  ⟨(Core.run_refines ops c h).1, (Core.run_refines ops c h).2.1⟩

/-- The same from a fresh `GCodeCore()`, stated on what a caller can observe: `apply_transform` is the
    specification's mapping, `reverse_transform` its exact inverse, the stack depths agree. -/
theorem C13_refines_spec_init (ops : List Op) (p : Pt) :
    (Core.init.run ops).1.abs = (Spec.init.run ops).1 ∧ Core.init.errs ops = (Spec.init.run ops).2 ∧
    (Core.init.run ops).1.tr.applyTransform p = (Spec.init.run ops).1.cur.A.apply p.resolve ∧
    (Core.init.run ops).1.tr.reverseTransform p = (Spec.init.run ops).1.cur.A.inv.apply p.resolve ∧
    (Core.init.run ops).1.tr.stack.length = (Spec.init.run ops).1.stack.length := by
  obtain ⟨a, e, w⟩ := Core.run_refines ops Core.init Core.init_sinv
  rw [Core.init_abs] at a e
  refine ⟨a, e, ?_, ?_, ?_⟩
  · rw [Core.apply_eq, a]
  · rw [Core.reverse_eq _ _ w, a]
  · rw [← a]; simp [Core.abs]

/-- **Last-row invariant** (and the rest of the representation invariant): after any call history every
    `Transform` object held anywhere — current, on the stack, named, saved by an open `with` block — has a
    matrix with last row `(0,0,0,1)`, an `_inverse` that is the exact inverse of its matrix, and pivot
    matrices that are the translations by ∓pivot.  (This is why an affine map is all a 4×4 matrix of this
    API ever means.) -/
theorem C13_affine_inv (ops : List Op) :
    (Core.init.run ops).1.SInv ∧ (Core.init.run ops).1.tr.cur.matrix.IsAffine :=
  ⟨(Core.run_refines ops Core.init Core.init_sinv).2.2, (Core.run_refines ops Core.init Core.init_sinv).2.2.1.1⟩

/-- the invariant is inductive from any state, not only from the initial one -/
theorem C13_affine_inv_step (c : Core) (op : Op) (h : c.SInv) : (c.step op).1.SInv :=
  (Core.step_refines c op h).2.2

/-- **Exact inverse**: for an invertible affine map, reversing a transformed point returns the point
    (and transforming a reversed point returns it too). -/
theorem C13_reverse (A : Aff) (v : V3) (hd : A.det ≠ 0) :
    A.inv.apply (A.apply v) = v ∧ A.apply (A.inv.apply v) = v :=
  ⟨Aff.inv_apply A v hd, Aff.apply_inv A v hd⟩

/-- **Everything reachable is invertible and `reverse_transform` inverts `apply_transform`**: for every call
    history whose rotation blocks are invertible (scipy's are orthogonal), from a fresh object. -/
theorem C13_reverse_reachable (ops : List Op) (hreg : ∀ op ∈ ops, op.Regular) (p : Pt) :
    let t := (Core.init.run ops).1.tr
    t.cur.matrix.toAff.det ≠ 0 ∧
    t.reverseTransform (Pt.ofV3 (t.applyTransform p)) = p.resolve ∧
    t.applyTransform (Pt.ofV3 (t.reverseTransform p)) = p.resolve := by
  obtain ⟨a, _, w⟩ := Core.run_refines ops Core.init Core.init_sinv
  have hi := Spec.run_invertible ops _ Spec.init_invertible hreg
  rw [Core.init_abs] at a
  rw [← a] at hi
  have hd : (Core.init.run ops).1.abs.cur.A.det ≠ 0 := hi.1
  refine ⟨hd, ?_, ?_⟩
  · rw [Core.reverse_eq _ _ w, Core.apply_eq, Pt.resolve_ofV3]
    exact Aff.inv_apply _ _ hd
  · rw [Core.apply_eq, Core.reverse_eq _ _ w, Pt.resolve_ofV3]
    exact Aff.apply_inv _ _ hd

/-- **Pivot conjugation fixes the pivot**: `T(p) · L · T(−p)` maps `p` to `p` for every linear `L`. -/
theorem C13_pivot_fixed (L : Aff) (p : V3) (hL : L.IsLinear) :
    (((Aff.trans p).comp L).comp (Aff.trans p.neg)).apply p = p := by
  rw [Aff.conj_linear p L hL]; exact Aff.about_fixes p L

/-- **Rotations, scalings, reflections and mirrors leave the pivot point fixed** in the code model: a point
    that the current transform sends to the pivot is still sent to the pivot after any sequence of such
    calls (accepted or rejected), and the pivot itself is unchanged. -/
theorem C13_pivot_fixed_calls (ops : List Op) : ∀ (c : Core) (q : Pt), c.SInv →
    (∀ op ∈ ops, op.aboutPivot = true) → c.tr.applyTransform q = c.tr.cur.pivot →
    (c.run ops).1.tr.applyTransform q = c.tr.cur.pivot ∧ (c.run ops).1.tr.cur.pivot = c.tr.cur.pivot := by
  induction ops with
  | nil => intro c q _ _ hq; exact ⟨hq, rfl⟩
  | cons op ops ih =>
    intro c q h ho hq
    obtain ⟨s1, s2⟩ := Core.step_pivot_fixed c op q h (ho op (by simp)) hq
    have := ih (c.step op).1 q (Core.step_refines c op h).2.2 (fun o hm => ho o (by simp [hm])) (by rw [s2]; exact s1)
    simp only [Core.run]
    rw [s2] at this
    exact this

/-- **A named state is an immutable snapshot**: restoring it — by `restore_state(name)` or by entering
    `with named_transform(name)` — installs the saved object's value, and after *any* further calls that do not
    re-save or delete that name (transforms, other saves/restores, whole `with` blocks, earlier restores of
    the same name …) restoring it again installs the very same value. -/
theorem C13_named_immutable (c : Core) (n key : String) (x : Xf) (ops : List Op)
    (hk : Tr.nameKey (some n) = some key) (hx : c.tr.named.get key = some x)
    (hno : ∀ op ∈ ops, op.touches key = false) (viaWith : Bool) :
    let restore : Op := if viaWith then .enterNamed n else .restore (some n)
    (c.step restore).1.tr.cur = x ∧ (c.step restore).2.2 = none ∧
    (((c.step restore).1.run ops).1.step restore).1.tr.cur = x ∧
    (((c.step restore).1.run ops).1.step restore).2.2 = none := by
  have key1 : ∀ d : Core, d.tr.named.get key = some x →
      ((d.step (.restore (some n))).1.tr.cur = x ∧ (d.step (.restore (some n))).2.2 = none) ∧
      ((d.step (.enterNamed n)).1.tr.cur = x ∧ (d.step (.enterNamed n)).2.2 = none) := by
    intro d hd
    have := Tr.restore_named_ok d.tr n key x hk hd
    simp [Core.step, this, Core.lift]
  cases viaWith with
  | false =>
    simp only [Bool.false_eq_true, if_false]
    have h1 := (key1 c hx).1
    have hn : (c.step (.restore (some n))).1.tr.named.get key = some x := by
      rw [Core.step_named c _ key rfl]; exact hx
    have h2 := (key1 ((c.step (.restore (some n))).1.run ops).1 (by rw [Core.run_named ops key _ hno]; exact hn)).1
    exact ⟨h1.1, h1.2, h2.1, h2.2⟩
  | true =>
    simp only [if_true]
    have h1 := (key1 c hx).2
    have hn : (c.step (.enterNamed n)).1.tr.named.get key = some x := by
      rw [Core.step_named c _ key rfl]; exact hx
    have h2 := (key1 ((c.step (.enterNamed n)).1.run ops).1 (by rw [Core.run_named ops key _ hno]; exact hn)).2
    exact ⟨h1.1, h1.2, h2.1, h2.2⟩

/-- **The context managers put back the exact transform and stack**: enter `with current_transform()` or
    `with named_transform(n)`, run any body that stays inside the block (`Core.stays`: it may open and close
    inner blocks, save, restore, pop the stack empty, fail …), leave normally or by an exception — the current
    `Transform` object, the whole stack and the enclosing blocks are those in effect on entry.  If entering
    `named_transform` raises (`KeyError`/`IndexError`), no block is entered and nothing has changed. -/
theorem C13_context_restores (c : Core) (entry : Op) (body : List Op) (raised : Bool)
    (hentry : entry = .enterCurrent ∨ ∃ n, entry = .enterNamed n) :
    ((c.step entry).2.2 = none → Core.stays (c.ctx.length + 1) (c.step entry).1 body →
      let c' := (((c.step entry).1.run body).1.step (.exit raised)).1
      c'.tr.cur = c.tr.cur ∧ c'.tr.stack = c.tr.stack ∧ c'.ctx = c.ctx) ∧
    (∀ e, (c.step entry).2.2 = some e → (c.step entry).1 = c) := by
  have hctx : (c.step entry).2.2 = none → (c.step entry).1.ctx = ⟨c.tr.cur, c.tr.stack⟩ :: c.ctx := by
    rcases hentry with e | ⟨n, e⟩
    · subst e; intro _; rfl
    · subst e
      simp only [Core.step]
      cases c.tr.restoreState (some n) with
      | ok t => intro _; rfl
      | error e => intro hh; cases hh
  refine ⟨?_, ?_⟩
  · intro hok hst
    have hb := Core.stays_base body (⟨c.tr.cur, c.tr.stack⟩ :: c.ctx) (c.step entry).1 [] (hctx hok)
      (by simpa using hst)
    generalize ((c.step entry).1.run body).1 = d at hb ⊢
    simp only [Core.step, hb]
    refine ⟨?_, ?_, ?_⟩ <;> first | rfl | trivial
  · intro e he
    rcases hentry with e' | ⟨n, e'⟩
    · subst e'; cases he
    · subst e'
      simp only [Core.step] at he ⊢
      cases hr : c.tr.restoreState (some n) with
      | ok t => rw [hr] at he; cases he
      | error e => rfl

/-- **Stack order**: `save_state()` then `restore_state()` is the identity on the transformer. -/
theorem C13_save_restore (c : Core) :
    ((c.step (.save none)).1.step (.restore none)).1 = c ∧ ((c.step (.save none)).1.step (.restore none)).2.2 = none := by
  simp [Core.step, Tr.saveState, Tr.nameKey, Tr.restoreState, Tr.falsy, Core.lift]

/-! Non-vacuity: a concrete history from a fresh object — pivot (1,2,0), rotate 90° about z (block as data),
    save as "a", scale ×2, enter `named_transform("a")`, translate inside the block, leave by an exception.
    The mapping is back to the scaled one, the named state still yields the rotation, the stack is empty,
    a final bad restore raises `IndexError`. -/
def C13_exRot : Aff := ⟨0,-1,0, 1,0,0, 0,0,1, 0,0,0⟩
def C13_exOps : List Op :=
  [.setPivot ⟨1, 2, 0⟩, .rotate "z" C13_exRot, .save (some " a "), .scale [2],
   .enterNamed "a", .translate ⟨5, 5, 5⟩, .exit true]

example : Core.init.errs (C13_exOps ++ [.restore none, .delete "b", .scale [0]])
    = [none, none, none, none, none, none, none, some .indexError, some .keyError, some .valueError] := by decide +kernel
example : (Core.init.run C13_exOps).1.tr.applyTransform ⟨some 2, some 2, some 1⟩ = ⟨1, 4, 2⟩ := by decide +kernel
example : ((Core.init.run C13_exOps).1.step (.restore (some "a"))).1.tr.applyTransform ⟨some 2, some 2, some 1⟩
    = ⟨1, 3, 1⟩ := by decide +kernel
example : (Core.init.run C13_exOps).1.tr.reverseTransform ⟨some 1, some 4, some 2⟩ = ⟨2, 2, 1⟩ := by decide +kernel
example : Core.stays 1 (Core.init.step (.enterNamed "zz")).1 [] → False := by decide +kernel
example : Core.stays 1 ((Core.init.step (.save (some "a"))).1.step (.enterNamed "a")).1
    [.save none, .enterCurrent, .restore none, .exit false, .restore none] := by decide +kernel
example : ∀ op ∈ C13_exOps, op.Regular := by decide +kernel

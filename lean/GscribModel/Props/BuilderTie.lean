import GscribModel.Gen.BuilderSrc
import GscribModel.Props.StateTie
import GscribModel.Props.Tables
/-! # The builder model's commands are the translated `GCodeBuilder` methods

`Gen/BuilderSrc.lean` is *generated* on every run from the source text of `gscrib/gcode_builder.py`
(`tools/gen_builder.py`): the 24 commands that go through a state setter and write at most one statement, each
as a function returning the builder as it was when the method returned **or raised**, with what it handed to
`GCodeCore.write`.  For every one of them, every builder state and every argument (enum arguments that are no
member included) `AgreesB` holds between the hand-written model's `step` and the translation:

* the model rejects exactly when the translated method raises, with the same class — and then the translated method
  has changed **nothing** (state object, distance mode) and written nothing: property C05 for these commands is a
  theorem about the source's own order of statements, re-proved on every run;
* otherwise the state read off the model's new value is the translated method's state, and the statement the model
  writes has the instruction the *source table* gives for the member the method looks up, and the same words.

Hypothesis: `Val.isDouble` where a magnitude is compared with `sys.float_info.max`. -/
open GscribModel.Builder GscribModel.GenPrelude GscribModel.Gen.StateSrc GscribModel.Gen.BuilderSrc GscribModel.StateTie
namespace GscribModel.BuilderTie

/-- the builder object a model value stands for (nothing written yet) -/
def absB (b : B) : BSt :=
  { state := absG b, _distance_mode := bif b.rel then .RELATIVE else .ABSOLUTE, _current_axes := b.axes, _current_params := b.params,
    _hooks := b.hooks, out := [], calls := [] }

def partCodes : Part → List String
  | .instr c m _ => [(tableLookup c m).getD "?"]
  | .gcode i _ _ => [i]
  | .ainstr c m _ _ => [(tableLookup c m).getD "?"]
  | _ => []
def partWords : Part → List (String × Rat)
  | .instr _ _ ws => ws
  | .words ws => ws
  | .tword n => [("T", (n : Rat))]
  | .gcode _ _ ws => ws
  | .ainstr _ _ _ ws => ws
  | .comment => []
def partAx : Part → Pt
  | .gcode _ ax _ => ax
  | .ainstr _ _ ax _ => ax
  | _ => {}
/-- a translated statement as (instructions of the source table, axis words, other words) -/
def conv (s : SStmt) : List String × Pt × List (String × Rat) :=
  (s.flatMap partCodes, (s.head?.map partAx).getD {}, s.flatMap partWords)
/-- a model statement, the same way -/
def view (s : Stmt) : List String × Pt × List (String × Rat) := (s.codes.map Code.text, s.ax, s.words)

def AgreesB (r : Res) (b : B) (g : BSt × Option Err) : Prop :=
  match g.2 with
  | some e => r = reject b e ∧ g.1 = absB b
  | none => r.out = .ok ∧ absB r.b = { g.1 with out := [] } ∧ r.stmts.map view = g.1.out.map conv

def argSpin : SpinArg → Arg SpinMode | .cw => .val .CLOCKWISE | .ccw => .val .COUNTER | .off => .val .OFF | .bogus => .bogus
def argPow : PowerArg → Arg PowerMode | .constant => .val .CONSTANT | .dynamic => .val .DYNAMIC | .off => .val .OFF | .bogus => .bogus
def argCool : CoolArg → Arg CoolantMode | .mist => .val .MIST | .flood => .val .FLOOD | .off => .val .OFF | .bogus => .bogus
def argSwap : SwapArg → Arg ToolSwapMode | .automatic => .val .AUTOMATIC | .manual => .val .MANUAL | .off => .val .OFF | .bogus => .bogus

/-- `write(statement)`: the halt mode goes back to `OFF` (it already is, between calls) and the statement is handed on -/
theorem write_absB (s : BSt) (st : SStmt) (h : s.state._current_halt_mode = .OFF) :
    GCodeBuilder.write s st = ({ s with out := s.out ++ [st] }, none) := by
  obtain ⟨g, d, o⟩ := s
  simp only at h
  simp [GCodeBuilder.write, GState._set_halt_mode, coreWrite]
  cases g; simp_all

end GscribModel.BuilderTie
open GscribModel.BuilderTie

/-- the source table's instructions for the members these commands look up (kernel evaluation of the generated table) -/
theorem tl :
    tableLookup "SpinMode" "CLOCKWISE" = some "M03" ∧ tableLookup "SpinMode" "COUNTER" = some "M04" ∧
    tableLookup "SpinMode" "OFF" = some "M05" ∧
    tableLookup "PowerMode" "CONSTANT" = some "M03" ∧ tableLookup "PowerMode" "DYNAMIC" = some "M04" ∧
    tableLookup "PowerMode" "OFF" = some "M05" ∧
    tableLookup "CoolantMode" "MIST" = some "M07" ∧ tableLookup "CoolantMode" "FLOOD" = some "M08" ∧
    tableLookup "CoolantMode" "OFF" = some "M09" ∧
    tableLookup "ToolSwapMode" "AUTOMATIC" = some "M06" ∧ tableLookup "ToolSwapMode" "MANUAL" = some "M06" ∧
    tableLookup "DistanceMode" "ABSOLUTE" = some "G90" ∧ tableLookup "DistanceMode" "RELATIVE" = some "G91" ∧
    tableLookup "ExtrusionMode" "ABSOLUTE" = some "M82" ∧ tableLookup "ExtrusionMode" "RELATIVE" = some "M83" ∧
    tableLookup "FeedMode" "INVERSE_TIME" = some "G93" ∧ tableLookup "FeedMode" "UNITS_PER_MINUTE" = some "G94" ∧
    tableLookup "FeedMode" "UNITS_PER_REVOLUTION" = some "G95" ∧
    tableLookup "Plane" "XY" = some "G17" ∧ tableLookup "Plane" "YZ" = some "G19" ∧ tableLookup "Plane" "ZX" = some "G18" ∧
    tableLookup "FanMode" "COOLING" = some "M106" ∧ tableLookup "FanMode" "OFF" = some "M106" ∧
    tableLookup "BedTemperature" "CELSIUS" = some "M140" ∧ tableLookup "BedTemperature" "KELVIN" = some "M140" ∧
    tableLookup "HotendTemperature" "CELSIUS" = some "M104" ∧ tableLookup "HotendTemperature" "KELVIN" = some "M104" ∧
    tableLookup "ChamberTemperature" "CELSIUS" = some "M141" ∧ tableLookup "ChamberTemperature" "KELVIN" = some "M141" ∧
    tableLookup "TimeUnits" "SECONDS" = some "G04" ∧ tableLookup "TimeUnits" "MILLISECONDS" = some "G04" ∧
    tableLookup "QueryMode" "TEMPERATURE" = some "M105" ∧ tableLookup "QueryMode" "POSITION" = some "M114" := by decide +kernel

/-- the unfolding set shared by the proofs below -/
macro "builder_simp" " [" ts:Lean.Parser.Tactic.simpLemma,* "]" : tactic =>
  `(tactic| simp [Val.fin?, step, AgreesB, accept, reject, fmtWords, getStatement, GCodeBuilder.write, GState._set_halt_mode, coreWrite,
      absB, absG, conv, view, partCodes, partWords, partAx, tl, Code.text, stepToolOff, stepPowerOff, stepCoolOff, stepSetDist, modeStmt,
      spinOf, powOf, coolOf, swapOf, tempOf, fmodeOf, planeOf, $ts,*])

theorem BuilderTie_tool_on (b : B) (m : SpinArg) (v : Val) (hd : Val.isDouble v) :
    AgreesB (step b (.toolOn m v)) b (GCodeBuilder.tool_on (absB b) (argSpin m) v) := by
  have hv := StateTie_validate_power b v hd
  cases m with
  | off => simp [GCodeBuilder.tool_on, argSpin, step, AgreesB, reject]
  | bogus => simp [GCodeBuilder.tool_on, argSpin, step, AgreesB, reject]
  | cw | ccw =>
    simp only [GCodeBuilder.tool_on, argSpin, absB, GState._set_spin_mode, GState._ensure_tool_is_inactive, GState._set_tool_power]
    by_cases ht : b.toolActive
    · builder_simp [ht]
    · have ht' : (absG b)._is_tool_active = false := by simp [absG, ht]
      simp only [ht', Bool.false_eq_true, if_false, hv]
      cases v with
      | fin q => by_cases h : b.okPower q <;> builder_simp [h, ht, SpinArg.code, SpinMode.memberName]
      | nan | pinf | ninf => builder_simp [ht]

theorem BuilderTie_tool_off (b : B) :
    AgreesB (step b .toolOff) b (GCodeBuilder.tool_off (absB b)) := by
  simp only [GCodeBuilder.tool_off, absB, StateTie_tool_off]
  builder_simp [SpinMode.memberName]

theorem BuilderTie_power_on (b : B) (m : PowerArg) (v : Val) (hd : Val.isDouble v) :
    AgreesB (step b (.powerOn m v)) b (GCodeBuilder.power_on (absB b) (argPow m) v) := by
  have hv := StateTie_validate_power b v hd
  cases m with
  | off => simp [GCodeBuilder.power_on, argPow, step, AgreesB, reject]
  | bogus => simp [GCodeBuilder.power_on, argPow, step, AgreesB, reject]
  | constant | dynamic =>
    simp only [GCodeBuilder.power_on, argPow, absB, GState._set_power_mode, GState._ensure_tool_is_inactive, GState._set_tool_power]
    by_cases ht : b.toolActive
    · builder_simp [ht]
    · have ht' : (absG b)._is_tool_active = false := by simp [absG, ht]
      simp only [ht', Bool.false_eq_true, if_false, hv]
      cases v with
      | fin q => by_cases h : b.okPower q <;> builder_simp [h, ht, PowerArg.code, PowerMode.memberName]
      | nan | pinf | ninf => builder_simp [ht]

theorem BuilderTie_power_off (b : B) :
    AgreesB (step b .powerOff) b (GCodeBuilder.power_off (absB b)) := by
  simp only [GCodeBuilder.power_off, absB, StateTie_power_off]
  builder_simp [PowerMode.memberName]

theorem BuilderTie_coolant_on (b : B) (m : CoolArg) :
    AgreesB (step b (.coolOn m)) b (GCodeBuilder.coolant_on (absB b) (argCool m)) := by
  cases m with
  | off => simp [GCodeBuilder.coolant_on, argCool, step, AgreesB, reject]
  | bogus => simp [GCodeBuilder.coolant_on, argCool, step, AgreesB, reject]
  | mist | flood =>
    simp only [GCodeBuilder.coolant_on, argCool, absB, GState._set_coolant_mode, GState._ensure_coolant_is_inactive]
    by_cases ht : b.coolActive <;> builder_simp [ht, CoolArg.code, CoolantMode.memberName]

theorem BuilderTie_coolant_off (b : B) :
    AgreesB (step b .coolOff) b (GCodeBuilder.coolant_off (absB b)) := by
  simp only [GCodeBuilder.coolant_off, absB, StateTie_coolant_off]
  builder_simp [CoolantMode.memberName]

theorem BuilderTie_feed (b : B) (v : Val) (hd : Val.isDouble v) :
    AgreesB (step b (.feed v)) b (GCodeBuilder.set_feed_rate (absB b) v) := by
  simp only [GCodeBuilder.set_feed_rate, absB, GState._set_feed_rate, StateTie_validate_feed b v hd]
  cases v with
  | fin q => by_cases h : b.okFeed q <;> builder_simp [h]
  | nan | pinf | ninf => builder_simp []

theorem BuilderTie_power (b : B) (v : Val) (hd : Val.isDouble v) :
    AgreesB (step b (.power v)) b (GCodeBuilder.set_tool_power (absB b) v) := by
  simp only [GCodeBuilder.set_tool_power, absB, GState._set_tool_power, StateTie_validate_power b v hd]
  cases v with
  | fin q => by_cases h : b.okPower q <;> builder_simp [h]
  | nan | pinf | ninf => builder_simp []

theorem BuilderTie_tool_change (b : B) (m : SwapArg) (n : Int) :
    AgreesB (step b (.toolChange m n)) b (GCodeBuilder.tool_change (absB b) (argSwap m) n) := by
  cases m with
  | off => simp [GCodeBuilder.tool_change, argSwap, step, AgreesB, reject]
  | bogus => simp [GCodeBuilder.tool_change, argSwap, step, AgreesB, reject]
  | automatic | manual =>
    simp only [GCodeBuilder.tool_change, argSwap, absB, GState._set_tool_number, GState._validate_tool_number, validateInt,
      validateNum_fin (absG b)._user_bounds .toolNumber "tool-number" (by decide),
      GState._ensure_tool_is_inactive, GState._ensure_coolant_is_inactive]
    have hb : (absG b)._user_bounds = b.bounds := rfl
    rw [hb]
    by_cases h1 : b.bounds.okNum .toolNumber n
    · by_cases h2 : n < 1
      · builder_simp [h1, h2]
      · by_cases h3 : b.toolActive
        · builder_simp [h1, h2, h3]
        · by_cases h4 : b.coolActive <;> builder_simp [h1, h2, h3, h4, ToolSwapMode.memberName]
    · builder_simp [h1]

theorem BuilderTie_bed (b : B) (v : Val) :
    AgreesB (step b (.bed v)) b (GCodeBuilder.set_bed_temperature (absB b) v) := by
  have hb : (absG b)._user_bounds = b.bounds := rfl
  cases v with
  | fin q =>
    simp only [GCodeBuilder.set_bed_temperature, absB, GState._set_target_bed_temperature,
      hb, validateNum_fin b.bounds .bed "bed-temperature" (by decide)]
    cases hk : b.kelvin <;> by_cases h : b.bounds.okNum .bed q <;>
      builder_simp [h, hk, BedTemperature.ofValue?, TemperatureUnits.value, BedTemperature.memberName]
  | nan | pinf | ninf =>
    simp only [GCodeBuilder.set_bed_temperature, absB]
    cases hk : b.kelvin <;> builder_simp [hk, BedTemperature.ofValue?, TemperatureUnits.value, BedTemperature.memberName]

theorem BuilderTie_hotend (b : B) (v : Val) :
    AgreesB (step b (.hotend v)) b (GCodeBuilder.set_hotend_temperature (absB b) v) := by
  have hb : (absG b)._user_bounds = b.bounds := rfl
  cases v with
  | fin q =>
    simp only [GCodeBuilder.set_hotend_temperature, absB, GState._set_target_hotend_temperature,
      hb, validateNum_fin b.bounds .hotend "hotend-temperature" (by decide)]
    cases hk : b.kelvin <;> by_cases h : b.bounds.okNum .hotend q <;>
      builder_simp [h, hk, HotendTemperature.ofValue?, TemperatureUnits.value, HotendTemperature.memberName]
  | nan | pinf | ninf =>
    simp only [GCodeBuilder.set_hotend_temperature, absB]
    cases hk : b.kelvin <;> builder_simp [hk, HotendTemperature.ofValue?, TemperatureUnits.value, HotendTemperature.memberName]

theorem BuilderTie_chamber (b : B) (v : Val) :
    AgreesB (step b (.chamber v)) b (GCodeBuilder.set_chamber_temperature (absB b) v) := by
  have hb : (absG b)._user_bounds = b.bounds := rfl
  cases v with
  | fin q =>
    simp only [GCodeBuilder.set_chamber_temperature, absB, GState._set_target_chamber_temperature,
      hb, validateNum_fin b.bounds .chamber "chamber-temperature" (by decide)]
    cases hk : b.kelvin <;> by_cases h : b.bounds.okNum .chamber q <;>
      builder_simp [h, hk, ChamberTemperature.ofValue?, TemperatureUnits.value, ChamberTemperature.memberName]
  | nan | pinf | ninf =>
    simp only [GCodeBuilder.set_chamber_temperature, absB]
    cases hk : b.kelvin <;> builder_simp [hk, ChamberTemperature.ofValue?, TemperatureUnits.value, ChamberTemperature.memberName]

/-- `set_distance_mode`: the core's own mode and the state's are both set, and `G90`/`G91` written -/
theorem BuilderTie_distance_mode (b : B) (r : Bool) :
    AgreesB (step b (.setDist r)) b (GCodeBuilder.set_distance_mode (absB b) (.val (bif r then .RELATIVE else .ABSOLUTE))) ∧
    AgreesB (step b .setDistBogus) b (GCodeBuilder.set_distance_mode (absB b) .bogus) := by
  constructor
  · simp only [GCodeBuilder.set_distance_mode, absB, GState._set_distance_mode]
    cases r <;> builder_simp [DistanceMode.memberName]
  · builder_simp [GCodeBuilder.set_distance_mode]

theorem BuilderTie_extrusion_mode (b : B) (r : Bool) :
    AgreesB (step b (.emode r)) b (GCodeBuilder.set_extrusion_mode (absB b) (.val (bif r then .RELATIVE else .ABSOLUTE))) := by
  simp only [GCodeBuilder.set_extrusion_mode, absB, GState._set_extrusion_mode]
  cases r <;> builder_simp [ExtrusionMode.memberName]

def argFmode (n : Nat) : Arg FeedMode := if n > 2 then .bogus else .val (fmodeOf n)
def argPlane (n : Nat) : Arg Plane := if n > 2 then .bogus else .val (planeOf n)

theorem BuilderTie_feed_mode (b : B) (n : Nat) :
    AgreesB (step b (.fmode n)) b (GCodeBuilder.set_feed_mode (absB b) (argFmode n)) := by
  simp only [GCodeBuilder.set_feed_mode, absB, GState._set_feed_mode, argFmode]
  match n with
  | 0 => builder_simp [FeedMode.memberName]
  | 1 => builder_simp [FeedMode.memberName]
  | 2 => builder_simp [FeedMode.memberName]
  | n + 3 => builder_simp []

theorem BuilderTie_plane (b : B) (n : Nat) :
    AgreesB (step b (.plane n)) b (GCodeBuilder.set_plane (absB b) (argPlane n)) := by
  simp only [GCodeBuilder.set_plane, absB, GState._set_plane, argPlane]
  match n with
  | 0 => builder_simp [Plane.memberName]
  | 1 => builder_simp [Plane.memberName]
  | 2 => builder_simp [Plane.memberName]
  | n + 3 => builder_simp []

theorem BuilderTie_plain (b : B) :
    (∀ c, AgreesB (step b (.direction c)) b (GCodeBuilder.set_direction (absB b) (.val (bif c then .COUNTER else .CLOCKWISE)))) ∧
    (∀ t, AgreesB (step b (.timeUnits t)) b (GCodeBuilder.set_time_units (absB b) (.val (bif t then .MILLISECONDS else .SECONDS)))) ∧
    (∀ k, AgreesB (step b (.tempUnits k)) b (GCodeBuilder.set_temperature_units (absB b) (.val (bif k then .KELVIN else .CELSIUS)))) ∧
    (∀ q, AgreesB (step b (.resolution q)) b (GCodeBuilder.set_resolution (absB b) (.fin q))) := by
  refine ⟨fun c => ?_, fun t => ?_, fun k => ?_, fun q => ?_⟩
  · cases c <;> builder_simp [GCodeBuilder.set_direction, GState._set_direction]
  · cases t <;> builder_simp [GCodeBuilder.set_time_units, GState._set_time_units]
  · cases k <;> builder_simp [GCodeBuilder.set_temperature_units, GState._set_temperature_units]
  · by_cases h : q ≤ 0 <;> builder_simp [GCodeBuilder.set_resolution, GState._set_resolution, Val.le, h]

/-- `sleep(v)`, `set_fan_speed(v, n)`, `query(mode)`: no state setter, one statement -/
theorem BuilderTie_sleep (b : B) (v : Val) :
    AgreesB (step b (.sleep v)) b (GCodeBuilder.sleep (absB b) v) := by
  simp only [GCodeBuilder.sleep, absB]
  cases v with
  | fin q => cases hm : b.msTime <;> by_cases h : q < 0 <;> builder_simp [h, hm, Val.lt, TimeUnits.memberName]
  | nan | pinf | ninf => cases hm : b.msTime <;> builder_simp [hm, Val.lt, TimeUnits.memberName]

theorem BuilderTie_fan (b : B) (v : Val) (n : Int) :
    AgreesB (step b (.fan v n)) b (GCodeBuilder.set_fan_speed (absB b) v n) := by
  simp only [GCodeBuilder.set_fan_speed, absB]
  by_cases hn : n < 0
  · cases v <;> builder_simp [hn]
  · cases v with
    | fin q =>
      by_cases h1 : q < 0
      · builder_simp [hn, h1, Val.lt, Val.gt]
      · by_cases h2 : 255 < q
        · builder_simp [hn, h1, h2, Val.lt, Val.gt]
        · by_cases h3 : 0 < q <;> builder_simp [hn, h1, h2, h3, Val.lt, Val.gt, FanMode.memberName]
    | nan | pinf | ninf => builder_simp [hn, Val.lt, Val.gt, FanMode.memberName]

theorem BuilderTie_query (b : B) (t : Bool) :
    AgreesB (step b (.query t)) b (GCodeBuilder.query (absB b) (.val (bif t then .TEMPERATURE else .POSITION))) := by
  simp only [GCodeBuilder.query, absB]
  cases t <;> builder_simp [QueryMode.memberName]

/-- **`_track_move_params`** (the F and S words of every move and probe): *both* are validated before *either* is
    assigned, so a move with a good F and a bad S leaves the feed rate alone. -/
theorem BuilderTie_track (b : B) (ps : List (String × Rat))
    (hF : ∀ f, lookupQ ps "F" = some f → Val.isDouble (.fin f)) (hS : ∀ s, lookupQ ps "S" = some s → Val.isDouble (.fin s)) :
    GCodeBuilder._track_move_params (absB b) ps =
      if b.okTrack ps then (absB (b.track ps), none) else (absB b, some .valueError) := by
  cases hf : lookupQ ps "F" with
  | none =>
    cases hs : lookupQ ps "S" with
    | none => simp [GCodeBuilder._track_move_params, B.okTrack, B.track, absB, hf, hs]
    | some s =>
      have h2 := StateTie_validate_power b (.fin s) (hS s hs)
      simp only [Val.fin?] at h2
      by_cases hp : b.okPower s <;>
        simp [GCodeBuilder._track_move_params, B.okTrack, B.track, absB, GState._set_tool_power, hf, hs, h2, hp] <;> rfl
  | some f =>
    have h1 := StateTie_validate_feed b (.fin f) (hF f hf)
    simp only [Val.fin?] at h1
    cases hs : lookupQ ps "S" with
    | none =>
      by_cases hp : b.okFeed f <;>
        simp [GCodeBuilder._track_move_params, B.okTrack, B.track, absB, GState._set_feed_rate, hf, hs, h1, hp] <;> rfl
    | some s =>
      have h2 := StateTie_validate_power b (.fin s) (hS s hs)
      simp only [Val.fin?] at h2
      by_cases hq : b.okFeed f
      · by_cases hp : b.okPower s
        · -- both pass: the second validation of the power sees the state after the feed rate was assigned
          have h3 := StateTie_validate_power { b with feed := f } (.fin s) (hS s hs)
          have e3 : ({ b with feed := f } : B).okPower s = b.okPower s := rfl
          simp only [Val.fin?, e3, hp, if_true] at h3
          have ea : ({ absG b with _current_feed_rate := Val.fin f } : GState) = absG { b with feed := f } := rfl
          simp [GCodeBuilder._track_move_params, B.okTrack, B.track, absB, GState._set_feed_rate, GState._set_tool_power,
            hf, hs, h1, h2, hq, hp, ea, h3]
          rfl
        · simp [GCodeBuilder._track_move_params, B.okTrack, B.track, absB, GState._set_feed_rate, GState._set_tool_power,
            hf, hs, h1, h2, hq, hp]
      · simp [GCodeBuilder._track_move_params, B.okTrack, B.track, absB, GState._set_feed_rate, GState._set_tool_power, hf, hs, h1, hq]

/-- **`_update_axes`** (behind every motion and `G92`): the axes bounds are checked by the state *before* the core's own
    position and parameters are touched, and the state then aliases the core's parameter dictionary. -/
theorem BuilderTie_update_axes (b : B) (target req : Pt) (ps : List (String × Rat)) :
    GCodeBuilder._update_axes (absB b) target (toParams req ps) =
      if b.bounds.okAxes target then (absB (b.commitAxes target req ps), none) else (absB b, some .valueError) := by
  simp only [GCodeBuilder._update_axes, absB, StateTie_set_axes, coreUpdateAxes, GState._set_params, B.commitAxes]
  by_cases h : b.bounds.okAxes target <;> simp [h, absG]

/-! Non-vacuity: a rejected `tool_on` with the spindle running, and an accepted one. -/
example : (GCodeBuilder.tool_on (absB { toolActive := true, spin := .cw }) (.val .COUNTER) (.fin 100)).2 = some .toolState := by decide +kernel
example : ((GCodeBuilder.tool_on (absB {}) (.val .CLOCKWISE) (.fin 100)).1.out.map conv) = [(["M03"], {}, [("S", 100)])] := by decide +kernel

import GscribModel.Lemmas.BuilderHooks
/-! # C20 — move hooks see the true move; extrusion matches path length

Hooks are data-described in the model (`record`, an `F` limiter, the bundled `extrusion_hook` with
`k = nozzle × layer / filament cross-section`); `h` is the value of `math.hypot(dx, dy)` for the move at
hand — an uninterpreted parameter: the accounting proved here does not depend on its laws (the harness
checks it against dx, dy).  Hook calls are an *output* of `step` (`Res.calls`).  That origin/target are the
machine's true before/after is C01 (`Agree`): origin = tracked position, target = tracked position after. -/
open GscribModel.Builder
set_option linter.unusedSimpArgs false

/-- **Hook arguments, linear move**: every registered hook is called exactly once, with
    origin = the tracked position (unknown axes read 0) and target = the position the move leads to,
    in either distance mode, whether or not the move is then accepted. -/
theorem C20_hook_calls_move (b : B) (p : VPt) (ps : VParams) (h : Rat) (req : Pt)
    (hp : p.fin? = some req) (hb : b.bounds.okAxes (b.toAbsolute req) = true) :
    (step b (.move false p ps h)).calls = b.hooks.map (fun _ => ⟨b.axes.resolve, b.toAbsolute req⟩) ∧
    ((step b (.move false p ps h)).out = .ok → (step b (.move false p ps h)).b.axes = b.toAbsolute req) := by
  have hw := toAbsolute_word b req
  simp only at hw
  simp only [step, stepMove, hp, hb, reject, accept, Bool.not_true, Bool.false_eq_true, if_false, hw]
  cases hh : b.hooks with
  | nil => (repeat' split) <;> simp_all
  | cons k ks => (repeat' split) <;> simp_all

/-- no hook call for rapids, axis resets, homing, probing or any other command -/
theorem C20_no_calls (b : B) (op : Op)
    (h : match op with | .move false .. | .moveAbs false .. => False | _ => True) : (step b op).calls = [] := by
  cases op <;> simp only at h <;>
    simp only [step, stepMove, stepMoveAbs, stepSetAxis, stepHome, stepProbe, stepHalt, stepSetDist, stepToolOff,
      stepPowerOff, stepCoolOff, reject, accept] <;>
    (repeat' split) <;> simp_all

/-- **Parameters**: what an accepted linear move writes and remembers is exactly what the last hook returned. -/
theorem C20_params (b : B) (p : VPt) (ps : VParams) (h : Rat)
    (hok : (step b (.move false p ps h)).out = .ok) :
    ∃ req ps', p.fin? = some req ∧
      (if b.hooks.isEmpty then ps else applyHooks b h ps).fin? = some ps' ∧
      (∃ ax, (step b (.move false p ps h)).stmts = [{ codes := [.G1], ax := ax, words := ps' }]) ∧
      (step b (.move false p ps h)).b.params = b.params.update (toParams req ps') ∧
      (step b (.move false p ps h)).b.feed = (lookupQ ps' "F").getD b.feed ∧
      (step b (.move false p ps h)).b.power = (lookupQ ps' "S").getD b.power ∧
      (step b (.move false p ps h)).b.erel = b.erel := by
  have key : ∃ req ps', p.fin? = some req ∧ b.bounds.okAxes (b.toAbsolute req) = true ∧
      (if (!false && !b.hooks.isEmpty) = true then applyHooks b h ps else ps).fin? = some ps' ∧ b.okTrack ps' = true := by
    simp only [step, stepMove, reject, accept] at hok
    split at hok
    · simp at hok
    · rename_i req hreq
      split at hok
      · simp at hok
      · rename_i hax
        split at hok
        · simp at hok
        · rename_i ps' hps'
          split at hok
          · simp at hok
          · rename_i htr
            exact ⟨req, ps', hreq, by simpa using hax, hps', by simpa using htr⟩
  obtain ⟨req, ps', hreq, hax, hps', htr⟩ := key
  refine ⟨req, ps', hreq, ?_, ?_⟩
  · cases hh : b.hooks <;> simp_all
  · simp only [step, stepMove, reject, accept, hreq, hax, hps', htr, Bool.not_true, Bool.false_eq_true, if_false]
    refine ⟨⟨_, rfl⟩, ?_, ?_, ?_, ?_⟩
    · simp [B.commitAxes, track_other]
    · simp [B.commitAxes]; split <;> simp_all
    · simp [B.commitAxes]; split <;> simp_all
    · simp [B.commitAxes, track_other]

/-- E word written by an accepted linear move when the bundled extrusion hook is the only hook -/
theorem C20_extrusion_word (b : B) (k : Rat) (p : VPt) (ps : VParams) (h : Rat) (hk : b.hooks = [.extrude k])
    (hok : (step b (.move false p ps h)).out = .ok) :
    ∃ ax ws, (step b (.move false p ps h)).stmts = [{ codes := [.G1], ax := ax, words := ws }] ∧
      lookupQ ws "E" = some (if b.erel then k * h else k * h + (b.params.get "E").getD 0) ∧
      (step b (.move false p ps h)).b.params.get "E" = some (if b.erel then k * h else k * h + (b.params.get "E").getD 0) ∧
      (step b (.move false p ps h)).b.erel = b.erel := by
  obtain ⟨req, ps', _, hps', ⟨ax, hst⟩, hpar, _, _, herel⟩ := C20_params b p ps h hok
  simp only [hk, List.isEmpty_cons, Bool.false_eq_true, if_false, applyHooks, List.foldl, Hook.apply] at hps'
  have hE := fin?_setV_lookup _ _ _ _ hps'
  refine ⟨ax, ps', hst, hE, ?_, ?_⟩
  · rw [hpar]
    have hall := fin?_setV_all _ _ _ _ hps'
    unfold toParams
    rw [Params.update_append, Params.get_update_other]
    · have := Params.get_update_all ps' "E" _ hall b.params
      simp only [wordsAsParams] at this
      rw [this]
      have hany : ps'.any (fun e => e.1 == "E") = true := by
        simp only [lookupQ] at hE
        cases hf : ps'.find? (fun e => e.1 == "E") with
        | none => simp [hf] at hE
        | some e => exact List.any_eq_true.mpr ⟨e, List.mem_of_find?_eq_some hf, by have := List.find?_some hf; simpa using this⟩
      simp [hany]
    · intro e he; simp at he; rcases he with rfl | rfl | rfl <;> simp
  · exact herel

/-- **Filament commanded = k × XY length** (k = nozzle × layer / filament cross-section, `h` = XY length):
    as a per-move amount in relative extrusion mode, and as an increase of the running total in absolute
    mode — provided the remembered E is the extruder position (`ESync`), which the move re-establishes. -/
theorem C20_extrusion_amount_partial (b : B) (em : EMachine) (k : Rat) (p : VPt) (ps : VParams) (h : Rat)
    (hk : b.hooks = [.extrude k]) (hs : ESync b em) (hok : (step b (.move false p ps h)).out = .ok) :
    (em.run (step b (.move false p ps h)).stmts).epos - em.epos = k * h ∧
    ESync (step b (.move false p ps h)).b (em.run (step b (.move false p ps h)).stmts) := by
  obtain ⟨ax, ws, hst, hE, hpar, herel⟩ := C20_extrusion_word b k p ps h hk hok
  obtain ⟨hr, hsync⟩ := hs
  rw [hst]
  simp only [EMachine.run, List.foldl, EMachine.exec, hE]
  cases he : b.erel
  · have hem : em.erel = false := by rw [← hr]; exact he
    have := hsync he
    simp only [he, hem, Bool.false_eq_true, if_false] at hpar ⊢
    refine ⟨by rw [← this]; grind, ?_, ?_⟩
    · rw [herel, he]
    · intro _; rw [hpar]; rfl
  · have hem : em.erel = true := by rw [← hr]; exact he
    simp only [he, hem, if_true] at hpar ⊢
    refine ⟨by grind, ?_, ?_⟩
    · rw [herel, he]
    · intro hh; rw [herel, he] at hh; exact absurd hh (by simp)

/-- `G92 E…` (set_axis) restarts the running total: the remembered E and the extruder position agree again -/
theorem C20_reset_resyncs (b : B) (em : EMachine) (e : Rat) (hr : b.erel = em.erel)
    (hok : (step b (.setAxis {} [("E", .fin e)])).out = .ok) :
    ESync (step b (.setAxis {} [("E", .fin e)])).b (em.run (step b (.setAxis {} [("E", .fin e)])).stmts) := by
  have hv : (({} : VPt).fin?) = some ({} : Pt) := by simp [VPt.fin?, optFin]
  have hp : VParams.fin? [("E", Val.fin e)] = some [("E", e)] := by simp [VParams.fin?, Val.fin?]
  simp only [step, stepSetAxis, hv, hp, reject, accept] at hok ⊢
  split at hok
  · simp at hok
  · rename_i hax
    simp only [hax, if_false, Bool.false_eq_true, EMachine.run, List.foldl, EMachine.exec, lookupQ, List.find?, beq_self_eq_true,
      Option.map_some, ESync, B.commitAxes]
    refine ⟨hr, fun _ => ?_⟩
    unfold toParams
    rw [Params.update_append, Params.get_update_other]
    · have := Params.get_update_all [("E", e)] "E" e (by simp) b.params
      simp only [wordsAsParams] at this
      rw [this]; simp
    · intro x hx; simp at hx; rcases hx with rfl | rfl | rfl <;> simp

/-! The running-total clause at full strength ("restartable with an E reset" only) is **false**: after
    relative extrusion the hook rebases on the last per-move E, so the first absolute move after an
    M83 → M82 switch (without `G92 E…`) commands too little — known finding C20-abs-after-relative. -/
def c20Hist : List Op := [.addHook (.extrude 1), .emode true,
  .move false { x := some (.fin 3), y := some (.fin 4) } [] 5, .move false { x := some (.fin 6), y := some (.fin 8) } [] 5,
  .emode false, .move false { x := some (.fin 9), y := some (.fin 12) } [] 5]

theorem C20_abs_after_relative_witness :
    (EMachine.run {} (run {} (c20Hist.take 5)).2).epos = 10 ∧ (EMachine.run {} (run {} c20Hist).2).epos = 10 := by
  decide +kernel

/-! Non-vacuity of `ESync` / `C20_extrusion_amount_partial`: absolute mode from the start, three moves. -/
example : (EMachine.run {} (run {} [.addHook (.extrude (1 / 2)), .move false { x := some (.fin 3), y := some (.fin 4) } [] 5,
    .move false { x := some (.fin 3), y := some (.fin 0) } [] 4, .setAxis {} [("E", .fin 0)],
    .move false { x := some (.fin 0), y := some (.fin 0) } [] 3]).2).epos = 3 / 2 := by decide +kernel

/-- **Hook arguments, absolute-bypass linear move**: in either distance mode the hooks see the absolute
    target (the requested coordinates over the tracked position), once per hook. -/
theorem C20_hook_calls_bypass (b : B) (p : VPt) (ps : VParams) (h : Rat)
    (hok : (step b (.moveAbs false p ps h)).out = .ok) :
    ∃ req, p.fin? = some req ∧
      (step b (.moveAbs false p ps h)).calls = b.hooks.map (fun _ => ⟨b.axes.resolve, b.axes.resolve.replace req⟩) ∧
      (step b (.moveAbs false p ps h)).b.axes = b.axes.replace req := by
  simp only [step, stepMoveAbs, reject, accept] at hok ⊢
  split at hok
  · rename_i req ps' hreq hps
    refine ⟨req, hreq, ?_⟩
    (repeat' split at hok) <;> simp_all <;> (repeat' split) <;> simp_all [B.commitAxes]
  · simp at hok

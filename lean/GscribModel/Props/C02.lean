import GscribModel.Lemmas.BuilderInterlock
/-! # C02 — interlocks: no unsafe tool/coolant/halt sequence is ever emitted

`Flags` is an independent two-flag controller reading only the emitted codes
(`Model/Machine.lean`).  "Unsafe" is judged at the moment each statement is executed, so the
emergency sequence `M05 M09 ; M00` issued with the tool running is (correctly) safe. -/
open GscribModel.Builder

/-- **One call**: whatever the builder state and the call, every statement it writes is safe for a
    controller whose flags are what the builder reports — no `M03/M04` with the tool running, no
    `M07/M08` with coolant on, no `M06` or halt/wait code with either active — and afterwards the
    builder's flags are exactly what the written codes imply. -/
theorem C02_step_safe (b : B) (op : Op) :
    b.flags.safeSeq (step b op).stmts = true ∧
    (step b op).stmts.foldl Flags.exec b.flags = (step b op).b.flags := by
  cases h : interlockOp op
  · obtain ⟨h1, h2⟩ := neutral_step b op h
    obtain ⟨a, e⟩ := neutral_seq b.flags _ h1
    exact ⟨a, by rw [e, h2]⟩
  · exact interlock_step b op h

/-- **Every history**: the whole program written by any sequence of calls from any state is safe
    statement by statement, and the reported flags always mirror the emitted codes. -/
theorem C02_run_safe (ops : List Op) : ∀ b : B,
    b.flags.safeSeq (run b ops).2 = true ∧ (run b ops).2.foldl Flags.exec b.flags = (run b ops).1.flags := by
  induction ops with
  | nil => intro b; simp [run, Flags.safeSeq]
  | cons op ops ih =>
    intro b
    obtain ⟨s1, e1⟩ := C02_step_safe b op
    obtain ⟨s2, e2⟩ := ih (step b op).b
    simp only [run, Flags.safeSeq_append, List.foldl_append, s1, e1, s2, e2, Bool.and_self, and_self]

/-- an interlock error is raised only when the corresponding flag is up -/
theorem C02_tool_state_error (b : B) (op : Op) (h : (step b op).out = .error .toolState) :
    b.toolActive = true := by
  cases op <;> simp only [step, stepMove, stepMoveAbs, stepSetAxis, stepHome, stepProbe, stepHalt,
    stepSetDist, stepToolOff, stepPowerOff, stepCoolOff, reject, accept] at h <;>
    (repeat' split at h) <;> simp_all

theorem C02_coolant_state_error (b : B) (op : Op) (h : (step b op).out = .error .coolantState) :
    b.coolActive = true := by
  cases op <;> simp only [step, stepMove, stepMoveAbs, stepSetAxis, stepHome, stepProbe, stepHalt,
    stepSetDist, stepToolOff, stepPowerOff, stepCoolOff, reject, accept] at h <;>
    (repeat' split at h) <;> simp_all

/-- **Unsafe requests raise the documented error class** (`ToolStateError` / `CoolantStateError`). -/
theorem C02_error_class (b : B) :
    (∀ m v, m = .cw ∨ m = .ccw → b.toolActive = true → (step b (.toolOn m v)).out = .error .toolState) ∧
    (∀ m v, m = .constant ∨ m = .dynamic → b.toolActive = true → (step b (.powerOn m v)).out = .error .toolState) ∧
    (∀ m, m = .mist ∨ m = .flood → b.coolActive = true → (step b (.coolOn m)).out = .error .coolantState) ∧
    (∀ m ps, m ≠ .off → m ≠ .bogus → b.toolActive = true → (step b (.halt m ps)).out = .error .toolState) ∧
    (∀ m ps, m ≠ .off → m ≠ .bogus → b.toolActive = false → b.coolActive = true →
        (step b (.halt m ps)).out = .error .coolantState) ∧
    (∀ m (n : Int), m = .automatic ∨ m = .manual → b.bounds.okNum .toolNumber (n : Rat) = true → 1 ≤ n → b.toolActive = true →
        (step b (.toolChange m n)).out = .error .toolState) ∧
    (∀ m (n : Int), m = .automatic ∨ m = .manual → b.bounds.okNum .toolNumber (n : Rat) = true → 1 ≤ n → b.toolActive = false →
        b.coolActive = true → (step b (.toolChange m n)).out = .error .coolantState) := by
  refine ⟨?_, ?_, ?_, ?_, ?_, ?_, ?_⟩
  · rintro m v (rfl | rfl) h <;> simp [step, reject, h]
  · rintro m v (rfl | rfl) h <;> simp [step, reject, h]
  · rintro m (rfl | rfl) h <;> simp [step, reject, h]
  · intro m ps h1 h2 h; simp [step, stepHalt, reject, h, h1, h2]
  · intro m ps h1 h2 ht h; simp [step, stepHalt, reject, h, h1, h2, ht]
  · rintro m n (rfl | rfl) hb hn h <;> simp [step, reject, h, hb, show ¬ n < 1 by omega]
  · rintro m n (rfl | rfl) hb hn ht h <;> simp [step, reject, h, hb, ht, show ¬ n < 1 by omega]

/-- **Conversely**, for the interlock API a call is accepted exactly when no documented condition
    applies: valid enum, the relevant flag(s) down, and the numeric argument finite, non-negative and
    inside the configured bounds. -/
theorem C02_reject_only_documented (b : B) :
    (∀ m v, (step b (.toolOn m v)).out = .ok ↔
        (m = .cw ∨ m = .ccw) ∧ b.toolActive = false ∧ ∃ q, v = .fin q ∧ b.okPower q = true) ∧
    (∀ m v, (step b (.powerOn m v)).out = .ok ↔
        (m = .constant ∨ m = .dynamic) ∧ b.toolActive = false ∧ ∃ q, v = .fin q ∧ b.okPower q = true) ∧
    (∀ m, (step b (.coolOn m)).out = .ok ↔ (m = .mist ∨ m = .flood) ∧ b.coolActive = false) ∧
    (∀ m (n : Int), (step b (.toolChange m n)).out = .ok ↔
        (m = .automatic ∨ m = .manual) ∧ b.bounds.okNum .toolNumber (n : Rat) = true ∧ 1 ≤ n ∧
        b.toolActive = false ∧ b.coolActive = false) ∧
    (step b .toolOff).out = .ok ∧ (step b .powerOff).out = .ok ∧ (step b .coolOff).out = .ok := by
  refine ⟨?_, ?_, ?_, ?_, by simp [step, stepToolOff, accept], by simp [step, stepPowerOff, accept],
    by simp [step, stepCoolOff, accept]⟩
  · intro m v
    cases m <;> cases v <;> cases ht : b.toolActive <;> simp [step, reject, accept, Val.fin?, ht] <;>
      split <;> simp_all
  · intro m v
    cases m <;> cases v <;> cases ht : b.toolActive <;> simp [step, reject, accept, Val.fin?, ht] <;>
      split <;> simp_all
  · intro m
    cases m <;> cases hc : b.coolActive <;> simp [step, reject, accept, hc]
  · intro m n
    cases m <;> cases ht : b.toolActive <;> cases hc : b.coolActive <;>
      cases hb : b.bounds.okNum .toolNumber (n : Rat) <;> simp [step, reject, accept, ht, hc, hb] <;>
      (try split) <;> simp_all <;> omega

/-! Non-vacuity: an unsafe request in a reachable state, and a safe history that emits interlock codes. -/
example : (run {} [.toolOn .cw (.fin 1000), .coolOn .mist, .move false { x := some (.fin 1) } [] 0,
                   .toolOn .ccw (.fin 5), .halt .pause [], .toolOff, .coolOff, .halt .pause []]).2.map (·.codes)
    = [[.M03], [.M07], [.G1], [.M05], [.M09], [.M00]] := by decide

/-- the same for `halt` / `pause` / `stop` / `wait`: accepted exactly when the mode is valid, tool and
    coolant are off, every parameter is finite and every temperature written is inside its range -/
theorem C02_halt_documented (b : B) (m : HaltArg) (ps : VParams) :
    (step b (.halt m ps)).out = .ok ↔
      (m ≠ .off ∧ m ≠ .bogus) ∧ b.toolActive = false ∧ b.coolActive = false ∧
      ∃ ps', ps.fin? = some ps' ∧ ∀ k, m.kind = some k → (haltTemps ps').all (b.bounds.okNum k) = true := by
  simp only [step, stepHalt, reject, accept]
  constructor
  · intro h
    (repeat' split at h) <;> simp_all
  · rintro ⟨⟨h1, h2⟩, ht, hc, ps', hps, hk⟩
    simp only [h1, h2, or_self, if_false, ht, hc, Bool.false_eq_true, hps]
    cases hkind : m.kind with
    | none => simp
    | some k =>
      have := hk k hkind
      simp only [this, Bool.not_true, Bool.false_eq_true, if_false]
      (repeat' split) <;> simp
